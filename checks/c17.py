"""C17 — Symlink resolution in image views terminates with the right answer."""
import binascii
from . import lib

META = {
    'level': 'proof',
    'technique': 'Lean 4 theorems about the tortoise/hare loop of resolveSymlink over ALL graphs and depths (termination, ok iff first non-symlink within D hops, '
                 'never a wrong node, not-found, cycle-or-depth otherwise, reported cycles are real, Stat meets the chain-walk specification, outside-root links get no node) '
                 '+ exhaustive correspondence of the model with real image views built by image.FromV1Image',
    'design_ref': 'DESIGN.md §4 (section of C17), §5 (defects), §7 (seeded changes)',
    'text': 'Kernel-checked, unbounded theorems for the model of FS.resolveSymlink/Stat/Open/ReadDir and of handleSymlink/TargetOutsideRoot. The model is tied to the Go code by '
            'building real two-layer images for every symlink graph on up to 5 named entries (file / dir / missing / deleted by the later layer / relative or absolute link to any entry) '
            'x MaxSymlinkDepth 0..6 (thorough: every graph on up to 5 names, tar hard links included) or a seeded 3 000-graph sample with longer chains, noisy link spellings and outside-root targets (quick), and '
            'comparing Stat, Open (its own result and Stat on the handle) and ReadDir of every entry in both views, each judged strictly against the sentence (no slack at the budget edge). Absolute link names in non-canonical spelling (/./a, //a, /d/; repaired by fix a23f8926) are part of the random stream and of the corpus as a strict regression case.',
    'note': 'Trusted: Lean kernel; axioms propext/Quot.sound/Classical.choice at most; the Go harness, go-containerregistry image construction and the line protocol; node identity in a view = tree key; '
            'the uuid marker of TargetOutsideRoot occurs in no path segment; path.Clean/Join modelled at segment level.',
}
P = 'Scalibr.Symlink.'
THEOREMS = [P + t for t in (
    'C17_terminates', 'C17_ok_iff', 'C17_never_wrong', 'C17_depth_independent', 'C17_notfound', 'C17_notExist_only_if',
    'C17_otherwise', 'C17_cycle_real', 'C17_spec_reads_sentence', 'C17_stat_meets_spec', 'C17_open_meets_spec',
    'C17_readdir_follows_open', 'C17_open_then_stat', 'C17_outside', 'C17_outside_iff',
    'C17_target_canonical', 'C17_stored_target', 'C17_hardlink_target', 'C17_required_link_survives', 'C17_loader_models_agree')]


def _hist(case):
    t = case.split(' ')
    return t[2] if len(t) == 4 else 'H'


def _entries(case):
    t = case.split(' ')
    if t[0] != 'sym' or len(t) not in (3, 4) or t[-1] == '-':
        return []
    out = []
    for e in t[-1].split(','):
        n, k, l = e.split(':')
        out.append((n, k, '' if l == '-' else binascii.unhexlify(l).decode('utf-8', 'replace')))
    return out


def _allowed(spec, got):
    """strict: one verdict, one class (e = cycle or depth, the property's own 'or')"""
    if spec == 'e':
        return got in ('c', 'p')
    return spec == got


def run(ctx):
    ctx.trusted = ['Lean 4.33.0 kernel', 'axioms: propext, Quot.sound, Classical.choice at most (see theorems.*.axioms)',
                   'harness/cmd/c17gen (go-containerregistry in-memory images, image.FromV1Image) + lean/Drivers/C17.lean line protocol',
                   'Lean compiler for the driver executable', 'pointer identity of *fileNode within one view = identity of the tree key',
                   'uuid marker of symlink.TargetOutsideRoot occurs in no segment of the inputs']
    ctx.assumptions = ['a view is a map from tree keys to nodes; only the FINAL path component is resolved (the code never resolves symlinked directories inside a path)',
                       'entry names are clean relative paths',
                       'the specification reads link names lexically (path.Clean), as the loader does']
    ctx.rule = ('TIERS: the exhaustive enumeration the property asks for ("every symlink graph on up to 5 named entries x every maximum depth 0..6") is the THOROUGH tier: '
                'every graph on 1..3 names with options F D M X / relative symlink / absolute symlink / tar hard link to any entry (7+100+2197 graphs, each under all six config-history modes), every such graph on 4 names (16^4 = 65 536, history mode rotating), and every graph on 5 names with options F D M X / relative link / absolute link to any entry (14^5 = 537 824, history mode rotating, the absolute link written as an absolute symlink or as a hard link by a hash of the index); each loaded 7 times (depths 0..6) and observed in both views (Stat, Open, ReadDir of every entry); plus 20 000 random graphs and the corpus; '
                'the QUICK tier is a seeded 3 000-graph sample plus the corpus and enumerates nothing exhaustively — an evidence file of tier quick does not claim the enumeration. '
                'every case also fixes how the image\'s config history is written (H one entry per layer, E valid with empty-layer entries before/between/after so that views are observed on EMPTY chain layers, N none, S short, G one entry too many, X empty entries and a missing one: the last four take initializeChainLayers\' fallback branch) and, for 1 in 12 random cases, that the image is saved to a tarball and loaded with image.FromTarball instead of FromV1Image (FromRemoteName shares that path and needs a registry); the specification does not mention the history: the answers must be the same. '
                'every observation has four parts: Stat, Open (+Stat on the handle), ReadDir on the view, and Stat on the observed chain layer\'s OWN file system (Layer().FS(): only that layer\'s entries, symlinks not followed); the root is observed as "." (its listing shows every top-level entry); ChainLayer.Index() of every chain layer is compared; at depth 6 the image is loaded with image.DefaultConfig(); one `probe` case per run holds the entry points against unusable inputs (invalid configurations, missing tarball, unreadable layer list / contents, empty image); 1 in 25 random cases is pushed to an in-process registry and loaded with image.FromRemoteName; history mode C = the image\'s ConfigFile() fails. '
                'case = one symlink graph (entries: F file, D dir, M missing, X deleted by layer 1, Z directory with a child deleted by layer 1, L symlink, Y symlink deleted by layer 1, H tar hard link — which the loader turns into a link node whose target is read from the image root) observed at depths 0..6 in both views; '
                'thorough enumerates every graph on 1..5 names with relative and absolute canonical link spellings (6+64+1000+20736+537824 graphs; 5 names use the layout a,b,c,s/d,s/e); '
                'random cases use up to 9 names in nested directories, 40% long chains, noisy/unclean/outside-root/empty link names. non-trivial = at least two symlink entries; '
                'distinct = distinct case lines. oracle = specWalk verdict of the Lean driver (the sentence read strictly, on the graph whose links point where their names DENOTE by the specification\'s own lexical resolver) vs the implementation\'s Stat class, Open\'s own class and ReadDir\'s error class')
    ok, _ = ctx.lean_build(['Scalibr.Properties.C17', 'drv_c17'])
    proofs_ok = ctx.audit(['Scalibr.Properties.C17'], THEOREMS)
    if ctx.tier == 'thorough':
        proofs_ok = ctx.leanchecker('Scalibr.Properties.C17') and proofs_ok

    def nontrivial(case, fi, fm):
        return sum(1 for _, k, _ in _entries(case) if k in 'LYH') >= 2

    def oracle(case, fi, fm):
        if '_' in fi or '_' in fm:          # loaderr / panic / bad-op: nothing for the specification to judge
            return 'the implementation panicked' if fi.get('_') == 'panic' else None
        if case == 'probe':
            # unusable inputs: invalid configurations are refused (validConfig), unreadable inputs are errors, the empty image loads
            bad = [k for k in ('cfg', 'tb', 'ly', 'un', 'empty') if fi.get(k) != fm.get(k)]
            return ('entry points on unusable inputs: %s, the specification says %s' % (
                ' '.join('%s=%s' % (k, fi.get(k)) for k in bad), ' '.join('%s=%s' % (k, fm.get(k)) for k in bad))) if bad else None
        ents = _entries(case) + [('2e', '.', '')]          # the root, observed as "."
        d = 0
        while 'd%d' % d in fi and 's%d' % d in fm:
            for v, (iv, sv) in enumerate(zip(fi['d%d' % d].split('/'), fm['s%d' % d].split('/'))):
                for (n, k, l), it, st in zip(ents, iv.split(','), sv.split(',')):
                    parts = it.split('.')
                    if len(parts) != 4:
                        return 'unparsable observation %r' % it
                    s, o, r = parts[:3]         # the 4th part (the layer's own file system) is tied to the model only
                    # Open is judged on ITS OWN result: "on" = a handle was returned for something whose Stat says
                    # not-exist; that is not "not found"
                    oc = 'handle-then-not-exist' if o == 'on' else (o[1:] if o.startswith('o') else o)
                    # ReadDir must fail with the verdict's class whenever the verdict is an error
                    rd_ok = _allowed(st, r[:1]) if st in ('n', 'e') else True
                    if not _allowed(st, s) or not _allowed(st, oc) or not rd_ok:
                        return ('entry %s, view %d, MaxSymlinkDepth %d: Stat=%s Open=%s ReadDir=%s but the sentence prescribes %s '
                                '(f/d<hex name> = that node, n = not-exist, e = cycle or depth; l… = a listing)'
                                % (binascii.unhexlify(n).decode(), v, d, s, oc, r, st))
            d += 1
        return None

    def classify(case, fi, fm):
        return 'hist=%s %s' % (_hist(case), fm.get('cls', fm.get('_', '?')))

    keys = ['_', 'ix', 'cfg', 'tb', 'ly', 'un', 'empty'] + ['d%d' % d for d in range(7)]
    if ctx.tier == 'thorough' and not ctx.replay:
        parts = 8
        for p in range(parts):
            n = 20000 if p == 0 else 0
            lib.standard_stream(ctx, gen='c17gen', driver='drv_c17',
                                gen_args=['-seed', str(ctx.seed), '-n', str(n), '-tier', 'thorough', '-part', str(p), '-of', str(parts)],
                                compare_keys=keys, nontrivial=nontrivial, oracle=oracle, classify=classify)
            if ctx.violations:
                break
    else:
        lib.standard_stream(ctx, gen='c17gen', driver='drv_c17', gen_args=['-seed', str(ctx.seed), '-n', '3000', '-tier', 'quick'],
                            compare_keys=keys, nontrivial=nontrivial, oracle=oracle, classify=classify)
    # keep the distribution readable: fold the per-shape classes of the exhaustive run
    if len(ctx.dist) > 60:
        top = dict(sorted(ctx.dist.items(), key=lambda kv: -kv[1])[:60])
        top['(other shapes)'] = sum(ctx.dist.values()) - sum(top.values())
        ctx.dist = top
    if not proofs_ok:
        lib.proof_failed(ctx, 'Scalibr.Properties.C17')
