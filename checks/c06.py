"""C06 — No filesystem side effects outside the designated directories (partial: the unpack containment logic is
proved on a file-system model and tied to unpack.UnpackSquashedFromTarball by snapshot-exact correspondence; that no
built-in plugin touches the scanned tree is a run-time observation, see the scan stream below)."""
import binascii
import collections
import os
import re

from . import lib
from .c04 import _parallel_driver

META = {
    'level': 'other',
    'technique': 'partial: Lean 4 theorem (containment of the unpacker for all tar streams without ".." in relative link targets, on a POSIX-like file-system model) '
                 '+ snapshot-exact correspondence of the model with unpack.UnpackSquashedFromTarball in a sandbox + before/after snapshots of scans',
    'design_ref': 'DESIGN.md §4 (section of C06), §5 (defects), §7 (seeded changes)',
    'text': 'Kernel-checked: for every sandbox state and every tar stream (any entry names — "..", ".", empty segments, absolute, prefix-confusable siblings, over-long — any '
            'order, files, links, directories, three passes, clean-up, early error) whose relative link targets contain no "..", the unpacker model changes nothing outside the '
            'target directory and leaves no link inside it that resolves outside (Safe invariant; physical resolution never leaves the directory). The full statement is false '
            'on the unchanged code (finding 37: TargetOutsideRoot is lexical; decide-d witnesses, also: a link and a directory created outside through the escaping link). '
            'Tie: every generated archive is unpacked by the real code into a sandbox 30 levels deep; the recursive after-snapshot of the whole sandbox must equal the model\'s '
            'final state, the before-snapshot must be the pristine layout, and Contained is evaluated on the implementation\'s snapshot. '
            'Load path: the image loader\'s temp-directory life cycle (every exit of FromV1Image leaves TMPDIR as found; CleanUp) on Model/ImageLife.lean, and its disk '
            'writes on Model/LoadDisk.lean (os.MkdirAll / os.OpenFile with physical resolution, no test before writing): for every layer sequence, entry names and '
            'order, nothing outside the extraction directory changes and no symbolic link exists below it (C06_load_disk_*; witness that a link below it WOULD be '
            'followed out). Tie: c06load, fresh sandbox per load, hostile archives, whole-sandbox snapshots. '
            'Runtime observation (not proved): scans with the built-in offline extractors leave the scanned tree, the working directory and TMPDIR unchanged.',
    'note': 'Trusted: Lean kernel; the OS model (path resolution, os.MkdirAll, os.Symlink, os.WriteFile, filepath.WalkDir) — validated by the snapshot comparison; '
            'archive/tar delivers the generated headers; NAME_MAX = 255. Not covered: what third-party libraries do to files, races, hard links as hard links '
            '(the unpacker makes them symbolic links), MaxFileBytes and requirers other than require-all in the unpacker.',
}
THEOREMS = ['Scalibr.Unpack.C06_unpack_contained_partial', 'Scalibr.Unpack.C06_resolution_stays_inside', 'Scalibr.Unpack.Contained_of_Safe',
            'Scalibr.Unpack.unpackAll_safe', 'Scalibr.Unpack.resolve_inside', 'Scalibr.Unpack.outsideUnchangedB_sound',
            'Scalibr.Unpack.linksInsideB_of_Contained', 'Scalibr.Unpack.C06_fuel_monotone', 'Scalibr.Unpack.C06_fuel_adequate_nolink',
            'Scalibr.Unpack.C06_hypothesis_only_sufficient', 'Scalibr.Unpack.C06_unpack_contained_fails', 'Scalibr.Unpack.C06_unpack_not_contained', 'Scalibr.Unpack.C06_unpack_outside_unchanged',
            'Scalibr.Unpack.C06_unpack_outside_unchanged_cfg', 'Scalibr.Unpack.C06_unpack_contained_cfg_partial', 'Scalibr.Unpack.unpackAllC_safeG',
            'Scalibr.Unpack.linkAt_safe', 'Scalibr.Unpack.C06_unpack_nonretain_reads_beside_the_link', 'Scalibr.Unpack.C06_unpack_outside_unchanged_cut']
CWD_KEY = 'C06/nonretain-link-copy-reads-working-directory'
NFI_KEY = 'C06/newfromimage-leaves-tempdir-on-error'

THEOREMS_LOAD = ['Scalibr.ImageLife.C06_load_failed_restores', 'Scalibr.ImageLife.C06_load_cleanup_restores', 'Scalibr.ImageLife.C06_load_others_untouched',
                 'Scalibr.ImageLife.loop_failed', 'Scalibr.ImageLife.loop_others',
                 'Scalibr.LoadDisk.C06_load_disk_outside_unchanged', 'Scalibr.LoadDisk.C06_load_disk_no_link_inside',
                 'Scalibr.LoadDisk.C06_load_disk_failed_gone', 'Scalibr.LoadDisk.C06_load_disk_cleanup',
                 'Scalibr.LoadDisk.C06_load_disk_link_would_escape', 'Scalibr.LoadDisk.layerName_ne_dotdot', 'Scalibr.LoadDisk.layers_safe']

KEY = 'C06/lexical-target-outside-root'
DEPTH = 30
PRISTINE = {'@/sb': 'd', '@/sb/secret': 'f0', '@/sb/target': 'd', '@/sb/target-evil': 'd'}
TARGET = ['n'] * DEPTH + ['sb', 'target']


def _unhex(h):
    return '' if h in ('-', '') else binascii.unhexlify(h).decode('latin1')


def _segs(p):
    """snapshot path -> segments from the sandbox root"""
    s = p.split('/')
    if s and s[0] == '@':
        s = ['n'] * DEPTH + s[1:]
    return s


def _parse_snap(snap):
    objs = {}
    for it in (snap.split(',') if snap not in ('-', '') else []):
        p, _, v = it.partition('=')
        p = _unhex(p)
        if v.startswith('l'):
            v = 'l' + _unhex(v[1:])
        objs[p] = v
    return objs


def _resolve(world, cur, comps, fuel=400):
    """kernel resolution on the snapshot: world maps tuple(segments) -> 'd' | 'f..' | 'l<target>'"""
    comps = list(comps)
    while comps:
        fuel -= 1
        if fuel <= 0:
            return None
        c = comps.pop(0)
        if c in ('', '.'):
            continue
        if c == '..':
            cur = cur[:-1]
            continue
        o = world.get(tuple(cur + [c]))
        if o is None:
            return None
        if o == 'd':
            cur = cur + [c]
        elif o.startswith('f'):
            if comps:
                return None
            cur = cur + [c]
        else:
            t = o[1:]
            if t.startswith('/'):
                tc = t.split('/')[1:]
                if tc and tc[0] == '@':
                    tc = ['n'] * DEPTH + tc[1:]
                cur, comps = [], tc + comps
            else:
                comps = t.split('/') + comps
    return cur


def _contained(snap):
    """the specification evaluated on a snapshot: (outside unchanged?, links inside?, text)"""
    objs = _parse_snap(snap)
    out_ok, why = True, ''
    for p, v in objs.items():
        if not (p == '@/sb/target' or p.startswith('@/sb/target/')):
            if PRISTINE.get(p) != v:
                out_ok, why = False, 'created or changed outside the target: %s=%s' % (p, v)
    for p, v in PRISTINE.items():
        if objs.get(p) != v:
            out_ok, why = False, 'removed or changed outside the target: %s' % p
    world = {tuple(['n'] * k): 'd' for k in range(DEPTH + 1)}
    for p, v in objs.items():
        world[tuple(_segs(p))] = v
    links_ok = True
    for p, v in objs.items():
        if v.startswith('l') and p.startswith('@/sb/target/'):
            sg = _segs(p)
            t = v[1:]
            if t.startswith('/'):
                tc = t.split('/')[1:]
                if tc and tc[0] == '@':
                    tc = ['n'] * DEPTH + tc[1:]
                r = _resolve(world, [], tc)
            else:
                r = _resolve(world, sg[:-1], t.split('/'))
            if r is not None and r[:len(TARGET)] != TARGET:
                links_ok = False
                why = why or 'link %s -> %s resolves to /%s, outside the target' % (p, t, '/'.join(r[DEPTH:]) if r[:DEPTH] == ['n'] * DEPTH else '/'.join(r))
    return out_ok, links_ok, why


def _judge(case, fi, fm):
    if fi.get('_') == 'panic':
        return 'UnpackSquashedFromTarball panicked', None
    if 'snap' not in fi:
        return None, None
    if fi.get('pre') != '1':
        return 'the sandbox was not pristine before unpacking (harness fault)', None
    out_ok, links_ok, why = _contained(fi['snap'])
    if fi.get('snap') == fm.get('snap') and 'contained' in fm:
        lean = (fm.get('out') == '1', fm.get('links') == '1')
        if lean != (out_ok, links_ok):
            return 'the Lean and the Python evaluation of Contained disagree on the same snapshot (%s vs %s): oracle fault' % (lean, (out_ok, links_ok)), None
    if out_ok and links_ok:
        return None, None
    if not out_ok:
        # clause 1 holds for EVERY stream since the evaluated-parent checks (C06_unpack_outside_unchanged): no class excuses it
        return 'something outside the target changed: ' + why, None
    if fm.get('h') == '0':
        return 'not contained: ' + why, KEY
    return 'not contained although no relative link target has a "..": ' + why, None


def run(ctx):
    ctx.trusted = ['Lean 4.33.0 kernel', 'axioms: propext, Quot.sound, Classical.choice at most',
                   'OS model of Model/Unpack.lean: kernel path resolution, os.Lstat/Stat/MkdirAll/WriteFile/Symlink/Remove, filepath.EvalSymlinks/WalkDir, NAME_MAX=255 — validated by snapshot equality on every case',
                   'archive/tar delivers the generated headers; path.Clean/Join as modelled in Model/GoPath.lean',
                   'harness/cmd/c06gen (sandbox 30 levels below its temp dir, recursive lstat-based snapshots) + lean/Drivers/C06.lean line protocol', 'Lean compiler for the driver executable']
    ctx.assumptions = ['the process\'s working directory is a directory four levels deep without links (relative link targets are read from it in the non-retain mode)',
                       'the directories above the target are plain directories (true in the sandbox; the model resolves absolute link targets from the target directory)',
                       'hard links are unpacked as symbolic links by the code and are modelled so',
                       'the scan half ("any built-in plugin leaves the scanned tree untouched") is observed, not proved']
    ctx.rule = ('case = tar stream of 1..6 entries; names of 1..3 segments from a,b,c,"..",".","",target,target-evil,secret,sb, a 200-byte and a 300-byte name, optionally absolute or with a '
                'trailing slash (45% of cases use plain names so that the links matter); regular files, symbolic links (relative, absolute, "/", ".", "x/..", "../x", empty), hard links, '
                'directories, fifos; 20% start with a link followed by a write through it; two fifths of the archives are unpacked with another UnpackerConfig (symlink resolution '
                'retain / non-retain, error strategy log / return, MaxPass 0..4, MaxFileBytes 0/1/2/3/default against bodies of 2-3 bytes, requirer all / none / a path set drawn from '
                'the spellings the unpacker looks entries up by), the model takes the same configuration. non-trivial = something exists below the target afterwards; distinct = distinct case lines')
    ok, _ = ctx.lean_build(['Scalibr.Properties.C06', 'Scalibr.Properties.C06Load', 'drv_c06', 'drv_c06l'])
    proofs_ok = ctx.audit(['Scalibr.Properties.C06', 'Scalibr.Properties.C06Load'], THEOREMS + THEOREMS_LOAD)
    if ctx.tier == 'thorough':
        proofs_ok = ctx.leanchecker('Scalibr.Properties.C06') and proofs_ok
        proofs_ok = ctx.leanchecker('Scalibr.Properties.C06Load') and proofs_ok
    n = {'quick': 6000, 'thorough': 120000}[ctx.tier]
    ctx.run_driver = lambda exe, cases, timeout=3600: _parallel_driver(ctx, exe, cases, timeout, procs=14)
    memo = {}

    def judge(case, fi, fm):
        if memo.get('c') is case:
            return memo['r']
        memo['c'], memo['r'] = case, _judge(case, fi, fm)
        return memo['r']

    def nontrivial(case, fi, fm):
        return '402f73622f7461726765742f' in fi.get('snap', '')          # "@/sb/target/"

    def classify(case, fi, fm):
        t = case.split(' ')
        if t[0] == 'upx':
            t = ['upc'] + t[2:]
            cut = ' cut'
        else:
            cut = ''
        cfg = 'default' if t[0] == 'up' else 'retain=%s errReturn=%s req=%s%s' % (t[1][0], t[1][2], t[2][0], cut)
        return 'cfg %s err=%s contained=%s h=%s' % (cfg, fi.get('err', fi.get('_')), fm.get('contained'), fm.get('h'))

    if ctx.replay and any(l.startswith(('load ', 'load2 ', 'load3 ')) for l in open(ctx.replay)):
        load_stream(ctx, replay=ctx.replay)          # a replay file of the load stream
        if not proofs_ok:
            lib.proof_failed(ctx, 'Scalibr.Properties.C06')
        return
    if ctx.replay and any(l.startswith('scan ') for l in open(ctx.replay)):
        scan_stream(ctx, replay=ctx.replay)          # a replay file of the scan stream
        if not proofs_ok:
            lib.proof_failed(ctx, 'Scalibr.Properties.C06')
        return
    lib.standard_stream(ctx, gen='c06gen', driver='drv_c06', gen_args=['-seed', str(ctx.seed), '-n', str(n), '-tier', ctx.tier],
                        compare_keys=['err', 'snap'], nontrivial=nontrivial, oracle=lambda c, a, b: judge(c, a, b)[0], classify=classify,
                        finding_class=lambda c, a, b: judge(c, a, b)[1], sample_every=997)
    if not ctx.replay:
        scan_stream(ctx)
        load_stream(ctx)
    if not proofs_ok:
        lib.proof_failed(ctx, 'Scalibr.Properties.C06')


SCAN_KEY = 'C06/rpm-sqlite-opened-read-write'
VARIANT = {'0': 'valid', '1': 'zero-byte', '2': 'truncated', '3': 'random bytes', '4': '8 bytes flipped', '5': 'missing',
           '6': 'valid, but reads through the virtual file system fail half-way', '7': 'first alternative valid content', '8': 'second alternative valid content',
           '9': 'a directory of that name'}
PROFILE = {'0': 'default scan options', '1': 'PathsToExtract (directories, a file, a missing path) + UseGitignore',
           '2': 'ReadSymlinks + StoreAbsolutePath + MaxFileSize 2048, a third of the files are symbolic links to copies outside the tree, a dangling link',
           '3': 'PathsToExtract + IgnoreSubDirs + DirsToSkip + SkipDirGlob + SkipDirRegex + ErrorOnFSErrors', '4': 'MaxInodes 25 + UseGitignore',
           '5': 'rpm / .NET PE / containerd extractors with a stats collector, rpm Timeout 0', '6': 'rpm / .NET PE / containerd extractors with small size limits and a stats collector'}
LEAK_KEY = 'C06/getrealpath-leaks-tempdir-on-copy-error'
REALPATH_USERS = re.compile(r'(/rpmdb\.sqlite|/Packages|/Packages\.db|\.dll|\.exe)$')


def _getrealpath_class(case, f, files):
    """class predicate of the known finding (ScanInput.GetRealPath leaves its temporary directory behind when copying the file out of a
    virtual file system fails): virtual route, some file an extractor hands to GetRealPath (rpm databases, PE files) has the
    failing-read variant, nothing but TMPDIR changed, and TMPDIR gained only scalibr-tmp<n> directories holding the partial copy
    `file`, at most one per such file"""
    t = case.split(' ')
    if t[1] not in 'vxn' or f.get('diff') != '-' or f.get('cwd') != '-' or f.get('out', '-') != '-' or len(t[3]) > len(files):
        return False
    culprits = sum(1 for k, c in enumerate(t[3]) if c == '6' and REALPATH_USERS.search('/' + files[k]))
    dirs, inner = set(), set()
    for it in _dec_items(f.get('tmp')):
        m = re.match(r'^created (scalibr-tmp\d+)(/file)? ([df]):', it)
        if not m or (m.group(2) is None) != (m.group(3) == 'd'):
            return False
        (inner if m.group(2) else dirs).add(m.group(1))
    return 1 <= len(dirs) <= culprits and inner <= dirs


def _scan_table(binary):
    """the file table and the auxiliary-file groups of c06scan"""
    rc, out = lib.sh([binary, '-tier', 'list'], timeout=120)
    files, defaults, groups = [], [], []
    for l in out.split('\n'):
        t = l.split(' ')
        if t[0] == 'file':
            files.append(t[2])
            defaults.append(t[3].split('=')[1])
        elif t[0] == 'group':
            groups.append(l[6:])
    return files, defaults, groups


def _dec_items(s):
    return [] if s in ('-', '', None) else [binascii.unhexlify(x).decode('latin1') for x in s.split(',')]


def _tree_text(case, files, defaults):
    t = case.split(' ')
    if len(t) not in (4, 5) or len(t[3]) > len(files):
        return 'tree: ' + case
    prof = t[4] if len(t) == 5 else '0'
    odd = ['%s=%s' % (files[k], VARIANT.get(c, c)) for k, c in enumerate(t[3]) if c != defaults[k]]
    return 'route=%s (%s); tree = every production file valid, -wal/-shm/-journal absent, except: %s' % (
        t[1], {'r': 'real directory root', 'v': 'virtual FS', 'w': 'real directory root, Windows capabilities', 'x': 'virtual FS, Windows capabilities',
               'm': 'real directory root, macOS capabilities', 'n': 'virtual FS, macOS capabilities'}.get(t[1], t[1]),
        '; '.join(odd) or '(nothing: the pristine tree)') + ('' if prof == '0' else '; scan options: ' + PROFILE.get(prof, prof))


INPLACE_KEY = 'C06/rpm-sqlite-under-another-name-opened-in-place'


def _rpm_inplace_class(case, f, files):
    """class predicate of the known finding (an rpm database in SQLite format that is not CALLED rpmdb.sqlite is opened read-write where
    it lies): real-directory route, the tree's <dir>/Packages has one of the SQLite-format contents (variants 7, 8), a -journal file lies
    beside it, and every difference is on exactly these two paths (database rolled back / rewritten, journal removed or emptied);
    TMPDIR, the working directory and the files behind links are untouched"""
    t = case.split(' ')
    if t[1] not in 'rwm' or f.get('tmp') != '-' or f.get('cwd') != '-' or f.get('out', '-') != '-' or len(t[3]) > len(files):
        return False
    var = dict((files[k], c) for k, c in enumerate(t[3]))
    items = _dec_items(f.get('diff'))
    if not items:
        return False
    for it in items:
        m = re.match(r'^(changed|removed) (.*)/Packages(-journal)? ?', it)
        if not m or (m.group(1) == 'removed' and not m.group(3)):
            return False
        d = m.group(2)
        if var.get(d + '/Packages') not in ('7', '8') or var.get(d + '/Packages-journal', '5') == '5':
            return False
    return True


def scan_stream(ctx, replay=None):
    """runtime observation: scans leave the scanned tree, the working directory and TMPDIR as they were"""
    binary = ctx.go_build('c06scan')
    if binary is None:
        ctx.violation('harness c06scan does not build against /repo: %s' % getattr(ctx, 'go_log', '')[-1500:], ['# c06scan'], found_input=False, name='build-c06scan')
        return
    env = {'VERIF_REPO': lib.ALT_REPO} if lib.ALT_REPO else None
    files, defaults, groups = _scan_table(binary)
    rows = []
    if replay:
        r, ok = ctx.run_gen(binary, ['-replay', replay], timeout=3000, env=env)
        rows += r
    else:
        corp = []
        d = lib.VERIF + '/corpus/C06'
        for fn in sorted(os.listdir(d)):
            if fn.endswith('.scan'):
                corp += [l.rstrip('\n') for l in open(os.path.join(d, fn)) if l.strip() and not l.startswith('#')]
        if corp:
            tmp = os.environ.get('TMPDIR', '/var/tmp') + '/.corpus-C06-scan.txt'
            open(tmp, 'w').write('\n'.join(corp) + '\n')
            r, ok = ctx.run_gen(binary, ['-replay', tmp], timeout=3000, env=env)
            os.remove(tmp)
            rows += r
        n = {'quick': 30, 'thorough': 400}[ctx.tier]
        r, ok = ctx.run_gen(binary, ['-seed', str(ctx.seed), '-n', str(n)], timeout=3000, env=env)
        rows += r
        if not ok:
            ctx.violation('c06scan crashed: ' + '; '.join(ctx.notes[-1:]), ['# see notes'], found_input=False, name='gencrash-c06scan')
    scans, panics, reported, leaks = 0, {}, 0, 0
    for case, reply in rows:
        f = lib.fields(reply)
        scans += 1
        changed = f.get('diff') != '-' or f.get('tmp') != '-' or f.get('cwd') != '-' or f.get('out', '-') != '-'
        tk = case.split(' ')
        ctx.add_case(case, int(f.get('pkgs', '0') or 0) > 0, 'scan route=%s options=%s %s%s' % (tk[1] if len(tk) > 1 else '?', tk[4] if len(tk) > 4 else '0',
                                                                                            f.get('status', reply), ' CHANGED' if changed else ''))
        if 'diff' not in f:
            ctx.violation('c06scan could not run a case (harness / file-table skew): %s' % reply, [case + '\t' + reply], found_input=False, name='scan-skew')
            continue
        if f.get('status') == 'panic':
            msg = ''.join(_dec_items(f.get('panic')))
            panics.setdefault(msg, _tree_text(case, files, defaults))
        if not changed:
            continue
        what = 'tree: %s | TMPDIR: %s | cwd: %s | files outside the tree that links of the tree point to: %s' % (
            '; '.join(_dec_items(f['diff'])) or '-', '; '.join(_dec_items(f['tmp'])) or '-', '; '.join(_dec_items(f['cwd'])) or '-', '; '.join(_dec_items(f.get('out'))) or '-')
        text = 'a scan changed the file system (%s). %s' % (what, _tree_text(case, files, defaults))
        if reported < 3:
            reported += 1
            ctx.violation(text, ['# ' + _tree_text(case, files, defaults), '# ' + what, case + '\t' + reply])
    ctx.extra['scan_observation'] = ('%d scans with every offline filesystem extractor, half through a real directory root (DirectFS) and half through a virtual FS '
                                     '(ScanRoot.Path empty): the pristine tree, every auxiliary-file combination of the groups below, and random variant trees; files 0644 / '
                                     'directories 0755 owned by the scanning user; before/after snapshots of tree, fresh TMPDIR and fresh cwd compare the path set and per '
                                     'path type, mode, size, mtime, link target, SHA-256 (directory mtimes left out: create-then-remove does not count)' % scans)
    ctx.extra['scan_auxiliary_groups'] = groups
    ctx.extra['scan_auxiliary_sources'] = [
        'containers/containerd: bolt.Open of <root>/var/lib/containerd/io.containerd.snapshotter.v1.overlayfs/metadata.db; os.Stat/ReadFile of .../io.containerd.grpc.v1.cri/containers/<id>/status; paths under .../overlayfs/snapshots/<n>/{fs,work} are only composed',
        'os/rpm: rpmdb.Open(GetRealPath) = go-rpmdb: sqlite3 via database/sql (read-write: SQLite itself opens <db>-wal, <db>-shm, <db>-journal), ndb Packages.db, Berkeley DB Packages; etc/os-release through input.FS',
        'language/dotnet/dotnetpe: GetRealPath (virtual route: copy below TMPDIR, removed afterwards)',
        'language/golang/gomod: go.sum beside go.mod (input.FS); language/python/requirements: files named by -r/-c (input.FS); misc/chrome/extensions: _locales/<locale>/message.json (input.FS)',
        'os/{dpkg,apk,rpm,pacman,portage,snap,flatpak,nix,cos}, os/kernel/{module,vmlinuz}: etc/os-release, usr/lib/os-release (input.FS)']
    if panics:
        ctx.notes.append('scans that panicked inside Scan (recovered by the harness; a C02 matter, no file-system change attributed): ' + ' || '.join('%s: %s' % kv for kv in panics.items()))


KIND = {'c': 'a regular file followed by an entry beneath it', 't': 'archive cut inside an entry body', 'h': 'archive cut inside a header',
        'l': 'symlink with an empty link name', 'n': 'a name longer than NAME_MAX', 'd': 'file at a path that is already a directory (skipped)',
        'b': 'file of exactly MaxFileBytes (fail-open)', 'o': 'symlink pointing outside the root (fail-open)', 'u': 'unsupported entry type (skipped)',
        'v': 'invalid config (fails before any directory exists)', '-': 'nothing wrong',
        'e': 'Uncompressed() of the layer returns an error', 'p': 'os.Mkdir of the first layer directory fails (TMPDIR at the edge of PATH_MAX)',
        'm': 'os.MkdirTemp fails (TMPDIR does not exist)', 'y': 'v1.Image.Layers() returns an error',
        'k': 'a regular file followed by a directory entry beneath it', 'w': 'whiteouts, opaque marker, directory entry after its contents, names "/", ".", "a/." (nothing wrong)',
        'g': 'ConfigFile() of the image returns an error (no history; nothing wrong)',
        'z': 'every entry point misused first (missing / bogus / truncated tarball, zero configurations, "" and nil arguments, DefaultConfig); then a normal load'}
# which exit of FromV1Image a kind takes (Model/ImageLife.lean: Run / LayerRun fields)
EXIT = {'v': 'pre', 'y': 'pre', 'm': 'mktemp', 'p': 'mkdir', 'e': 'opened', 'c': 'filled', 't': 'filled', 'h': 'filled', 'l': 'filled', 'n': 'filled', 'k': 'filled'}


def _model_only_runs():
    """every exit of the loader model, also the two no input reaches (root, haveLayer), each with 0..2 directories already in TMPDIR:
    `run <pre><mktemp><root> <layers newest first: empty mkdir haveLayer opened filled> <decoys>` with the outcome the property asks for"""
    ok, out = '01111', []
    for decoys in (0, 1, 2):
        for flags, layers, err in (('011', ok, 1), ('101', ok, 1), ('110', ok, 1), ('111', '-', 0), ('111', ok, 0), ('111', '11111', 0), ('111', '10000', 0)):
            out.append(('run %s %s %d' % (flags, layers, decoys), err, decoys))
        for nbefore in (0, 1, 2):
            for nafter in (0, 1):
                for field in range(1, 5):                      # mkdir haveLayer opened filled
                    bad = ''.join('0' if i == field else c for i, c in enumerate(ok))
                    ls = [ok] * nbefore + ['10000'] * (nbefore % 2) + [bad] + [ok] * nafter
                    out.append(('run 111 %s %d' % (','.join(ls), decoys), 1, decoys))
                out.append(('run 111 %s %d' % (','.join([ok] * (nbefore + nafter + 1)), decoys), 0, decoys))
    return out


def load_stream(ctx, replay=None):
    """the temp-dir life cycle of image.FromV1Image / CleanUp (load path of C06) and its containment under hostile archives:
    correspondence with Model/ImageLife.lean and, as the oracle, the property's sentence itself on the implementation's reply"""
    binary = ctx.go_build('c06load')
    if binary is None:
        ctx.violation('harness c06load does not build against /repo: %s' % getattr(ctx, 'go_log', '')[-1500:], ['# c06load'], found_input=False, name='build-c06load')
        return
    args = ['-replay', replay] if replay else ['-seed', str(ctx.seed), '-n', str({'quick': 700, 'thorough': 12000}[ctx.tier])]
    rows, ok = ctx.run_gen(binary, args, timeout=3000)
    if not ok:
        ctx.violation('c06load crashed: ' + '; '.join(ctx.notes[-1:]), ['# see notes'], found_input=False, name='gencrash-c06load')
    model = ctx.run_driver('drv_c06l', [c for c, _ in rows]) if rows else []
    reported, mism = 0, 0
    stats = collections.Counter()
    for (case, reply), mod in zip(rows, model):
        f, m = lib.fields(reply), lib.fields(mod)
        t = case.split(' ')
        if t[0] == 'load':
            t = ['load2', 'L' * int(t[1]), t[2], t[3], t[4], '0', '0']
        hist, fail, kind, pos, decoys, seed = t[1], t[2], t[3], t[4], t[5], t[6]
        req, entry = (t[7], t[8]) if len(t) == 9 else ('A', 'v')
        hostile = seed != '0'
        ctx.add_case(case, fail != '-' or kind != '-' or hostile, 'load kind=%s hostile=%d err=%s' % (kind, hostile, f.get('err', reply)))
        stats['loads'] += 1
        stats['loads with hostile entries in every archive'] += hostile
        stats['loads with directories already in TMPDIR'] += decoys != '0'
        stats['loads with empty-layer history entries'] += 'E' in hist
        stats['loads with an invalid history (fallback: one chain layer per archive)'] += 'X' in hist
        stats['loads with requirer ' + {'A': 'all', 'N': 'none', 'P': 'path set'}.get(req, req)] += 1
        stats['loads through image.' + ('FromTarball' if entry == 't' and kind not in 'eyg' else 'FromV1Image')] += 1
        if f.get('nfi', '-') != '-':
            stats['artifact/image.NewFromImage of the same image: ' + ('error returned' if f.get('nfi') == '1' else 'ok (directory removed by the harness: no clean-up API)')] += 1
        if f.get('uerr', '-') != '-':
            stats['UnpackSquashed of the same image: ' + ('error returned' if f.get('uerr') == '1' else 'ok')] += 1
        if f.get('err') == '1':
            stats['failed loads, exit ' + EXIT.get(kind, '?')] += 1
        what = None
        if f.get('_') == 'panic':
            what = 'FromV1Image / CleanUp panicked'
        elif f.get('err') == '1' and f.get('left') != decoys:
            what = 'a FAILED load left TMPDIR with %s entries instead of the %s it had (%s)' % (f.get('left'), decoys, ','.join(_dec_items(f.get('names'))))
        elif f.get('err') == '0' and (f.get('img') != '1' or f.get('left') != str(int(decoys) + 1)):
            what = 'after a successful load TMPDIR holds %s entries (it had %s) and the image directory %s' % (
                f.get('left'), decoys, 'exists' if f.get('img') == '1' else 'is not below TMPDIR')
        elif f.get('clean') != decoys:
            what = 'after CleanUp TMPDIR holds %s entries instead of the %s it had (%s)' % (f.get('clean'), decoys, ','.join(_dec_items(f.get('names'))))
        elif f.get('out') != '-':
            what = 'the load changed something outside the image directory: ' + _unhex(f.get('out'))
        elif f.get('esc', '-') != '-':
            what = 'the image directory holds an object that leads out of it: ' + _unhex(f.get('esc'))
        elif f.get('err') == '0' and f.get('acc') != '1':
            what = 'ChainLayers() does not list one chain layer per history entry (per archive when the history is invalid or missing), or Size() is negative'
        elif f.get('misuse', '0') != '0':
            what = ('a misused entry point (missing / bogus tarball, zero UnpackerConfig, empty directory, nil image, truncated tarball) did not fail, or '
                    'changed the sandbox (code %s: units = calls that returned no error, 100 / 1000 = something changed)' % f.get('misuse'))
        elif f.get('uout', '-') != '-':
            what = 'UnpackSquashed of the image changed something outside its target directory (TMPDIR included): ' + _unhex(f.get('uout'))
        elif f.get('uesc', '-') != '-':
            utext = 'UnpackSquashed of the image left a link inside its target that leads out of it: ' + _unhex(f.get('uesc'))
            if f.get('udots') == '1' and ctx.known_finding(KEY, utext + ' (some relative link target of the image has a "..")'):
                stats['UnpackSquashed: known finding ' + KEY] += 1
            else:
                what = utext
        if what is None and f.get('nfi') == '1' and f.get('nfileft', '0') != '0':
            ntext = ('artifact/image.NewFromImage failed on the image and left %s scalibr-container-* director%s in TMPDIR (the caller is never told the name)'
                     % (f.get('nfileft'), 'y' if f.get('nfileft') == '1' else 'ies'))
            what = ntext
        desc = 'chain layers %s (L archive, E empty-layer entry, X archive marked empty), requirer %s, entry point image.%s, %s director%s already in TMPDIR; layer %s: %s, after %s good entries; %s' % (
            hist, req, 'FromTarball' if entry == 't' else 'FromV1Image', decoys, 'y' if decoys == '1' else 'ies', fail, KIND.get(kind, kind), pos,
            'hostile entries (names with .., absolute paths into the sandbox, links out and writes through them; seed %s) in every archive' % seed
            if hostile else 'benign entries otherwise')
        if what:
            if f.get('out', '-') != '-' and 'changed something outside' not in what:
                what += ' [sandbox changes: %s]' % _unhex(f.get('out'))
            if reported < 3:
                reported += 1
                ctx.violation('image load: %s. %s' % (what, desc), ['# ' + desc, case + '\t' + reply + '\t' + mod])
            continue
        if any(f.get(k) != m.get(k) for k in ('err', 'left', 'img', 'clean')) or m.get('others') != '1':
            mism += 1
            ctx.mismatches.append(case)
            if mism == 1:
                ctx.violation('correspondence c06load/drv_c06l no longer checks (%s): implementation %s, model %s' % (desc, reply, mod),
                              [case + '\t' + reply + '\t' + mod], found_input=False, name='corr-c06load')
    # the exits no input reaches (addRootDirectoryToChainLayers fails, v1LayerIndex < 0), and all the others once more, on the model alone
    if not replay:
        runs = _model_only_runs()
        for (case, err, decoys), mod in zip(runs, ctx.run_driver('drv_c06l', [c for c, _, _ in runs])):
            m = lib.fields(mod)
            stats['model-only runs (every exit of Model/ImageLife.lean)'] += 1
            want = {'err': str(err), 'left': str(decoys + (1 - err)), 'img': str(1 - err), 'clean': str(decoys), 'others': '1'}
            if any(m.get(k) != v for k, v in want.items()):
                ctx.violation('drv_c06l contradicts C06_load_failed_restores / C06_load_cleanup_restores / C06_load_others_untouched on %s: %s' % (case, mod),
                              [case + '\t-\t' + mod], found_input=False, name='model-c06load')
    ctx.extra['load_judged'] = dict(sorted(stats.items()))
    ctx.extra['load_observation'] = ('%d image loads, each in a fresh sandbox {TMPDIR, working directory, sibling of TMPDIR, victim directory} snapshotted recursively '
                                     '(type, mode, size, mtime, content hash, link target) before the load, after it (minus the image directory) and after CleanUp: '
                                     'every combination of 1..4 layers x failing layer x {file-then-child, cut body, cut header, empty link name, over-long name, '
                                     'Uncompressed() error, and the fail-open / skipped kinds} x 0..2 good entries first; Layers() error, invalid config, MkdirTemp '
                                     'failure, Mkdir failure of the layer directory; empty-layer history entries; 0..2 directories already in TMPDIR (one named like an '
                                     'image directory); random ones, three quarters with hostile entries in every archive (names built from .., ., empty segments, '
                                     'absolute paths of the victim / TMPDIR / working directory, layer-<i> look-alikes; symbolic and hard links to those places followed '
                                     'by files, directories and links written through them; any order). A failed load must leave TMPDIR as it was, a successful one '
                                     'adds exactly the image directory, CleanUp removes it, nothing else in the sandbox may change at any point, and nothing inside '
                                     'the image directory may lead out of it. The exits no input reaches (root node insertion, v1 layer index) are run on the model only. '
                                     'Containment on the model side: C06_load_disk_* on Model/LoadDisk.lean (physical resolution, no containment test in the operations); that model has no '
                                     'stream of its own' % len(rows))
