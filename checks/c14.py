"""C14 — Every emitted package is well-formed and convertible (PARTIAL, level 'other')."""
import os
import re
import subprocess
from . import lib, translib

META = {
    'level': 'other',
    'technique': 'PARTIAL. Kernel-checked part: Lean 4 `decide` over purl type tables REGENERATED from /repo on every run (go/ast translator) + package-index laws proved for all '
                 'package lists, the index model tied to the real packageindex by a correspondence stream. Testing part (in support of the tie, not a proof): a harvest loop pushes '
                 'every package the built-in filesystem extractors produce from their own fixtures through ToPURL, Ecosystem, purl.FromString∘String twice, packageindex, '
                 'proto.ScanResultToProto, converter.ToSPDX23, converter.ToCDX under recover and compares the preserved fields, also with percent-encoding-needing names/versions',
    'design_ref': 'DESIGN.md §4 (section of C14), §5 (defects), §7 (seeded changes)',
    'text': 'translator/cmd/purldump re-reads purl/purl.go (type constants, key set of validType) and every built-in extractor package (imports of the two extractor list.go) and '
            'writes lean/Scalibr/Gen/Purl.lean with every purl type reachable from a ToPURL method (selectors and Type: fields in the method and the repository functions it calls). '
            'Kernel-checked: emitted types ⊆ accepted types; accepted table lower-case (declared-but-unemitted type constants are only probed at run time by `accept c`, informational); every extractor package accounted for (builds a purl / nil / data-determined); '
            'no unresolved Type expression; index laws (GetSpecific = filter in order, GetAllOfType/GetAll = filter up to permutation, has, only) for all lists. '
            'Independent of how validType is written: the stream `accept` calls the real purl.FromString on a well-formed purl of every emitted type (and, informationally, '
            'of every purl.Type* constant), and the `layout` harvest extracts the OS extractors\' fixtures at their PRODUCTION paths (dpkg status at usr/lib/opkg/status where '
            'ToPURL switches to type opkg, status.d, apk, rpm, cos, snap, pacman, portage, flatpak, kernel modules, nix store, macapps, homebrew) under 24 etc/os-release variants (distributions + VERSION_ID shapes: leading v, trailing .x, edge.<date>, no dot, lone / leading / trailing dot, empty, 600 characters, quoted with spaces, four components; fields absent one at a time), Ecosystem() / ToPURL() / proto conversion of every package under recover. '
            'AUDIT NOTE: C14_proto_fields/_purl/_list and C14_cdx_fields are definitional restatements of the Lean record builder — their content is the correspondence stream that ties the '
            'builder to proto.go (`proto` op) resp. C15\'s stream for the SBOM model; C14_proto_lossless_partial (reading the record back gives the package, against an independent reader) and '
            'C14_spdx_fields (against a filter specification) are not. '
            'Conversions (all packages): the model of binary/proto packageToProto / purlToProto / layerDetailsToProto / annotationsToProto copies name, version, locations (order kept), '
            'extractor, ecosystem, source code, the purl ToPURL returned field by field (qualifiers in order), layer details (index within int32) verbatim, one record per package in order '
            '(tied to the real ScanResultToProto by the `proto` stream: harvested packages of every extractor + every metadata type of the proto switch + nasty strings); the model of '
            'ToSPDX23 / ToCDX (Model/Sbom.lean, tied by C15\'s stream) carries name / version / purl string (+ all locations for CycloneDX) of each package. '
            'The rest of the record (model Model/ProtoResult.lean, tied by the `result` / `pfile` / `wfmt` ops): scan and plugin statuses, findings (advisory, id, type, severity, CVSS, target, extra, '
            'detector names), the early error return and the deprecated copies; C14_result_outcome (for EVERY result the outcome is the error of the FIRST finding without advisory / advisory id, else success; C14_result_never_panics), '
            'C14_result_lossless_partial (reading the record back gives the result, for representable values) '
            '(C14_result_detectors: the detector names are carried) — and C14_file_type (typeForPath, a model of filepath.Ext / TrimSuffix / the switch, accepts exactly '
            'the paths ending in .binproto / .textproto [.gz], for ALL paths). '
            'With this the PROVABLE part covers every clause of the property except (a) the behaviour of the 58 ToPURL / Ecosystem implementations on what Extract returned (no panic, non-empty '
            'name and location) and (b) packageurl-go\'s printing/parsing (idempotence), which are third-party / per-extractor code exercised by the harvest, layout, accept and purlrt streams only. '
            'NOT proved: absence of panics in 58 ToPURL/Ecosystem implementations on arbitrary Extract output, packageurl-go print∘parse idempotence, non-empty name/location, '
            'converter field preservation — these are exercised by the harvest over all fixtures only (C03 generators / C02 corpus are not wired in).',
    'note': 'Trusted: Lean kernel; the go/ast translator (copies constants, map keys and selector names faithfully; output is human-diffable); harness and line protocol. '
            'Known findings: C14/no-location (chrome/extensions and dotnet/pe emit packages without Locations; their unit tests pin that); C14/golang-case-normalised (go.mod module paths '
            'with upper-case letters: purl.FromString lower-cases golang namespace/name, so print∘parse∘print differs from print).',
}
NS = 'Scalibr.Index.'
THEOREMS = [NS + t for t in ['C14_types_accepted', 'C14_types_resolved', 'C14_extractors_covered', 'C14_valid_lowercase',
                             'C14_index', 'C14_index_type', 'C14_index_all', 'C14_index_has', 'C14_index_only']] + \
           ['Scalibr.ProtoPkg.' + t for t in ['toInt32_id', 'C14_proto_fields', 'C14_proto_purl', 'C14_proto_layer_partial', 'C14_proto_layer_wraps',
                                             'C14_proto_annotations', 'C14_proto_list', 'C14_proto_lossless_partial', 'C14_proto_not_injective_outside']] + \
           ['Scalibr.Sbom.' + t for t in ['C14_spdx_fields', 'C14_spdx_not_verbatim', 'C14_cdx_fields']] + \
           ['Scalibr.ProtoResult.' + t for t in ['C14_result_outcome', 'C14_result_never_panics', 'C14_result_lossless_partial',
                                                'C14_result_detectors', 'C14_result_status_default', 'C14_file_type']]
KF_GOCASE = 'C14/golang-case-normalised'
PROTO_KEYS = ['name', 'version', 'locs', 'src', 'anns', 'layer', 'purl', 'eco', 'ex', 'meta', 'pstr']
KF_NOLOC = 'C14/no-location'
NOLOC_EXTRACTORS = {'chrome/extensions', 'dotnet/pe'}
KF_JAR = 'C14/jar-empty-artifact'
KF_DETS = 'C14/finding-detectors-dropped'
# extractors that emit an entry of their input which has no name (or, renv.lock, no version) as a package: one key per extractor
NAMELESS = {'r/renvlock': 7, 'swift/packageresolved': 8, 'python/pipfilelock': 9, 'dotnet/packageslockjson': 10, 'javascript/bunlock': 11,
            'javascript/packagelockjson': 12, 'os/cos': 13, 'os/kernel/module': 14}


def kf_nameless(ex):
    return 'C14/nameless-entry-' + ex.replace('/', '-')
KF_NILSEV = 'C14/finding-nil-severity-panics'


def unhex(h):
    if h in ('-', ''):
        return ''
    try:
        return bytes.fromhex(h).decode('utf-8', 'replace')
    except ValueError:
        return '?' + h


def parse_tables(src):
    rows = re.findall(r'^  \("((?:[^"\\]|\\.)*)", "((?:[^"\\]|\\.)*)", "((?:[^"\\]|\\.)*)"\),?$', src, re.M)
    consts = re.findall(r'^  \("(Type\w*)", "((?:[^"\\]|\\.)*)"\),?$', src, re.M)
    return rows, consts


def write_types_file(ctx, tr_ok):
    """the purl types to push through the real purl.FromString: the emitted half of the regenerated table (it comes from the
    ToPURL scan and does not depend on validType); if the translator failed entirely, the last committed table."""
    path = lib.LEAN + '/Scalibr/Gen/Purl.lean'
    src, origin = None, 'regenerated lean/Scalibr/Gen/Purl.lean'
    if tr_ok and os.path.exists(path):
        src = open(path).read()
    else:
        p = subprocess.run(['git', 'show', 'HEAD:lean/Scalibr/Gen/Purl.lean'], cwd=lib.VERIF, stdout=subprocess.PIPE, stderr=subprocess.DEVNULL, text=True)
        if p.returncode == 0 and p.stdout:
            src, origin = p.stdout, 'FALLBACK: last committed lean/Scalibr/Gen/Purl.lean (the translator could not regenerate the table from this tree)'
    if src is None:
        ctx.notes.append('accept stream: no emitted-types table available (translator failed and no committed Gen/Purl.lean)')
        return None
    rows, consts = parse_tables(src)
    seen, lines = set(), []
    for pkg, via, typ in rows:
        if typ not in seen:
            seen.add(typ)
            lines.append('e %s %s' % (typ, pkg))
    for name, val in consts:
        lines.append('c %s %s' % (val.lower(), name))
    os.makedirs(lib.VERIF + '/evidence', exist_ok=True)
    out = os.environ.get('TMPDIR', '/var/tmp') + '/.corpus-C14-types.txt'
    open(out, 'w').write('\n'.join(lines) + '\n')
    ctx.extra['accept_types_source'] = origin
    ctx.extra['accept_types'] = {'emitted': len(seen), 'constants': len(consts)}
    return out


def table_search(ctx):
    """When C14_types_accepted no longer checks: name the concrete table row (the failing input)."""
    try:
        src = open(lib.LEAN + '/Scalibr/Gen/Purl.lean').read()
    except OSError:
        return
    valid = set(re.findall(r'"((?:[^"\\]|\\.)*)"', (re.search(r'def validTypes : List String := \[(.*?)\]', src, re.S) or [None, ''])[1]))
    rows = re.findall(r'^  \("((?:[^"\\]|\\.)*)", "((?:[^"\\]|\\.)*)", "((?:[^"\\]|\\.)*)"\),?$', src, re.M)
    if 'def validTableFound : Bool := false' in src:
        return      # nothing to search in: the source no longer has a table; the runtime `accept` stream decides
    bad = [(p, via, t) for p, via, t in rows if t not in valid]
    for p, via, t in bad[:3]:
        ctx.violation('purl type %r, emitted by %s (%s), is not accepted by purl.validType: purl.FromString rejects the purl of every package of that extractor' % (t, p, via),
                      ['# table row of lean/Scalibr/Gen/Purl.lean: (%s, %s, %s)' % (p, via, t)], found_input=True, name='type-' + re.sub(r'\W', '_', t)[:20])
    m = re.search(r'def unresolved : List \(String × String\) := \[(.*?)\]\n', src, re.S)
    if m and m.group(1).strip():
        ctx.violation('the translator met a PackageURL Type expression it cannot evaluate: ' + m.group(1)[:400], ['# ' + m.group(1)[:400]], found_input=False, name='unresolved')


def run(ctx):
    ctx.trusted = ['Lean 4.33.0 kernel', 'axioms: propext, Quot.sound, Classical.choice at most (see theorems.*.axioms)',
                   'translator/cmd/purldump (go/ast): copies the purl type constants, the key set of validType and the purl.Type* selectors / Type: fields reachable from ToPURL faithfully; '
                   'reachability = calls to same-package functions/methods and to functions of other repository packages, by name',
                   'harness/cmd/c14gen + lean/Drivers/C14.lean line protocol', 'packageurl-go, tools-golang (SPDX), cyclonedx-go, protobuf: not modelled']
    ctx.assumptions = ['PARTIAL: "ToPURL/Ecosystem never panic on what Extract returned", print∘parse idempotence, non-empty name/location and converter field preservation are TESTED on '
                       'fixture-derived packages only (harvest), not proved',
                       'purls handed back from scanned data by the sbom/cdx and sbom/spdx extractors have data-determined types (listed as `dynamic`), outside C14_types_accepted',
                       'standalone extractors (they read the running system) are covered by the type table only, not by the harvest',
                       'SPDX output summarises locations in free text and uses the purl\'s name/version by design; compared fields: name, version, purl locator, package count',
                       'Go map iteration order: GetAll / GetAllOfType compared as sets']
    ctx.rule = ('harvestv / boundaryv = the 32 extractors with an exported Config struct (zz_configs_gen.go), every option switched one at a time (bool flipped, all bools flipped, integer limits 1 / 2^30), '
                'over ALL fixtures of the extractor and the 18 boundary names on up to 2 package-yielding fixtures per variant; jsonmut = up to 2 package-yielding JSON fixtures of each of the 16 extractors '
                'that read JSON, one member deleted / one key made empty / one string made empty at up to 70 places (every field of small objects, two members of large maps, first array element, depth <= 6); '
                'fname kmod = the kernel-module fixture with the `name=` key of .modinfo replaced; fname = identities derived from FILE / DIRECTORY names (the boundary stream substitutes into file content): 27 jar file names and 9 jars nested in a jar (nothing / separators only / purl '
                'syntax characters before the version; java/archive without pom.properties), 9 nix store directory names, 14 homebrew cellar directory names, each created for real in a scratch tree, real '
                'Extract, then the same strict chain as harvest; '
                'result = 44 fixed results (every status / type / severity constant and the first value past it, every nil, error positions, int32 wrap) + 1 in 6 random cases: real ScanResultToProto vs the '
                'Lean model (outcome + whole record) and vs the specification (outcome; reader of the real record = the result); pfile = 30 file names (really written by proto.Write, read back, format '
                'observed by decoding) vs typeForPath model and the endings specification; wfmt = 7 formats through WriteWithFormat; accept n = 9 undeclared / malformed purl types must be rejected; '
                'boundary = 18 names at the syntax boundary of the purl namespace/name split (lone npm scope, `@scope/`, `/x`, `x/`, `a/b/c`, separators only, Maven `:artifact` / `group:`, '
                'module path ending in `/`, blank, `.`/`..`) substituted for a package name INSIDE up to 3 package-yielding fixtures of every extractor, real Extract -> ToPURL -> String -> FromString -> '
                'index -> proto -> CycloneDX -> SPDX with the strict identity oracle; NOTE harvest: a fixture that yields no package passes trivially; their share is reported in harvest_no_package_share (about 37 %). '
                'proto = generic fields of real harvested packages (<= 6 per fixture) + every metadata sample (28 switch types + 5 unknown) x 2 + random packages with nasty strings, nil/empty '
                'variants, annotations 0..4/-1/2^40, layer indexes up to 2^32+5 -> real ScanResultToProto vs the Lean model, field by field; '
                'purlrt = every emitted purl type x {name, namespace, version, qualifier value, subpath} x 15 byte classes needing escaping: parses, print∘parse∘print = print, index finds it; '
                'accept = the real purl.FromString on "pkg:<type>/ns/name@1.0" and on String() of a built PackageURL for every emitted type (oracle) and every Type* constant (reported); '
                'layout = the OS fixtures at production paths x 24 os-release variants (9 distributions + 15 VERSION_ID / absent-field shapes) through filesystem.Run with all built-in extractors; '
                'harvest = every file (<= 8 MiB) under every built-in filesystem extractor\'s testdata, copied to a scratch dir, extracted with that extractor; per fixture the packages are '
                'converted as produced and again with name/version mutated to need percent-encoding; index = the (type, name) list of each fixture\'s packages (first 40) plus random lists of '
                '0..8 packages over 6 types x 6 names incl. empty and upper-case. non-trivial = a harvest line with >= 1 package or an index line with >= 2 packages; distinct = distinct case lines')
    tr_ok, tr_out = translib.run_translator(ctx, 'purldump', ['-out', lib.LEAN + '/Scalibr/Gen/Purl.lean'], overlay=False)
    m = re.search(r'type constants=(\d+) valid types=(\d+) extractor packages=(\d+) ToPURL methods=(\d+) emitted rows=(\d+) distinct emitted types=(\d+) dynamic=(\d+) unresolved=(\d+) nil-only=(\d+)', tr_out)
    if m:
        ctx.extra['purl_tables'] = dict(zip(['type_constants', 'valid_types', 'extractor_packages', 'topurl_methods', 'emitted_rows', 'distinct_emitted_types', 'dynamic', 'unresolved', 'nil_only'], map(int, m.groups())))
    table_found = 'VALIDTYPE-TABLE-NOT-FOUND' not in tr_out
    if tr_ok and not table_found:
        why = [l for l in tr_out.split('\n') if 'VALIDTYPE-TABLE-NOT-FOUND' in l][0]
        ctx.notes.append(why.strip())
    types_file = write_types_file(ctx, tr_ok)
    drv_ok, _ = ctx.lean_build(['drv_c14'])
    ok, _ = ctx.lean_build(['Scalibr.Properties.C14'])
    proofs_ok = ctx.audit(['Scalibr.Properties.C14'], THEOREMS)
    if ctx.tier == 'thorough' and ok:
        proofs_ok = ctx.leanchecker('Scalibr.Properties.C14') and proofs_ok
    ctx.checker_cmd = 'cd /verif/translator && go build -o bin/purldump ./cmd/purldump && bin/purldump && cd /verif/lean && lake build Scalibr.Properties.C14 drv_c14 && lake env lean Scalibr/Audit/C14.lean'
    if not ok:
        failed = translib.failing_theorems(ctx, lib.LEAN + '/Scalibr/Properties/C14.lean')
        ctx.notes.append('theorems that no longer check against the regenerated tables: ' + ', '.join(failed))
        table_search(ctx)
    n = {'quick': 3000, 'thorough': 40000}[ctx.tier]
    totals = {'packages': 0, 'purls': 0, 'fixtures': 0, 'extractors': set()}
    rejected_consts = []
    dropped_meta = set()
    unparsed = []

    def nontrivial(case, fi, fm):
        t = case.split(' ')
        if t[0] in ('harvest', 'layout', 'boundary', 'fname', 'harvestv', 'boundaryv', 'jsonmut'):
            return fi.get('pk', '0') not in ('0', '')
        if t[0] == 'accept':
            return t[1] == 'e'
        if t[0] in ('proto', 'purlrt', 'result', 'pfile', 'wfmt', 'pwerr', 'reach'):
            return True
        return t[1].count(',') >= 1

    def issues_of(fi):
        return [] if fi.get('issues', '-') == '-' else fi['issues'].split(',')

    def oracle(case, fi, fm):
        t = case.split(' ')
        variant = ''
        if t[0] in ('harvestv', 'boundaryv'):      # the same judgement as harvest / boundary, for an extractor built with non-default options
            variant = ' [extractor configured with %s]' % unhex(t[2])
            t = [t[0][:-1], t[1]] + t[3:]
        v = oracle_(t, case, fi, fm)
        return (v + variant) if v else v

    def oracle_(t, case, fi, fm):
        if fi.get('_') == 'panic':
            return 'the harness caught a panic outside the guarded conversions on ' + case
        if t[0] == 'harvest':
            dropped_meta.update(unhex(x) for x in fi.get('drop', '-').split(',') if x != '-')
            if case.startswith('harvest '):
                totals['fixtures'] += 1
                totals['packages'] += int(fi.get('pk', '0') or 0)
                totals['purls'] += int(fi.get('purls', '0') or 0)
                totals['extractors'].add(t[1])
            else:
                totals['variant_runs'] = totals.get('variant_runs', 0) + 1
                totals['variant_packages'] = totals.get('variant_packages', 0) + int(fi.get('pk', '0') or 0)
            iss = issues_of(fi)
            if iss:
                bad = [unhex(b) for b in fi.get('bad', '-').split(',') if b != '-']
                return 'package(s) extracted by %s from its fixture %s: %s%s' % (unhex(t[1]), unhex(t[2]), ', '.join(iss), (' — location | package | purl | issue: ' + ' ;; '.join(bad)) if bad else '')
            return None
        if t[0] == 'boundary':
            totals['boundary'] = totals.get('boundary', 0) + 1
            totals['boundary_hit'] = totals.get('boundary_hit', 0) + (fi.get('hit') == '1')
            totals['boundary_pk'] = totals.get('boundary_pk', 0) + int(fi.get('pk', '0') or 0)
            iss = issues_of(fi)
            if iss:
                bad = [unhex(b) for b in fi.get('bad', '-').split(',') if b != '-']
                return 'name %r substituted into fixture %s of %s (names at the syntax boundary of the purl namespace/name split): %s%s' % (
                    unhex(t[3]), unhex(t[2]), unhex(t[1]), ', '.join(iss), (' — location | package | purl | issue: ' + ' ;; '.join(bad)) if bad else '')
            return None
        if t[0] == 'jsonmut':
            totals['jsonmut'] = totals.get('jsonmut', 0) + 1
            totals['jsonmut_hit'] = totals.get('jsonmut_hit', 0) + (fi.get('hit') == '1')
            iss = issues_of(fi)
            if iss:
                bad = [unhex(b) for b in fi.get('bad', '-').split(',') if b != '-']
                op, _, path = unhex(t[3]).partition('@')
                return 'fixture %s of %s with %s at %s: %s%s' % (unhex(t[2]), unhex(t[1]),
                    {'del': 'the member DELETED', 'key0': 'the member\'s KEY made empty', 'str0': 'the string value made EMPTY'}.get(op, op), path or '/', ', '.join(iss),
                    (' — location | package | purl | issue: ' + ' ;; '.join(bad)) if bad else '')
            return None
        if t[0] == 'fname':
            totals['fname'] = totals.get('fname', 0) + 1
            totals['fname_pk'] = totals.get('fname_pk', 0) + int(fi.get('pk', '0') or 0)
            iss = issues_of(fi)
            if iss:
                bad = [unhex(b) for b in fi.get('bad', '-').split(',') if b != '-']
                where = {'jar': 'a jar without pom.properties / manifest named %r', 'jarnest': 'a jar without pom.properties / manifest stored as %r inside outer-3.0.jar',
                         'nix': 'a nix store directory nix/store/%r', 'brew': 'a homebrew cellar directory Cellar/%r/1.0',
                         'kmod': 'the kernel-module fixture with the .modinfo key `name=` replaced by %r'}.get(t[1], '%r') % unhex(t[2])
                return '%s (identity derived from %s): %s%s' % (where, 'the module info' if t[1] == 'kmod' else 'the file name', ', '.join(iss), (' — location | package | purl | issue: ' + ' ;; '.join(bad)) if bad else '')
            return None
        if t[0] == 'layout':
            dropped_meta.update(unhex(x) for x in fi.get('drop', '-').split(',') if x != '-')
            totals['layout_packages'] = totals.get('layout_packages', 0) + int(fi.get('pk', '0') or 0)
            iss = issues_of(fi)
            if iss:
                bad = [unhex(b) for b in fi.get('bad', '-').split(',') if b != '-']
                return 'production-layout scan (etc/os-release variant %r): %s%s' % (unhex(t[1]), ', '.join(iss), (' — location | package | purl | issue: ' + ' ;; '.join(bad)) if bad else '')
            return None
        if t[0] == 'accept':
            typ = unhex(t[2])
            if t[1] == 'n':
                must = fm.get('must') if fm else '0'
                if must == '-1' and (fi.get('acc') == '1' or fi.get('accs') == '1'):
                    return 'purl type %r is not in purl.validType\'s table (after lower-casing), but purl.FromString accepts a purl of that type' % typ
                if must == '1' and (fi.get('acc') != '1' or fi.get('accs') != '1') and fi.get('why') == 'type':
                    return 'purl type %r is in purl.validType\'s table after lower-casing (the parser lower-cases the type), but purl.FromString rejects it for its type' % typ
                return None
            if t[1] == 'c':
                if fi.get('acc') != '1':
                    rejected_consts.append('%s=%r' % (unhex(t[3]), typ))
                return None
            if (fi.get('acc') != '1' or fi.get('accs') != '1') and fi.get('why') == 'type':
                return 'purl type %r, which %s can emit, is rejected by the library\'s own parser: purl.FromString("pkg:%s/name@1.0") = invalid PURL type, so the purl of every package of that type cannot be parsed back' % (
                    typ, unhex(t[3]), typ)
            if fi.get('acc') != '1' or fi.get('accs') != '1':
                unparsed.append(typ)      # packageurl-go's own type-specific rules refused every probe shape: not decidable here
                return None
            if fi.get('idem') != '1':
                return 'purl type %r (emitted by %s): print∘parse of a well-formed purl of that type is not idempotent' % (typ, unhex(t[3]))
            return None
        if t[0] == 'proto':
            if not fm or '_' in fm:
                return None
            # SPEC on the implementation: what the specification's reader recovers from the REAL record = the package's generic
            # content (C14_proto_lossless_partial), wherever the package is Representable
            if fm.get('repr') == '1' and fi.get('gen') != fm.get('sgen'):
                g, w = fi.get('gen', '').split('|'), fm.get('sgen', '').split('|')
                names = ['name', 'version', 'locations', 'source code', 'annotations', 'layer details', 'purl fields', 'purl string', 'ecosystem', 'extractor']
                diff = ['%s: record gives %s, package has %s' % (names[i] if i < len(names) else i, g[i] if i < len(g) else '?', w[i]) for i in range(len(w)) if i >= len(g) or g[i] != w[i]]
                return 'reading the result proto back does not give the package (lossless conversion violated): ' + '; '.join(diff[:4])
            bad = [k for k in PROTO_KEYS if fi.get(k) != fm.get(k)]
            if bad:
                return 'the result proto does not carry the package\'s fields verbatim: ' + '; '.join('%s: proto has %s, package has %s' % (k, fi.get(k), fm.get(k)) for k in bad[:4])
            return None
        if t[0] == 'result':
            if not fm or 'sres' not in fm:
                return None
            # SPEC on the implementation: (1) the outcome is the error of the first finding without advisory / advisory id, else success — never
            # a panic (specOutcome); (2) on success, reading the REAL record back gives the result's generic content (C14_result_lossless_partial),
            # wherever every value is one the record can represent
            what = {'ok': 'succeeds', 'adv': 'returns ErrAdvisoryMissing', 'id': 'returns ErrAdvisoryIDMissing', 'panic': 'PANICS', 'other-error': 'returns an unknown error'}
            if fi.get('res') != fm['sres']:
                return 'proto.ScanResultToProto %s on a result for which the specification says it %s (findings: %s)' % (
                    what.get(fi.get('res'), fi.get('res')), what.get(fm['sres'], fm['sres']), t[7] if len(t) > 7 else '?')
            if fi.get('res') == 'ok' and fm.get('repr') == '1' and fi.get('gen') != fm.get('sgen'):
                g, w = fi.get('gen', '').split('|'), fm.get('sgen', '').split('|')
                names = ['version', 'start time', 'end time', 'scan status', 'plugin statuses', 'packages', 'findings']
                diff = ['%s: record gives %s, result has %s' % (names[i] if i < len(names) else i, g[i] if i < len(g) else '?', w[i]) for i in range(len(w)) if i >= len(g) or g[i] != w[i]]
                return 'reading the result proto back does not give the scan result (lossless conversion violated): ' + '; '.join(diff[:3])
            return None
        if t[0] == 'reach':
            if fi.get('escaped', '-') != '-' or fi.get('bad', '-') != '-':
                return 'extractor selection (%s): %s%s' % (t[1],
                    'handed out extractors the harvest over list.All never saw: ' + ', '.join(unhex(x) for x in fi['escaped'].split(',')) if fi.get('escaped', '-') != '-' else '',
                    ' ' + ' ;; '.join(unhex(x) for x in fi['bad'].split(',')) if fi.get('bad', '-') != '-' else '')
            return None
        if t[0] == 'pwerr':
            if fi.get('werr') != '1':
                return 'proto.Write returned nil although the write cannot have been completed (%s)' % t[1]
            if fi.get('left') == '1':
                return 'proto.Write reported an error (%s) but left a regular file at the path' % t[1]
            return None
        if t[0] in ('pfile', 'wfmt'):
            if not fm or 'sft' not in fm:
                return None
            obs = fi.get('ft', '')
            name = unhex(t[1])
            if t[0] == 'pfile' and fi.get('vx') != '1':
                return 'proto.ValidExtension and proto.Write disagree on the file name %r' % name
            if t[0] == 'pfile' and (fi.get('made') == '1') != (not obs.startswith('err')):
                return 'proto.Write(%r): %s' % (name, 'returned an error but left a file behind' if obs.startswith('err') else 'returned nil but wrote no file')
            if obs.split(':')[0] != fm['sft']:
                return '%s: the written file is %s, the specification (endings .binproto / .textproto, optional .gz%s) says %s' % (
                    ('proto.Write to a file named %r' if t[0] == 'pfile' else 'proto.WriteWithFormat(format %r)') % name, obs,
                    '' if t[0] == 'pfile' else '; format binproto = binary, anything else = text, never gzipped', {'err': 'the name must be rejected'}.get(fm['sft'], fm['sft']))
            return None
        if t[0] == 'purlrt':
            if fi.get('ok') != '1' or fi.get('same') != '1' or fi.get('idx') != '1':
                return 'purl of type %r with %s = %r: %s%s (%s)' % (unhex(t[1]), t[2], unhex(t[3]),
                    'purl.FromString(String()) fails' if fi.get('ok') != '1' else 'printing, parsing and printing again changes the string' if fi.get('same') != '1' else '',
                    '; the package index does not return the package for (Name, Type)' if fi.get('idx') != '1' else '', unhex(fi.get('back', '-')))
            return None
        if t[0] == 'index' and 'spec' in fm and fi.get('obs') != fm['spec']:
            return 'packageindex answers %s but the filter of the indexed list is %s' % (fi.get('obs', '')[:300], fm['spec'][:300])
        return None

    def finding_class(case, fi, fm):
        t = case.split(' ')
        if t[0] in ('harvestv', 'boundaryv'):
            t = [t[0][:-1], t[1]] + t[3:]
        if t[0] == 'result' and fm and len(t) == 8:
            fnds = [] if t[7] == '_' else [f.split(';') for f in t[7].split(',')]
            # class predicate: the conversion panics, the specification does not, and some finding with advisory and id has no severity
            if fi.get('res') == 'panic' and any(f[0] != 'n' and not f[0].startswith('n~') and f[0].endswith('~n') for f in fnds):
                return KF_NILSEV
            # class predicate: the record differs from the result ONLY in the findings' detector names, which the record leaves empty
            if fi.get('res') == 'ok' and fm.get('sres') == 'ok' and any(f[3] != '_' for f in fnds):
                w = fm.get('sgen', '').split('|')
                if len(w) == 7:
                    w[6] = ','.join(';'.join(f.split(';')[:3] + ['_']) for f in w[6].split(',')) if w[6] != '_' else '_'
                    if '|'.join(w) == fi.get('gen'):
                        return KF_DETS
        # class predicate (one key per extractor of NAMELESS): a structurally mutated document (jsonmut) / a module without name= (fname kmod);
        # the only issues are the empty name and the unparsable purl, and every witness is a nameless package — or, for renv.lock, a
        # version-less one whose purl pkg:cran/<name> the purl library refuses ("version is required")
        ex = unhex(t[1]) if t[0] == 'jsonmut' else 'os/kernel/module' if t[:2] == ['fname', 'kmod'] else None
        if ex in NAMELESS and issues_of(fi) and set(issues_of(fi)) <= {'empty-name', 'purl-rejected'}:
            wit = [unhex(b).split(' | ') for b in fi.get('bad', '-').split(',') if b != '-']
            if wit and all(len(w) == 4 and (w[1].startswith('@') or w[1] == '@' or (ex == 'r/renvlock' and w[1].endswith('@') and w[2].startswith('pkg:cran/'))) for w in wit):
                return kf_nameless(ex)
        if t[0] == 'jsonmut' and issues_of(fi) == ['no-location'] and unhex(t[1]) in NOLOC_EXTRACTORS:
            return KF_NOLOC
        # class predicate: a jar FILE NAME with nothing before the version; the only issues are the empty name and its unparsable purl,
        # and every witness is a nameless package whose purl is pkg:maven/@<version>
        if t[0] == 'fname' and t[1] in ('jar', 'jarnest') and set(issues_of(fi)) == {'empty-name', 'purl-rejected'}:
            base = unhex(t[2]).rsplit('/', 1)[-1]
            wit = [unhex(b).split(' | ') for b in fi.get('bad', '-').split(',') if b != '-']
            if base[:1] in '-_.' and wit and all(len(w) == 4 and w[1].startswith('@') and w[2] in ('', 'pkg:maven/' + w[1]) for w in wit):
                return KF_JAR
        # class predicate: the only issue is that print∘parse changes the purl, every witness is a golang purl and the two
        # strings differ in letter case only (packageurl-go lower-cases golang namespace/name; Go module paths are case-sensitive)
        if t[0] == 'boundary' and issues_of(fi) == ['no-location'] and unhex(t[1]) in NOLOC_EXTRACTORS:
            return KF_NOLOC
        if t[0] in ('harvest', 'layout', 'boundary') and issues_of(fi) and set(issues_of(fi)) <= {'purl-roundtrip-differs', 'mut-purl-roundtrip-differs'}:
            wit = [unhex(b) for b in fi.get('bad', '-').split(',') if b != '-']
            pairs = [w.split(' | ')[2].split(' -> ') for w in wit if ' -> ' in w]
            if pairs and all(len(p) == 2 and p[0].startswith('pkg:golang/') and p[0] != p[1] and p[0].lower() == p[1].lower() for p in pairs):
                return KF_GOCASE
        # class predicate: the ONLY issue is a missing location and the extractor is one of the two whose tests pin that
        if t[0] == 'harvest' and issues_of(fi) == ['no-location'] and unhex(t[1]) in NOLOC_EXTRACTORS:
            return KF_NOLOC
        return None

    def classify(case, fi, fm):
        t = case.split(' ')
        if t[0] in ('harvestv', 'boundaryv', 'jsonmut'):
            return t[0] + ':' + ('no-packages' if fi.get('pk') == '0' else 'issues=' + fi.get('issues', '?'))
        if t[0] == 'harvest':
            return 'harvest:' + ('no-packages' if fi.get('pk') == '0' else 'issues=' + fi.get('issues', '?'))
        if t[0] == 'layout':
            return 'layout:issues=' + fi.get('issues', '?')
        if t[0] == 'fname':
            return 'fname-%s:%s' % (t[1], 'not-created' if fi.get('made') != '1' else 'no-packages' if fi.get('pk') == '0' else 'issues=' + fi.get('issues', '?'))
        if t[0] == 'boundary':
            return 'boundary:' + ('not-substituted' if fi.get('hit') != '1' else 'no-packages' if fi.get('pk') == '0' else 'issues=' + fi.get('issues', '?'))
        if t[0] == 'proto':
            return 'proto:meta=%s purl=%s layer=%s' % (fi.get('meta'), 'nil' if fi.get('purl') == '_' else 'set', 'nil' if fi.get('layer') == '_' else 'set')
        if t[0] == 'result':
            return 'result:%s repr=%s' % (fi.get('res'), fm.get('repr') if fm else '?')
        if t[0] in ('pfile', 'wfmt'):
            return '%s:%s' % (t[0], fi.get('ft'))
        if t[0] == 'pwerr':
            return 'pwerr:' + t[1]
        if t[0] == 'reach':
            return 'reach:' + t[1]
        if t[0] == 'purlrt':
            return 'purlrt:' + ('ok' if (fi.get('ok'), fi.get('same'), fi.get('idx')) == ('1', '1', '1') else 'FAIL')
        if t[0] == 'accept':
            return 'accept-%s:%s' % ({'e': 'emitted', 'c': 'constant', 'n': 'undeclared'}[t[1]], 'accepted' if fi.get('acc') == '1' and fi.get('accs') == '1' else 'REJECTED')
        return 'index'

    lib.standard_stream(ctx, gen='c14gen', driver='drv_c14', gen_args=['-seed', str(ctx.seed), '-n', str(n), '-tier', ctx.tier] + (['-types', types_file] if types_file else []),
                        compare_keys=['obs', 'ok', 'same', 'idx', 'res', 'rec', 'ft', 'werr', 'left'] + PROTO_KEYS, nontrivial=nontrivial, oracle=oracle, classify=classify, finding_class=finding_class, sample_every=211)
    if unparsed:
        ctx.notes.append('emitted purl types for which no probe shape parses in packageurl-go (not judged): ' + ', '.join(unparsed))
    if dropped_meta:
        ctx.notes.append('metadata types emitted by built-in extractors that binary/proto.setProtoMetadata has no case for (the proto `metadata` oneof is left unset, silently; '
                         'generic fields are unaffected): ' + ', '.join(sorted(dropped_meta)))
        ctx.extra['proto_metadata_not_converted'] = sorted(dropped_meta)
    if rejected_consts:
        ctx.notes.append('purl type constants declared in purl.go that purl.FromString rejects (informational: no built-in ToPURL emits them): ' + ', '.join(rejected_consts))
    ctx.extra['layout_packages'] = totals.get('layout_packages', 0)
    ctx.extra['non_default_options'] = {'fixture_runs': totals.get('variant_runs', 0), 'packages_emitted': totals.get('variant_packages', 0)}
    ctx.extra['structural_json_documents'] = {'cases': totals.get('jsonmut', 0), 'path_present': totals.get('jsonmut_hit', 0)}
    ctx.extra['file_name_identities'] = {'cases': totals.get('fname', 0), 'packages_emitted': totals.get('fname_pk', 0)}
    ctx.extra['boundary_names'] = {'cases': totals.get('boundary', 0), 'name_substituted': totals.get('boundary_hit', 0), 'packages_emitted': totals.get('boundary_pk', 0)}
    nopk = ctx.dist.get('harvest:no-packages', 0)
    ctx.extra['harvest_no_package_share'] = {'fixtures_without_any_package': nopk, 'of': totals['fixtures'],
                                             'share': round(nopk / totals['fixtures'], 3) if totals['fixtures'] else None,
                                             'note': 'these fixtures (invalid / empty / foreign test inputs of the extractors) yield no package and pass the harvest trivially'}
    ctx.extra['harvest'] = {'fixtures': totals['fixtures'], 'packages': totals['packages'], 'with_purl': totals['purls'], 'extractors_with_fixtures': len(totals['extractors'])}
    if not ctx.replay:
        if totals['packages'] < 500:
            ctx.violation('the harvest produced only %d packages from %d fixtures (expected about a thousand): fixtures moved or extractors fail wholesale' % (totals['packages'], totals['fixtures']),
                          ['# harvest too small'], found_input=False, name='harvest-small')
        if KF_GOCASE in ctx.known and KF_GOCASE not in ctx.known_hits:
            ctx.violation('known finding %s no longer reproduces from the fixtures: update known_findings.txt' % KF_GOCASE, ['# ' + KF_GOCASE], found_input=False, name='stale-C14-golang-case')
        if KF_NOLOC in ctx.known and KF_NOLOC not in ctx.known_hits:
            ctx.violation('known finding %s no longer reproduces from the fixtures: update known_findings.txt' % KF_NOLOC, ['# ' + KF_NOLOC], found_input=False, name='stale-C14-no-location')
        for kf in (KF_JAR, KF_DETS, KF_NILSEV) + tuple(kf_nameless(e) for e in NAMELESS):
            if kf in ctx.known and kf not in ctx.known_hits:
                ctx.violation('known finding %s no longer reproduces: update known_findings.txt' % kf, ['# ' + kf], found_input=False, name='stale-' + kf.replace('/', '-'))
    if not proofs_ok:
        lib.proof_failed(ctx, 'Scalibr.Properties.C14')
