"""C03 — Well-formed package databases are reported completely and exactly."""
import re
import binascii
from . import lib

META = {
    'level': 'proof',
    'technique': 'Lean 4 round-trip theorems parse(render(layout, records)) = installed(records) on raw bytes for the line formats whose parser lives in the repository, '
                 'record-loop = set-comprehension theorems on the decoded document for the library-decoded formats, + a generator/oracle stream through the real Extract of all twelve formats',
    'design_ref': 'DESIGN.md §4 (section of C03), §5 (defects), §7 (seeded changes)',
    'text': 'Kernel-checked: for apk `installed`, gradle.lockfile, Gemfile.lock, dpkg `status` and requirements.txt the byte-level model of the extractor returns exactly the '
            'generated (name, version) list for every record list and every layout (record order, per-line LF/CRLF, final newline or not, any number of blank lines, comments, '
            'unrelated fields, white space; dpkg: the fields of a stanza in any permutation, case-insensitive field names, continuation lines; requirements.txt: the core grammar name[extras] op version # comment — environment markers, per-requirement options and backslash continuations are covered by the differential stream only; requirements files that include each other with -r: over any finite path -> content map of such files the scan of a top-level file reports its pins with Locations [top] and, exactly once for every file reachable through include lines resolved against the directory of the INCLUDING file, that file\'s pins with Locations [top, file], whatever the chain depth, routes, cycles or same-named files elsewhere); for package-lock.json v1-v3, Pipfile.lock, packages.lock.json and go.mod the record loop over '
            'the DECODED document equals the comprehension (flattening, de-duplication, aliases, file:/git versions, replace directives, sections) — no layout clause is proved for the library-decoded formats, and for composer.lock, Cargo.lock and poetry.lock the loop is append/map so the Lean statements are definitional (not counted): for those seven formats the layout clauses rest on the generator/oracle stream alone. For the line formats the driver rebuilds the generator\'s records and layout as Lean Spec values, checks that Lean `render` gives the very bytes the harness wrote, decides the theorem hypotheses (wf) and takes the oracle\'s expected list from the Spec definition `installed`. The models are tied to the Go '
            'code by running both on generated files (0..40 records x layouts; thorough adds every layout of every <=3-record set) and on a malformed stream; the oracle compares the '
            "IMPLEMENTATION's (name, version) multiset with the generated package set for all twelve formats.",
    'note': 'Trusted: Lean kernel; encoding/json, BurntSushi/toml, x/mod/modfile (the (b) models start at the decoded document; byte layouts of those formats are covered by the differential '
            'stream only); commitextractor.TryExtractCommit as a per-entry table; the Go harness, its encoders and the line protocol; bytes are modelled as List Char under the Latin-1 embedding. '
            'Regular expressions of requirements.go / gemfilelock.go are replaced by hand-written matchers validated by the stream.',
}

THEOREMS = [
    # (a) byte-level round trips: parse (render layout records) = ok (installed records), all record lists x all layouts
    'Scalibr.Parsers.C03_apk', 'Scalibr.Parsers.C03_gradle', 'Scalibr.Parsers.C03_gemfile', 'Scalibr.Parsers.C03_dpkg',
    'Scalibr.Parsers.C03_requirements_partial',   # _partial: WF is the core grammar (no markers / options / continuations / != < > lists)
    # requirements files that include each other (-r): over a path -> content map, the scan reports the top-level pins and, exactly once per
    # REACHABLE file (include operands resolved against the directory of the INCLUDING file; cycles, several routes, same-named decoys), that
    # file's pins with Locations [top, file]; _cert: the same against a checked enumeration of the reachable files (what the driver evaluates);
    # walk_fuel_adequate: the bound of the model's work list is adequate on arbitrary contents
    'Scalibr.Parsers.C03_requirements_tree_partial', 'Scalibr.Parsers.C03_requirements_tree_cert_partial',
    'Scalibr.Parsers.Requirements.reachCert_iff', 'Scalibr.Parsers.C03_requirements_walk_fuel_adequate',
    # byte-to-line lemmas (bufio.Scanner / bufio.Reader.ReadLine on every LF/CRLF/final-newline layout)
    'Scalibr.Parsers.scan_unlines', 'Scalibr.Parsers.Dpkg.rlines_unlines',
    # (b) record loop over the DECODED document = comprehension, unique keys / no duplicates (no layout clause: decoder trusted)
    # `_model_semantics`: what ONE entry denotes (npm aliases / file: / git versions: depEntry, pkgEntry; go.mod replace: step = body of applyReplace) is the
    # extractor's own per-entry function; the theorem is the refinement "loop = last-write-wins / replace fold over those", not an independent grammar
    'Scalibr.Lockfiles.C03_packagelock_model_semantics', 'Scalibr.Lockfiles.C03_packagelock_exact_model_semantics', 'Scalibr.Lockfiles.C03_pipfile',
    'Scalibr.Lockfiles.C03_pkgslock', 'Scalibr.Lockfiles.C03_gomod_model_semantics',
    # executable right-hand sides (Spec/Lockfiles.lean `expected`), evaluated by Drivers/C03 for every decoded-format case: extract ~ Perm ~ expected
    'Scalibr.Lockfiles.C03_packagelock_expected_model_semantics', 'Scalibr.Lockfiles.C03_pipfile_expected', 'Scalibr.Lockfiles.C03_pkgslock_expected',
    'Scalibr.Lockfiles.C03_gomod_expected_model_semantics',
    'Scalibr.Lockfiles.C03_gomod_sum_model_semantics',   # go < 1.17 with a readable go.sum: go.mod packages + every module of go.sum, once per (name, version)
    'Scalibr.Lockfiles.C03_pkgslock_project_skipped',   # decided: a "type": "Project" entry is not reported (former known finding C03/pkgslock-project-reference, fixed)
]
# restatements of model definitions (append / map over the decoded arrays): NOT proof obligations, no property content of their own
DEFINITIONAL = ['Scalibr.Lockfiles.C03_composer', 'Scalibr.Lockfiles.C03_cargo', 'Scalibr.Lockfiles.C03_poetry']

def _names(lst):
    out = []
    if lst in ('-', '?', ''):
        return out
    for e in lst.split(','):
        t = e.split('@')
        rec = (binascii.unhexlify(t[0]), binascii.unhexlify(t[1]) if len(t) > 1 else b'')
        if len(t) > 2:   # reqtree: Locations
            rec += (tuple(binascii.unhexlify(x) for x in t[2].split('/') if x),)
        out.append(rec)
    return out


def finding_class(case, fi, fm):
    """Known findings of C03. The class predicate is computed from the INPUT (never from the generator's label)."""
    t = case.split(' ')
    if t[0] == 'gemfile' and len(t) > 1 and len(t[1]) < 2 * 65536:
        try:
            data = bytes.fromhex(t[1])
        except ValueError:
            data = b''
        seen = {}
        for l in data.split(b'\n'):
            m = re.match(rb'^    ([^ ]+) \(([^)]*)\)\r?$', l)
            if m:
                k = (m.group(1), m.group(2).split(b'-')[0])
                seen.setdefault(k, set()).add(m.group(2))
        if any(len(v) > 1 for v in seen.values()):
            # class predicate: two spec lines with the same gem name whose versions differ only behind the first "-" (the platform)
            return 'C03/gemfile-platform-variants-reported-twice'
    if t[0] in ('apk', 'gradle', 'gemfile', 'requirements', 'dpkg') and len(t) > 1 and len(t[1]) >= 2 * 65536:
        try:
            data = bytes.fromhex(t[1])
        except ValueError:
            data = b''
        if any(len(l) >= 65536 for l in data.split(b'\n')):
            # class predicate: the file holds a line of 65 536 bytes or more (bufio.Scanner's default token limit). Two behaviours:
            # the whole file fails (an error the caller sees, every package lost), or the parse ends silently at that line (no error, fewer packages)
            return 'C03/line-over-64KiB-fails-the-file' if fi.get('pk') == 'err' else 'C03/line-over-64KiB-silently-ends-the-parse'
    return None


def run(ctx):
    ctx.trusted = ['Lean 4.33.0 kernel', 'axioms: propext, Quot.sound, Classical.choice at most (see theorems.*.axioms)',
                   'encoding/json, BurntSushi/toml, golang.org/x/mod/modfile, net/url + regexp inside commitextractor (decoded document / per-entry table)',
                   'harness/cmd/c03gen (generators, encoders, ScanInput construction) + lean/Drivers/C03.lean line protocol', 'Lean compiler for the driver executable',
                   'overlay shims harness/overlay/extractor/filesystem/language/*/verif_export_c03.go print the document exactly as the extractor decodes it']
    ctx.assumptions = ['bytes are List Char under the Latin-1 embedding (every model function is byte-level)',
                       'lines stay below bufio.Scanner\'s 64 KiB token limit in WF (the limit itself is modelled and exercised by the malformed stream)',
                       'requirements.txt: format `requirements` scans ONE file with an empty FS (no include can be opened); format `reqtree` scans the top-level file of a generated file system '
                       '(fstest.MapFS) and compares name, version AND Locations; only the `-r` spelling is an include for the extractor (`--requirement`, `-c`, `--constraint` lines are skipped as '
                       '"global options other than -r": model = implementation, reported as an observation); environment-variable lines are ignored by design',
                       'reqtree path arithmetic: the Lean `resolve` (filepath.Join(filepath.Dir(including), operand) on slash paths, incl. Clean) is validated against the Go functions by the stream, odd operands included; '
                       'the generator computes its expected closure with package `path`, the Lean Spec checks the generator\'s list of reachable files as a certificate (`isReachCert`, theorem reachCert_iff) instead of trusting it',
                       'go.mod: the go.sum branch (go / toolchain older than 1.17) is modelled at the level of the fields of the go.sum lines (GoMod.extractWithSum); WHETHER a version is older than 1.17 is go/version.Compare, evaluated by the harness and passed to the model',
                       'dpkg: usr/lib/opkg/status is read like var/lib/dpkg/status (same cases, another path); var/lib/dpkg/status.d/<name> has its own model (Dpkg.parseD: stanzas without Status count, a reader error yields no packages) tied by the stream only, format dpkgd',
                       'a Gemfile.lock line of 64 KiB or more silently ends the file (scanner.Err() is never checked after the loop): outside the WF of theorem C03_gemfile; judged by the long-line layouts (known findings C03/line-over-64KiB-*)',
                       'go.mod: model and specification both follow the go command\'s rule since fix 22707b48 (wildcard directives matched against the module as required, version-specific ones win; GoMod.goFinal / expectedGo is the independent statement, GoMod.ordered / step the extractor\'s loop; no theorem ties the two, the stream observes model = implementation = specification); files with conflicting directives (same left side, different right sides: an error of the go command, GoMod.consistent) are not judged']
    ctx.rule = ('case = one generated file of one of the twelve formats: abstract package set (0..40 records, ecosystem-legal alphabets) x layout (record order, LF/CRLF/mixed, final newline, '
                'blank lines, comments, unrelated fields, white space, key order / indentation for JSON and TOML), serialised by the harness\'s own encoders and read by the real Extract; '
                'format reqtree: a file system of 1..9 requirements files that include each other (chains of depth 1..4 through sub-directories and ../, several routes, cycles, self-includes, missing targets, '
                'same-named decoy files next to the top-level file, -r / --requirement / -c spellings), scanned through the top-level file; '
                'go.mod replace directives: version-specific, wildcard, to a version the file does not require, BOTH kinds for the same module in both orders, a directive whose right side is the left side of another (chains, through a wildcard and through a version-specific first directive), a version-specific pin to the same path followed by a wildcard; the expected list follows the go command\'s rule (Spec GoMod.goFinal: exact (path, version) directive, else wildcard directive, else as required; looked up once, never chained), computed by the Lean Spec independently of the extractor\'s loop; '
                'entries that name no package, in the QUICK tier too: package-lock v1 `"": {…}` and an alias without a target (`"version": "npm:"`) — what is nested below such an entry IS listed —, Pipfile.lock and packages.lock.json entries under an empty key (fixes 4dbc0083, ed6d851c, 94fb6b98: skipped; the Lean models and `expected` say the same); '
                'every fifth VERSION string of every format is an edge of what the format allows: one character (a digit; a letter for gems, npm, gradle), two characters, or a long one (go.mod excepted: modfile accepts only vX.Y.Z, its single-digit components were generated already); '
                'every sixth case of apk / gradle / Gemfile.lock / requirements.txt carries one more line a reader must pass over (comment, apk D: field, a platform entry) of 65 534, 65 535, 65 536 or 70 000 bytes — around bufio.Scanner\'s token limit — or (Gemfile.lock) a platform twin of a gem (`name (1.2.3-x86_64-linux)`); these are judged against the generator\'s list (src=gen: the Lean WF assumes short lines); '
                'plus for the five line formats a malformed stream (line soups, truncations, swapped delimiters, odd bytes, lines around 64 KiB) with expected = ?; thorough adds every layout '
                'of every ordered subset of a 3-record set. non-trivial = a well-formed case listing >= 2 packages; distinct = distinct case lines')
    ok, _ = ctx.lean_build(['Scalibr.Properties.C03', 'drv_c03'])
    proofs_ok = ctx.audit(['Scalibr.Properties.C03'], THEOREMS)
    if ctx.tier == 'thorough':
        proofs_ok = ctx.leanchecker('Scalibr.Properties.C03') and proofs_ok
    n = {'quick': 250, 'thorough': 12000}[ctx.tier]

    def nontrivial(case, fi, fm):
        t = case.split(' ')
        return len(t) >= 3 and t[2] not in ('?', '-') and t[2].count(',') >= 1

    def oracle(case, fi, fm):
        # the specification judged against the IMPLEMENTATION's answer. src=lean: spec = `installed records` computed by the Lean Spec from the
        # generator's abstract records (only where the theorem's hypotheses hold, wf=1); src=gen: the generator's own expected list.
        spec = fm.get('spec', '?')
        if spec == '?' or 'pk' not in fi:
            return None
        if fm.get('src') == 'lean' and fm.get('wf') != '1':
            return None
        if fi['pk'] != spec:
            got, want = fi['pk'], spec
            if got in ('err', 'panic'):
                return '%s: Extract returned %s on a well-formed file listing %d packages' % (case.split(' ')[0], got, len(_names(want)))
            g, w = _names(got), _names(want)
            missing = [x for x in set(w) if w.count(x) > g.count(x)]
            extra = [x for x in set(g) if g.count(x) > w.count(x)]
            return '%s: reported packages differ from the listed ones: missing %s, extra/duplicated %s' % (case.split(' ')[0], sorted(missing)[:3], sorted(extra)[:3])
        return None

    skew = []          # the Lean specification and the harness disagree about the generated file itself
    dom = {}           # format -> [cases answered from the Lean Spec with wf=1, with wf=0, cases where spec= is only the generator's echo]

    def classify(case, fi, fm):
        t = case.split(' ')
        d = dom.setdefault(t[0], [0, 0, 0])
        if fm.get('src') == 'lean':
            d[0 if fm.get('wf') == '1' else 1] += 1
            want = ','.join(sorted(t[2].split(','))) if t[2] not in ('-', '?') else t[2]
            if fm.get('same') != '1':
                skew.append((case, 'Lean `render layout records` is not the byte string the harness wrote'))
            elif fm.get('wf') == '1' and t[2] != '?' and fm.get('spec') != want:
                skew.append((case, 'Lean `installed records` (%s) differs from the generator\'s expected list (%s)' % (fm.get('spec', '')[:80], want[:80])))
        else:
            d[2] += 1
        return fi.get('cls', t[0])

    lib.standard_stream(ctx, gen='c03gen', driver='drv_c03', gen_args=['-seed', str(ctx.seed), '-n', str(n), '-tier', ctx.tier],
                        compare_keys=['pk'], nontrivial=nontrivial, oracle=oracle, classify=classify, finding_class=finding_class)
    ctx.notes.append('observations outside the well-formed generator (model and implementation agree; not counted as violations): '
                     'requirements.txt `foo>1.0` and `foo @ url` lines are dropped; '
                     'packages.lock.json `"type": "Project"` references are skipped (fix 9dc2b6de)')
    if skew:
        ctx.mismatches.extend(c for c, _ in skew)
        ctx.violation('the Lean specification and the harness disagree about generated files (%d case(s)): %s — neither is a statement about /repo; first case below' % (len(skew), skew[0][1]),
                      [skew[0][0]], found_input=False, name='spec-skew')
    ctx.extra['spec_domain'] = {f: {'spec_from_lean_wf': v[0], 'spec_from_lean_outside_WF': v[1], 'spec_from_generator_only': v[2]} for f, v in sorted(dom.items())}
    ctx.extra['definitional_not_obligations'] = DEFINITIONAL
    per = {}
    for k, v in ctx.dist.items():
        f = k.split('/')[0]
        per[f] = per.get(f, 0) + v
    ctx.extra['cases_per_format'] = per
    ctx.extra['formats_with_byte_level_roundtrip_theorem'] = ['apk', 'gradle', 'gemfile', 'dpkg', 'requirements (_partial: core grammar, no markers / per-requirement options / continuations)',
                                                              'reqtree (_partial: the same grammar per file + -r include lines; closure over a path -> content map)']
    ctx.extra['formats_with_record_loop_theorem_on_decoded_document'] = ['package-lock.json v1-v3', 'Pipfile.lock', 'packages.lock.json', 'go.mod']
    ctx.extra['formats_whose_loop_is_definitional'] = ['composer.lock', 'Cargo.lock', 'poetry.lock']
    ctx.extra['layout_clauses_rest_on_decoder'] = {
        'formats': ['package-lock.json', 'composer.lock', 'Cargo.lock', 'poetry.lock', 'Pipfile.lock', 'packages.lock.json', 'go.mod'],
        'statement': 'for these seven formats NO theorem covers a layout clause (key order, white space, indentation, CRLF, final newline, comments, unrelated fields): '
                     'they rest on the decoder (encoding/json, BurntSushi/toml, golang.org/x/mod/modfile), which is trusted and not modelled, and are exercised by the generator/oracle stream only. '
                     'The theorems start at the decoded document; for package-lock, Pipfile, packages.lock.json and go.mod the oracle list is computed by the Lean Spec (`expected`) from the document '
                     'the extractor\'s own decoder produced; for composer / Cargo / poetry (append/map loops, definitional) it is the generator\'s expected list'}
    ctx.extra['malformed_streams'] = 'the five line formats, reqtree, dpkgd AND the seven library-decoded formats (a generated file with a byte/line mutation: either the extractor\'s own decoder rejects it and Extract must fail too, or model = implementation on the decoded document)'
    ctx.extra['differential_only'] = 'byte layouts (indentation, key order, CRLF, unrelated fields) of the seven decoded formats; requirements.txt markers, hashes, continuations'
    if not proofs_ok:
        lib.proof_failed(ctx, 'Scalibr.Properties.C03')
