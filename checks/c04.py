"""C04 — Each image-up-to-layer view equals the OCI overlay of its layers (plus the layer byte-limit clause of C10)."""
import binascii
import collections
import os
import subprocess
import tempfile

from . import lib

META = {
    'level': 'proof',
    'technique': 'Lean 4 theorems (every view of the layer-scanning loader = the OCI visibility rule, all images satisfying the decidable hypothesis H; '
                 'lock-step loader = per-view fold; byte limit) + correspondence of the Lean model with image.FromV1Image on generated images',
    'design_ref': 'DESIGN.md §4 (section of C04), §5 (defects), §7 (seeded changes)',
    'text': 'Kernel-checked: for every image (any number of layers, entries, depth) and every view j, under H (each tar lists a path once and a directory before its '
            'contents, nothing beneath a whiteout or non-directory of the same tar, no opaque marker, no directory re-created over older children after its deletion, '
            'no directory implied over an older explicit entry) the view answers every path exactly as the OCI visibility rule does — kind, mode, size, content id, link '
            'target — for direct lookups, ReadDir and walks; the literal lock-step loader computes those views; the requirer only removes unneeded non-directories; no '
            'view has a file node at or above MaxFileBytes. Outside H the statement is false on the unchanged code: five decide-d counterexamples, each replayed on the '
            'implementation (KNOWN-FINDING). The model is tied to FromV1Image by comparing, per view, a full fs.WalkDir and Stat/Open of every mentioned path.',
    'note': 'Trusted: Lean kernel (axioms propext/Quot.sound/Classical.choice at most); archive/tar and go-containerregistry deliver the entries the generator wrote; '
            'path.Clean / path.Join modelled on segment lists (exercised by ./, //, /./, x/../ and absolute spellings); file content is compared through a modelled '
            'extraction directory (not part of the theorems, which speak about content ids); symlink resolution is C17; tar header parsing, gzip, mod-times not covered. '
            'An entry rejected for its size or for a link target outside the root is dropped by the loader model; the specification reads it as a whiteout of its path (Spec/OverlayRejected.lean).',
}
THEOREMS = ['Scalibr.Overlay.C04_view_partial', 'Scalibr.Overlay.C04_loader_views', 'Scalibr.Overlay.C04_loader_partial',
            'Scalibr.Overlay.C04_image_partial', 'Scalibr.Overlay.loadImage_chains',
            'Scalibr.Overlay.C04_view_nowhiteout_partial', 'Scalibr.Overlay.C04_readdir_partial', 'Scalibr.Overlay.C04_walk_partial',
            'Scalibr.Overlay.C04_required', 'Scalibr.Overlay.C04_required_view', 'Scalibr.Overlay.C04_required_unique',
            'Scalibr.Overlay.C04_required_universe', 'Scalibr.Overlay.C04_required_get', 'Scalibr.Overlay.C04_required_subset',
            'Scalibr.Overlay.C04_view_fails_recreate', 'Scalibr.Overlay.C04_view_fails_opaque', 'Scalibr.Overlay.C04_view_fails_dropped_entry',
            'Scalibr.Overlay.C04_view_fails_wh_recreate', 'Scalibr.Overlay.C04_view_fails_implicit_dir',
            'Scalibr.Overlay.C04_view_fails_duplicate', 'Scalibr.Overlay.C04_duplicate_first_wins_witness',
            'Scalibr.Overlay.C04_view_rejected_fixed', 'Scalibr.Overlay.C04_view_rejected_partial', 'Scalibr.Overlay.specEffective_eq',
            'Scalibr.Overlay.C04_witness_classes', 'Scalibr.Overlay.view_gen', 'Scalibr.Overlay.revLayer_apply', 'Scalibr.Overlay.loadCore_eq_viewOf',
            'Scalibr.Overlay.C10_layer_bytes', 'Scalibr.Overlay.C10_layer_bytes_loader', 'Scalibr.Overlay.C10_layer_bytes_final',
            'Scalibr.Overlay.C10_layer_bytes_boundary', 'Scalibr.Overlay.C10_disk_bytes', 'Scalibr.Overlay.C10_disk_bytes_load',
            'Scalibr.Overlay.C10_layer_bytes_image']

# clause of H -> key in known_findings.txt (clauses named ill-* are ill-formed tars: no claim either way)
CLASS_KEY = {
    'opaque': 'C04/opaque-whiteout',
    'wh-recreate': 'C04/same-layer-whiteout-recreate',
    'dropped-entry': 'C04/same-layer-entry-dropped',
    'recreate': 'C04/recreate-after-whiteout',
    'implicit-dir': 'C04/implicit-parent-metadata',
    'rejected-shadow': 'C04/rejected-entry-shows-older-file',
    'rejected-parents': 'C04/rejected-entry-shows-older-file',
}
PRIORITY = ['opaque', 'wh-recreate', 'dropped-entry', 'recreate', 'implicit-dir', 'rejected-shadow', 'rejected-parents']
DUP_KEY = 'C04/same-layer-duplicate-first-wins'
REQ_KEY = 'C04/squash-requirer-writes-replaced-file'
OPEN_KEY = 'C04/open-hands-out-the-shared-node'
STATS = collections.Counter()


def _items(view):
    return [] if view in ('-', '') else view.split(',')


def _view_diff(j, nv, req, iw, il, sw, sl):
    """(None, None) when the implementation's view j agrees with the specification's, else (description, kind):
    kind None            = any other difference"""
    iw, il, sw, sl = _items(iw), _items(il), _items(sw), _items(sl)
    if iw == sw and il == sl:
        return None, None
    if iw != sw:
        d = sorted(set(iw) ^ set(sw))
        return 'walk differs: ' + ','.join(d[:4]), None
    k = next(i for i, (a, b) in enumerate(zip(il, sl)) if a != b) if len(il) == len(sl) else -1
    return 'lookup #%d differs: %s vs %s' % (k, il[k] if k >= 0 else len(il), sl[k] if k >= 0 else len(sl)), None


_memo = {}


def _judge(case, fi, fm):
    """(verdict text | None, class key | None); called for the oracle and again for the class of the same row"""
    if _memo.get('case') is case:
        return _memo['res']
    res = _judge1(case, fi, fm)
    _memo['case'], _memo['res'] = case, res
    return res


def _judge1(case, fi, fm):
    t = case.split(' ')
    limit, req = int(t[1]), t[2][0]
    if fi.get('_') == 'panic':
        return 'FromV1Image or a view operation panicked', None
    if fi.get('err') != '0' or fm.get('err') != '0':
        return None, None
    if fi.get('acc', '1') != '1':
        return ('a chain layer accessor disagrees with the image: Index() is not the position, Layer().Command() is not the history entry\'s CreatedBy, '
                'Layer().IsEmpty() is not the history entry\'s EmptyLayer, or Size() is negative'), None
    for k in ('dec', 'fw', 'sz'):
        if fm.get(k) != '1':
            return 'model self-check %s failed (contradicts a proved theorem: driver/compiler fault)' % k, None
    # C10: no file at or above the limit in any view, no more than the limit on disk
    for fld in ('walk', 'look'):
        for v in fi.get(fld, '').split('|'):
            for it in _items(v):
                f = it.split(':')
                if len(f) >= 4 and f[-4] == 'f' and int(f[-2]) >= limit:
                    return 'C10_layer_bytes: a view exposes a file of size %s with MaxFileBytes=%d' % (f[-2], limit), None
    if int(fi.get('maxdisk', '0')) > limit:
        return 'C10_layer_bytes: %s bytes of one entry on disk with MaxFileBytes=%d' % (fi['maxdisk'], limit), None
    nv = int(fi['nv'])
    iw, il = fi['walk'].split('|'), fi['look'].split('|')
    sw, sl = fm['spec_walk'].split('|'), fm['spec_look'].split('|')
    wf, cls = fm['wf'], fm['cls'].split('|')
    awf, aw, al = fm.get('alt_wf', ''), fm.get('alt_walk', '').split('|'), fm.get('alt_look', '').split('|')
    if not (len(iw) == len(il) == len(sw) == len(sl) == len(wf) == len(cls) == len(awf) == len(aw) == len(al) == nv):
        return None, None          # shape mismatch: the correspondence comparison reports it
    if fm.get('dd') != '1':
        return 'model self-check dd failed: the model\'s view changes when repeated member names are left out', None
    STATS['images loaded'] += 1
    finding = None
    for j in range(nv):            # every view is judged: a finding in view j does not hide a violation in a later view
        STATS['views'] += 1
        if wf[j] == '1':
            STATS['views with H (judged strictly)'] += 1
        d, kind = _view_diff(j, nv, req, iw[j], il[j], sw[j], sl[j])
        if d is None:
            if wf[j] != '1':
                STATS['views without H that agree with the overlay anyway'] += 1
            continue
        if wf[j] == '1':
            return 'view %d is not the OCI overlay of layers 0..%d although H holds: %s' % (j, j, d), None
        failing = [c for c in cls[j].split(',') if c != '-']
        finds = [c for c in PRIORITY if c in failing]
        if finds:
            STATS['views without H that differ: known-finding class ' + CLASS_KEY[finds[0]]] += 1
            finding = finding or ('view %d is not the OCI overlay of layers 0..%d (%s; failing clauses of H: %s)' % (j, j, d, ','.join(failing)),
                                  CLASS_KEY[finds[0]])
            continue
        if 'ill-dup' in failing and awf[j] == '1':
            # a member name repeated in one tar and nothing else wrong: the loader must at least be the overlay of the tars read as "first entry counts"
            d2, _ = _view_diff(j, nv, req, iw[j], il[j], aw[j], al[j])
            if d2 is not None:
                return ('view %d is neither the OCI overlay of layers 0..%d (%s) nor the overlay of the same tars with repeated member names '
                        'read as "the first entry counts", for which H holds (%s)' % (j, j, d, d2)), None
            STATS['views without H that differ: known-finding class ' + DUP_KEY] += 1
            finding = finding or ('view %d is not the OCI overlay of layers 0..%d (%s): of the entries of one tar with the same name the first '
                                  'counts instead of the last (it is the overlay of the tars with the repeats left out)' % (j, j, d), DUP_KEY)
            continue
        # only ill-formed tars (entries below a file, an entry for the root, a whiteout below a file, a rejected oversize file followed by
        # the same name, a repeated name together with one of these): outside the quantifier, no claim — counted
        STATS['views without H that differ: skipped, no claim (ill-formed tar: %s)' % ','.join(sorted(failing))] += 1
        STATS['views without H that differ: skipped, no claim'] += 1
    sv = _squash_verdict(case, fi, wf)
    if sv[0] is not None and sv[1] is None:
        return sv
    if not (finding or sv[0]) and fi.get('twoh', '0') != '0':
        # every view agrees with the overlay when a path is read by ONE reader; two handles of one path open at once do not
        return ('two handles of one path open at the same time share one read offset: the second reader of a file (of 2 bytes or more) does not get '
                'its whole content'), None
    return finding or sv


def _clean(name):
    """path.Clean + TrimPrefix "/" as the loader does; None for names it skips"""
    out = []
    for c in name.split('/'):
        if c in ('', '.'):
            continue
        if c == '..':
            if out:
                out.pop()
            elif not name.startswith('/'):
                return None
            continue
        out.append(c)
    return out or None


# ---- what the unchanged code puts on disk: go-containerregistry's mutate.Extract (v0.19.1, mutate.go: extract, inWhiteoutDir) followed by
# unpack.unpack (three passes), for images of regular files, directories and whiteouts.  Written from those two functions, Go's
# filepath.Clean / Dir / Base / Join included; used ONLY to decide whether a difference between the squashed unpacking and the final
# view is the recorded finding C04/squash-absolute-names (and nothing else) — never to excuse a difference on its own.

def _go_clean(p):
    if p == '':
        return '.'
    rooted = p.startswith('/')
    out = []
    for c in p.split('/'):
        if c in ('', '.'):
            continue
        if c == '..':
            if out and out[-1] != '..':
                out.pop()
            elif not rooted:
                out.append('..')
            continue
        out.append(c)
    body = '/'.join(out)
    return '/' + body if rooted else (body or '.')


def _go_dir(p):
    i = p.rfind('/')
    return _go_clean(p[:i + 1])


def _go_base(p):
    if p == '':
        return '.'
    q = p.rstrip('/')
    if q == '':
        return '/'
    return q[q.rfind('/') + 1:]


def _go_join(*parts):
    parts = [x for x in parts if x != '']
    return _go_clean('/'.join(parts)) if parts else ''


def _extract_model(layers):
    """mutate.Extract: the flattened archive [(kind 'd'|'f', cleaned name, content)], newest layer first"""
    file_map, out = {}, []

    def in_whiteout_dir(f):
        while f != '':
            d = _go_dir(f)
            if f == d:
                break
            if file_map.get(d):
                return True
            f = d
        return False
    for layer in reversed(layers):
        for typ, raw, size, cid in layer:
            if typ == 'f' and raw.endswith('/'):
                typ = 'd'                       # archive/tar: a regular-file header whose name ends in "/" is a directory
            name = _go_clean(raw)
            base, dirname = _go_base(name), _go_dir(name)
            tomb = base.startswith('.wh.')
            if tomb:
                base = base[4:]
            key = name if typ == 'd' else _go_join(dirname, base)
            if key in file_map or in_whiteout_dir(key):
                continue
            file_map[key] = tomb or typ != 'd'
            if not tomb:
                out.append((typ, name, 'e' if size == 0 else 'c%dn%d' % (cid % 26, size), size))
    return out


def _unpack_model(entries, maxsize=1 << 62, required=None):
    """unpack.unpack on the flattened archive (the number of passes does not matter without links): entries larger than MaxSizeBytes
    and entries the requirer does not want (asked with dir/clean, clean and /clean; `required` = None: all) are skipped;
    {relative path: 'd' | content}, or None when it returns an error (a file where a directory is needed)"""
    disk = {}
    for _ in range(3):
        for typ, name, content, size in entries:
            if size > maxsize:
                continue
            clean = _go_clean(name)
            if clean == '..' or clean.startswith('../'):
                continue                        # isWithinDirectory(dir, Join(dir, cleanPath)) fails
            rel = tuple(c for c in clean.split('/') if c not in ('', '.'))
            if not rel or rel in disk:
                continue                        # dir itself / already unpacked (Lstat)
            if required is not None and clean not in required and _go_join('/', clean) not in required:
                continue                        # (the third spelling, dir/clean, is an absolute host path no case names)
            blocked = False
            for k in range(1, len(rel)):        # mkdirAllInside(dir, parent)
                cur = disk.get(rel[:k])
                if cur is None:
                    disk[rel[:k]] = 'd'
                elif cur != 'd':
                    blocked = True
                    break
            if blocked:
                if typ == 'f':
                    return None                 # "failed to create directory": unpack returns the error
                continue                        # directory entry: logged, skipped
            disk[rel] = 'd' if typ == 'd' else content
    return disk


def _squash_model(layers, maxsize=1 << 62, required=None):
    disk = _unpack_model(_extract_model(layers), maxsize, required)
    if disk is None:
        return None
    return sorted(binascii.hexlify('/'.join(k).encode('latin1')).decode() + ':' + v for k, v in disk.items() if v != 'd')


def _squash_verdict(case, fi, wf):
    """the squashed on-disk unpacking (unpack.UnpackSquashed of the same image) holds the regular files of the final view,
    with the same content — judged where H holds for the final view and the image has no links (the unpacker writes
    through links and drops dangling ones; C06/C17 territory) and no fifo.
    Known finding C04/squash-absolute-names: mutate.Extract matches entries across layers by filepath.Clean(name), which keeps a
    leading "/": `/p` and `p` are different names to it.  Its class: the image spells some entry names with a leading "/" and others
    without, AND the files on disk are exactly what Extract + unpack of the unchanged code produce (_squash_model).  An image whose
    names are all rooted, or all unrooted (plain, ./, //-inside, x/../ spellings are one name to Extract), is judged against the final
    view with no excuse."""
    sq = fi.get('squash')
    if sq in (None, 'na') or not wf or wf[-1] != '1':
        STATS['squash not judged: ' + ('not unpacked' if sq in (None, 'na') else 'H fails for the final view')] += 1
        return None, None
    t = case.split(' ')
    limit = int(t[1])
    required = None if t[2] == 'A' else (set() if t[2] == 'N' else set(('' if x == '-' else binascii.unhexlify(x).decode('latin1')) for x in t[2][1:].split(',') if x))
    layers = [[e.split(':') for e in (l.split(';') if l not in ('-', '') else [])] for l in (t[5].split('|') if t[5] != '~' else [])]
    if any(e[0] in 'sho' for l in layers for e in l):
        STATS['squash not judged: image has a symlink, hard link or fifo entry'] += 1
        return None, None              # links, and entry types outside the property's quantifier (mutate.Extract treats a fifo as a file)
    names = [[(e[0], binascii.unhexlify(e[1]).decode('latin1') if e[1] != '-' else '') for e in l] for l in layers]
    model = _squash_model([[(e[0], n, int(e[3]), int(e[4])) for e, (_, n) in zip(l, nl)] for l, nl in zip(layers, names)], limit, required)
    if any(e[0] == 'f' and int(e[3]) >= limit for l in layers for e in l):
        # a file at or above the limit: the loader rejects size >= MaxFileBytes, the unpacker size > MaxFileBytes (both as documented), and a
        # rejected entry leaves no node in the view: the two are not comparable; the unpacker is held to its model only
        if sq != 'err' and model is not None and _items(sq) != model:
            return 'the squashed unpacking with MaxFileBytes=%d is not what mutate.Extract + unpack of the recorded code produce: %s' % (
                limit, ','.join(sorted(set(model) ^ set(_items(sq)))[:4])), None
        STATS['squash with a file at or above the limit: held to the model of the unpacker only'] += 1
        return None, None
    rooted = [n.startswith('/') for l in names for _, n in l]
    mixed = any(rooted) and not all(rooted)
    spelling = 'mixed (some names with a leading "/", some without)' if mixed else ('all names rooted' if rooted and all(rooted) else 'no name rooted')
    last = fi['walk'].split('|')[-1]
    view = sorted(x.split(':')[0] + ':' + x.split(':')[-1] for x in _items(last) if x.split(':')[1] == 'f')
    if sq == 'err':
        # UnpackSquashed returned an error: the recorded behaviour only where the model of the unchanged code says so (a file where a
        # directory is needed in the flattened archive, which needs the two spellings of one path)
        if model is None and mixed:
            STATS['squash judged: UnpackSquashed fails as the recorded finding predicts (mixed spellings)'] += 1
            return ('UnpackSquashed fails on an image whose final view is well-formed (entry names written with and without a leading "/": the '
                    'flattened archive holds a file and entries beneath it)'), 'C04/squash-absolute-names'
        STATS['squash judged'] += 1
        return 'UnpackSquashed returned an error on an image whose final view satisfies H (%s)' % spelling, None
    got = _items(sq)
    STATS['squash judged'] += 1
    STATS['squash judged: ' + spelling] += 1
    if view:
        STATS['squash judged, final view has a regular file'] += 1
    if view == got:
        return None, None
    d = sorted(set(view) ^ set(got))
    text = 'the squashed unpacking differs from the final view in regular files: ' + ','.join(d[:4])
    odd = False
    for l in names:
        for typ, n in l:
            c = _clean(n)
            if c is None:
                odd = True             # "", ".", "..", "../x": skipped by the loader, "." is a tombstone of everything for mutate.Extract
            elif c[-1] in ('.wh.', '.wh..', '.wh...') or (typ == 'd' and c[-1].startswith('.wh.')):
                odd = True
    if mixed and not odd:
        if model == got:
            STATS['squash judged, differs: exactly the recorded C04/squash-absolute-names behaviour'] += 1
            return text + ' (entry names written with and without a leading "/"; the files on disk are what mutate.Extract + unpack of the ' \
                          'recorded code produce)', 'C04/squash-absolute-names'
        return (text + ' — and it is not the recorded C04/squash-absolute-names behaviour either: mutate.Extract + unpack of the recorded code '
                'leave %s' % (','.join(sorted(set(model or []) ^ set(got))[:4]) if model is not None else 'an error')), None
    if odd:
        if model == got:
            STATS['squash judged, differs, skipped: whiteout of "", "." or "..", or a directory named .wh.x (on-disk result as the recorded code)'] += 1
            return None, None          # whiteouts of "", "." or "..", directories named .wh.x: no claim
        return (text + ' — the image has a whiteout of "", "." or ".." or a directory named .wh.x (no claim about the view), but the files on disk '
                'are not what mutate.Extract + unpack of the recorded code leave either: %s' % (
                    ','.join(sorted(set(model or []) ^ set(got))[:4]) if model is not None else 'an error')), None
    if required is not None and model == got:
        STATS['squash judged, differs: exactly the recorded ' + REQ_KEY + ' behaviour'] += 1
        return (text + ' (%s; with a requirer the unpacker skips the newer entry that replaced or deleted the path - a directory entry, a '
                'whiteout\'s effect is kept by mutate.Extract only for entries it drops itself - and then writes the OLDER file that mutate.Extract '
                'kept in the flattened archive; and for an entry name written with a leading "/" it asks the requirer for dir/p and /p but never '
                'for p. The files on disk are exactly what the recorded code produces)' % spelling), REQ_KEY
    return text + ' (%s)' % spelling, None


def _parallel_driver(ctx, exe, cases, timeout=3600, procs=12):
    path = lib.LEAN + '/.lake/build/bin/' + exe
    if len(cases) < 4000:
        procs = 1
    n = len(cases)
    step = (n + procs - 1) // procs
    jobs = []
    for k in range(procs):
        chunk = cases[k * step:(k + 1) * step]
        if not chunk:
            continue
        fin = tempfile.TemporaryFile('w+')
        fin.write('\n'.join(chunk) + '\n')
        fin.seek(0)
        fout = tempfile.TemporaryFile('w+')
        jobs.append((subprocess.Popen([path], stdin=fin, stdout=fout, stderr=subprocess.PIPE, text=True), fin, fout, len(chunk)))
    out = []
    for p, fin, fout, m in jobs:
        _, err = p.communicate(timeout=timeout)
        fout.seek(0)
        o = fout.read().split('\n')
        if o and o[-1] == '':
            o.pop()
        if p.returncode != 0 or len(o) != m:
            ctx.notes.append('driver %s: rc=%s replies=%d cases=%d stderr=%s' % (exe, p.returncode, len(o), m, (err or '')[-300:]))
            o = o + ['driver-died'] * (m - len(o))
        out += o[:m]
        fin.close()
        fout.close()
    return out


def run(ctx):
    ctx.trusted = ['Lean 4.33.0 kernel', 'axioms: propext, Quot.sound, Classical.choice at most (see theorems.*.axioms)',
                   'archive/tar + go-containerregistry (tarball.LayerFromOpener, mutate.Append) deliver the generated entries and history',
                   'path.Clean/Join/Dir/Base as modelled in Model/GoPath.lean (validated by the stream on ./, //, /./, x/../, absolute, .., empty names)',
                   'harness/cmd/c04gen + overlay shim VerifNodeC04 (node lookup before symlink resolution) + lean/Drivers/C04.lean line protocol',
                   'Lean compiler for the driver executable']
    ctx.assumptions = ['entries of an unsupported type are treated as absent from the tar by model and spec; an entry rejected for its size (>= MaxFileBytes) or as a link out of the root is dropped by the loader model and read as a whiteout of its path by the specification (finding C04/rejected-entry-shows-older-file where that differs)',
                       'file content is compared through a modelled extraction directory; the theorems speak about content ids carried by the nodes',
                       'symlink chains in the final view are shorter than MaxSymlinkDepth (the required-target marking depends on map iteration order beyond that)',
                       'with a requirer, the content of non-required files in non-final views is unspecified (DESIGN §5 C04 (6))',
                       'tars with duplicate member names, entries beneath a non-directory, or a whiteout listed beneath an older layer\'s file are ill-formed: no claim']
    ctx.rule = ('case = image of 1..5 layers (<= 9 entries each: directories, files, symlinks, hard links, whiteouts, opaque markers, odd names) over paths of depth <= 4 on 3 names, '
                'generated by editing a simulated file system (40%), freely (50%) or with malformed names (10%); spellings plain, ./, /, //, /./, x/../; parent-first, child-first '
                'or shuffled; history with empty layers or invalid; requirer all/none/path set; MaxFileBytes 2^20 or in {1,2,7,4096} with sizes L-1,L,L+1. thorough adds every pair of '
                'layers over {a,a/b,a/b/c,d} x {absent,dir,file,whiteout} and over {a,a/b,a/b/c,a/d,e} with a whiteout-free lower layer. '
                'non-trivial = loads, >= 2 views, last walk non-empty; distinct = distinct case lines')
    ok, _ = ctx.lean_build(['Scalibr.Properties.C04', 'Scalibr.Properties.C10Layer', 'drv_c04'])
    proofs_ok = ctx.audit(['Scalibr.Properties.C04', 'Scalibr.Properties.C10Layer'], THEOREMS)
    if ctx.tier == 'thorough':
        proofs_ok = ctx.leanchecker('Scalibr.Properties.C04') and proofs_ok
        proofs_ok = ctx.leanchecker('Scalibr.Properties.C10Layer') and proofs_ok
    n = {'quick': 8000, 'thorough': 150000}[ctx.tier]
    ctx.run_driver = lambda exe, cases, timeout=3600: _parallel_driver(ctx, exe, cases, timeout)

    def nontrivial(case, fi, fm):
        return fi.get('err') == '0' and int(fi.get('nv', '0')) >= 2 and fi.get('walk', '').rsplit('|', 1)[-1] not in ('-', '')

    def oracle(case, fi, fm):
        return _judge(case, fi, fm)[0]

    def finding_class(case, fi, fm):
        return _judge(case, fi, fm)[1]

    def classify(case, fi, fm):
        if fi.get('err') != '0':
            return 'load-error' if fi.get('err') == '1' else 'other:' + fi.get('_', '?')
        wf = fm.get('wf', '')
        return 'H=all' if wf and set(wf) == {'1'} else ('H=some' if '1' in wf else 'H=none')

    lib.standard_stream(ctx, gen='c04gen', driver='drv_c04', gen_args=['-seed', str(ctx.seed), '-n', str(n), '-tier', ctx.tier],
                        compare_keys=['err', 'nv', 'walk', 'look', 'mt'], nontrivial=nontrivial, oracle=oracle, classify=classify,
                        finding_class=finding_class, sample_every=997, strict_known=True)
    d = ctx.dist
    ctx.extra['H_split'] = ('images (load ok) whose views all satisfy H: %d; some views: %d; none: %d; load errors: %d. 25%% of the random images come from a '
                            'dedicated stream (simulated build steps, explicit parents, a deleted path never re-created) built to satisfy H in every view' % (
                                d.get('H=all', 0), d.get('H=some', 0), d.get('H=none', 0), d.get('load-error', 0)))
    ctx.extra['judged'] = dict(sorted(STATS.items()))
    ctx.extra['c10_layer_bytes'] = ('every implementation reply is also checked for: no file item of size >= MaxFileBytes in any walk/lookup, '
                                    'largest regular file below Image.ExtractDir <= MaxFileBytes (field maxdisk)')
    if not proofs_ok:
        lib.proof_failed(ctx, 'Scalibr.Properties.C04 / Scalibr.Properties.C10Layer')
