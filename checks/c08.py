"""C08 — Scan results depend only on content, not on enumeration order or root count."""
from . import lib, walkcommon as W

META = {
    'level': 'proof',
    'technique': 'Lean 4 theorems (findings and plugin statuses emitted in the documented field-by-field order, a permutation of the collected ones; owed calls invariant under arbitrary rearrangement of every directory; sorted key sequence identical; CmpPackages strict total order; roots = concatenation) + '
                 'correspondence under permuted ReadDir orders and 1-3 roots',
    'design_ref': 'DESIGN.md §4 (section of C08), §5 (defects), §7 (seeded changes)',
    'text': 'Kernel-checked: for arbitrary rearrangements of every directory listing the specification owes the same calls as a multiset, the scans\' package lists are permutations and '
            'the emitted sorted key sequences are identical; output is always sorted; the 4-key comparison is a strict total order (SortFunc precondition); scanning several roots is the '
            'concatenation of scanning each alone. Tied to the Go engine by scanning each generated tree under 5 listing orders (random x3, sorted, reverse) and comparing the results.',
    'note': 'Findings of the FILESYSTEM extractors: the walk model carries finding identities (id, extractor, file); C08_perm_scan_roots_partial / _paths_partial conclude that the collected findings of a tree and of any rearrangement of it are permutations of each other, the implementation prints its emitted findings (fnd=) which are tied to the model, judged against the specification (specfnd) and are part of the permutation-group signature. Trusted as in C01. Go map iteration inside the engine (wc.errors / foundInv are maps keyed by name: order never observable) is sampled, not enumerated. Read faults are excluded '
            'from the permutation theorem (the position of a failing k-th read is itself order dependent).',
}
THEOREMS = ['Scalibr.Walk.C08_cmp_order', 'Scalibr.Walk.C08_sorted', 'Scalibr.Walk.C08_perm_spec_partial', 'Scalibr.Walk.C08_perm_scan_partial', 'Scalibr.Walk.C08_roots_benign',
            'Scalibr.Walk.mustFrom_permute', 'Scalibr.isort_eq_of_perm', 'Scalibr.ltBytes_strictTotal', 'Scalibr.prodLt_strictTotal',
            'Scalibr.Walk.C08_perm_scan_roots_partial', 'Scalibr.Walk.C08_perm_scan_paths_partial', 'Scalibr.Walk.C08_perm_needs_noReadFaults',
            'Scalibr.Walk.C08_perm_paths_needs_distinct', 'Scalibr.Walk.C08_no_dup_partial', 'Scalibr.Walk.C08_no_dup_calls', 'Scalibr.Walk.C08_finds_of_calls',
            'Scalibr.Walk.run_finds_spec']


def run(ctx):
    ctx.trusted, ctx.assumptions, ctx.rule = W.TRUSTED, W.ASSUME, W.RULE
    ctx.lean_build(['Scalibr.Properties.C08', 'drv_walk'])
    ok = ctx.audit(['Scalibr.Properties.C08'], THEOREMS)
    if ctx.tier == 'thorough':
        ok = ctx.leanchecker('Scalibr.Properties.C08') and ok
    n = {'quick': 1500, 'thorough': 40000}[ctx.tier] * W.scale(ctx)
    groups = {}

    def oracle(case, fi, fm):
        v = W.oracle_calls(case, fi, fm) or W.oracle_fatal(case, fi, fm) or W.oracle_machine(case, fi, fm)
        if v:
            return v
        # sortedness of the implementation's output by the documented keys (name, version, extractor, location)
        pk = W.fl(fi.get('pkgs'))

        def key(p):
            i, e, loc = p.split('@')
            locs = [bytes.fromhex(s) if s != '-' else b'' for s in loc.split('+')]
            return (('n%d' % (int(i) // 3)).encode(), ('v%d' % (int(i) % 3)).encode(), ('e' + e).encode(), b'[' + b' '.join(locs) + b']', locs != sorted(locs))
        ks = [key(p) for p in pk]
        if any(k[4] for k in ks):
            return 'a package is reported with unsorted locations: %s' % pk[:6]
        if ks != sorted(ks):
            return 'packages are not emitted in CmpPackages order: %s' % pk[:6]
        st = fi.get('st', '-')
        names = [x.split('=')[0] for x in st.split(',')] if st != '-' else []
        if names != sorted(names):
            return 'plugin statuses are not sorted by name: %s' % st
        # findings of the filesystem extractors: emitted sorted by advisory reference ("F-<extractor>-<path>", bytewise)
        refs = [b'F-' + x.split('@')[0].encode() + b'-' + b'/'.join(bytes.fromhex(s) for s in x.split('@')[1].split('/') if s != '.') for x in W.fl(fi.get('fnd'))]
        if fi.get('fnd') not in ('!bad',) and refs != sorted(refs):
            return 'findings of the filesystem extractors are not emitted in reference order: %s' % W.fl(fi.get('fnd'))[:6]
        if fi.get('fnd') == '!bad':
            return 'a finding of a filesystem extractor was emitted with an unexpected shape'
        g = fi.get('grp')
        if g is not None:
            # a failing scan (fatal filesystem error, inode limit) stops at a listing-order dependent point: its error class and visited count
            # must not depend on the order, its partial attempt log may
            ok_scan = fi.get('err') == 'none'
            sig = (fi.get('err'), fi.get('pkgs'), st, tuple(sorted(W.fl(fi.get('calls')))) if ok_scan else (), fi.get('fnd'),
                   fi.get('vis') if (ok_scan or fi.get('err') == 'maxinodes') else None)
            if g in groups and groups[g][0] != sig:
                return 'the same content under another listing order gave a different result: %s vs %s (first order: %s)' % (sig[:3], groups[g][0][:3], groups[g][1][:200])
            groups.setdefault(g, (sig, case))
        return None
    W.run_stream(ctx, 'perm', n, oracle)
    ctx.extra['order_groups'] = len(groups)
    # ---- the clause "packages, FINDINGS and STATUSES are emitted in the documented sorted order" for findings and for the
    # statuses of standalone extractors / detectors: theorems in Properties/C08Findings.lean (model of the tail of Scan),
    # tied to the real scalibr.Scan through the scan harness of C20 (findings and statuses read in emitted order)
    from . import c20
    ok = ctx.audit(['Scalibr.Properties.C08', c20.ORDER_MODULE], THEOREMS + c20.ORDER_THEOREMS) and ok
    if ctx.tier == 'thorough':
        ok = ctx.leanchecker(c20.ORDER_MODULE) and ok
    c20.run_findings_order(ctx)
    if not ok:
        lib.proof_failed(ctx, 'Scalibr.Properties.C08 / Scalibr.Properties.C08Findings')
