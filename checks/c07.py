"""C07 — Ecosystem version comparison is total, consistent and a valid ordering."""
import hashlib
import re
import os
import subprocess
from concurrent.futures import ProcessPoolExecutor

from . import lib

META = {
    'level': 'proof',
    'technique': 'Lean 4 theorems over executable models of all ten comparator families of /repo/semantic (no crash, reflexivity, exact antisymmetry on ALL strings; '
                 'total preorder on all parsed values or on the stated subset; semver.org §11 agreement) + sharded correspondence of the models with '
                 'semantic.Parse/CompareStr on pairs and triples, with the order laws and the semver.org verdict evaluated on the implementation\'s own answers as oracle',
    'design_ref': 'DESIGN.md §4 (section of C07), §5 (defects), §7 (seeded changes)',
    'text': 'Kernel-checked, for every family (semver-like, NuGet, CRAN, Debian/Ubuntu, RubyGems, Red Hat, Packagist, PyPI, Alpine, Maven) and ALL strings: Parse+CompareStr never '
            'crashes. What that means: for PyPI, Alpine and Maven the models have explicit crash branches (Alpine original[0], PyPI pre.letter[0], Maven token indexing and trim loop); '
            'for semver-like, NuGet, CRAN, RubyGems, Red Hat, Packagist and Debian the FAMILIES run Go-shaped functions written with failing index/slice primitives (goIndex, goSlice, goFetch; '
            'none = run-time panic = crash of the family) at every site where the Go code indexes or slices — utilities.go:39 fetch slice[i], version.go components.Fetch, '
            'version-semver-like.go:43 Components[:max]/[max:], version-semver.go:29 parts[0] and :75 a[i]/b[i], version-rubygems.go:70 segs[i], segs[:max(i,0)], version-redhat.go:120 a[ai] and '
            'the guarded a[ai] of the trim/tilde/caret tests, version-packagist.go:79-113 a[i], a[len(b)], a[len(b):], version-debian.go:35-85 s[:i], s[i+1:], str[:i], str[i:], char[0] — and '
            'C07_go_sites_in_range proves that every one of them is in range on every input (each Go-shaped function = some of its index-free reformulation; the guards make the failing branch '
            'unreachable; the fuel of the Go-shaped Packagist recursion and removeZeros loop is adequate), so C07_<f>_total does real work there (positions are characters, not bytes: the '
            'separators and digits the code searches for are ASCII). Further: an accepted version compares equal to itself; when both are accepted the '
            'comparison does not fail and a?b is the exact negation of b?a. Transitivity (total preorder, equality an equivalence) is proved on ALL accepted strings for semver-like, '
            'NuGet, CRAN, Debian/Ubuntu, RubyGems, Red Hat (loops shown equal to padded comparison of per-string token lists) and PyPI; for Packagist on versions without the internal '
            '"#" marker (decided counterexample 1.5 = 1.# = 1.7; "#" is not part of the ecosystem grammar); for Alpine on valid versions whose later components have no leading zero '
            '(unrestricted statement refuted by the decided witness 1.0 = 1 = 1.00, 1.0 < 1.00 — known finding C07/alpine-leading-zero-padding); for Maven on versions whose token '
            'list is canonical: first number, dot-numbers, then only dash-prefixed qualifiers/numbers, N(.N)*(-qualifier|-N)* (unrestricted statement refuted by the decided witness '
            '1 < 1.foo < 1rc, 1 > 1rc — known finding C07/maven-qualifier-cycle). Published rules: for seven ecosystem families an INDEPENDENT specification is written from the documentation (Spec/Semantic/*.lean: structured version V, '
            'canonical text render, ordering specCmp; the spec files import none of the models) and the agreement model-compare(render a, render b) = specCmp a b is proved for ALL '
            'well-formed V by induction over the segment lists: semver.org §11 (C07_semver_spec), deb-version(7) for Debian/Ubuntu (C07_debian_spec: epoch, upstream, revision, '
            'alternating non-digit/digit runs, letters before non-letters, ~ before everything even the end, missing revision = 0), PEP 440 for PyPI (C07_pypi_spec: epoch, '
            'zero-padded release, .devN < aN < bN < rcN < none < .postN, local labels; the proof runs the model of the backtracking PEP 440 regexp on the normalised text), '
            'Gem::Version for RubyGems (C07_rubygems_spec: canonical segments, strings below numbers, missing = 0), the NuGet documentation (C07_nuget_spec: SemVer 2 + legacy '
            'revision, case-insensitive labels, metadata ignored), R package_version for CRAN (C07_cran_spec: lexicographic integer sequences) and the rpm version comparison for Red Hat '
            '(C07_redhat_spec: digit/letter segments, ~ before everything even the end, ^ after the end but before any other continuation, numbers as integers and above letters, '
            'present release above absent; needs the lemma that comparing zero-stripped decimal strings by length then as strings is numeric comparison). The driver prints the spec verdict '
            'for every pair that reads as canonical and the oracle compares the IMPLEMENTATION with it (about a quarter to a half of the generated pairs of these families, see '
            'coverage.spec_oracle_pairs), so a changed ordering rule becomes a concrete failing input even when all order laws still hold. Canonical classes: Debian without ":" in the '
            'upstream part; RubyGems numerals without leading zeros (outside it the code deviates from Ruby: 1.1.0.rc < 1.1.00.rc although Ruby reads 00 as 0 — reported as a defect '
            'candidate, not part of the canonical clause); the Debian/PyPI/NuGet/CRAN readers accept leading zeros because the rules compare values. '
            'Alpine, SUFFIX RULE ONLY (C07_alpine_suffix_spec, Spec/Semantic/Alpine.lean, written from the documented list alpha < beta < pre < rc < (no suffix) < cvs < svn < git < hg < p, '
            'number after the suffix breaks ties with a missing number = 0, sequences compared position by position with "no suffix" as the padding element): proved for every pair of versions '
            'digits(.digits)*[a-z]?(_suffix[number])*(~hex)?(-rN)? that agree on digits (as written, leading zeros allowed), letter, hash and revision and differ in their suffix sequences only; the driver prints '
            'the verdict for exactly such pairs (both read by ApkSpec.specParse, sameBase) and the oracle compares the implementation with it. How numeric components, letters and revisions of '
            'different bases compare is NOT specified (the numeric-component rule stays outside because of the recorded finding C07/alpine-leading-zero-padding). This oracle is what reports the '
            'padding-weight defect of fetchSuffix (1.0_cvs = 1.0 instead of >) as a failing pair; the model mirrors the repaired code (padding weight 4). '
            'NOT DISCHARGED / not formalised: the remaining published rules of Alpine, and those of Packagist and Maven; that the readers of the oracle invert render is proved for semver, Debian, RubyGems and CRAN '
            '(C07_semver_specParse_render, C07_spec_readers) and checked on examples only for the NuGet, PyPI, Red Hat and Alpine-suffix readers. '
            'ECOSYSTEM NAMES: Spec/Semantic/Ecosystems.lean carries the specification\'s OWN table of the 16 supported names and the rule each follows (from the property text / the '
            'ecosystems\' documentation, not from parse.go) and documented example orderings per rule; C07_dispatch_table proves that the switch of semantic.Parse (model) is exactly that table for ALL '
            'strings, C07_witnesses_hold that the examples hold, C07_witnesses_discriminate that for every rule and every OTHER rule at least one example comes out differently (so a name routed to a '
            'different comparator cannot satisfy its examples). The stream runs every name of the table and ~40 near-miss spellings (case variants, versioned names such as Debian:11, other OSV '
            'ecosystems) against all example pairs in both tiers; the driver prints sup= (documented or not), spec= under the DOCUMENTED rule of the name and wit= for the name\'s own examples, and the oracle '
            'reports a documented name that is rejected, an undocumented one that is accepted, and an example or published-rule verdict the implementation does not give. MustParse is run on both strings of '
            'every pair (mp=): it must return exactly when Parse does (a version that compares like Parse\'s) and panic with Parse\'s error otherwise. '
            'KNOWN FINDINGS are filed narrowly: only a transitivity verdict, on a triple with a member outside the proved domain (driver flag kf) that ALSO has the recorded shape (Alpine: '
            'leading zero in a later component; Maven: a qualifier introduced by "."), and only when the implementation answers exactly as the model on that row; every other verdict on such a '
            'triple is reported as a violation (coverage.known_class_rows counts the filed rows). '
            'Fuel: Debian, Red Hat, Packagist fuel is eliminated in the proofs; Maven trimLoop/walkDown exhaustion is a panic outcome of the model and is excluded by C07_maven_total; '
            'for the Alpine number-prefix / suffix finder and the PyPI legacy splitter / regexp star C07_fuel_adequate shows that any fuel above the argument length gives the same result '
            '(not proved: that the star inside the PEP 440 recogniser is only applied to suffixes of the input in general; on normalised texts C07_pypi_spec covers it).',
    'note': 'Trusted: Lean kernel; axioms propext/Quot.sound/Classical.choice at most; big.Int.SetString on a non-empty ASCII digit string succeeds; strings.Compare on valid UTF-8 = code point order; '
            'strings.ToLower modelled on the generator alphabet; Go regexp leftmost-first semantics as transcribed in the recognisers; the Go harness and line protocol.',
}

P = 'Scalibr.Semantic.'
FAMS = ['semver', 'nuget', 'cran', 'debian', 'rubygems', 'redhat', 'packagist', 'pypi', 'alpine', 'maven']
THEOREMS = ([P + 'C07_%s_total' % f for f in FAMS] + [P + 'C07_%s_refl' % f for f in FAMS] + [P + 'C07_%s_antisymm' % f for f in FAMS] +
            [P + 'C07_%s_trans' % f for f in ['semver', 'nuget', 'cran', 'debian', 'rubygems', 'redhat', 'pypi']] +
            [P + 'C07_packagist_trans_partial', P + 'C07_packagist_trans_fails', P + 'C07_alpine_trans_partial', P + 'C07_alpine_trans_fails',
             P + 'C07_maven_trans_partial', P + 'C07_maven_trans_fails', P + 'C07_all_total', P + 'C07_all_refl', P + 'C07_all_antisymm', P + 'C07_eco_total', P + 'C07_unsupported',
             P + 'C07_semver_spec', P + 'C07_debian_spec', P + 'C07_pypi_spec', P + 'C07_rubygems_spec', P + 'C07_nuget_spec', P + 'C07_cran_spec', P + 'C07_redhat_spec', P + 'C07_alpine_suffix_spec', P + 'C07_spec_readers', P + 'C07_semver_hyphen_identifier', P + 'C07_semver_specParse_render', P + 'C07_fuel_adequate', P + 'C07_cran_nonnumeric', P + 'C07_packagist_long_number',
             P + 'C07_dispatch_table', P + 'C07_witnesses_hold', P + 'C07_witnesses_discriminate', P + 'C07_go_sites_in_range', P + 'C07_grammar_accepted', P + 'C07_preorder', P + 'C07_total_preorder_on', P + 'C07_rank_exists', P + 'C07_total_preorder_on_accepted', P + 'C07_maven_no_rank'] +
            [P + 'C07_%s_render_accepted' % f for f in ['semver', 'nuget', 'cran', 'debian', 'rubygems', 'redhat', 'pypi']])

ECO_FAM = {'npm': 'semver', 'crates.io': 'semver', 'Go': 'semver', 'Hex': 'semver', 'Pub': 'semver', 'ConanCenter': 'semver', 'NuGet': 'nuget', 'CRAN': 'cran',
           'Debian': 'debian', 'Ubuntu': 'debian', 'RubyGems': 'rubygems', 'Red_Hat': 'redhat', 'Packagist': 'packagist', 'PyPI': 'pypi', 'Alpine': 'alpine', 'Maven': 'maven'}
KEYS = ['r', 'rr', 'ra', 'rb', 'acc', 'mp', 'ab', 'bc', 'ac', 'ba', 'cb', 'ca']
FLIP = {'lt': 'gt', 'gt': 'lt', 'eq': 'eq'}
RULES = {'semver': 'semver.org §11', 'debian': 'deb-version(7)', 'pypi': 'PEP 440', 'rubygems': 'Gem::Version', 'nuget': 'NuGet docs / SemVer 2', 'cran': 'R package_version', 'redhat': 'rpm-version(7) / rpmvercmp',
         'alpine': 'documented Alpine suffix order alpha<beta<pre<rc<(none)<cvs<svn<git<hg<p on versions that differ in their suffixes only'}
KNOWN = {'alpine': 'C07/alpine-leading-zero-padding', 'maven': 'C07/maven-qualifier-cycle'}


def oracle(case, fi, fm):
    """The order laws evaluated on the IMPLEMENTATION's answers (gv = Spec.Semantic.acceptedByCode: accepted by the code's parser, Packagist without '#', Alpine not invalid — a superset of the published grammar, on which transitivity is judged)."""
    t = case.split(' ')
    res = [fi.get(k) for k in ('r', 'rr', 'ra', 'rb', 'ab', 'bc', 'ac', 'ba', 'cb', 'ca') if k in fi]
    if 'panic' in res or fi.get('_') == 'panic':
        return 'Parse/CompareStr panicked (%s)' % ' '.join('%s=%s' % kv for kv in fi.items())
    acc = fi.get('acc', '')
    if t[0] == 'cmp':
        # the specification's own ecosystem table (Spec/Semantic/Ecosystems.lean): a documented name must be supported, any other must not
        if fm.get('sup') == '1' and 'unsup' in res:
            return 'ecosystem %s is a documented ecosystem (property text) but Parse answers ErrUnsupportedEcosystem' % t[1]
        if fm.get('sup') == '0' and any(x != 'unsup' for x in res):
            return 'ecosystem name %r is not a documented ecosystem but Parse accepts it (%s)' % (t[1], ' '.join('%s=%s' % kv for kv in fi.items()))
        # MustParse returns exactly when Parse does, and panics with Parse's error otherwise
        mp = fi.get('mp', '')
        if 'p' in mp or 'x' in mp:
            return 'MustParse disagrees with Parse or panics with a non-error value (mp=%s acc=%s)' % (mp, acc)
        if len(mp) == 2 and len(acc) == 2 and fm.get('sup') == '1':
            for i in (0, 1):
                if (acc[i] == '1') != (mp[i] == 'k'):
                    return 'MustParse does not mirror Parse: acc=%s mp=%s' % (acc, mp)
        if len(mp) == 2 and fm.get('sup') == '0' and mp != 'uu':
            return 'MustParse on an unsupported ecosystem does not panic with ErrUnsupportedEcosystem (mp=%s)' % mp
        if 'wit' in fm and fi.get('r') != fm['wit']:
            return 'documented example of ecosystem %s: the documentation orders this pair %s, the implementation answers %s' % (t[1], fm['wit'], fi.get('r'))
        if len(acc) != 2:
            return None
        if acc[0] == '1' and fi.get('ra') != 'eq':
            return 'reflexivity: accepted version a compares %s to itself' % fi.get('ra')
        if acc[1] == '1' and fi.get('rb') != 'eq':
            return 'reflexivity: accepted version b compares %s to itself' % fi.get('rb')
        if acc == '11':
            r, rr = fi.get('r'), fi.get('rr')
            if r not in FLIP or rr not in FLIP:
                return 'both versions are accepted but the comparison fails (a?b=%s, b?a=%s)' % (r, rr)
            if FLIP[r] != rr:
                return 'antisymmetry: a?b=%s but b?a=%s' % (r, rr)
        if 'spec' in fm and fi.get('r') != fm['spec']:
            return 'published rule (%s): the ecosystem\'s documented ordering of these canonical versions is %s, the implementation answers %s' % (
                RULES.get(ECO_FAM.get(t[1]), '?'), fm['spec'], fi.get('r'))
        return None
    if t[0] == 'tri':
        if acc != '111' or fm.get('gv') != '111':
            return None
        rel = {('a', 'b'): fi.get('ab'), ('b', 'c'): fi.get('bc'), ('a', 'c'): fi.get('ac'),
               ('b', 'a'): fi.get('ba'), ('c', 'b'): fi.get('cb'), ('c', 'a'): fi.get('ca')}
        if any(v is not None and v not in FLIP for v in rel.values()):
            return 'accepted versions but a comparison fails (%s)' % ' '.join('%s%s=%s' % (k[0], k[1], v) for k, v in rel.items())
        # every ordering (p, q, r) of the triple whose three comparisons were reported
        for p_, q_, r_ in (('a', 'b', 'c'), ('a', 'c', 'b'), ('b', 'a', 'c'), ('b', 'c', 'a'), ('c', 'a', 'b'), ('c', 'b', 'a')):
            pq, qr, pr = rel[(p_, q_)], rel[(q_, r_)], rel[(p_, r_)]
            if pq is None or qr is None or pr is None:
                continue
            if pq in ('lt', 'eq') and qr in ('lt', 'eq'):
                want = 'eq' if (pq == 'eq' and qr == 'eq') else 'lt'
                if pr != want:
                    return 'transitivity: %s?%s=%s, %s?%s=%s but %s?%s=%s (expected %s)' % (p_, q_, pq, q_, r_, qr, p_, r_, pr, want)
        for (x, y) in (('a', 'b'), ('b', 'c'), ('a', 'c')):
            if rel[(y, x)] is not None and rel[(x, y)] in FLIP and FLIP[rel[(x, y)]] != rel[(y, x)]:
                return 'antisymmetry: %s?%s=%s but %s?%s=%s' % (x, y, rel[(x, y)], y, x, rel[(y, x)])
    return None


# the recorded shape of each known finding, on the version STRING (the driver's kf flag says that the member is outside
# the domain of the family's `_trans_partial` theorem; the shape narrows that to what the finding documents)
KNOWN_SHAPE = {'alpine': re.compile(r'\.0[0-9]'),         # a later numeric component with a leading zero
               'maven': re.compile(r'\.[^0-9.\-]')}        # a qualifier introduced by '.' (the cycle 1 < 1.foo < 1rc, 1 > 1rc)


def finding_class(case, fi, fm, verdict=None, agree=True):
    """class predicates of the two known findings. A verdict is filed under a known finding only if ALL of:
    (1) it is a transitivity verdict on a triple (reflexivity, antisymmetry, panics, published-rule verdicts never are);
    (2) the implementation answers exactly as the model on this row (the model reproduces the recorded defect; any other
        behaviour on a member of the class is a new defect and is reported);
    (3) some member of the triple is outside the domain of the family's `_trans_partial` theorem (kf flag from the
        driver) AND has the recorded shape (Alpine: leading zero in a later component; Maven: '.'-prefixed qualifier)."""
    t = case.split(' ')
    if t[0] != 'tri' or verdict is None or not verdict.startswith('transitivity:') or not agree:
        return None
    fam = ECO_FAM.get(t[1])
    if fam not in KNOWN:
        return None
    kf = fm.get('kf', '')
    for h, k in zip(t[2:], kf):
        if k != '1':
            continue
        try:
            sv = bytes.fromhex(h).decode('utf-8', 'replace')
        except ValueError:
            continue
        if KNOWN_SHAPE[fam].search(sv):
            return KNOWN[fam]
    return None


def nontrivial(case, fi, fm):
    t = case.split(' ')
    acc = fi.get('acc', '')
    return '0' not in acc and len(set(t[2:])) == len(t[2:])


def classify(case, fi, fm):
    t = case.split(' ')
    return '%s/%s/%s' % (ECO_FAM.get(t[1], 'unsupported'), t[0], fi.get('r', fi.get('ac')))


def _shard(args):
    """one generator process piped (via memory) through one driver process; returns an aggregate"""
    binary, gen_args, driver = args
    e = lib.goenv()
    e['GOMEMLIMIT'] = '2GiB'
    p = subprocess.run([binary] + gen_args, stdout=subprocess.PIPE, stderr=subprocess.PIPE, text=True, env=e, errors='replace')
    rows = [l.partition('\t') for l in p.stdout.split('\n') if l]
    out = {'gen_rc': p.returncode, 'gen_err': p.stderr[-600:], 'n': len(rows), 'nontrivial': set(), 'dist': {}, 'mismatch': [], 'n_mismatch': 0,
           'viol': [], 'n_viol': 0, 'known': {}, 'n_known': {}, 'samples': [], 'driver_note': '', 'spec': {}}
    cases = [r[0] for r in rows]
    model = []
    if cases:
        q = subprocess.run([driver], input='\n'.join(cases) + '\n', stdout=subprocess.PIPE, stderr=subprocess.PIPE, text=True)
        model = q.stdout.split('\n')
        if model and model[-1] == '':
            model.pop()
        if q.returncode != 0 or len(model) != len(cases):
            out['driver_note'] = 'driver rc=%d replies=%d cases=%d stderr=%s' % (q.returncode, len(model), len(cases), q.stderr[-300:])
            model += ['driver-died'] * (len(cases) - len(model))
    for i, ((case, _, impl), mod) in enumerate(zip(rows, model)):
        fi, fm = lib.fields(impl), lib.fields(mod)
        if nontrivial(case, fi, fm):
            out['nontrivial'].add(hashlib.sha1(case.encode()).digest()[:8])
        c = classify(case, fi, fm)
        out['dist'][c] = out['dist'].get(c, 0) + 1
        if 'spec' in fm:
            k = ECO_FAM.get(case.split(' ')[1], '?')
            out['spec'][k] = out['spec'].get(k, 0) + 1
        if i < 2 or (i % 50021 == 0 and len(out['samples']) < 4):
            out['samples'].append({'case': case[:600], 'impl': impl[:300], 'model': mod[:300]})
        verdict = oracle(case, fi, fm)
        agree = all(fi.get(k) == fm.get(k) for k in KEYS)
        if verdict is not None:
            key = finding_class(case, fi, fm, verdict, agree)
            if key:
                out['known'].setdefault(key, (verdict, case))
                out['n_known'][key] = out['n_known'].get(key, 0) + 1
                continue
            fam = ECO_FAM.get(case.split(' ')[1])
            if fam in KNOWN and '1' in fm.get('kf', '') and case.startswith('tri '):
                verdict += ' [a member of the triple is outside the proved domain, but this is NOT the recorded finding %s: %s]' % (
                    KNOWN[fam], 'the implementation does not behave as the model' if not agree else 'not a transitivity verdict on the recorded shape')
            out['n_viol'] += 1
            if len(out['viol']) < 3:
                out['viol'].append((verdict, case + '\t' + impl + '\t' + mod))
            if agree:
                continue
        if not agree:
            out['n_mismatch'] += 1
            if len(out['mismatch']) < 3:
                out['mismatch'].append(case + '\t' + impl + '\t' + mod)
    return out


def stream(ctx, binary, driver, jobs):
    """jobs: list of generator argument lists; run in parallel, merge into ctx in job order (deterministic)"""
    first_mismatch = None
    with ProcessPoolExecutor(max_workers=min(len(jobs), max(1, (os.cpu_count() or 2) - 2))) as ex:
        results = list(ex.map(_shard, [(binary, j, driver) for j in jobs]))
    for j, o in zip(jobs, results):
        ctx.evaluations += o['n']
        ctx.nontrivial |= o['nontrivial']
        for k, v in o['dist'].items():
            ctx.dist[k] = ctx.dist.get(k, 0) + v
        sp = ctx.extra.setdefault('spec_oracle_pairs', {})
        for k, v in o['spec'].items():
            sp[k] = sp.get(k, 0) + v
        for s in o['samples']:
            if len(ctx.samples) < 12:
                ctx.samples.append(s)
        if o['driver_note']:
            ctx.notes.append(o['driver_note'])
        if o['gen_rc'] != 0:
            ctx.notes.append('generator %s exited %d: %s' % (' '.join(j), o['gen_rc'], o['gen_err']))
            ctx.violation('generator c07gen crashed (an implementation panic outside recover, or a harness fault): ' + o['gen_err'][-300:], ['# see notes'],
                          found_input=False, name='gencrash-c07gen')
        kh = ctx.extra.setdefault('known_class_rows', {})
        for k, v in o['n_known'].items():
            kh[k] = kh.get(k, 0) + v
        for key, (verdict, case) in o['known'].items():
            if not ctx.known_finding(key, verdict):
                ctx.violation('specification violated by the implementation (class %s is not listed in known_findings.txt): %s' % (key, verdict), [case])
        for verdict, line in o['viol']:
            if sum(1 for v in ctx.violations if v[2]) < 3:
                ctx.violation('specification violated by the implementation: ' + verdict, [line])
        if o['n_viol']:
            ctx.extra['oracle_hits'] = ctx.extra.get('oracle_hits', 0) + o['n_viol']
        if o['n_mismatch']:
            ctx.mismatches += o['mismatch'] + ['(more)'] * (o['n_mismatch'] - len(o['mismatch']))
            if first_mismatch is None:
                first_mismatch = o['mismatch'][0]
    if first_mismatch is not None and not any(v[2] for v in ctx.violations):
        ctx.violation('correspondence c07gen/drv_c07 no longer checks: model and implementation differ on %d case(s); no input on which the specification fails '
                      'was found among %d cases. first diverging case below (case, impl, model)' % (len(ctx.mismatches), ctx.evaluations),
                      [first_mismatch], found_input=False, name='corr-c07gen')


def run(ctx):
    ctx.trusted = ['Lean 4.33.0 kernel', 'axioms: propext, Quot.sound, Classical.choice at most (see theorems.*.axioms)',
                   'big.Int.SetString(s, 10) = optional sign + ASCII digits, and succeeds on every non-empty ASCII digit string',
                   'strings.Compare on valid UTF-8 equals code-point-wise comparison', 'Go regexp leftmost-first / greedy semantics as transcribed in the Alpine, Packagist, Maven and PyPI recognisers',
                   'strings.ToLower / unicode.IsSpace as modelled on the generator alphabet', 'harness/cmd/c07gen + lean/Drivers/C07.lean line protocol', 'Lean compiler for the driver executable']
    ctx.assumptions = ['version strings are valid UTF-8: ASCII plus the probes é É U+0130 U+212A Σ Ж U+FF21 U+FF11 U+0662 U+00A0 U+0085 U+2003 € 😀 ß (invalid UTF-8 is outside the model)',
                       'theorems are stated over List Char (= Go strings that are valid UTF-8)',
                       'fuel: proved adequate everywhere (see C07_fuel_adequate, C07_maven_total) except that the PEP 440 star is assumed to be applied to suffixes of the input only',
                       'semver.org §11 is taken as the published rule of all six semver-like ecosystems (npm, crates.io, Go, Hex, Pub, ConanCenter)']
    ctx.rule = ('case = `cmp eco a b` (a?b, b?a, a?a, b?b, accepted flags) or `tri eco a b c` (a?b, b?c, a?c); strings come from per-family grammar-directed generators (leading zeros, 25-digit '
                'numbers, every separator, pre/post/dev/local, epochs, qualifiers), token concatenation, raw symbols, and (base, one edit of base) mutations; thorough adds every string of length '
                '<=4 over a 12-symbol alphabet per family (x 4 partners) and all ordered triples over a pool of confusable strings per family. non-trivial = all strings accepted and pairwise '
                'different; distinct = distinct case lines')
    ok, _ = ctx.lean_build(['Scalibr.Properties.C07', 'drv_c07'])
    proofs_ok = ctx.audit(['Scalibr.Properties.C07'], THEOREMS)
    if ctx.tier == 'thorough':
        proofs_ok = ctx.leanchecker('Scalibr.Properties.C07') and proofs_ok
    binary = ctx.go_build('c07gen')
    driver = lib.LEAN + '/.lake/build/bin/drv_c07'
    if binary is None:
        ctx.violation('harness c07gen does not build against /repo (tie broken): %s' % getattr(ctx, 'go_log', '')[-1500:],
                      ['# correspondence stream c07gen could not be built'], found_input=False, name='build-c07gen')
    elif not os.path.exists(driver):
        ctx.notes.append('driver drv_c07 missing (lean build failed)')
    else:
        jobs = []
        tmp = None
        if ctx.replay:
            jobs.append(['-replay', ctx.replay])
        else:
            corp = lib.corpus_lines(ctx.prop)
            if corp:
                os.makedirs(lib.VERIF + '/evidence', exist_ok=True)
                tmp = os.environ.get('TMPDIR', '/var/tmp') + '/.corpus-%s.txt' % ctx.prop
                open(tmp, 'w').write('\n'.join(corp) + '\n')
                jobs.append(['-replay', tmp])
            shards, n = {'quick': (4, 40000), 'thorough': (14, 4000000)}[ctx.tier]
            for i in range(shards):
                jobs.append(['-seed', str(ctx.seed), '-n', str(n), '-tier', ctx.tier, '-shard', str(i), '-shards', str(shards)])
        stream(ctx, binary, driver, jobs)
        if tmp and os.path.exists(tmp):
            os.remove(tmp)
        if not ctx.replay:
            for key in ctx.known:
                if key not in ctx.known_hits:
                    ctx.violation('known finding %s is listed but its witness no longer violates the property on the implementation: the model (which mirrors the defect), '
                                  'the _partial theorems and known_findings.txt must be revisited' % key, ['# corpus/C07 witness of ' + key], found_input=False, name='stale-' + key.split('/')[-1])
    ctx.extra['explanation'] = ('Order laws are proved about the Lean models for all strings; the models are tied to /repo/semantic by the sharded correspondence stream; the oracle re-evaluates '
                                'reflexivity, antisymmetry, (on triples of strings accepted by the code: gv flag) transitivity and (on canonical semver pairs) the semver.org §11 verdict on the implementation\'s own answers.')
    if not proofs_ok:
        lib.proof_failed(ctx, 'Scalibr.Properties.C07')
