"""C20 — Detectors see all extracted packages and their findings are reported intact."""
from . import lib

META = {
    'level': 'proof',
    'technique': 'Lean 4 theorems about the model of detector.Run / validateAdvisories / packageindex / the tail of Scan for ALL detector lists (detectors = arbitrary functions '
                 'of the index), finding lists and inventories + seeded/exhaustive correspondence of the model with scalibr.New().Scan driven by fake extractors and detectors',
    'design_ref': 'DESIGN.md §4 (section of C20), §5 (defects), §7 (seeded changes)',
    'text': 'Kernel-checked: every detector is called exactly once, in order, with the index of exactly the extracted packages (filesystem ++ standalone), which answers GetSpecific / '
            'GetAllOfType / GetAll as filters of that list; validateAdvisories accepts exactly the consistent finding lists; consistent advisories => the run succeeds and returns every '
            'finding tagged with its own detector, untouched otherwise — at full strength, also when detectors share finding objects (the code tags a copy since fix e8c67092); one status '
            'per detector, failed iff its Scan returned an error; inconsistent findings (unequal advisories under one ID, missing advisory / ID, a nil entry) => failed scan and no detector '
            'findings; the scan fails iff the findings are inconsistent. The sentence about inconsistent findings is read over ALL findings of a scan, those carried by an extractor\'s inventory included (validated together with the detectors\' since '
            'fix 89f87523): the emitted findings are consistent for EVERY scan and sortResults can never meet a finding without advisory (C20_emitted_consistent, C20_no_sort_panic: no hypothesis). Tie: the real Scan with 0..3 fake filesystem extractors over 1..3 in-memory roots, 0..2 fake standalone extractors and 0..4 '
            'fake detectors (constant finding lists and index-querying detectors; shared/distinct ids, equal/unequal bodies, missing advisory/id, nil entries, errors, cancellation, finding objects shared between detectors).',
    'also': 'The same stream carries two clauses of other properties, exposed as run_findings_order(ctx) (C08: findings/statuses emitted in the documented order — '
            'Properties/C08Findings.lean, ORDER_THEOREMS) and run_plugin_phases(ctx) (C10: no plugin of any phase starts after a cancellation, failure whenever work remained — '
            'Properties/C10Plugins.lean, PHASES_THEOREMS); ./check C20 runs and audits both as well.',
    'note': 'Trusted: Lean kernel; slices.SortFunc contract (a sorted permutation); reflect.DeepEqual on advisories = structural equality (no NaN scores); Go harness and line protocol. '
            'Hypothesis: no detector cancels the context (otherwise later detectors are skipped by design).',
}
NS = 'Scalibr.Detector.'
THEOREMS = [NS + t for t in [
    'C20_once_partial', 'C20_entry_live', 'C20_cancelled_at_entry', 'C20_once_prefix', 'C20_status_partial', 'C20_validate_spec', 'C20_tagged_partial', 'C20_tagged_shared_pointer', 'C20_inconsistent_partial',
    'C20_nil_finding_partial', 'C20_error_iff_partial', 'C20_run_no_nil_partial', 'C20_index_partial', 'C20_scan_status_partial', 'C20_tagged_scan_partial',
    'C20_status_scan_partial', 'C20_emitted_consistent', 'C20_inconsistent_scan_partial', 'C20_extractor_findings_validated_witness', 'C20_no_sort_panic',
    'C20_gate_runs_iff', 'C20_gate_blocked', 'C20_gate_ok', 'consistentB_iff']] + ['Scalibr.Index.' + t for t in ['new_getSpecific', 'new_getAllOfType', 'new_getAll', 'new_has', 'new_only']]


KF_IDXMUT = 'C20/getspecific-returns-internal-slice'
KF_NILCOLL = 'C20/detector-run-nil-collector-panics'
COMPARE = ['_', 'st', 'err', 'gerr', 'gcalls', 'gx', 'gn', 'calls', 'idx', 'idxsame', 'findset', 'fkeys', 'plugset', 'plugkeys', 'pk', 'mut', 'started', 'pst']

# C08, clause "findings and statuses are emitted in the documented sorted order": Properties/C08Findings.lean
ORDER_MODULE = 'Scalibr.Properties.C08Findings'
ORDER_THEOREMS = [NS + t for t in ['C08_cmp_findings', 'C08_cmp_findings_fields', 'C08_cmp_status', 'C08_findings_sorted', 'C08_findings_sorted_keys',
                                   'C08_findings_keyed', 'C08_findings_key_sequence', 'C08_findings_order_independent', 'C08_tied_findings_swap', 'C08_status_sorted', 'C08_status_name_sequence',
                                   'C08_prefix_reference_first', 'C08_concatenated_key_differs']]
# C10, clause "once cancelled … runs no further plugin, reporting failure whenever work remained": Properties/C10Plugins.lean
PHASES_MODULE = 'Scalibr.Properties.C10Plugins'
PHASES_THEOREMS = ['Scalibr.Phases.' + t for t in ['C10_plugins_one_loop', 'C10_plugins_stop', 'C10_plugins_failed_iff', 'C10_plugins_failed_without_work_left', 'C10_plugins_fail_if_work_remained',
                                                    'C10_plugins_detector_models_agree', 'C10_plugins_detector_entry', 'C10_plugins_detectors_skipped', 'C10_plugins_nocancel_status',
                                                    'C10_plugins_none_after_cancel', 'C10_plugins_failure_means_cancelled', 'C10_plugins_nocancel']]


def _unhex(h):
    if h in ('-', ''):
        return ''
    try:
        return bytes.fromhex(h).decode('utf-8', 'backslashreplace')
    except ValueError:
        return '?' + h


def _keys(s):
    return [] if s in ('-', '', None) else ['(%r, %r)' % tuple(_unhex(x) for x in k.split('/')) if '/' in k else k for k in s.split(',')]


ADV_FIELDS = []      # filled from the generator's `advfields` line: body k = the base advisory with ADV_FIELDS[k-1] different


def details(ps, fi, fm, case=''):
    """the concrete observation behind a verdict"""
    out = []
    if ('status' in ps or 'findings' in ps) and case.startswith('scan ') and ADV_FIELDS:
        import re as _re
        seen = []
        for ref, body in _re.findall(r'@\d+\.([0-9a-f-]+)\.(\d+)@', case):
            k = int(body) % (len(ADV_FIELDS) + 1)
            d = 'advisory %r = %s' % (_unhex(ref), 'the base advisory' if k == 0 else 'the base advisory except for ' + ADV_FIELDS[k - 1])
            if d not in seen:
                seen.append(d)
        out.append('advisories in this scan: ' + '; '.join(seen[:6]) + ' — scan status %s, %s finding(s) emitted' % (fi.get('st'), 0 if fi.get('findset', '-') == '-' else fi['findset'].count(',') + 1))
    if 'index-mutable' in ps:
        a, b = fi.get('idx', '').split(';'), fi.get('again', '').split(';')
        diff = ['%s: first detector saw %s, last detector sees %s' % (x.split('=')[0], x.split('=')[1], y.split('=')[1]) for x, y in zip(a, b) if x != y]
        out.append('queries that changed (A = GetAll, T<type> = GetAllOfType, S<type>:<name> = GetSpecific; package ids, 0 for an overwritten entry): ' + '; '.join(diff[:4]))
    if 'nilarg' in ps:
        out.append('entry point %s: %s' % ({'detrun': 'detector.Run(ctx, nil /* stats.Collector */, one detector, root, index)', 'detrun0': 'detector.Run with nil collector and no detectors',
                                           'detroot': 'detector.Run with a nil scan root', 'scan': 'Scan with ScanConfig.Stats nil', 'scancaps': 'Scan with ScanConfig.Capabilities nil and plugins without requirements',
                                           'fsrun': 'filesystem.Run with Config.Stats nil', 'index': 'packageindex.New(nil)', 'valadv': 'detector.ValidateAdvisories(nil)'}.get(case.split(' ')[1], case),
                                          {'panic': 'PANICS (nil pointer dereference)', 'err': 'fails'}.get(fi.get('nres'), fi.get('nres'))))
    if 'findorder' in ps:
        out.append('emitted (reference, extra) sequence %s; documented order %s' % (', '.join(_keys(fi.get('fkeys'))), ', '.join(_keys(fm.get('sfkeys')))))
    if 'statusorder' in ps:
        out.append('emitted status names %s; documented order %s' % ([_unhex(x) for x in fi.get('plugkeys', '-').split(',')], [_unhex(x) for x in fm.get('splugkeys', '-').split(',')]))
    if any(p.startswith('gate-') for p in ps) and case.startswith('cscan '):
        out.append('ScanContainer over %s — observed: status %s, reason %s, detector calls [%s], extractor calls %s, reported items %s; specification: %s' % (
            {'l': 'a one-layer image', 'd': 'a one-layer image with a preset (decoy) scan root', 'e': 'an image without layers'}.get(case.split(' ')[1]),
            fi.get('st'), fi.get('gerr'), fi.get('gcalls', fi.get('calls')), fi.get('gx', '?'), fi.get('gn', '?'),
            'the phases run' if fm.get('sgate', '-') == '-' else 'nothing runs ("no chain layers found")'))
    elif any(p.startswith('gate-') for p in ps):
        fl = case.split(' ')[1]
        out.append('preconditions: %s, %s, %s, %s — observed: status %s, reason %s, detector calls [%s], extractor calls %s, reported items %s; specification: %s' % (
            {'0': 'a detector requires an extractor that is in neither list.go', '1': 'no required extractors', '2': 'two detectors require python/wheelegg', '3': 'two detectors require the standalone windows/dismpatch'}.get(fl[0]),
            {'0': 'a standalone extractor requires Windows (capabilities: any)', '1': 'all plugin requirements met'}.get(fl[1]),
            {'0': 'no scan root', '1': 'the case\'s roots', '2': 'at least two scan roots'}.get(fl[2]), {'0': 'no PathsToExtract', '1': 'PathsToExtract set'}.get(fl[3]),
            fi.get('st'), fi.get('gerr'), fi.get('gcalls', fi.get('calls')), fi.get('gx', '?'), fi.get('gn', '?'),
            'the phases run' if fm.get('sgate', '-') == '-' else 'nothing runs, the scan fails with "%s"' % fm.get('sgate')))
    if any(p.startswith('ph-') for p in ps):
        out.append('plugins started: [%s]; the specification allows exactly: [%s]; whole schedule: [%s]; scan status: %s' % (
            fi.get('started'), fm.get('sstarted'), fm.get('sall'), fi.get('st')))
    return (' — ' + ' | '.join(out)) if out else ''


def emitted_consistent(findset):
    """whatever a scan emits must be consistent: every finding has an advisory with an ID, equal IDs carry equal bodies
    (judged on the implementation's own output: <ptr>@<pub>.<hexref>.<body>@…)"""
    seen = {}
    if findset in ('-', '', None):
        return True
    for f in findset.split(','):
        parts = f.split('@')
        if len(parts) < 2 or parts[1].count('.') != 2:
            return False                 # 'n' (no advisory), 'i<body>' (no ID), 'z' (nil)
        pub, ref, body = parts[1].split('.')
        if seen.setdefault((pub, ref), body) != body:
            return False
    return True


def phase_problems(case, fi, fm):
    """`phases` cases: the implementation's started-plugin log and overall status against the specification"""
    if 'sstarted' not in fm:
        return []
    if fi.get('_') == 'panic':
        return ['panic']
    out = []
    if fi.get('started') != fm['sstarted']:
        got, want = fi.get('started', '-').split(','), fm['sstarted'].split(',')
        out.append('ph-extra' if len([x for x in got if x != '-']) > len([x for x in want if x != '-']) else 'ph-started')
    if fm.get('sworkleft') == '1' and fi.get('st') != 'failed':
        out.append('ph-notfailed')
    if fm.get('smustfail') == '0' and fi.get('st') != 'ok':
        out.append('ph-failed')
    if fm.get('spst', '?') != '?' and fi.get('pst') != fm.get('spst'):
        out.append('ph-status')
    return out


def problems(case, fi, fm):
    """where the IMPLEMENTATION's answer leaves the specification (computed by the Lean driver from the case)"""
    if case.startswith('phases '):
        return phase_problems(case, fi, fm)
    if case.startswith('idxmut '):
        if 'sagain' not in fm:
            return []
        return ['index-mutable'] if fi.get('again') != fm['sagain'] else (['index'] if fi.get('idx') != fm['sagain'] else [])
    if case.startswith('nilarg '):
        return ['nilarg'] if fi.get('nres') != fm.get('snres', 'ok') else []
    if case.startswith(('gate ', 'cscan ')) and fm.get('sgate', '-') != '-':
        # SPEC (Spec/Detector.lean Runs / specReason): a precondition of the scan is not met -> NOTHING runs (no detector, no extractor),
        # nothing is reported, the scan fails with the first unmet condition
        if fi.get('_') == 'panic':
            return ['panic']
        out = []
        if fi.get('gcalls', '-') != '-' or fi.get('gx', '0') != '0':
            out.append('gate-ran')
        if fi.get('st') != 'failed' or fi.get('gerr') != fm['sgate']:
            out.append('gate-reason')
        if fi.get('gn', '0') != '0':
            out.append('gate-output')
        return out
    if case.startswith(('gate ', 'cscan ')) and fi.get('gerr', '-') != '-':
        return ['gate-blocked']
    if fm.get('wf') != '1' or 'sst' not in fm:
        return []          # a detector cancelled the context (remaining detectors are skipped by design) / no spec available
    if fi.get('_') == 'panic':
        return ['panic']
    out = []
    if fi.get('calls') != fm.get('scalls'):
        out.append('calls')
    if fm.get('scalls') != '-' and (fi.get('idx') != fm.get('sidx') or fi.get('idxsame') != '1'):
        out.append('index')
    # the property's sentence is about FINDINGS: the scan must fail when ANY two findings (extractor-emitted ones included)
    # disagree on an advisory or any finding lacks one
    if fi.get('st') != fm.get('sst'):          # sst = ok iff consistentB (allFindings): Spec
        out.append('status')
    elif fi.get('st') == 'failed' and fi.get('err') not in fm.get('serrs', '-').split(','):
        out.append('reason')            # the failure reason names a kind of inconsistency that is not present
    if fi.get('plugset') != fm.get('splugset'):
        out.append('statusset')
    if not emitted_consistent(fi.get('findset', '-')):
        out.append('emitted-inconsistent')
    dets = ','.join(x for x in fi.get('plug', '-').split(',') if x.startswith('det')) or '-'
    if dets != fm.get('sdet'):
        out.append('detstatus')
    if fm.get('consall', fm.get('cons')) == '1':
        if fi.get('findset') != fm.get('sfind'):
            out.append('findings')
        if fi.get('fkeys') != fm.get('sfkeys'):
            out.append('findorder')
    elif fi.get('findset') not in ('-', fm.get('sexf')):
        # inconsistent findings: nothing may be emitted but, at most, the extractors' own (consistent) findings when it was
        # the detectors' findings that detector.Run discarded
        out.append('findings')
    if fi.get('plugkeys') != fm.get('splugkeys'):
        out.append('statusorder')
    if fi.get('mut') != '0':
        out.append('mutated')
    return out


TEXT = {
    'reason': 'the failure reason reported by the scan names a kind of inconsistency that none of its findings has',
    'statusset': 'the plugin statuses are not the extractors\' statuses plus one per detector (failed iff its Scan returned an error)',
    'emitted-inconsistent': 'the scan EMITTED inconsistent findings (two with one advisory ID and different content, or one without advisory / ID)',
    'ph-status': 'without any cancellation the result must carry one status per standalone extractor and detector, failed iff the plugin returned an error',
    'ph-extra': 'a plugin was STARTED after the context had been cancelled (started-plugin log is longer than the specification allows)',
    'ph-started': 'the started-plugin log differs from "everything up to and including the cancelling iteration, in schedule order"',
    'ph-notfailed': 'plugins of the schedule were never started, yet the scan does not report failure',
    'ph-failed': 'the scan reports failure although every iteration of the schedule ran',
    'panic': 'Scan panicked',
    'index-mutable': 'a detector that overwrites the slices the index handed to it changes what the NEXT detector sees: the index is not the same for every detector of the scan',
    'nilarg': 'a public entry point of the detector phase does not work with its optional argument left nil',
    'gate-ran': 'a precondition of the scan is not met (required extractor unknown / plugin requirements unmet / no scan root / specific files with several roots), yet a detector or extractor RAN',
    'gate-reason': 'a precondition of the scan is not met: the scan must fail with the FIRST unmet condition in the order enable, requirements, roots, files',
    'gate-output': 'a scan stopped by its preconditions reports findings, packages or plugin statuses',
    'gate-blocked': 'every precondition of the scan holds (required extractors can be enabled, requirements met, one root or no specific files), yet the scan was refused',
    'calls': 'the detectors were not each called exactly once in order',
    'index': 'the index handed to the detectors is not the filter of the extracted packages',
    'status': 'overall scan status differs from "failed iff the findings of the scan (extractor-emitted ones included) are inconsistent"',
    'detstatus': 'detector status entries differ from "failed iff its Scan returned an error"',
    'findings': 'reported findings differ from the detectors\' findings tagged with their own detector (or findings were emitted although the advisories are inconsistent)',
    'findorder': 'findings are not emitted in the documented order (advisory reference, then Extra, each compared bytewise)',
    'statusorder': 'plugin statuses are not emitted in the documented order (plugin name, bytewise)',
    'mutated': 'the scan wrote into a finding object a detector (or extractor) handed out',
}


def run(ctx):
    ctx.trusted = ['Lean 4.33.0 kernel', 'axioms: propext, Quot.sound, Classical.choice at most (see theorems.*.axioms)',
                   'slices.SortFunc returns a sorted permutation (cmpFindings / cmpStatus are strict weak orders on their keys)',
                   'advisory content is modelled as one number, equal iff the advisories are deeply equal: the harness derives it from a canonical rendering (encoding/json) of the WHOLE value, '
                   'not from particular fields (no NaN CVSS scores)',
                   'harness/cmd/c20gen + lean/Drivers/C20.lean line protocol', 'Lean compiler for the driver executable']
    ctx.assumptions = ['ENTRY CONDITION of every C20 theorem and of the `scan` cases: detector.Run is entered with a live context after filesystem.Run / standalone.Run returned no error '
                       '(C20_entry_live); entered with a cancelled context no detector runs (C20_cancelled_at_entry); which entry state Scan hands over, incl. "last standalone extractor cancels", '
                       'is C10_plugins_detector_entry / C10_plugins_detectors_skipped, exercised by the `phases` cases',
                       'theorems about tagging/status/failure assume no detector cancels the scan\'s context (cancellation skips the remaining detectors by design; C20_once_prefix covers it)',
                       'findings carried by an extractor\'s inventory (no built-in extractor emits any) are not tagged; they are validated together with the detectors\' findings (fix 89f87523)',
                       'the order of packages handed to packageindex.New is the walk order (roots, files by name, extractors by configuration order): input of this model, subject of C01/C08',
                       'Extractor.ToPURL does not panic (C14)']
    ctx.rule = ('both tiers: idxmut = 60 scan cases (>= 2 detectors) whose FIRST detector overwrites every slice GetAll / GetAllOfType / GetSpecific handed to it: the last detector must still see the '
                'filter of the extracted packages; nilarg = 8 public entry points with the optional argument nil (detector.Run collector, scan root; ScanConfig.Stats / Capabilities; filesystem.Config.Stats; '
                'packageindex.New(nil); ValidateAdvisories(nil)); cscan = 40 single-root scan cases run through ScanContainer as one-layer images (with and without a preset decoy scan root, which must be overwritten; every 5th with an image '
                'without layers: nothing runs), judged by the ordinary scan oracle; gate = 12 scan cases x {a detector requires an unknown extractor | nothing required | two detectors require python/wheelegg (auto-enabled once) | they require the standalone windows/dismpatch (auto-enabled; its non-Windows build fails when run: one failed status)} x '
                '{requirements met | a plugin needs Windows} x {no root | the case\'s roots | >= 2 roots} x {PathsToExtract unset | set}: blocked => no detector and no extractor call, nothing reported, '
                'reason = first unmet condition; unblocked => the ordinary scan oracle (with the auto-enabled extractor\'s status and the two extra detectors); advisory fields = every leaf field and every nil-vs-set pointer of detector.Advisory / Severity / CVSS, enumerated by reflection (list in advisory_fields_enumerated): '
                'two findings with one advisory ID, distinct objects identical except in that ONE field, both orders, across two detectors / inside one / extractor vs detector, plus all-equal controls; '
                'order = 4 prefix-related findings dealt to 3 detectors in every way x every detector listing order (1458 scans) + 18 scans with several roots/statuses; '
                'phases = 6 schedule shapes x (no cancellation | cancelled before the scan | one canceller at every position x it returns nil/err/ctx.Err()) x the other plugins returning nil/err/ctx.Err(). '
                'random: every 5th case is a phases case. case = (0..3 fake filesystem extractors, 1..3 in-memory roots with 0..3 files each, 0..2 standalone extractors, 0..4 detectors with 0..3 findings each or an index query). '
                'thorough adds every list of <=3 entries over {2 ids x 2 bodies, no advisory, no id, nil} split over two detectors in every way x detector error. '
                'non-trivial = at least one detector ran and returned a finding or the scan failed; distinct = distinct case lines')
    ok, _ = ctx.lean_build(['Scalibr.Properties.C20', ORDER_MODULE, PHASES_MODULE, 'drv_c20'])
    proofs_ok = ctx.audit(['Scalibr.Properties.C20', ORDER_MODULE, PHASES_MODULE], THEOREMS + ORDER_THEOREMS + PHASES_THEOREMS)
    if ctx.tier == 'thorough':
        proofs_ok = ctx.leanchecker('Scalibr.Properties.C20') and proofs_ok
    n = {'quick': 8000, 'thorough': 80000}[ctx.tier]

    def nontrivial(case, fi, fm):
        return _nontrivial(case, fi, fm)

    def oracle(case, fi, fm):
        if case == 'advfields':
            ADV_FIELDS[:] = _unhex(fi.get('fields', '-')).split(',')
            ctx.extra['advisory_fields_enumerated'] = {'count': int(fi.get('n', '0') or 0), 'single_field_differences': _unhex(fi.get('fields', '-')).split(',')}
            return None
        ps = problems(case, fi, fm)
        return ('; '.join(TEXT[p] for p in ps) + details(ps, fi, fm, case)) if ps else None

    def classify(case, fi, fm):
        return _classify(case, fi, fm)

    def finding_class(case, fi, fm):
        # class predicate: the first detector saw the right index, and for the last detector every answer has the same NUMBER of entries,
        # the changed entries being overwritten ones (printed as id 0): the internal slices of GetSpecific were wiped, nothing else
        if case.startswith('idxmut ') and fi.get('idx') == fm.get('idx') and fi.get('again') != fm.get('sagain'):
            a, b = fi.get('idx', '').split(';'), fi.get('again', '').split(';')

            def wiped(x, y):
                kx, vx = x.split('=', 1)
                ky, vy = y.split('=', 1)
                ix, iy = vx.split('.'), vy.split('.')
                return kx == ky and len(ix) == len(iy) and all(p == q or q == '0' for p, q in zip(ix, iy))
            if len(a) == len(b) and all(wiped(x, y) for x, y in zip(a, b)):
                return KF_IDXMUT
        # class predicate: detector.Run itself, nil collector, at least one detector: panic
        if case == 'nilarg detrun' and fi.get('nres') == 'panic':
            return KF_NILCOLL
        return None


    lib.standard_stream(ctx, gen='c20gen', driver='drv_c20', gen_args=['-seed', str(ctx.seed), '-n', str(n), '-tier', ctx.tier],
                        compare_keys=COMPARE, nontrivial=nontrivial, oracle=oracle, classify=classify, finding_class=finding_class, sample_every=1999)
    if not ctx.replay:
        for kf in (KF_IDXMUT, KF_NILCOLL):
            if kf in ctx.known and kf not in ctx.known_hits:
                ctx.violation('known finding %s no longer reproduces: update known_findings.txt' % kf, ['# ' + kf], found_input=False, name='stale-' + kf.replace('/', '-'))
    if not proofs_ok:
        lib.proof_failed(ctx, 'Scalibr.Properties.C20')


def _nontrivial(case, fi, fm):
    if case.startswith(('idxmut ', 'nilarg ')):
        return True
    if case.startswith('phases '):
        return fm.get('sall', '-') != '-' and fm.get('sstarted') != fm.get('sall')      # a cancellation that left work out
    return fm.get('scalls', '-') != '-' and (fi.get('find', '-') != '-' or fi.get('st') == 'failed')


def _classify(case, fi, fm):
    if case.startswith('idxmut '):
        return 'idxmut ' + ('same' if fi.get('again') == fi.get('idx') else 'CHANGED')
    if case.startswith('nilarg '):
        return 'nilarg ' + str(fi.get('nres'))
    if case.startswith('phases '):
        return 'phases st=%s workleft=%s' % (fi.get('st', fi.get('_')), fm.get('sworkleft'))
    return 'st=%s err=%s nocancel=%s consistent=%s exfindings=%s' % (fi.get('st', fi.get('_')), fi.get('err'), fm.get('wf'), fm.get('cons'), fm.get('exf'))


def _borrowed(ctx, only, module, keep, n):
    """run the part `only` of the c20gen stream for another property's check (ctx.prop is that property): builds the Lean
    module + driver, replays the C20 witnesses of that kind first, judges only the problem classes in `keep`.
    The caller audits the theorems (ORDER_THEOREMS / PHASES_THEOREMS) with ctx.audit([... , module], ...)."""
    ok, _ = ctx.lean_build([module, 'drv_c20'])

    def oracle(case, fi, fm):
        ps = [p for p in problems(case, fi, fm) if p in keep]
        return ('; '.join(TEXT[p] for p in ps) + details(ps, fi, fm, case)) if ps else None
    args = ['-seed', str(ctx.seed), '-n', str(n), '-tier', 'quick', '-only', only]
    if ctx.prop != 'C20':
        args += ['-also', lib.VERIF + '/corpus/C20/witnesses.case']
    st = lib.standard_stream(ctx, gen='c20gen', driver='drv_c20', gen_args=args, compare_keys=COMPARE,
                             nontrivial=_nontrivial, oracle=oracle, classify=_classify, sample_every=499)
    return ok and st


def run_findings_order(ctx):
    """C08, clause "packages, FINDINGS and STATUSES are emitted in the documented sorted order": the real scalibr.Scan with fake
    detectors/extractors; findings and plugin statuses are read IN EMITTED ORDER and compared with the documented order (advisory
    reference, then Extra / plugin name; bytewise, field by field) computed by the Lean driver. Every scan of 4 prefix-related
    findings dealt to 3 detectors in every way x every detector listing order, plus random scans. Theorems: ORDER_THEOREMS in
    ORDER_MODULE (Properties/C08Findings.lean)."""
    return _borrowed(ctx, 'order', ORDER_MODULE, ('findorder', 'statusorder', 'findings', 'panic'), {'quick': 3000, 'thorough': 30000}[ctx.tier])


def run_plugin_phases(ctx):
    """C10, clause "once its context is cancelled [a scan] starts no extraction on any further file and runs no further plugin,
    reporting failure whenever work remained", for the plugin loops filesystem.Run -> standalone.Run -> detector.Run of Scan: fake
    plugins log their start, return nil / an error / ctx.Err() and may cancel; cancellation before the scan or inside EVERY position
    of 6 schedule shapes (>= 2 standalone extractors and >= 2 detectors among them) x return values, plus random schedules.
    Oracle: started-plugin log = specification, failure whenever a plugin was left out. Theorems: PHASES_THEOREMS in PHASES_MODULE
    (Properties/C10Plugins.lean)."""
    return _borrowed(ctx, 'phases', PHASES_MODULE, ('ph-extra', 'ph-started', 'ph-notfailed', 'ph-failed', 'ph-status', 'panic'), {'quick': 3000, 'thorough': 30000}[ctx.tier])
