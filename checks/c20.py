"""C20 — Detectors see all extracted packages and their findings are reported intact."""
from . import lib

META = {
    'level': 'proof',
    'technique': 'Lean 4 theorems about the model of detector.Run / validateAdvisories / packageindex / the tail of Scan for ALL detector lists (detectors = arbitrary functions '
                 'of the index), finding lists and inventories + seeded/exhaustive correspondence of the model with scalibr.New().Scan driven by fake extractors and detectors',
    'design_ref': 'DESIGN.md §5 C20, Appendix A.25',
    'text': 'Kernel-checked: every detector is called exactly once, in order, with the index of exactly the extracted packages (filesystem ++ standalone), which answers GetSpecific / '
            'GetAllOfType / GetAll as filters of that list; validateAdvisories accepts exactly the consistent finding lists; consistent advisories => the run succeeds and returns every '
            'finding tagged with its own detector, untouched otherwise — at full strength, also when detectors share finding objects (the code tags a copy since fix e8c67092); one status '
            'per detector, failed iff its Scan returned an error; inconsistent findings (unequal advisories under one ID, missing advisory / ID, a nil entry) => failed scan and no detector '
            'findings; the scan fails iff the findings are inconsistent. Outside the property\'s statement (it speaks of detector findings; no built-in extractor emits findings): findings '
            'carried by an EXTRACTOR\'s inventory bypass validation and tagging, and sortResults panics on >= 2 findings when one of those lacks an advisory — modelled (scanTail.panics), '
            'exercised by the stream, excluded from the oracle. Tie: the real Scan with 0..3 fake filesystem extractors over 1..3 in-memory roots, 0..2 fake standalone extractors and 0..4 '
            'fake detectors (constant finding lists and index-querying detectors; shared/distinct ids, equal/unequal bodies, missing advisory/id, nil entries, errors, cancellation, finding objects shared between detectors).',
    'note': 'Trusted: Lean kernel; slices.SortFunc contract (a sorted permutation); reflect.DeepEqual on advisories = structural equality (no NaN scores); Go harness and line protocol. '
            'Hypothesis: no detector cancels the context (otherwise later detectors are skipped by design).',
}
NS = 'Scalibr.Detector.'
THEOREMS = [NS + t for t in [
    'C20_once', 'C20_once_prefix', 'C20_status', 'C20_validate_spec', 'C20_tagged', 'C20_tagged_shared_pointer', 'C20_inconsistent', 'C20_nil_finding',
    'C20_error_iff', 'C20_run_no_nil', 'C20_index', 'C20_tagged_scan', 'C20_status_scan', 'C20_inconsistent_scan', 'C20_scan_status', 'C20_no_sort_panic',
    'consistentB_iff']] + ['Scalibr.Index.' + t for t in ['new_getSpecific', 'new_getAllOfType', 'new_getAll', 'new_has', 'new_only']]


def problems(case, fi, fm):
    """where the IMPLEMENTATION's answer leaves the specification (computed by the Lean driver from the case)"""
    if fm.get('wf') != '1' or 'sst' not in fm:
        return []          # a detector cancelled the context (remaining detectors are skipped by design) / no spec available
    if fi.get('_') == 'panic':
        # extractor-emitted findings bypass validation and may lack the advisory sortResults dereferences: outside the
        # property (no built-in extractor emits findings); the model predicts exactly these panics
        return [] if fm.get('exf') == '1' else ['panic']
    out = []
    if fi.get('calls') != fm.get('scalls'):
        out.append('calls')
    if fm.get('scalls') != '-' and (fi.get('idx') != fm.get('sidx') or fi.get('idxsame') != '1'):
        out.append('index')
    if fi.get('st') != fm.get('sst'):
        out.append('status')
    dets = ','.join(x for x in fi.get('plug', '-').split(',') if x.startswith('det')) or '-'
    if dets != fm.get('sdet'):
        out.append('detstatus')
    if fi.get('find') != fm.get('sfind'):
        out.append('findings')
    if fi.get('sorted') != '1' or fi.get('plugsorted') != '1':
        out.append('unsorted')
    if fi.get('mut') != '0':
        out.append('mutated')
    return out


TEXT = {
    'panic': 'Scan panicked',
    'calls': 'the detectors were not each called exactly once in order',
    'index': 'the index handed to the detectors is not the filter of the extracted packages',
    'status': 'overall scan status differs from "failed iff advisories inconsistent"',
    'detstatus': 'detector status entries differ from "failed iff its Scan returned an error"',
    'findings': 'reported findings differ from the detectors\' findings tagged with their own detector (or findings were emitted although the advisories are inconsistent)',
    'unsorted': 'findings / plugin statuses are not sorted',
    'mutated': 'the scan wrote into a finding object a detector (or extractor) handed out',
}


def run(ctx):
    ctx.trusted = ['Lean 4.33.0 kernel', 'axioms: propext, Quot.sound, Classical.choice at most (see theorems.*.axioms)',
                   'slices.SortFunc returns a sorted permutation (cmpFindings / cmpStatus are strict weak orders on their keys)',
                   'reflect.DeepEqual on two Advisory values with equal IDs = structural equality of the other fields (no NaN CVSS scores)',
                   'harness/cmd/c20gen + lean/Drivers/C20.lean line protocol', 'Lean compiler for the driver executable']
    ctx.assumptions = ['theorems about tagging/status/failure assume no detector cancels the scan\'s context (cancellation skips the remaining detectors by design; C20_once_prefix covers it)',
                       'OUTSIDE the property\'s statement: findings carried by an extractor\'s inventory (no built-in extractor emits any) bypass validation and tagging, and sortResults panics on >= 2 findings '
                       'when one of them lacks an advisory; the model predicts these panics (scanTail.panics, C20_no_sort_panic needs "no extractor findings") and the oracle skips them',
                       'the order of packages handed to packageindex.New is the walk order (roots, files by name, extractors by configuration order): input of this model, subject of C01/C08',
                       'Extractor.ToPURL does not panic (C14)']
    ctx.rule = ('case = (0..3 fake filesystem extractors, 1..3 in-memory roots with 0..3 files each, 0..2 standalone extractors, 0..4 detectors with 0..3 findings each or an index query). '
                'thorough adds every list of <=3 entries over {2 ids x 2 bodies, no advisory, no id, nil} split over two detectors in every way x detector error. '
                'non-trivial = at least one detector ran and returned a finding or the scan failed; distinct = distinct case lines')
    ok, _ = ctx.lean_build(['Scalibr.Properties.C20', 'drv_c20'])
    proofs_ok = ctx.audit(['Scalibr.Properties.C20'], THEOREMS)
    if ctx.tier == 'thorough':
        proofs_ok = ctx.leanchecker('Scalibr.Properties.C20') and proofs_ok
    n = {'quick': 8000, 'thorough': 80000}[ctx.tier]

    def nontrivial(case, fi, fm):
        return fm.get('scalls', '-') != '-' and (fi.get('find', '-') != '-' or fi.get('st') == 'failed')

    def oracle(case, fi, fm):
        ps = problems(case, fi, fm)
        return '; '.join(TEXT[p] for p in ps) if ps else None

    def classify(case, fi, fm):
        return 'st=%s err=%s nocancel=%s consistent=%s exfindings=%s' % (fi.get('st', fi.get('_')), fi.get('err'), fm.get('wf'), fm.get('cons'), fm.get('exf'))

    lib.standard_stream(ctx, gen='c20gen', driver='drv_c20', gen_args=['-seed', str(ctx.seed), '-n', str(n), '-tier', ctx.tier],
                        compare_keys=['_', 'st', 'err', 'calls', 'idx', 'idxsame', 'find', 'sorted', 'plug', 'plugsorted', 'pk', 'mut'],
                        nontrivial=nontrivial, oracle=oracle, classify=classify, sample_every=1999)
    if not proofs_ok:
        lib.proof_failed(ctx, 'Scalibr.Properties.C20')
