"""C02 — No file content can crash or hang a built-in extractor  (partial, level 'other').

Two parts, of very different strength:
  1. PROVED (Lean, kernel-checked): totality of the parsers modelled for C03 (apk, gradle.lockfile, Gemfile.lock,
     dpkg stanza subset, requirements.txt core, package-lock `dependencies` recursion) and — hooked in by the
     coordinator through ENGINE_THEOREMS — engine-level confinement (an error in one (extractor, file) leaves every
     other result unchanged; a scan panics only if some reached Extract panics — one direction, C02_panic_only_from_extractor).
  2. SEARCH SUPPORT, NOT PROOF: harness/cmd/c02gen runs the real Extract of every offline built-in filesystem
     extractor on every fixture of its testdata directory and on seeded mutations, under recover + watchdog + memory
     bound. A crash it finds is a failing input; finding none proves nothing.
"""
import json
import os
import re
import subprocess

from . import lib
from . import walkcommon as W

META = {
    'level': 'other',
    'technique': 'Lean 4 in-range (no index / slice panic) and fuel-adequacy theorems for the modelled parsers (+ engine-level confinement theorems, hooked in) '
                 'AND, as search support only, a seeded fixture-mutation fuzz loop over all 58 built-in filesystem extractors '
                 'run in-process under recover + 20 s watchdog + 512 MiB heap bound',
    'design_ref': 'DESIGN.md §4 (section of C02), §5 (defects), §7 (seeded changes)',
    'text': 'PARTIAL (7 of 58 extractors modelled). Proved for the gradle.lockfile, Gemfile.lock, dpkg, requirements.txt, package-lock.json and Pipfile.lock models: every index and '
            'slice the Go code performs (parts[i], m[1], source[idx+2:len-1], l[:len(l)-1], Version[4:i], …) is in range on EVERY input — the models carry failing '
            'primitives (goIndex / goSliceI / goSlice) at those sites, so an unguarded index would break the proof; the apk parser has no such site (its totality is vacuous by '
            'construction and not counted). Proved for the apk, dpkg and requirements record loops: fuel adequacy on arbitrary input (the iteration bound never ends the loop), '
            'i.e. the models terminate in a number of iterations linear in the number of lines. Nil dereferences, nil-map writes, panics inside library calls, and time / memory '
            'of the Go code are NOT modelled. Engine-level confinement: ENGINE_THEOREMS (Properties/C02Engine.lean). '
            'NOT proved: that the ~50 remaining extractors (third-party JSON/TOML/YAML/XML/SQLite/BoltDB/PE/ELF/zip decoders) never panic, hang or '
            'exhaust memory. For those the check only SEARCHES: c02gen runs every extractor of extractor/filesystem/list.All (58, asserted; the one '
            'that needs the network is skipped with that reason) on every fixture under its testdata directory (copied into a temp root, presented at '
            'production path names its FileRequired accepts) and on seeded mutations (truncation, bit flips, line/chunk edits, type confusion, '
            'whole-document null/[]/{}/""/0, 10 000-deep nesting in JSON/XML/YAML/TOML, 1e99999 / 400-digit numbers, 70 000-byte lines, NUL, '
            'invalid UTF-8, empty, random bytes; for the zip-reading extractors also MEMBER-LEVEL mutations: valid archives whose metadata members are empty / '
            'truncated / stripped of their name or version headers / deflate-corrupted). Every (inventory, error) that Extract returns is then handed to the REAL '
            'filesystem.Run (one root, that file, that extractor) so that the engine\'s own consumption path runs on it. A recovered panic, a process-fatal runtime error, an Extract that has not returned 4 s after its '
            '20 s context deadline, or more than 512 MiB of heap in use is reported as VIOLATION with a self-contained replayable case line. '
            'CONFIGURED LIMITS (c02gen -limits): java/archive is also run with SMALL MaxOpenedBytes / MaxZipDepth against compression bombs shaped to each code path (one big inner archive, '
            'many siblings that parse, siblings that FAIL after being read, nested chains, forged uncompressed-size headers) and must return ErrExtractorMemoryLimitExceeded / the depth error exactly when a '
            'reference accounting of the documented budget says so, with cumulative allocation <= 16 x limit + 8 MiB; every extractor with MaxFileSizeBytes must refuse a file one byte above the limit. '
            'ENGINE HALF: the theorems C02_confined_benign / C02_confined_two_benign / C02_panic_only_from_extractor are about the walk-engine model; its tie to scalibr.Scan is the walkgen/drv_walk correspondence stream with erroring and '
            'PANICKING table extractors, run here in small (coverage.engine_half) and in full by C01 / C09; the replay of every Extract result through the real filesystem.Run must make at least one Extract call (ec=0 is a harness fault).',
    'note': 'The fuzz loop is SEARCH SUPPORT, NOT PROOF (evidence: coverage.unproved_support): absence of a finding is no guarantee. '
            '"Bounded time/memory" is a watchdog observation, never a theorem. The proved part is totality of the modelled parsers (C03 models) '
            'and engine-level confinement. Trusted: Lean kernel; the Go harness (c02gen), its canonical-name table and its process model; '
            'the Go runtime\'s recover / runtime/metrics; /repo testdata as seed corpus. Known findings (listed in known_findings.txt) are genuine '
            'crashes/allocations on the unchanged tree in third-party decoders reached through an extractor.',
}

# ---------------------------------------------------------------------------------------------------------------
# HOOK for the coordinator: engine-level confinement theorems (C02_confined_benign / C02_confined_two_benign / C02_panic_only_from_extractor) and the modules that
# have to be imported for the axiom audit to see them. Both lists are appended below; leave empty until they exist.
ENGINE_THEOREMS = ['Scalibr.Walk.C02_confined_benign', 'Scalibr.Walk.C02_confined_two_benign', 'Scalibr.Walk.C02_panic_only_from_extractor']
ENGINE_IMPORTS = ['Scalibr.Properties.C02Engine']
# ---------------------------------------------------------------------------------------------------------------

# Parser theorems with content (lean/Scalibr/Properties/C02.lean): "every Go index / slice of the modelled code is in range on every input"
# (the models use failing primitives goIndex / goSliceI / goSlice at the Go sites; `…Go_eq` lemmas) and fuel adequacy of the record loops on
# arbitrary input. NOT listed: C02_apk_total — the apk parser has no indexing / slicing site, its totality statement is vacuous by construction.
PARSER_THEOREMS = ['Scalibr.Parsers.C02_gradle_total', 'Scalibr.Parsers.C02_gemfile_total', 'Scalibr.Parsers.C02_dpkg_total',
                   'Scalibr.Parsers.C02_requirements_total', 'Scalibr.Parsers.C02_index_can_fail',
                   'Scalibr.Parsers.C02_apk_fuel_adequate', 'Scalibr.Parsers.C02_dpkg_fuel_adequate', 'Scalibr.Parsers.C02_requirements_fuel_adequate',
                   'Scalibr.Parsers.C02_scan_lines_bounded',
                   'Scalibr.Lockfiles.C02_packagelock_total', 'Scalibr.Lockfiles.C02_pipfile_total', 'Scalibr.Lockfiles.C02_packagelock_prefix_panics']
THEOREMS = PARSER_THEOREMS + ENGINE_THEOREMS

VIOLATING = ('panic', 'hang', 'oom', 'fatal', 'engine-panic', 'engine-hang', 'engine-err', 'nilpkg')
MUTATIONS = {'quick': 20, 'thorough': 300}       # seeded mutations per fixture (c02gen -n)
MODELLED_N = {'quick': 150, 'thorough': 1500}    # c03gen -n: n/2 malformed inputs for each of the five line formats
LINE_FORMATS = ('apk', 'gradle', 'gemfile', 'dpkg', 'requirements', 'reqtree')   # reqtree: requirements files including each other (cycles, odd operands)
GEN_TIMEOUT = {'quick': 600, 'thorough': 1800}   # seconds, Python-side backstop for one c02gen invocation (never reached: see GEN_DEADLINE)
GEN_DEADLINE = {'quick': 170, 'thorough': 1300}  # c02gen -deadline: after that many seconds it stops starting cases, abandons running ones (st=unrun) and PRINTS what it has
EXT_BUDGET = {'quick': 240, 'thorough': 1500}    # c02gen -extbudget: cumulative wall seconds of cases per extractor
MAX_HANGS = 3                                    # c02gen -maxhangs: hang breaker per (extractor, stack top)


def _unhex(h):
    if not h or h == '-':
        return ''
    try:
        return bytes.fromhex(h).decode('utf-8', 'replace')
    except ValueError:
        return '?'


def _slug(s):
    return re.sub(r'[^A-Za-z0-9_.]+', '-', s).strip('-')


def msg_kind(msg):
    """normalised kind of a panic / fatal message (numbers and addresses do not matter)"""
    table = [('nil pointer dereference', 'nil-deref'), ('index out of range', 'index-out-of-range'),
             ('slice bounds out of range', 'slice-bounds'), ('assertion failed', 'assertion-failed'),
             ('unexpected fault address', 'fault-address'), ('stack overflow', 'stack-overflow'), ('stack exceeds', 'stack-overflow'),
             ('out of memory', 'out-of-memory'), ('cannot allocate memory', 'out-of-memory'), ('assignment to entry in nil map', 'nil-map-write'),
             ('makeslice', 'makeslice'), ('len out of range', 'makeslice'), ('divide by zero', 'divide-by-zero'),
             ('interface conversion', 'type-assertion'), ('SIGKILL', 'killed'), ('SIGBUS', 'fault-address'), ('SIGSEGV', 'fault-address')]
    for needle, kind in table:
        if needle in msg:
            return kind
    return _slug(re.sub(r'\d+', '#', msg))[:40] or 'unknown'


def finding_key(case, f):
    """class predicate of a violation -> the key used in known_findings.txt:
         panic / fatal : (extractor, failure kind, normalised message kind, panicking function)
         hang / oom    : (extractor, failure kind, decoder library the extractor called into = outermost third-party frame)
         engine-panic / engine-hang / engine-err / nilpkg : Extract returned normally but the real filesystem.Run, fed with that very result,
                         panicked / did not return / failed, or the result carries a nil package (keyed like panic)
         limit         : configured-limits stream (`lim …` cases): (extractor, limit kind, shape)
    so a NEW crash of the same extractor with another signature (another message kind, another library, ANOTHER SITE) is still a VIOLATION.
    The panicking FUNCTION is part of the class (AUDIT-2 finding 16: without it every index-out-of-range of an extractor that already has a
    known class was absorbed): `at-<function>` = the frame that panicked (own or third-party code), without its package path. Exception: a
    fault in mmap'ed memory (fatal, "fault address") happens wherever a corrupt BoltDB page is touched first, so that class is keyed by the
    third-party library in which the fault occurred (`in-<library>`), like hang / oom."""
    ext = (case.split(' ') + ['?', '?'])[1]
    st = f.get('st', '?')
    parts = [ext.replace('/', '-'), st]
    if st in ('panic', 'fatal', 'engine-panic', 'engine-err'):
        kind = msg_kind(_unhex(f.get('msg')))
        parts.append(kind)
        fn = lambda x: _slug(re.sub(r'^.*/', '', _unhex(x)))[:60]
        if kind == 'fault-address':
            # keyed like hang / oom: by the library whose code touched the unmapped page (the extractor function that entered the decoder
            # varies with which bucket of the damaged database is walked first: three different ones were seen for one root cause)
            lib_ = _unhex(f.get('lib'))
            third = bool(lib_) and '.' in lib_.split('/')[0] and not lib_.startswith('github.com/google/osv-scalibr')
            parts.append('in-' + (_slug(lib_.split('/')[-1]) if third else 'own'))
        elif f.get('at'):
            parts.append('at-' + fn(f.get('at')))
    elif st in ('hang', 'oom'):
        # where a hung / allocating goroutine happens to be SAMPLED is timing-dependent: the class is the third-party decoder library if the
        # sample fell inside one, and `own` if it fell into the extractor's own code or the standard library called from it (or nowhere)
        lib_ = _unhex(f.get('lib'))
        third = bool(lib_) and '.' in lib_.split('/')[0] and not lib_.startswith('github.com/google/osv-scalibr')
        parts.append(_slug(lib_.split('/')[-1]) if third else 'own')
    return 'C02/' + '-'.join(parts)


def describe(case, f):
    ext = (case.split(' ') + ['?', '?', '-'])[1]
    path = _unhex((case.split(' ') + ['?', '?', '-'])[2])
    s = '%s on %s: %s' % (ext, path, f.get('st'))
    if f.get('at'):
        s += ' at ' + _unhex(f.get('at'))
    if f.get('via') and f.get('via') != f.get('at'):
        s += ' (via ' + _unhex(f.get('via')).split('/')[-1] + ')'
    if f.get('lib'):
        s += ' [decoder ' + _unhex(f.get('lib')) + ']'
    if f.get('msg'):
        s += ': ' + _unhex(f.get('msg'))
    return s


def mutation_class(case):
    t = case.split(' ')
    if len(t) > 3 and t[3].startswith('gen:'):
        g = t[3].split(':')
        return g[2] if len(g) > 2 else '?'
    return 'explicit'


def run_gen_partial(ctx, binary, args, timeout):
    """like ctx.run_gen, but a generator that overruns `timeout` is killed and whatever it printed so far is still used.
    returns (rows, ok, timed_out)"""
    e = lib.goenv()
    e['GOMEMLIMIT'] = '4GiB'
    p = subprocess.Popen([binary] + args, stdout=subprocess.PIPE, stderr=subprocess.PIPE, text=True, env=e, errors='replace')
    timed_out = False
    try:
        out, err = p.communicate(timeout=timeout)
    except subprocess.TimeoutExpired:
        timed_out = True
        p.kill()
        out, err = p.communicate()
    rows = []
    for l in (out or '').split('\n'):
        if l:
            c, _, r = l.partition('\t')
            rows.append((c, r))
    if timed_out or p.returncode != 0:
        ctx.notes.append('generator %s %s: %s' % (os.path.basename(binary), 'killed after %d s' % timeout if timed_out else 'exited %d' % p.returncode, (err or '')[-800:]))
        return rows, False, timed_out
    return rows, True, False


class _Judge:
    def __init__(self, ctx):
        self.ctx = ctx
        self.new = {}        # key -> [rows] of violations that are not known findings
        self.deadline = 0
        self.stale = 0
        self.bad = []
        self.not_required = 0
        self.regressions_ok = 0
        self.engine_replays = 0   # cases whose (inventory, error) pair was replayed through the real filesystem.Run
        self.vacuous_engine = []  # … in which the engine made NO Extract call although FileRequired accepted the path: the replay proved nothing
        self.unrun = {}      # extractor -> why -> cases the generator did not run (hang breaker / per-extractor budget / run deadline)

    def row(self, case, reply, origin):
        ctx = self.ctx
        f = lib.fields(reply)
        st = f.get('st', '?')
        n = int(f.get('n', '0') or 0)
        ctx.add_case(case, nontrivial=(f.get('req') == '1' and st in ('ok', 'err') and n > 0), cls='%s %s' % (mutation_class(case), st))
        if len(ctx.samples) < 4 or (st in VIOLATING and len(ctx.samples) < 12):
            ctx.samples.append({'case': case[:400], 'impl': reply[:300], 'origin': origin})
        if f.get('dl') == '1':
            self.deadline += 1
        if 'ec' in f:
            self.engine_replays += 1
            if f.get('req') == '1' and st in ('ok', 'err') and f.get('ec') == '0':
                self.vacuous_engine.append(case[:300] + '\t' + reply[:200])
        if st == 'stale':
            self.stale += 1
        elif st == 'badcase':
            self.bad.append(case[:200] + ' -> ' + _unhex(f.get('msg')))
        elif st == 'skip':
            self.not_required += 1
        elif st == 'unrun':
            ext = (case.split(' ') + ['?', '?'])[1]
            d = self.unrun.setdefault(ext, {})
            d[f.get('why', '?')] = d.get(f.get('why', '?'), 0) + 1
        elif st in VIOLATING:
            key = finding_key(case, f)
            if not ctx.known_finding(key, describe(case, f)) and not self.known_exhaustion(key, st, case, f):
                self.new.setdefault(key, []).append(case + '\t' + reply)
        elif origin == 'corpus' and st in ('ok', 'err'):
            self.regressions_ok += 1
        return st

    def known_exhaustion(self, key, st, case, f):
        """hang / oom only: WHERE the hung or allocating goroutine is sampled (inside the third-party decoder, in the extractor's own loop, in
        the standard library one step later) and WHICH of the two watchdogs fires first depend on timing and load. A hang / oom of an
        extractor that already has a recorded hang / oom class is therefore filed under that recorded class (the first one listed), with the
        sampled site in the text; a crash (panic / fatal) is never treated this way, and an extractor without a recorded exhaustion class
        gets a VIOLATION. Cost, stated: a SECOND resource-exhaustion defect in such an extractor would be absorbed."""
        if st not in ('hang', 'oom'):
            return False
        ext = (case.split(' ') + ['?', '?'])[1].replace('/', '-')
        for k in sorted(self.ctx.known):
            if k.startswith('C02/%s-hang-' % ext) or k.startswith('C02/%s-oom-' % ext):
                return self.ctx.known_finding(k, describe(case, f) + ' [sampled as %s; filed under the recorded exhaustion class of this extractor]' % key)
        return False

    def finish(self):
        ctx = self.ctx
        for key, rows in sorted(self.new.items()):
            f = lib.fields(rows[0].split('\t')[1])
            ctx.violation('%s  [class %s, %d case(s); not listed in known_findings.txt]' % (describe(rows[0].split('\t')[0], f), key, len(rows)),
                          rows[:3], name=_slug(key.replace('C02/', '')))
        if self.vacuous_engine:
            ctx.violation('HARNESS FAULT (not a finding about /repo): the engine replay of %d case(s) made no Extract call (ec=0) although FileRequired accepted the path: '
                          'the engine-panic / engine-err / nilpkg verdicts of those cases are vacuous' % len(self.vacuous_engine), self.vacuous_engine[:3], found_input=False, name='harness-engine-replay')
        if self.bad:
            ctx.notes.append('%d case line(s) could not be run (harness said badcase): %s' % (len(self.bad), '; '.join(self.bad[:3])))
        if self.stale:
            ctx.notes.append('%d generated case(s) are stale (their /repo fixture changed or disappeared)' % self.stale)


def _split_replay(path):
    """a C02 replay file may hold c02gen lines (`x <extractor> ...`), c03gen lines (`<format> <hex> ...`) and configured-limits lines (`lim <extractor> ...`)"""
    fuzz, modelled = [], []
    for l in open(path):
        l = l.rstrip('\n')
        if not l or l.startswith('#') or l.startswith('lim '):
            continue
        (fuzz if l.startswith('x ') else modelled).append(l.split('\t')[0])
    return fuzz, modelled


def _limit_lines(path):
    return [l.rstrip('\n').split('\t')[0] for l in open(path) if l.startswith('lim ')]


ENGINE_N = {'quick': 2000, 'thorough': 30000}


def engine_stream(ctx):
    """The ENGINE half of C02 ("a failing or panicking extractor is confined: the scan completes and the other extractors are unaffected"): the theorems
    C02_confined_benign / C02_panic_only_from_extractor are about the walk-engine model; this ties that model to scalibr.Scan on configurations whose table-driven
    extractors return packages, errors and PANICS (walkgen -mode mixed, the stream of C01 / C09): implementation and model must agree on scan error, visits,
    Extract calls, packages and per-extractor statuses (COMPARE), the scan may panic only if an extractor does, and in benign configurations the calls are the owed ones."""
    before = len(ctx.mismatches)

    def oracle(case, fi, fm):
        if fi.get('err') == 'panic' and not any(t.split('=')[1][1:2] == '1' for t in case.split(' ')[7].split(';') if '=' in t):
            return 'the scan panicked although no extractor panics'
        return W.oracle_calls(case, fi, fm)
    seen = {'n': 0, 'with_failing_extractor': 0, 'with_panicking_extractor': 0}

    def cls(case, fi, fm):
        seen['n'] += 1
        flags = [t.split('=')[1][:2] for t in case.split(' ')[7].split(';') if '=' in t]
        if any(f[:1] == '1' for f in flags):
            seen['with_failing_extractor'] += 1
        if any(f[1:2] == '1' for f in flags):
            seen['with_panicking_extractor'] += 1
        return 'engine err=%s' % fi.get('err')
    W.run_stream(ctx, 'mixed', ENGINE_N[ctx.tier], oracle, classify=cls)
    ctx.extra['engine_half'] = dict(seen, tie='walkgen -mode mixed + drv_walk: implementation = model on %s' % ', '.join(W.COMPARE),
                                    mismatches=len(ctx.mismatches) - before,
                                    note='the same stream (larger) is the correspondence evidence of C01 / C09, whose theorems C02_confined_benign and C02_panic_only_from_extractor build on')


def limits_stream(ctx, replay_lines=None):
    """The extractors' OWN budget options run with small configured values (harness/cmd/c02gen/limits.go): java/archive MaxOpenedBytes / MaxZipDepth against
    compression bombs shaped to each code path, MaxFileSizeBytes of every extractor that has it. A budget that is not enforced is a violation even far below the
    512 MiB bound of the fuzz stream: (a) the documented limit error is (not) returned, (b) cumulative allocation <= 16 x limit + 8 MiB."""
    binary = ctx.go_build('c02gen')
    if binary is None:
        return
    args = ['-limits', '-tier', ctx.tier]
    tmp = None
    if replay_lines is not None:
        tmp = os.environ.get('TMPDIR', '/var/tmp') + '/.replay-%s-limits.txt' % ctx.prop
        with open(tmp, 'w') as fh:
            fh.write('\n'.join(replay_lines) + '\n')
        args += ['-replay', tmp]
    rows, ok, _ = run_gen_partial(ctx, binary, args, 600)
    if tmp:
        os.remove(tmp)
    by = {}
    new = {}
    meta = None
    for case, reply in rows:
        if case == '#limits':
            meta = json.loads(reply)
            continue
        f = lib.fields(reply)
        st = f.get('st', '?')
        t = case.split(' ')
        kv = dict(x.split('=', 1) for x in t[3:] if '=' in x)
        ctx.add_case(case, nontrivial=(st in ('ok', 'viol') and t[2] != 'filesize' and f.get('want') == '1'), cls='limits/%s %s' % (t[2], st))
        by['%s %s' % (t[2], st)] = by.get('%s %s' % (t[2], st), 0) + 1
        if replay_lines is not None:
            print('replay (limits): %s\t%s%s' % (case, reply[:300], ('   <- ' + _unhex(f.get('what'))) if f.get('what') else ''))
        if st in ('viol', 'panic', 'hang'):
            key = 'C02/%s-limit-%s-%s' % (t[1].replace('/', '-'), t[2], _slug(kv.get('shape', st)))
            desc = '%s with small configured limits (%s): %s' % (t[1], ' '.join(t[3:]), _unhex(f.get('what')) or _unhex(f.get('msg')) or st)
            if not ctx.known_finding(key, desc):
                new.setdefault(key, []).append((case + '\t' + reply, desc))
        elif st == 'badcase':
            ctx.notes.append('limits stream: bad case ' + case)
    for key, items in sorted(new.items()):
        ctx.violation('%s  [class %s, %d case(s)]' % (items[0][1], key, len(items)), [x[0] for x in items[:3]], name=_slug(key.replace('C02/', '')))
    if not ok or (replay_lines is None and meta is None):
        ctx.violation('HARNESS FAULT (not a finding about /repo): c02gen -limits failed: ' + '; '.join(ctx.notes[-1:]), ['# see notes'], found_input=False, name='harness-limits')
    if replay_lines is None:
        ctx.extra['configured_limits'] = {'cases_by_kind_and_status': by, 'table_vs_source': meta,
                                          'asserted': '(a) java/archive: error Is ErrExtractorMemoryLimitExceeded exactly when the reference accounting of the documented budget over the abstract archive tree exceeds MaxOpenedBytes; '
                                                      'depth error exactly when nesting exceeds MaxZipDepth; every extractor with MaxFileSizeBytes: FileRequired accepts a file of exactly the limit and refuses one byte more; '
                                                      '(b) java/archive: runtime TotalAlloc delta of Extract <= 16 x MaxOpenedBytes + 8 MiB',
                                          'not_covered': 'os/rpm Timeout, containers/containerd MaxMetaDBFileSize (linux build only), filesystem.Config MaxInodes / MaxFileSize (engine, C10)'}
        if meta and meta.get('size_limited_in_table') != meta.get('packages_with_MaxFileSizeBytes_in_source'):
            ctx.notes.append('limits stream: %s packages declare MaxFileSizeBytes in /repo, the harness table has %s: update harness/cmd/c02gen/limits.go' % (
                meta.get('packages_with_MaxFileSizeBytes_in_source'), meta.get('size_limited_in_table')))


def modelled_stream(ctx, replay_lines=None):
    """Correspondence of the MODELLED parsers on arbitrary / malformed bytes: the totality theorems say the Lean models never
    reach a crash outcome; this ties them to the Go code. c03gen's malformed stream (line soups, truncations, swapped delimiters, odd
    bytes, lines around 64 KiB) is run through the real Extract and through drv_c03; `pk` (sorted package list | - | err | panic)
    must be equal. pk=panic from the implementation, or error-vs-value disagreement, is a violation with the case line as replay."""
    binary = ctx.go_build('c03gen')
    if binary is None:
        ctx.violation('harness c03gen does not build against /repo: %s' % getattr(ctx, 'go_log', '')[-1500:],
                      ['# the modelled-parser stream could not be built'], found_input=False, name='build-c03gen')
        return False
    if replay_lines is not None:
        tmp = os.environ.get('TMPDIR', '/var/tmp') + '/.replay-%s-modelled.txt' % ctx.prop
        os.makedirs(lib.VERIF + '/evidence', exist_ok=True)
        with open(tmp, 'w') as fh:
            fh.write('\n'.join(replay_lines) + '\n')
        rows, ok = ctx.run_gen(binary, ['-replay', tmp], timeout=600)
        os.remove(tmp)
    else:
        rows, ok = ctx.run_gen(binary, ['-seed', str(ctx.seed), '-n', str(MODELLED_N[ctx.tier]), '-tier', 'quick'], timeout=1200)
        rows = [(c, r) for c, r in rows if re.search(r'(^| )cls=(%s)/bad' % '|'.join(LINE_FORMATS), r)]
    if not ok:
        ctx.violation('c03gen failed: ' + '; '.join(ctx.notes[-1:]), ['# see notes'], found_input=False, name='gencrash-c03gen')
    if not rows:
        if replay_lines is None:
            ctx.violation('c03gen produced no malformed cases for the modelled parsers', ['# empty stream'], found_input=False, name='empty-c03gen')
        return ok
    model = ctx.run_driver('drv_c03', [c for c, _ in rows])
    good = True
    first_diff = None
    for (case, impl), mod in zip(rows, model):
        fi, fm = lib.fields(impl), lib.fields(mod)
        fmt = case.split(' ')[0]
        pi, pm = fi.get('pk', '?'), fm.get('pk', fm.get('_', '?'))
        ctx.add_case(case, nontrivial=pi not in ('-', 'err', 'panic', '?'), cls='modelled/' + fmt)
        if replay_lines is not None:
            print('replay (modelled parser): %s\timpl %s\tmodel %s' % (case[:200], impl[:200], mod[:200]))
        if len([x for x in ctx.samples if x.get('origin') == 'modelled']) < 3:
            ctx.samples.append({'case': case[:300], 'impl': impl[:200], 'model': mod[:200], 'origin': 'modelled'})
        if pi in ('panic', 'hang', 'oom'):
            good = False
            if sum(1 for v in ctx.violations if v[2]) < 6:
                what = {'panic': 'PANICKED', 'hang': 'did NOT RETURN within 5 s (hang)', 'oom': 'allocated more than 1 GiB (unbounded memory)'}[pi]
                ctx.violation('%s: Extract %s on malformed bytes; the Lean model of this parser terminates (fuel-adequacy theorem) and answers %s' % (fmt, what, pm[:80]),
                              [case + '\t' + impl + '\t' + mod], name='modelled-%s-%s' % (fmt, pi))
        elif pi != pm:
            good = False
            ctx.mismatches.append(case)
            if (pi == 'err') != (pm == 'err'):
                ctx.violation('%s: model and implementation disagree on error-vs-value for malformed bytes (impl %s, model %s): the totality theorem no longer '
                              'describes this code' % (fmt, pi[:80], pm[:80]), [case + '\t' + impl + '\t' + mod])
            elif first_diff is None:
                first_diff = (case, impl, mod)
    if first_diff is not None and not any(v[2] for v in ctx.violations):
        ctx.violation('correspondence c03gen/drv_c03 no longer checks on the malformed stream: %d case(s) differ; first diverging case below (case, impl, model)' % len(ctx.mismatches),
                      ['\t'.join(first_diff)], found_input=False, name='corr-c03gen')
    ctx.extra['modelled_parsers'] = {'formats': list(LINE_FORMATS), 'malformed_cases': len(rows), 'agree': good}
    return good


def stream(ctx):
    """The fuzz stream (SEARCH SUPPORT, NOT PROOF). Separate from run() so that it can be exercised on its own."""
    binary = ctx.go_build('c02gen')
    if binary is None:
        ctx.violation('harness c02gen does not build against /repo: %s' % getattr(ctx, 'go_log', '')[-1500:],
                      ['# the C02 search harness could not be built'], found_input=False, name='build-c02gen')
        return False
    judge = _Judge(ctx)
    summary = None
    if ctx.replay:
        fuzz_lines, _ = _split_replay(ctx.replay)
        rows, ok = [], True
        if fuzz_lines:
            tmp = os.environ.get('TMPDIR', '/var/tmp') + '/.replay-%s-fuzz.txt' % ctx.prop
            os.makedirs(lib.VERIF + '/evidence', exist_ok=True)
            with open(tmp, 'w') as fh:
                fh.write('\n'.join(fuzz_lines) + '\n')
            rows, ok, _ = run_gen_partial(ctx, binary, ['-replay', tmp, '-deadline', str(GEN_DEADLINE[ctx.tier])], GEN_TIMEOUT[ctx.tier])
            os.remove(tmp)
        for case, reply in rows:
            st = judge.row(case, reply, 'replay')
            print('replay: %s\t%s%s' % (case[:300] + ('…' if len(case) > 300 else ''), reply,
                                        ('   <- ' + describe(case, lib.fields(reply))) if st in VIOLATING else ''))
        if not ok:
            ctx.violation('HARNESS FAULT (not a finding about /repo): c02gen -replay failed: ' + '; '.join(ctx.notes[-1:]), ['# see notes'], found_input=False, name='harness-c02gen')
    else:
        corp = [l for l in lib.corpus_lines(ctx.prop) if l.startswith('x ')]   # c03gen lines of the corpus go to modelled_stream
        if corp:
            tmp = os.environ.get('TMPDIR', '/var/tmp') + '/.corpus-%s.txt' % ctx.prop
            os.makedirs(lib.VERIF + '/evidence', exist_ok=True)
            with open(tmp, 'w') as fh:
                fh.write('\n'.join(corp) + '\n')
            rows, ok, _ = run_gen_partial(ctx, binary, ['-replay', tmp, '-deadline', str(GEN_DEADLINE['quick'])], GEN_TIMEOUT[ctx.tier])
            os.remove(tmp)
            for case, reply in rows:
                judge.row(case, reply, 'corpus')
            if not ok or len(rows) != len(corp):
                ctx.violation('HARNESS FAULT (not a finding about /repo): c02gen could not replay the corpus (%d of %d lines answered): %s' % (len(rows), len(corp), '; '.join(ctx.notes[-1:])),
                              ['# see notes'], found_input=False, name='harness-corpus')
        rows, ok, timed_out = run_gen_partial(ctx, binary, ['-seed', str(ctx.seed), '-tier', ctx.tier, '-n', str(MUTATIONS[ctx.tier]), '-deadline', str(GEN_DEADLINE[ctx.tier]),
                                                             '-extbudget', str(EXT_BUDGET[ctx.tier]), '-maxhangs', str(MAX_HANGS)], GEN_TIMEOUT[ctx.tier])
        for case, reply in rows:
            if case == '#summary':
                summary = json.loads(reply)
                continue
            judge.row(case, reply, 'generated')
        if not ok or summary is None:
            # partial rows (if any) were judged above: findings among them are reported as findings; this line is about the harness only
            ctx.violation('HARNESS FAULT (not a finding about /repo): c02gen %s; %d result row(s) were still judged: %s' % (
                          'overran its Python-side backstop and was killed' if timed_out else 'failed (extractor count changed, a worker could not be resumed, or another internal error)',
                          len(rows), '; '.join(ctx.notes[-1:])), ['# see notes'], found_input=False, name='harness-c02gen')
    judge.finish()
    # known findings whose witness no longer fails: say so (the entry should then be turned into a `fixed:` line)
    gone = sorted(k for k in ctx.known if k not in ctx.known_hits)
    if gone and not ctx.replay:
        ctx.notes.append('known findings not reproduced in this run (fixed upstream? then move them to `fixed:`): ' + ', '.join(gone))
    ctx.extra['unproved_support'] = (
        'FUZZING, NOT PROOF. c02gen (harness/cmd/c02gen) ran the real Extract of every offline extractor of extractor/filesystem/list.All on its '
        'testdata fixtures and on seeded mutations (%d per fixture in this tier) plus fixture-independent documents (null/[]/{}/""/0, deep nesting, huge '
        'numbers, long lines, NUL, invalid UTF-8, magic numbers of binary formats, random bytes), one fresh temp root per case, ScanInput built like '
        'filesystem.runExtractor does (FS=DirFS(root), Path, Root, Info from the opened file, Reader=the file). Violation = recovered panic | dead worker '
        '(fatal runtime error) | Extract not back 4 s after its 20 s context deadline | more than 512 MiB of heap objects in use at a 2 ms sample (process under SetMemoryLimit(512 MiB)). '
        'Member-level classes (zipmem, zipwrap, zipmeta:*) keep the archive valid and damage the metadata members of eggs / jars / wars (the only containers a built-in extractor reads; none reads tar). '
        'After a normal return the returned (inventory, error) pair is replayed through the real filesystem.Run (walk, FileRequired, runExtractor, Inventory.Append, status) — '
        'engine-panic / engine-hang / engine-err / nilpkg are violations too. '
        'Coverage is whatever the seeds and %d mutation classes reach; no claim is made about inputs not tried.' % (MUTATIONS[ctx.tier], 27))
    ctx.extra['cases_not_run'] = judge.unrun   # extractor -> {hangs: skipped after repeated hangs, budget: per-extractor budget, deadline: run deadline}
    nun = sum(sum(d.values()) for d in judge.unrun.values())
    if nun:
        ctx.notes.append('%d generated case(s) were NOT run: %s (hangs = remaining cases of an extractor after %d hangs at the same stack top; budget = per-extractor '
                         'wall budget %d s; deadline = run deadline %d s). The hangs themselves are reported with their inputs.' % (
                             nun, json.dumps(judge.unrun, sort_keys=True), MAX_HANGS, EXT_BUDGET[ctx.tier], GEN_DEADLINE[ctx.tier]))
    ctx.extra['engine_replays'] = {'cases_replayed_through_filesystem_Run': judge.engine_replays, 'with_zero_Extract_calls': len(judge.vacuous_engine)}
    ctx.extra['deadline_cases'] = judge.deadline
    ctx.extra['cases_path_not_accepted'] = judge.not_required
    ctx.extra['regression_witnesses_ok'] = judge.regressions_ok
    if summary is not None:
        ctx.extra['skipped'] = {
            'extractors': summary.get('skipped_extractors'),
            'extractors_without_accepted_name': summary.get('extractors_without_accepted_name'),
            'fixtures': summary.get('fixtures_skipped'),
            'fixtures_without_accepted_name': {k: v.get('fixtures_without_accepted_name') for k, v in summary.get('per_extractor', {}).items() if v.get('fixtures_without_accepted_name')},
            'rejected_canonical_names': {k: v.get('rejected_canonical_names') for k, v in summary.get('per_extractor', {}).items() if v.get('rejected_canonical_names')},
        }
        ctx.extra['extractors'] = {'in_list_All': summary.get('extractors_in_list_All'), 'run': summary.get('extractors_run')}
        ctx.extra['by_status'] = summary.get('by_status')
        ctx.extra['by_mutation_class'] = summary.get('by_mutation_class')
        ctx.extra['violations_by_mutation_class'] = summary.get('violations_by_mutation_class')
        ctx.extra['fixtures_used'] = summary.get('fixtures_used')
        ctx.extra['per_extractor'] = {k: {kk: v.get(kk) for kk in ('cases', 'by_status', 'fixtures', 'fixtures_accepted_at_own_path', 'accepted_names',
                                                                  'cases_with_packages', 'max_ms', 'peak_heap_mib', 'skip_reason', 'skipped_fixtures', 'keywords', 'keywords_found')}
                                      for k, v in summary.get('per_extractor', {}).items()}
    return not judge.new


def run(ctx):
    ctx.trusted = ['Lean 4.33.0 kernel (totality / confinement theorems); axioms propext, Quot.sound, Classical.choice at most (see theorems.*.axioms)',
                   'harness/cmd/c03gen malformed stream + lean/Drivers/C03.lean (drv_c03) tie the modelled parsers to the Go code; Lean compiler for the driver',
                   'harness/cmd/c02gen: calls the real FileRequired/Extract in-process; its canonical path-name table, sibling rules, constant etc/os-release and mutation code',
                   'Go runtime: recover(), runtime/metrics heap accounting, debug.SetMemoryLimit, process exit status of a crashed worker',
                   '/repo/**/testdata as seed corpus (read by the harness, copied into temp roots; never opened in place by an extractor)',
                   'third-party decoders are NOT modelled: encoding/json, BurntSushi/toml, yaml.v3, encoding/xml, go-rpmdb (+sqlite), bbolt, debug/pe|elf|macho, archive/zip, spdx/cyclonedx readers']
    ctx.assumptions = ['INTERFACE ASSUMPTION of the engine theorems (C02_panic_only_from_extractor, C02_confined_benign): the walk-engine model takes an Extract result to be a list of '
                       'package ids; that the real result is well formed for the engine (no nil element in Inventory.Packages, nothing runExtractor / Inventory.Append / the status code '
                       'dereferences is missing) is modelled, not verified — it is CHECKED on every case by replaying the returned (inventory, error) through the real filesystem.Run '
                       '(st=engine-panic | engine-hang | engine-err | nilpkg are violations)',
                       'PARTIAL: only the parsers modelled for C03 are proved total; for every other extractor panic-/hang-/memory-freedom is SEARCHED (fuzzing), not proved',
                       '"bounded time and memory" = 20 s context deadline (+4 s grace) and 512 MiB heap in use per Extract call (2 ms sampler), observed by a watchdog; never a theorem',
                       'java/pomxmlnet needs the network (Requirements().Network == NetworkOnline) and is outside the property ("extractors that can run offline")',
                       'FileRequired is probed with default extractor configuration; a path it rejects is outside the property (status skip)',
                       'extractors that read siblings (chrome _locales, go.sum, -r requirements, parent pom.xml, containerd snapshotter db) get the fixture\'s siblings; only the file under test is mutated']
    ctx.rule = ('case = (extractor, accepted path name, file bytes [, sibling files]); sources: corpus witnesses, every testdata fixture once per accepted name, '
                '%d/%d (quick/thorough) seeded mutations per fixture cycling through the mutation classes, every fixture-independent document at every accepted canonical name, random bytes. '
                'Token-aware injection (harness/cmd/c02gen/keywords.go): the keywords every extractor searches for are read from its SOURCE by a go/ast pass (string literals handed to strings.* / bytes.*, '
                'literal runs of its regexps, its other constants; one level of imported extractor/filesystem helper packages; per_extractor.<name>.keywords lists the injected ones, 24/96 per extractor quick/thorough); '
                'class kwdoc = one line <prefix><bytes><keyword><short tail> per keyword case variant x placement BEFORE/INSIDE/AFTER x byte class (Latin-1 high bytes, lone continuation bytes, truncated sequences, '
                'U+023A/U+023E, U+0130, Kelvin sign, special-casing letters, combining marks, NUL, long runs); class kwline = the same bytes injected at an occurrence of the keyword inside a fixture, the rest of that line cut short. '
                'STRUCTURE-AWARE SWEEP (harness/cmd/c02gen/structural.go), deterministic, classes st:<op>:t<k> (k-th target of operator <op>, targets ordered new-key-first then shallow-first) and sib:s<j>:<class> (the j-th file the extractor reads NEXT to the file under test is mutated instead: 0 = etc/os-release for every extractor that consults it, then the fixture\'s siblings): '
                'JSON by an own span parser — every value (scalar, array element, whole array / object) replaced by null, "", [], {}, 0, [null], {"a":null}, "x", true, -1, 1e999, [[]]; every NUMBER by 0, 1, 2, 3, -1, a huge value; every member deleted, every array element deleted, null inserted in front of every array; version-like strings replaced by neighbouring values; '
                'strings replaced by a keyword prefix + keyword suffix of the extractor OVERLAPPING by 0.. characters (e.g. __MSG__ for __MSG_ + __); key/value text (YAML, TOML, properties, os-release, MANIFEST) — every value replaced by each of ", \', "\\, \\, empty, "", =, :, null, ~, [], {}, 0, -1, [null], a blank; numbers, line deletion, affix strings likewise; '
                'XML / plist — element text and attribute values replaced by empty, blank, 0, -1, &, <, ", ]]>, single-line elements deleted. Quick tier: per extractor the 3 fixtures that cover the most distinct member names, 20 targets per operator family, every operator at least once (null and [null] on every target); thorough: 10 fixtures, 80 targets, every operator on every target. '
                'SINGLE-VALUE FILES (operator family tok): the whole content replaced by each of r1, 1, 1.0, -, --, -1, a, a-, -a, a-1, _, ., r, v1, 0, -r1, a-r1, a-1-r1, 1-r1, " r1 " and by each component of the file\'s own value (every token in both tiers). '
                'RUN MODES (harness/cmd/c02gen/modes.go), class run:<mode>:<class>, the other ways the engine or an embedder calls Extract with the same bytes: ctx = cancelled context, dl = expired deadline, rd = Reader that is only an io.Reader (no Seek / ReadAt), '
                'vfs = ScanInput over an fstest.MapFS with Root "", cfg = the non-default plugin configuration (dpkg IncludeNotInstalled, rpm Timeout 0, gobinary VersionFromContent toggled, archive without filename / hash extraction, cargoauditable with build deps), '
                'norel / usrlib / osc = no os-release / usr/lib/os-release only / os-release with quotes, comments, odd lines; osrh osrk osalp osub osb osv osid osnone = os-release of other distributions and with ID / VERSION_ID / BUILD_ID missing in every combination the toDistro / toNamespace / Ecosystem fallbacks distinguish; stat = a stats collector is configured (every After* hook runs), statnil = stats collector AND ScanInput.Info == nil (what a caller of Extract outside the walk may pass). '
                'SYNTHETIC FIXTURES (synthetic.go) where /repo has no parseable seed: three bzImage kernels built by the harness (testdata/valid of os/kernel/vmlinuz is an empty file); containerd state files (status / shim.pid) placed at the container ids read out of the fixture meta.db. '
                'On every returned package the harness also calls the extractor\'s ToPURL and Ecosystem (a panic there is a C02 violation like one in Extract). '
                'modelled/<fmt> = c03gen malformed inputs of the five line formats run on implementation and Lean model (pk must agree). '
                'non-trivial = FileRequired accepted the path AND Extract returned at least one package (the parser got far enough to produce output); distinct = distinct case lines. '
                'distribution key = "<mutation class> <status>"') % (MUTATIONS['quick'], MUTATIONS['thorough'])
    ctx.lean_build(['Scalibr.Properties.C02'] + ENGINE_IMPORTS + ['drv_c03', 'drv_walk'])
    proofs_ok = ctx.audit(['Scalibr.Properties.C02'] + ENGINE_IMPORTS, THEOREMS)
    if ctx.tier == 'thorough':
        for mod in ['Scalibr.Properties.C02'] + ENGINE_IMPORTS:
            proofs_ok = ctx.leanchecker(mod) and proofs_ok
    if ctx.replay:
        _, modelled_lines = _split_replay(ctx.replay)
        if modelled_lines:
            modelled_stream(ctx, modelled_lines)
        lim_lines = _limit_lines(ctx.replay)
        if lim_lines:
            limits_stream(ctx, lim_lines)
    else:
        limits_stream(ctx)
        engine_stream(ctx)
        corp_modelled = [l for l in lib.corpus_lines(ctx.prop) if not l.startswith('x ') and not l.startswith('lim ')]
        if corp_modelled:
            modelled_stream(ctx, corp_modelled)
        modelled_stream(ctx)
    stream(ctx)
    ctx.extra['explanation'] = ('level "other": the kernel-checked part covers totality of the modelled parsers and engine-level confinement; '
                                'the remaining extractors are only searched by fuzzing (coverage.unproved_support)')
    if not proofs_ok:
        lib.proof_failed(ctx, 'Scalibr.Properties.C02')
