"""C10 — Resource limits and cancellation are hard bounds."""
from . import lib, walkcommon as W

META = {
    'level': 'proof',
    'technique': 'Lean 4: invariants over all trees/fault plans/cancellation points (inode bound, size bound, cancelled walk) and a refinement of the walk engine to a sequential machine over the '
                 'specification\'s trace of handleFile calls (run_trace), from which the exact inode-limit and cancellation behaviour follow; correspondence at limit-1, limit, limit+1 and every cancel point',
    'design_ref': 'DESIGN.md §4 (section of C10), §5 (defects), §7 (seeded changes)',
    'text': 'Kernel-checked for every forest, fault plan, option set and cancellation point: at most MaxInodes inodes are processed over the whole scan; no Extract call ever '
            'receives a file above MaxFileSize (a file of exactly the limit is extracted); once cancelled a walk step starts no extraction and returns an error, and the attempts '
            'made after a cancellation from inside Extract all concern the file being handled. Exact behaviour (errors not fatal, extractors do not panic): with an inode limit the scan fails '
            'with the MaxInodes error exactly when the forest holds more inodes to visit than the limit (visitsScan, defined on trees and fault plans only) and reports min(visitsScan, MaxInodes) '
            'visited inodes (C10_inodes_exact_limitcfg); cancelled from inside the k-th Extract it makes exactly the attempts of the handleFile calls up to and including the one holding that Extract '
            '(the remaining extractors of that file still run), nothing afterwards, and fails with the context error iff a handleFile call remained (C10_cancel_trace_cancelcfg, C10_cancel_outcome_cancelcfg, '
            'C10_cancel_prefix_cancelcfg: the attempts made are a prefix of mustExtract and the scan fails whenever an owed attempt was not made). The image-layer byte limit is checked through the C04 image stream.',
    'note': 'Trusted as in C01. "fails when the tree holds more inodes" and "reports failure whenever work remained" are theorems (via run_trace: model A = sequential machine over the '
            'specification trace for every limit and cancellation point) AND are checked end to end: under the theorems\' hypotheses the implementation\'s err / visited count / Extract calls must '
            'equal the specification side (specvisits, cancelOutcome). "Fails when the tree holds more" holds for EVERY configuration without a panicking extractor (C10_fails_when_more). Outside the two exact classes the oracle still has a '
            'SPECIFICATION verdict: C10_machine_any — without a panicking extractor the scan ends with the filesystem error (possible only with ErrorOnFSErrors) or its error / visited count / Extract calls are '
            'those the sequential machine of Spec/WalkMachine.lean prescribes on the specification\'s trace (mspecerr/mspecvis/mspeccalls; covers limit + cancellation together, cancellation before the scan, and '
            'fatal configurations that do not fail with the fs error). Model-tie only: configurations with a panicking extractor, and WHICH of fs / other outcome a fatal + limit/cancel configuration takes '
            '(the evidence distribution lists, per case class, which verdicts applied: B benign, F fatal, L limit, C cancel, M machine, - none). Cancellation BETWEEN two handleFile calls after a call that ran no '
            'Extract is not expressible in the model and not producible by the harness: no theorem at scan level (C10_cancel_between / C10_cancel_between_run_cancelcfg cover the points that follow a call with an Extract). '
            'The limits stream draws the cancellation point from 1 .. (owed Extract calls + 2) and puts two thirds of the cancelling cases into the exact class. standalone.Run / detector.Run cancellation: see C20 (C20_once_prefix).',
}
THEOREMS = ['Scalibr.Walk.C10_inodes', 'Scalibr.Walk.C10_size', 'Scalibr.Walk.C10_cancel_walk', 'Scalibr.Walk.C10_cancel_same_file',
            'Scalibr.Walk.C10_cancel_before', 'Scalibr.Walk.walkNode_inv', 'Scalibr.Walk.runRoots_visited', 'Scalibr.Walk.runRoots_sizeInv',
            'Scalibr.Walk.C10_inodes_exact_limitcfg', 'Scalibr.Walk.C10_cancel_trace_cancelcfg', 'Scalibr.Walk.C10_cancel_prefix_cancelcfg', 'Scalibr.Walk.C10_cancel_outcome_cancelcfg', 'Scalibr.Walk.run_trace',
            'Scalibr.Walk.C10_cancel_before_ctx_partial', 'Scalibr.Walk.C10_visits_vs_inodes', 'Scalibr.Walk.C10_fails_when_more', 'Scalibr.Walk.C10_fails_iff_more_partial',
            'Scalibr.Walk.C10_cancel_between', 'Scalibr.Walk.C10_early_failure_witness', 'Scalibr.Walk.C10_fails_when_more_limitcfg', 'Scalibr.Walk.C10_machine_any',
            'Scalibr.Walk.C10_cancel_between_run_cancelcfg']

LAYER_THEOREMS = ['Scalibr.Overlay.C10_layer_bytes', 'Scalibr.Overlay.C10_layer_bytes_loader', 'Scalibr.Overlay.C10_layer_bytes_final',
                  'Scalibr.Overlay.C10_layer_bytes_boundary', 'Scalibr.Overlay.C10_disk_bytes',
                  'Scalibr.Overlay.C10_disk_bytes_load', 'Scalibr.Overlay.C10_layer_bytes_image']


def run(ctx):
    ctx.trusted, ctx.assumptions, ctx.rule = W.TRUSTED, W.ASSUME, W.RULE
    ctx.lean_build(['Scalibr.Properties.C10', 'drv_walk'])
    ok = ctx.audit(['Scalibr.Properties.C10'], THEOREMS)
    if ctx.tier == 'thorough':
        ok = ctx.leanchecker('Scalibr.Properties.C10') and ok
    n = {'quick': 8000, 'thorough': 200000}[ctx.tier] * W.scale(ctx)

    def kv(case):
        return dict(x.split('=') for x in case.split(' ')[1].split(','))

    def oracle(case, fi, fm):
        if fm.get('glue'):   # refused configuration / no filesystem extractor: nothing is walked, limits and cancellation never apply
            return W.oracle_glue(case, fi, fm)
        c = kv(case)
        mi, mx, ca, cb = int(c['mi']), int(c['mx']), int(c['ca']), int(c['cb'])
        if mi > 0 and fi.get('vis', '0').isdigit() and int(fi['vis']) > mi:
            return 'AfterInodeVisited ran %s times with MaxInodes=%d' % (fi['vis'], mi)
        if fm.get('limithyp') == '1' and fm.get('specvisits', '').isdigit():
            # theorem C10_inodes_exact_limitcfg (hypothesis LimitCfg): fails exactly when the forest holds more inodes to visit than
            # the limit (specification: visitsScan), and reports exactly min(visitsScan, MaxInodes) visited inodes
            sv = int(fm['specvisits'])
            want_err, want_vis = ('maxinodes' if sv > mi else 'none'), str(min(sv, mi))
            if fi.get('err') != want_err or fi.get('vis') not in (want_vis, '?'):
                return 'MaxInodes=%d and the scan has %d inodes to visit: expected err=%s vis=%s, the scan reported err=%s vis=%s' % (
                    mi, sv, want_err, want_vis, fi.get('err'), fi.get('vis'))
        if fm.get('cancelhyp') == '1' and 'cspecerr' in fm:
            # theorem C10_cancel_outcome_cancelcfg (hypothesis CancelCfg): every handleFile call up to and including the one holding the
            # k-th Extract is made in full, nothing after it; the scan fails (context error) iff a call remained
            want = (fm['cspecerr'], fm.get('cspecvis'), fm.get('cspeccalls'))
            got = (fi.get('err'), fi.get('vis'), fi.get('calls'))
            if fi.get('vis') == '?':
                want, got = (want[0], '?', want[2]), (got[0], '?', got[2])
            if got != want:
                return 'context cancelled inside Extract #%d: expected err=%s vis=%s calls=%s, the scan reported err=%s vis=%s calls=%s' % (
                    (ca,) + want + got)
        v = W.oracle_machine(case, fi, fm)   # every configuration without a panicking extractor (limit + cancellation together, cancelled before, fatal)
        if v:
            return v
        calls = W.fl(fi.get('calls'))
        if mx > 0:
            for cl in calls:
                if int(cl.split('@')[2]) > mx:
                    return 'Extract was handed %s (size above MaxFileSize=%d)' % (cl, mx)
        if cb == 1 and (calls or fi.get('err') == 'none'):
            return 'context cancelled before the scan, yet calls=%s err=%s' % (calls[:3], fi.get('err'))
        if ca > 0 and len(calls) >= ca:
            # everything after the cancelling call must be for the same file
            p = calls[ca - 1].split('@')[1]
            for cl in calls[ca:]:
                if cl.split('@')[1] != p:
                    return 'Extract call %s started on another file after the context was cancelled in call #%d (%s)' % (cl, ca, calls[ca - 1])
            # work remained -> failure must be reported.  "Work remained" is read from the SPECIFICATION side (cspecerr =
            # cancelOutcome on the specification's trace: a handleFile call remained after the cancelling one) wherever the
            # specification has a verdict (CancelCfg, theorem C10_cancel_outcome_cancelcfg); in the other classes (inode limit, fatal
            # errors or a panicking extractor together with the cancellation) only the model's verdict exists
            # (with a panicking extractor in the table; everywhere else oracle_machine above has already judged the outcome exactly)
            remained = fm.get('cspecerr') == 'ctx' if fm.get('cancelhyp') == '1' else fm.get('err') == 'ctx'
            if remained and fi.get('err') == 'none':
                return 'cancelled with work remaining but the scan reported success'
        return None
    W.run_stream(ctx, 'limits', n, oracle)
    W.run_stream(ctx, 'mixed', n // 4, oracle)
    # ---- the image-layer clause: "an image load never exposes a layer file at or above the per-file byte limit in any
    # view and never writes more than that many bytes of it to disk" — theorems in Properties/C10Layer.lean (image model of
    # C04), tied to image.FromV1Image through the C04 image stream with MaxFileBytes in {1,2,7,4096} and sizes L-1, L, L+1
    from . import c04
    ctx.lean_build(['Scalibr.Properties.C10Layer', 'drv_c04'])
    ok = ctx.audit(['Scalibr.Properties.C10', 'Scalibr.Properties.C10Layer'], THEOREMS + LAYER_THEOREMS) and ok
    if ctx.tier == 'thorough':
        ok = ctx.leanchecker('Scalibr.Properties.C10Layer') and ok

    def layer_oracle(case, fi, fm):
        v = c04._judge(case, fi, fm)[0]
        return v if v and v.startswith('C10_layer_bytes') else None

    def layer_nontrivial(case, fi, fm):
        return fi.get('err') == '0' and case.split(' ')[1] in ('1', '2', '7', '4096')
    lib.standard_stream(ctx, gen='c04gen', driver='drv_c04',
                        gen_args=['-seed', str(ctx.seed), '-n', str({'quick': 2500, 'thorough': 40000}[ctx.tier]), '-tier', 'quick'],
                        compare_keys=['err', 'nv', 'walk', 'look'], nontrivial=layer_nontrivial, oracle=layer_oracle,
                        classify=lambda case, fi, fm: 'image limit=%s err=%s' % (case.split(' ')[1], fi.get('err')))
    # ---- the clause "once its context is cancelled ... runs no further plugin, reporting failure whenever work remained" for
    # the plugin loops of Scan (filesystem.Run -> standalone.Run -> detector.Run): theorems in Properties/C10Plugins.lean, tied
    # to the real scalibr.Scan through the scan harness of C20 (started-plugin log, cancellation inside every position)
    from . import c20
    ok = ctx.audit(['Scalibr.Properties.C10', 'Scalibr.Properties.C10Layer', c20.PHASES_MODULE], THEOREMS + LAYER_THEOREMS + c20.PHASES_THEOREMS) and ok
    if ctx.tier == 'thorough':
        ok = ctx.leanchecker(c20.PHASES_MODULE) and ok
    c20.run_plugin_phases(ctx)
    # ---- the clause "never hands a file larger than the size limit to any extractor" on the container path
    # scalibr.ScanContainer -> trace.PopulateLayerDetails -> filesystem.Run (the layer trace re-extracts OLDER versions of a file):
    # theorem C10_trace_sizes in Properties/C10Trace.lean, tied to the real ScanContainer with MaxFileSize / MaxInodes set through the
    # `sizes` stream of the C05 harness (a size-recording extractor; the same path has a different size in every layer)
    from . import c05
    ok = ctx.audit(['Scalibr.Properties.C10', 'Scalibr.Properties.C10Layer', c20.PHASES_MODULE, c05.SIZE_MODULE],
                   THEOREMS + LAYER_THEOREMS + c20.PHASES_THEOREMS + c05.SIZE_THEOREMS) and ok
    if ctx.tier == 'thorough':
        ok = ctx.leanchecker(c05.SIZE_MODULE) and ok
    c05.run_size_limit(ctx)
    if not ok:
        lib.proof_failed(ctx, 'Scalibr.Properties.C10 / Scalibr.Properties.C10Layer / Scalibr.Properties.C10Plugins / Scalibr.Properties.C10Trace')
