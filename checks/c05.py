"""C05 — Packages are attributed to the layer that introduced them."""
import binascii
from . import lib

META = {
    'level': 'proof',
    'technique': 'Lean 4 theorems about the backwards trace loop with the "file not in this layer\'s diff" skip and the (location, layer) extraction cache, for ALL layer histories '
                 '(the loop returns the least L with the package in every view L..last; the cache is transparent; the origin is a layer that wrote the file with the package; '
                 'history/layer alignment) + correspondence with Scanner.ScanContainer on real images',
    'design_ref': 'DESIGN.md §5 C05',
    'text': 'Kernel-checked, unbounded theorems for the model of trace.PopulateLayerDetails and initializeChainLayers. The model is tied to the Go code by building real images '
            '(1..6 history entries, empty layers interleaved, 1-3 package-list files with up to 4 packages, add/rewrite/delete/re-create/no-op; history full, missing or short), '
            'scanning them with ScanContainer and a line-oriented fake extractor and comparing Index, DiffID and Command of every package; the oracle is the brute-force origin computed from the case.',
    'note': 'Trusted: Lean kernel; axioms propext/Quot.sound/Classical.choice at most; the Go harness, go-containerregistry image construction and the line protocol. '
            'Assumed: one extractor per file and one location per package (the cache key omits the extractor); filesystem.Run does not fail (an error breaks the loop and attributes to layer 0 — '
            'theorem C05_run_error_falls_to_layer0); views follow the per-file keep/write/delete semantics (that is C04).',
}
P = 'Scalibr.Trace.'
THEOREMS = [P + t for t in ('C05_origin', 'C05_origin_spec', 'C05_cache_transparent', 'C05_populate', 'C05_origin_is_write',
                            'C05_empty_layers_inert', 'C05_alignment', 'C05_details', 'C05_run_error_falls_to_layer0', 'originSpec_iff')]


def _layers(case):
    t = case.split(' ')
    return t[1], int(t[2]), ([] if t[3] == '-' else t[3].split(','))


def _expected_meta(case):
    """chain index -> (v1 ordinal | 'e', command) as initializeChainLayers' contract prescribes"""
    mode, nf, ls = _layers(case)
    full = [(l == 'E', 'cmd%d' % i) for i, l in enumerate(ls)]
    hist = full if mode == 'H' else [] if mode == 'N' else full[:-1]
    nlayers = sum(1 for l in ls if l != 'E')
    if sum(1 for e, _ in hist if not e) != nlayers:
        return [(str(i), '') for i in range(nlayers)]
    out, v = [], 0
    for e, c in hist:
        if e:
            out.append(('e', c))
        else:
            out.append((str(v), c))
            v += 1
    return out


def run(ctx):
    ctx.trusted = ['Lean 4.33.0 kernel', 'axioms: propext, Quot.sound, Classical.choice at most (see theorems.*.axioms)',
                   'harness/cmd/c05gen (go-containerregistry images with history, Scanner.ScanContainer, fake extractor) + lean/Drivers/C05.lean line protocol',
                   'Lean compiler for the driver executable']
    ctx.assumptions = ['per file, a chain layer keeps, writes or deletes the file; the image-up-to-layer views follow that (C04 is the property about views)',
                       'one extractor per file, one location per package: the cache key (location, layer index) then determines the extraction result',
                       'filesystem.Run returns no error during the trace (no cancellation, ErrorOnFSErrors off); extraction is a function of the file content',
                       'package identity = (purl, Locations[0])']
    ctx.rule = ('case = history of 1..6 entries (E empty layer | layer with one op per file: k keep, d whiteout, w<digits> rewrite with these packages), 1..3 files, history mode H/N/S; '
                'thorough adds every history of <=4 entries over one file with packages {1,2} (8+64+512+4096 cases). non-trivial = more than two chain layers and a non-empty final inventory; '
                'distinct = distinct case lines. oracle: every reported package must carry Index = least L with the package in every view L..last (computed by the Lean driver from the case), '
                'the DiffID of that chain layer\'s v1 layer and its CreatedBy')
    ok, _ = ctx.lean_build(['Scalibr.Properties.C05', 'drv_c05'])
    proofs_ok = ctx.audit(['Scalibr.Properties.C05'], THEOREMS)
    if ctx.tier == 'thorough':
        proofs_ok = ctx.leanchecker('Scalibr.Properties.C05') and proofs_ok
    n = {'quick': 1500, 'thorough': 100000}[ctx.tier]

    def nontrivial(case, fi, fm):
        return fm.get('n', '0').isdigit() and int(fm.get('n', '0')) > 2 and fm.get('pk', '-') != '-'

    def oracle(case, fi, fm):
        if fi.get('_') == 'panic':
            return 'the implementation panicked'
        if 'pk' not in fi or 'spec' not in fm:
            return None
        got = [] if fi['pk'] == '-' else fi['pk'].split(',')
        want = [] if fm['spec'] == '-' else fm['spec'].split(',')
        if sorted(t.split(':')[0] for t in got) != sorted(want):
            return 'reported (package @ layer index) %s, the least layer from which the package is in every later view gives %s' % (fi['pk'], fm['spec'])
        meta = _expected_meta(case)
        for t in got:
            head, _, rest = t.partition(':')
            idx = head.split('@')[1]
            if not idx.isdigit() or int(idx) >= len(meta):
                return 'package %s carries no valid layer index' % t
            ordn, _, cmd = rest.partition(':')
            cmd = '' if cmd == '-' else binascii.unhexlify(cmd).decode()
            if (ordn, cmd) != meta[int(idx)]:
                return 'package %s: DiffID/Command are those of (layer %s, %r) but chain layer %s is (layer %s, %r)' % (t, ordn, cmd, idx, meta[int(idx)][0], meta[int(idx)][1])
        return None

    def classify(case, fi, fm):
        mode, nf, ls = _layers(case)
        npk = 0 if fm.get('pk', '-') == '-' else fm['pk'].count(',') + 1
        return 'mode=%s files=%d entries=%d empty=%d pkgs=%s' % (mode, nf, len(ls), sum(1 for l in ls if l == 'E'), npk if npk < 4 else '4+')

    lib.standard_stream(ctx, gen='c05gen', driver='drv_c05', gen_args=['-seed', str(ctx.seed), '-n', str(n), '-tier', ctx.tier],
                        compare_keys=['_', 'n', 'pk'], nontrivial=nontrivial, oracle=oracle, classify=classify)
    if len(ctx.dist) > 60:
        top = dict(sorted(ctx.dist.items(), key=lambda kv: -kv[1])[:60])
        top['(other shapes)'] = sum(ctx.dist.values()) - sum(top.values())
        ctx.dist = top
    if not proofs_ok:
        lib.proof_failed(ctx, 'Scalibr.Properties.C05')
