"""C05 — Packages are attributed to the layer that introduced them."""
import binascii
from . import lib

META = {
    'level': 'proof',
    'technique': 'Lean 4 theorems about the backwards trace loop with the "file not in this layer\'s diff" skip and the (location, layer) extraction cache, for ALL layer histories '
                 '(the loop returns the least L with the package in every view L..last; the cache is transparent; the origin is a layer that wrote the file with the package; '
                 'history/layer alignment) + correspondence with Scanner.ScanContainer on real images',
    'design_ref': 'DESIGN.md §4 (section of C05), §5 (defects), §7 (seeded changes)',
    'text': 'Kernel-checked, unbounded theorems for the model of trace.PopulateLayerDetails and initializeChainLayers. The model is tied to the Go code by building real images '
            '(1..6 history entries, empty layers interleaved, 1-3 package-list files with up to 4 packages, add/rewrite/delete/re-create/no-op/replace-by-symlink; history full, missing or short; context optionally cancelled during the trace), '
            'scanning them with ScanContainer and a line-oriented fake extractor and comparing Index, DiffID and Command of every package; the oracle is the brute-force origin computed from the case.',
    'note': 'Trusted: Lean kernel; axioms propext/Quot.sound/Classical.choice at most; the Go harness, go-containerregistry image construction and the line protocol. '
            'Assumed: one location per package (two extractors reading one file are generated since fix 60a87cab: the cache key carries the extractor); filesystem.Run inside the trace fails only through a cancelled context (modelled as a cancellation point: the package then gets no LayerDetails — '
            'theorem C05_origin_or_unset); views follow the per-file keep/write/symlink/delete semantics (that is C04); a symlinked location points to a list that no later layer touches.',
}
P = 'Scalibr.Trace.'
THEOREMS = [P + t for t in ('C05_spec_view', 'C05_origin_or_unset_partial', 'C05_symlink_target_rewritten', 'C05_origin', 'C05_origin_spec', 'C05_cache_transparent', 'C05_populate_partial',
                            'C05_populate_complete', 'C05_origin_is_write', 'C05_empty_layers_inert', 'C05_alignment', 'C05_details',
                            'C05_details_no_history', 'originSpec_iff')]


def _layers(case):
    t = case.split(' ')
    return t[1], int(t[2]), ([] if t[-1] == '-' else t[-1].split(','))


def _cancel(case):
    t = case.split(' ')
    return len(t) == 5 and t[3] != '-'


SIZE_MODULE = 'Scalibr.Properties.C10Trace'
SIZE_THEOREMS = ['Scalibr.TraceSize.C10_trace_sizes', 'Scalibr.TraceSize.traceSizes_le', 'Scalibr.TraceSize.C10_trace_inodes_disclosed']


def run_size_limit(ctx):
    """C10, clause "a scan never hands a file larger than the size limit to any extractor", on the path the C05 harness owns:
    scalibr.ScanContainer -> trace.PopulateLayerDetails -> filesystem.Run. Real images in which ONE package file has a different
    size in every layer (around the limit: L-1, L, L+1, far above, far below; deleted, untouched, empty layers in between) are scanned
    with the real ScanContainer, MaxFileSize in {0,5,7,8,16,17,40,4096} and MaxInodes in {0,50,1000}, with an extractor that records
    how many bytes every Extract call is handed. Oracle: every recorded size is at most the limit (when one is set) - the statement of
    C10_trace_sizes; tie: the recorded sizes, in call order, equal the model's (Model/TraceSize.lean: main scan of the final view,
    then the trace walking down the views). DISCLOSED, not claimed: the trace's re-runs each start a fresh inode counter (one inode per
    run), so the inode visits of one ScanContainer call are not bounded by MaxInodes as a total; their number (`runs`, counted with a stats
    collector) is compared with the model's traceInodes (Properties/C10Trace.lean, C10_trace_inodes_disclosed). The caller (checks/c10.py) audits SIZE_THEOREMS in SIZE_MODULE."""
    ok, _ = ctx.lean_build([SIZE_MODULE, 'drv_c05'])

    def sizes(f):
        v = f.get('sizes', '-')
        return [] if v == '-' else [int(x) for x in v.split('.')]

    def oracle(case, fi, fm):
        if fi.get('_') == 'panic':
            return 'the implementation panicked'
        if 'sizes' not in fi:
            return None
        limit = int(case.split(' ')[1])
        over = [s for s in sizes(fi) if limit > 0 and s > limit]
        if over:
            return ('ScanContainer with MaxFileSize=%d handed %s bytes to an extractor (sizes per Extract call: %s; the bound the '
                    'specification prints is %s)' % (limit, ', '.join(map(str, over)), fi['sizes'], fm.get('bound')))
        return None

    def nontrivial(case, fi, fm):
        limit = int(case.split(' ')[1])
        ws = [int(o[1:]) for o in case.split(' ')[3].split(',') if o.startswith('w')]
        return limit > 0 and len(sizes(fi)) >= 1 and any(w > limit for w in ws)

    def classify(case, fi, fm):
        t = case.split(' ')
        ws = [int(o[1:]) for o in t[3].split(',') if o.startswith('w')]
        return 'sizes limit=%s inodes=%s calls=%s older-over-limit=%s' % (t[1], t[2], min(len(sizes(fi)), 3), int(int(t[1]) > 0 and any(w > int(t[1]) for w in ws)))

    n = {'quick': 2500, 'thorough': 40000}[ctx.tier]
    args = ['-seed', str(ctx.seed), '-n', str(n), '-tier', 'quick', '-only', 'sizes', '-also', lib.VERIF + '/corpus/C05/sizes.case']
    st = lib.standard_stream(ctx, gen='c05gen', driver='drv_c05', gen_args=args, compare_keys=['_', 'sizes', 'runs'],
                             nontrivial=nontrivial, oracle=oracle, classify=classify)
    return ok and st


def run(ctx):
    ctx.trusted = ['Lean 4.33.0 kernel', 'axioms: propext, Quot.sound, Classical.choice at most (see theorems.*.axioms)',
                   'harness/cmd/c05gen (go-containerregistry images with history, Scanner.ScanContainer, fake extractor) + lean/Drivers/C05.lean line protocol',
                   'Lean compiler for the driver executable']
    ctx.assumptions = ['what an extractor reports for a location depends only on the object at that path (hypothesis hd of the _partial theorems: filesExistInLayer answers "yes" exactly when the layer changed it); known to fail for symlinked locations whose target is rewritten (op t, finding C05/location-content-depends-on-other-paths) and, outside this stream, for extractors that read a second file (os/dpkg: etc/os-release) or report a first location they are not required for (go.sum of gomod)',
                       'per file, a chain layer keeps, writes, deletes the file or replaces it by a symlink to another list (whose target no later layer touches); the image-up-to-layer views follow that (C04 is the property about views)',
                       'one location per package: the cache key (location, layer index, extractor) then determines the extraction result',
                       'filesystem.Run inside the trace fails only through the context (ErrorOnFSErrors and MaxInodes do not reach it): cancellation is modelled as "after k re-extractions"; extraction is a function of the file content; an Extract error does not drop the packages it returned',
                       'package identity = (purl, Locations[0]); the fake extractor emits purls pkg:generic/<name>@<version>, names are shared between versions']
    ctx.rule = ('case = history of 1..6 entries (E empty layer | layer with one op per file: k keep, d whiteout, w<digits> rewrite with these packages (a digit is a (name, version) pair; digits d and d+4 are the SAME name at versions 1 and 2, so files hold one name at two versions, versions get bumped, and the same name@version sits at several locations), s<digits> replace the location by a symlink to such a list, a<n>/r<n>/l<n>/h<n> delete by whiteout / replace by a regular file / by a symlink / by a hard link to another directory the directory n levels above the file — files sit up to three directories deep and share no ancestor, because a deleted directory re-created for a SIBLING is the known C04 finding C04/recreate-after-whiteout), 1..3 files, history mode H/N/S/G (full; none, last entry dropped, one entry too many: the last three usually take the fallback of initializeChainLayers, where the specification (Spec.specChain) says one chain layer per v1 layer, Index = the ordinal of the layer, no command), optionally the context cancelled after k re-extractions of the trace (c0: by a detector, before the trace starts); a fifth of the cases lets something fail AFTER the successful extraction of the final view (a detector reporting inconsistent advisories / a finding without advisory / an error, a failing standalone extractor): the scan is then marked failed or partly failed but keeps its inventory, and the attribution must be exactly the same; '
                'thorough adds every history of <=4 entries over one file with packages p1@1, p1@2, p2@1 (15 ops per entry, ancestor deletions at every level included; histories of 3-4 entries also cancelled after the first re-extraction). non-trivial = more than two chain layers and a non-empty final inventory; '
                'distinct = distinct case lines. oracle: every reported package must carry Index = least L with the package in every view L..last (computed by the Lean driver from the case), '
                'the DiffID of that chain layer\'s v1 layer and its CreatedBy; a package without LayerDetails is accepted only when the context was cancelled')
    ok, _ = ctx.lean_build(['Scalibr.Properties.C05', 'drv_c05'])
    proofs_ok = ctx.audit(['Scalibr.Properties.C05'], THEOREMS)
    if ctx.tier == 'thorough':
        proofs_ok = ctx.leanchecker('Scalibr.Properties.C05') and proofs_ok
    n = {'quick': 1500, 'thorough': 100000}[ctx.tier]

    def nontrivial(case, fi, fm):
        return fm.get('n', '0').isdigit() and int(fm.get('n', '0')) > 2 and fm.get('pk', '-') not in ('-', 'sa@nil')

    def oracle(case, fi, fm):
        if fi.get('_') == 'panic':
            return 'the implementation panicked'
        if 'pk' not in fi or 'spec' not in fm:
            return None
        got = [] if fi['pk'] == '-' else fi['pk'].split(',')
        # the standalone extractor's package is reported but cannot be traced: it must carry no LayerDetails
        sa = [t for t in got if t.startswith('sa@')]
        if sa != ([] if 's' in case.split(' ')[1][1:] else ['sa@nil']):
            return 'the package of the standalone extractor is reported as %s; it must be present and carry no LayerDetails' % (sa or 'missing')
        got = [t for t in got if not t.startswith('sa@')]
        want = dict(t.split('@') for t in ([] if fm['spec'] == '-' else fm['spec'].split(',')))
        if sorted(t.split('@')[0] for t in got) != sorted(want):
            return 'reported packages %s, the final view holds %s' % (fi['pk'], fm['spec'])
        # the chain layers the specification prescribes (Spec.specChain, printed by the Lean driver)
        meta = [tuple(x.split(':')) for x in ([] if fm.get('al', '-') == '-' else fm['al'].split(','))]
        for t in got:
            name, _, where = t.partition('@')
            if where == 'nil':
                # no LayerDetails: only a cancelled context may leave a package unattributed
                if not _cancel(case):
                    return 'package %s has no LayerDetails although the context was never cancelled' % name
                continue
            idx, _, rest = where.partition(':')
            if idx != want[name]:
                return ('package %s is attributed to layer %s; the least layer from which it is in every later view is %s '
                        '(reported %s, expected %s)' % (name, idx, want[name], fi['pk'], fm['spec']))
            if not idx.isdigit() or int(idx) >= len(meta):
                return 'package %s carries no valid layer index' % t
            ordn, _, cmd = rest.partition(':')
            if (ordn, cmd) != meta[int(idx)]:
                dec = lambda c: '' if c == '-' else binascii.unhexlify(c).decode()
                return 'package %s: DiffID/Command are those of (layer %s, %r) but chain layer %s is (layer %s, %r)' % (
                    t, ordn, dec(cmd), idx, meta[int(idx)][0], dec(meta[int(idx)][1]))
        return None

    def classify(case, fi, fm):
        mode, nf, ls = _layers(case)
        npk = 0 if fm.get('pk', '-') == '-' else fm['pk'].count(',')   # without the standalone extractor's package
        unset = fi.get('pk', '').count('@nil')
        return 'mode=%s entries=%d pkgs=%s%s%s%s%s' % (mode, len(ls), npk if npk < 3 else '3+', ' empty-layers' if 'E' in ls else '',
                                                  ' symlink' if any('/s' in l for l in ls) else '', ' ancestor-op' if any('/a' in l or '/r' in l or '/l' in l or '/h' in l for l in ls) else '',
                                                  (' cancelled(unset=%s)' % ('0' if unset == 0 else '1+')) if _cancel(case) else '')

    def finding_class(case, fi, fm):
        # the location's content depends on another path: here, a symlinked location whose TARGET a layer rewrites (op t)
        _, _, ls = _layers(case)
        if any(op.startswith('t') for l in ls if l != 'E' for op in l.split('/')[1:]):
            return 'C05/location-content-depends-on-other-paths'
        return None

    lib.standard_stream(ctx, gen='c05gen', driver='drv_c05', gen_args=['-seed', str(ctx.seed), '-n', str(n), '-tier', ctx.tier],
                        compare_keys=['_', 'n', 'pk'], nontrivial=nontrivial, oracle=oracle, classify=classify, finding_class=finding_class)
    if len(ctx.dist) > 200:
        top = dict(sorted(ctx.dist.items(), key=lambda kv: -kv[1])[:200])
        top['(other shapes)'] = sum(ctx.dist.values()) - sum(top.values())
        ctx.dist = top
    if not proofs_ok:
        lib.proof_failed(ctx, 'Scalibr.Properties.C05')
