"""C12 — A reported fix is a real fix: re-analysis matches the report."""
import os
from . import lib

META = {
    'level': 'proof',
    'technique': 'Lean 4 reduction theorems over a pipeline model (choosePatches, computeVulnsResult, ConstructPatches; writer correctness = C13 as a hypothesis), '
                 'correspondence of the three models with the real functions, and an end-to-end stream (real FixVulns with in-memory deps.dev universes and a local matcher, '
                 're-read, second FixVulns) judged by the Lean specification',
    'design_ref': 'DESIGN.md §4 (section of C12), §5 (defects), §7 (seeded changes)',
    'text': 'Kernel-checked, unbounded: choosePatches returns a sublist of the computed patches, at most MaxUpgrades of them, pairwise compatible, none introducing when NoIntroduce; '
            'no vulnerability fixed by a chosen patch is marked unactionable; ConstructPatches reports exactly old∖new and new∖old, hence new = old − fixed + introduced; its update list is the '
            'requirement diff keyed by manifest ENTRY (name + npm alias / Maven type), one update per changed entry; substituting '
            'the reported requirement updates into the old requirements gives the patched requirements; the pipeline model has Write (with failure), Read, resolve+match as one '
            'deterministic function of the requirements, and the options\' ExplicitVulns handling (ignore list computed from the ORIGINAL graph only): the report (fixed, introduced) is COMPUTED by the model of ConstructPatches from the run\'s two analyses, and for a '
            'correct writer the fresh analysis of the RE-READ file is the original minus that fixed plus that introduced (C12_roundtrip_partial; for the patches choosePatches picks: C12_chosen_patch_is_real_partial), under the weakest condition on ExplicitVulns (no vulnerability outside the list enters with the patch); WriterCorrect is discharged '
            'for package.json by C13\'s theorem (C12_npm_writer_correct), holds for pom.xml on the literal fragment only and fails in the recorded C13 pom classes; with an ExplicitVulns list '
            'the equation is false for the unchanged code (C12_explicit_vulns_witness = known finding). No patch implies unchanged requirements. The end-to-end stream runs the real FixVulns on generated '
            'npm/relax and Maven/override universes and lets the Lean specification judge: original − fixed + introduced = second analysis (single patch), the re-read manifest entries = the '
            'original entries with the reported updates substituted (per entry, aliases included), requirements unchanged when no patch, nothing fixed is unactionable.',
    'note': 'Trusted: Lean kernel (axioms propext/Quot.sound/Classical.choice at most); determinism of the deps.dev resolvers and of the matcher (parameters); the C13 trust base for the '
            'writers; harness/cmd/c12gen + harness/remx + lean/Drivers/C12.lean. The equation is claimed for MaxUpgrades = 1 as the property states; for several patches only the '
            'unactionable and compatibility statements are checked. Lockfile-based (in-place) remediation is outside C12.',
}
P = 'Scalibr.Pipeline.'
THEOREMS = [P + 'C12_choose_sublist', P + 'C12_unactionable', P + 'C12_patch_is_diff_partial', P + 'C12_after_is_expected_partial',
            P + 'C12_update_per_entry_partial', P + 'C12_alias_pair_witness', P + 'C12_updates_substitute_partial',
            P + 'C12_roundtrip_partial', P + 'C12_chosen_patch_is_real_partial', P + 'C12_no_patch_no_change_partial',
            P + 'C12_explicit_vulns_witness', P + 'C12_duplicate_witness',
            'Scalibr.Npm.C12_npm_writer_correct', 'Scalibr.Npm.C12_npm_real_fix_partial',
            'Scalibr.Pom.C12_pom_writer_correct_partial', 'Scalibr.Pom.C12_pom_real_fix_partial']


def build_noshim(log):
    """go build -tags verif,noshim with the overlay entries named in the compiler output removed; returns (binary|None, [broken files])"""
    import json, os, re
    ov = json.load(open(lib.HARNESS + '/overlay/overlay.json'))
    named = set(re.findall(r'(/\S*verif_export_\w+\.go)', log))      # the compiler names the overlay SOURCE file (or its /repo path)
    broken = sorted(k for k, v in ov['Replace'].items() if k in named or v in named)
    if not broken:
        return None, []
    ov['Replace'] = {k: v for k, v in ov['Replace'].items() if k not in broken}
    os.makedirs(lib.VERIF + '/evidence', exist_ok=True)
    path = os.environ.get('TMPDIR', '/var/tmp') + '/.overlay-noshim-C12.json'
    json.dump(ov, open(path, 'w'))
    out_bin = lib.HARNESS + '/bin/c12gen-noshim'
    rc, out = lib.sh(['go', 'build', '-tags', 'verif,noshim', '-overlay', path, '-o', out_bin, './cmd/c12gen'], cwd=lib.HARNESS, env=lib.goenv(), timeout=3600)
    return (out_bin if rc == 0 else None), [os.path.basename(b) for b in broken]

def ep_verdict(fi, fm):
    """Spec.EntryPoints.judge on the observation (res, errs, same) against the driver's want="""
    w, err, errs, same = fm.get('want'), fi.get('outcome') == 'err', int(fi.get('errs', '0') or 0), fi.get('same', '-')
    if w == 'refuse' and not (err and same != '0'):
        return 'must be refused with an error and leave the manifest as it is (got %s, manifest unchanged=%s)' % (fi.get('outcome'), same)
    if w == 'succeed' and err:
        return 'must succeed, an error was returned'
    if w == 'flagged' and not (err or errs > 0):
        return 'a requirement that cannot be resolved passed silently: no error and no resolve error in the result'
    if w not in ('refuse', 'succeed', 'flagged'):
        return 'driver did not judge the case'
    return None


def run(ctx):
    ctx.trusted = ['Lean 4.33.0 kernel', 'axioms: propext, Quot.sound, Classical.choice at most (see theorems.*.axioms)',
                   'deps.dev npm/Maven resolvers and the local matcher are deterministic functions of the manifest requirements (parameters of the model; both FixVulns runs use the same clients)',
                   'C13 trust base for ReadWriter.Read/Write', 'harness/cmd/c12gen + harness/remx + lean/Drivers/C12.lean', 'Lean compiler for the driver executable']
    ctx.assumptions = ['WriterCorrect (= C13) is a hypothesis of C12_roundtrip_partial / C12_no_patch_no_change_partial',
                       'the in-memory patched manifest keeps the keys of the original (updates, not additions) in C12_roundtrip_partial; additions (Maven dependencyManagement, every third Maven pom with a dependencyManagement section only inside an inactive profile) are covered by the end-to-end stream only',
                       'a fresh analysis lists every vulnerability id once (FindVulnerabilities groups by id); C12_duplicate_witness shows the hypothesis matters']
    ctx.rule = ('cp = 0-6 patches (1-2 updates over 4 packages x 2 old versions, 1-2 fixed ids, sometimes introduced ids) x MaxUpgrades in {-1,0,1,2,3} x NoIntroduce, through the real choosePatches and '
                'computeVulnsResult; cd = old/new vulnerability id lists and old/new requirement lists (real package.json manifests) through the real ConstructPatches; '
                'e2e = universe of 2-4 packages (dotted/scoped names, 1-6 versions, transitive package) x manifest (1-4 requirements, dev deps; for npm every second manifest requires one package through 1-2 extra npm: alias entries at the identical or another range, every second of them in devDependencies / optionalDependencies while the plain entry sits in dependencies) ; every eighth case Maven/override on 1-3 dependency-free direct packages whose <version> is a property the pom defines (one literal entry mixed in now and then), so that the writer only has property values to change; every eighth Maven/override on a multi-module layout top/[mid/]app — the manifest with 1-2 local parent poms, poms below the top leaving out their own groupId/version or relativePath, direct packages declared with explicit versions (or a property of the declaring pom) at any level, a vulnerable one usually in the <dependencies> of a parent: the fix has to reach the parent file) ; alias-linked records with different ranges (A on lib below a version, B — aliases [A] — from there on; the alias on either or both, a chain of three, an alias nothing has; lib direct or one edge down); a vulnerability the options hide in the original graph and the patch exposes) x 1-3 vulnerabilities (chains: fixed here, introduced '
                'there) x options (MaxUpgrades, NoIntroduce, ignore/explicit lists, DevDeps, MaxDepth, per-package levels), npm/relax and Maven/override, through the real FixVulns twice; every fourth case pins a '
                'transitive package at level None below a package whose patch (MaxUpgrades = 1) fixes the pinned package\'s vulnerability as a side effect; every eighth case has an ignore list (ids and '
                'aliases) naming vulnerabilities that are absent from the original graph and enter only with what the patch brings in. Options are rebuilt from the case for each of the two runs. '
                'non-trivial = a patch was chosen / reported; distinct = distinct case lines')
    ok, _ = ctx.lean_build(['Scalibr.Properties.C12', 'drv_c12'])
    proofs_ok = ctx.audit(['Scalibr.Properties.C12'], THEOREMS)
    if ctx.tier == 'thorough':
        proofs_ok = ctx.leanchecker('Scalibr.Properties.C12') and proofs_ok
    n = {'quick': 2000, 'thorough': 16000}[ctx.tier]

    binary = ctx.go_build('c12gen')
    if binary is None:
        # RESILIENCE: an export shim that no longer compiles against /repo breaks the tie for the unit streams only.
        # Rebuild without the shim-dependent files (-tags verif,noshim) and without the overlay entries the compiler
        # complained about, and keep searching for a failing input with the public-API end-to-end stream.
        log = getattr(ctx, 'go_log', '')
        binary, broken = build_noshim(log)
        ctx.violation('the export shims %s do not compile against /repo: the tie is broken for the unit streams (choosePatches / computeVulnsResult / ConstructPatches); '
                      'the end-to-end stream (public FixVulns) was %s: %s' % (broken or '?', 'still run' if binary else 'not buildable either', log[-1200:]),
                      ['# unit streams of c12gen could not be built'], found_input=False, name='build-c12gen')
        if binary is None:
            return
    rows = []
    if ctx.replay:
        r, okg = ctx.run_gen(binary, ['-replay', ctx.replay])
        rows += r
    else:
        corp = lib.corpus_lines(ctx.prop)
        if corp:
            tmp = os.environ.get('TMPDIR', '/var/tmp') + '/.corpus-%s.txt' % ctx.prop
            open(tmp, 'w').write('\n'.join(corp) + '\n')
            r, okg = ctx.run_gen(binary, ['-replay', tmp])
            rows += r
        r, okg = ctx.run_gen(binary, ['-seed', str(ctx.seed), '-n', str(n), '-tier', ctx.tier])
        rows += r
        if not okg:
            ctx.violation('generator c12gen crashed: %s' % '; '.join(ctx.notes[-1:]), ['# see notes'], found_input=False, name='gencrash-c12gen')
    # second stage: what the Lean driver is asked. For cp/cd the case itself (model vs implementation);
    # for e2e the IMPLEMENTATION's observations, judged by the Lean specification.
    asks = []
    for case, impl in rows:
        fi = lib.fields(impl)
        if case.startswith('e2e '):
            if fi.get('r') == 'ok':
                asks.append('e2e2 %s %s %s %s %s %s %s %s %s %s %s %s' % (fi['k'], fi['explicit'], fi['orig'], fi['np'], fi['fixed'], fi['intro'], fi['after'], fi['unfix'], fi['reqsame'],
                                                                    fi['rb'], fi['ra'], fi['ru']))
            else:
                asks.append('skip')
        else:
            asks.append(case)
    replies = ctx.run_driver('drv_c12', asks) if asks else []
    first_mismatch = None
    for (case, impl), ask, mod in zip(rows, asks, replies):
        fi, fm = lib.fields(impl), lib.fields(mod)
        op = case.split(' ')[0]
        if op == 'e2e':
            r = fi.get('r', fi.get('_', '?'))
            cls = 'e2e %s r=%s np=%s%s' % (case.split(' ')[1], r, fi.get('np'), ' introduced' if fi.get('intro', '-') != '-' else '')
            ctx.add_case(case, fi.get('np', '0') != '0', cls)
            if len(ctx.samples) < 12 and fi.get('np', '0') != '0' and sum(1 for s in ctx.samples if s['case'].startswith('e2e')) < 3:
                ctx.samples.append({'case': case[:300] + '…', 'impl': impl[:300], 'model': ask + ' -> ' + mod})
            verdict = None
            if r == 'panic' or fi.get('_') == 'panic':
                verdict = 'FixVulns panicked'
            elif r in ('err2', 'ok-rereaderr'):
                verdict = 'the manifest FixVulns wrote cannot be analysed again (%s)' % r
            elif r == 'ok' and fi.get('want', '?') != '?' and fi.get('want') != fi.get('orig'):
                verdict = ('end-to-end: the vulnerabilities FixVulns reports for the original manifest (%s) are not the ones the options select (%s: present in the '
                           'resolved graph, on the explicit list if there is one, not ignored by id or alias, not dev-only unless DevDeps, severity >= MinSeverity or unknown, '
                           'within MaxDepth; recomputed by the harness from the graph)' % (fi.get('orig'), fi.get('want')))
            elif r == 'ok' and fm.get('spec') == '0':
                verdict = 'end-to-end: ' + fm.get('why', '?') + ' (orig=%s fixed=%s introduced=%s second analysis=%s; entries before=%s after=%s reported updates=%s)' % (fi['orig'], fi['fixed'], fi['intro'], fi['after'], fi['rb'], fi['ra'], fi['ru'])
            elif r == 'ok' and fm.get('spec') != '1':
                verdict = 'driver did not judge the case: ' + mod
            if verdict and fm.get('cls', '-') != '-' and ctx.known_finding(fm['cls'], verdict):
                continue
            if verdict and sum(1 for v in ctx.violations if v[2]) < 3:
                ctx.violation('specification violated by the implementation: ' + verdict, [case + '\t' + impl + '\t' + ask + ' -> ' + mod])
            continue
        if op == 'ep':
            ctx.add_case(case, True, 'ep want=%s outcome=%s' % (fm.get('want'), fi.get('outcome')))
            v = 'FixVulns / Update panicked' if fi.get('_') == 'panic' else ep_verdict(fi, fm)
            if v:
                ctx.violation('specification violated by the implementation: entry point, kind %s (see Spec/EntryPoints.lean): %s' % (case.split(' ')[1], v), [case + '\t' + impl + '\t' + mod])
            continue
        nontrivial = ('sel=-' not in impl) if op == 'cp' else ('ups=-' not in impl or 'fixed=-' not in impl)
        ctx.add_case(case, nontrivial, '%s %s' % (op, 'some' if nontrivial else 'none'))
        if len(ctx.samples) < 4:
            ctx.samples.append({'case': case[:400], 'impl': impl[:300], 'model': mod[:300]})
        if fi.get('_') == 'panic':
            ctx.violation('specification violated by the implementation: %s panicked' % op, [case + '\t' + impl + '\t' + mod])
        elif impl != mod:
            ctx.mismatches.append(case)
            if first_mismatch is None:
                first_mismatch = (case, impl, mod)
    if first_mismatch is not None and not any(v[2] for v in ctx.violations):
        case, impl, mod = first_mismatch
        ctx.violation('correspondence c12gen/drv_c12 no longer checks: model and implementation differ on %d case(s); the end-to-end stream found no input on which the '
                      'specification fails. first diverging case below (case, impl, model)' % len(ctx.mismatches), [case + '\t' + impl + '\t' + mod], found_input=False, name='corr-c12gen')
    if not proofs_ok:
        lib.proof_failed(ctx, 'Scalibr.Properties.C12')
