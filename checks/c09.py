"""C09 — Filesystem faults are contained, surfaced, and fatal only on request."""
from . import lib, walkcommon as W

META = {
    'level': 'proof',
    'technique': 'Lean 4 theorems over all fault plans (no panic; non-fatal; containment; status characterisation) + fault-injecting correspondence with scalibr.Scan',
    'design_ref': 'DESIGN.md §5 C09',
    'text': 'Kernel-checked for ALL trees and ALL fault plans (any number of simultaneous faults over stat/open-dir/k-th read/open-file/stat-on-open/lazy size stat/.gitignore open): '
            'the engine never panics unless an extractor does; with errors not fatal no fault set fails the scan; the attempts made are those of the fault-free scan minus the '
            'files under/after the failing site; statuses are failed/partial exactly when an attempt failed. Tied to the Go engine through a fault-injecting fs.FS.',
    'note': 'Trusted as in C01. Fault kinds: one non-permission error class (permission errors differ only in log level). '
            'C09_fatal: scan error = fs exactly when traversalFaultScan, for all forests and fault plans.',
}
THEOREMS = ['Scalibr.Walk.C09_no_panic', 'Scalibr.Walk.C09_nonfatal', 'Scalibr.Walk.C09_contained', 'Scalibr.Walk.C09_surfaced',
            'Scalibr.Walk.C09_status_meaning', 'Scalibr.Walk.C09_fatal', 'Scalibr.Walk.C09_fatal_step', 'Scalibr.Walk.walkNode_fatal', 'Scalibr.Walk.walkNode_stack', 'Scalibr.Walk.mustOne_contained',
            'Scalibr.Walk.C09_contained_run', 'Scalibr.Walk.C09_contained_noFaults', 'Scalibr.Walk.C09_gitignore_unreadable', 'Scalibr.Walk.C09_gitignore_unreadable_run',
            'Scalibr.Walk.C09_fatal_anchor', 'Scalibr.Walk.C09_fatal_declarative', 'Scalibr.Walk.C09_fatal_clean', 'Scalibr.Walk.C09_eofs_only_by_failing']


def run(ctx):
    ctx.trusted, ctx.assumptions, ctx.rule = W.TRUSTED, W.ASSUME, W.RULE
    ctx.lean_build(['Scalibr.Properties.C09', 'drv_walk'])
    ok = ctx.audit(['Scalibr.Properties.C09'], THEOREMS)
    if ctx.tier == 'thorough':
        ok = ctx.leanchecker('Scalibr.Properties.C09') and ok
    n = {'quick': 8000, 'thorough': 200000}[ctx.tier] * W.scale(ctx)

    def oracle(case, fi, fm):
        v = W.oracle_calls(case, fi, fm) or W.oracle_fatal(case, fi, fm)
        if v:
            return v
        # no panic unless an extractor panics (the case line carries the panic flags: "=<err><panic>:")
        if fi.get('err') == 'panic' and not any(t.split('=')[1][1:2] == '1' for t in case.split(' ')[7].split(';') if '=' in t):
            return 'the scan panicked although no extractor panics'
        # statuses: under the benign hypothesis the model's statuses ARE statusSpec (theorem C09_surfaced); compare the implementation's with them
        if fm.get('hyp') == '1' and fi.get('st') != fm.get('st'):
            return 'plugin statuses %s differ from the specified ones %s' % (fi.get('st'), fm.get('st'))
        return None
    W.run_stream(ctx, 'faults', n, oracle)
    W.run_stream(ctx, 'mixed', n // 4, oracle)
    if not ok:
        lib.proof_failed(ctx, 'Scalibr.Properties.C09')
