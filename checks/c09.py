"""C09 — Filesystem faults are contained, surfaced, and fatal only on request."""
from . import lib, walkcommon as W

META = {
    'level': 'proof',
    'technique': 'Lean 4 theorems over all fault plans (no panic; non-fatal; containment; status characterisation) + fault-injecting correspondence with scalibr.Scan',
    'design_ref': 'DESIGN.md §4 (section of C09), §5 (defects), §7 (seeded changes)',
    'text': 'Kernel-checked for ALL trees and ALL fault plans (any number of simultaneous faults over stat/open-dir/k-th read/open-file/stat-on-open/lazy size stat/.gitignore open): '
            'the ONE engine-side panic site of the model (the deferred gitignore-stack pop) is unreachable, so a scan ends with the panic outcome only if an extractor panics (other Go panic sources have no outcome in the model: stream only); with errors not fatal no fault set fails the scan; the attempts made are those of the fault-free scan minus the '
            'files under/after the failing site — for ANY plan, mixed unreadable .gitignore + other faults and requested paths included (C09_contained_any, C09_contained_run_any_benign; the driver prints that right-hand side as contained= and the implementation is judged against it); statuses are failed/partial exactly when an attempt failed, as a function of each attempts of that root in EVERY configuration without a panicking extractor (C09_statuses_of_calls). Fault plans are ENUMERATED for small trees (all single faults; all pairs in the thorough tier) besides the sampled stream. There is no file-content read fault: the engine never reads contents, it hands the reader to Extract. Tied to the Go engine through a fault-injecting fs.FS.',
    'note': 'Trusted as in C01. Fault kinds: every fault site answers with one of three error kinds (other / syscall.EACCES / syscall.ENOENT); the engine must treat them alike apart from log levels, the model has one failure outcome per site. '
            'C09_fatal_fatalcfg: scan error = fs exactly when traversalFaultScan, for all forests and fault plans.',
}
THEOREMS = ['Scalibr.Walk.C09_no_panic', 'Scalibr.Walk.C09_nonfatal_benign', 'Scalibr.Walk.C09_contained_partial', 'Scalibr.Walk.C09_surfaced_benign',
            'Scalibr.Walk.C09_status_meaning', 'Scalibr.Walk.C09_fatal_fatalcfg', 'Scalibr.Walk.C09_fatal_step', 'Scalibr.Walk.walkNode_fatal', 'Scalibr.Walk.walkNode_stack', 'Scalibr.Walk.mustOne_contained',
            'Scalibr.Walk.C09_contained_run_partial', 'Scalibr.Walk.C09_contained_noFaults', 'Scalibr.Walk.C09_gitignore_unreadable', 'Scalibr.Walk.C09_gitignore_unreadable_run_partial',
            'Scalibr.Walk.C09_fatal_anchor', 'Scalibr.Walk.C09_fatal_declarative_fatalcfg', 'Scalibr.Walk.C09_fatal_clean_fatalcfg', 'Scalibr.Walk.C09_eofs_only_by_failing',
            'Scalibr.Walk.C09_contained_any', 'Scalibr.Walk.C09_contained_run_any_benign', 'Scalibr.Walk.C09_statuses_of_calls', 'Scalibr.Walk.C09_statusSpec_is_statusOfCalls']


def run(ctx):
    ctx.trusted, ctx.assumptions, ctx.rule = W.TRUSTED, W.ASSUME, W.RULE
    ctx.lean_build(['Scalibr.Properties.C09', 'drv_walk'])
    ok = ctx.audit(['Scalibr.Properties.C09'], THEOREMS)
    if ctx.tier == 'thorough':
        ok = ctx.leanchecker('Scalibr.Properties.C09') and ok
    n = {'quick': 8000, 'thorough': 200000}[ctx.tier] * W.scale(ctx)

    def oracle(case, fi, fm):
        v = W.oracle_calls(case, fi, fm) or W.oracle_fatal(case, fi, fm)
        if v:
            return v
        # no panic unless an extractor panics (the case line carries the panic flags: "=<err><panic>:")
        if fi.get('err') == 'panic' and not any(t.split('=')[1][1:2] == '1' for t in case.split(' ')[7].split(';') if '=' in t):
            return 'the scan panicked although no extractor panics'
        return None
    W.run_stream(ctx, 'faults', n, oracle)
    W.run_stream(ctx, 'mixed', n // 4, oracle)
    # ---- "every single fault and every pair of faults over all operation sites of generated small trees": ENUMERATED, not sampled.
    # Sites of a tree: stat of every node (root / requested-path stat, lazy size stat), open of every directory, open of every directory's
    # .gitignore, every ReadDir(1) call 0..#entries of every directory, open and Stat()-on-open of every file. thorough: fault-free + ALL single-site
    # plans + ALL pairs for each base tree (faultsx); quick: fault-free + all single-site plans + 12 seeded pairs per base tree (faultsq).
    sites = {}

    def cls_enum(case, fi, fm):
        k = 'enumerated plan=%s verdict=%s' % (fi.get('plan'), 'calls' if fm.get('hyp') == '1' else 'fatal' if fm.get('fatalhyp') == '1' else '-')
        sites[fi.get('nsites')] = sites.get(fi.get('nsites'), 0) + 1
        return k
    W.run_stream(ctx, 'faultsx' if ctx.tier == 'thorough' else 'faultsq', n // 4 if ctx.tier == 'thorough' else n // 8, oracle, classify=cls_enum)
    ctx.extra['enumerated_fault_plans_by_number_of_sites'] = dict(sorted(sites.items(), key=lambda kv: int(kv[0] or 0)))
    if not ok:
        lib.proof_failed(ctx, 'Scalibr.Properties.C09')
