"""C18 — Affected-version decisions follow the OSV range rules."""
from . import lib

META = {
    'level': 'proof',
    'technique': 'Lean 4 theorems (sort + binary-search decision = OSV evaluation, all event lists) + exhaustive/random correspondence of the Lean model with vulns.IsAffected',
    'design_ref': 'DESIGN.md §5 C18',
    'text': 'Kernel-checked theorems: for every well-formed range in any listing order the model of IsAffected (stable sort, binary search, '
            'exact/between decision) equals the OSV evaluation; record-level rule; other packages/ecosystems never match. The model is tied '
            'to the Go function by running both on every well-formed event list of length <=5 over 7 versions x 3 ecosystems (thorough) or a seeded '
            'sample plus ill-formed lists (quick).',
    'note': 'Trusted: Lean kernel; axioms propext/Quot.sound/Classical.choice at most; deps.dev semver.Compare is a total order agreeing with the rank tables '
            '(checked at generator start-up); slices.SortFunc / BinarySearchFunc by contract; the Go harness and line protocol.',
}
THEOREMS = ['Scalibr.Vulns.C18_range', 'Scalibr.Vulns.C18_listing_order', 'Scalibr.Vulns.C18_listing_order_decision',
            'Scalibr.Vulns.C18_record', 'Scalibr.Vulns.C18_decl', 'Scalibr.Vulns.C18_range_cmp', 'Scalibr.Vulns.C18_range_type', 'Scalibr.Vulns.C18_other', 'Scalibr.Vulns.C18_unknown_ecosystem',
            'Scalibr.Vulns.C18_sort_pre', 'Scalibr.Vulns.C18_illformed_differs', 'Scalibr.Vulns.specAffectedB_iff']


def run(ctx):
    ctx.trusted = ['Lean 4.33.0 kernel', 'axioms: propext, Quot.sound (see theorems.*.axioms)', 'deps.dev semver.Compare orders the rank tables (asserted at generator start)',
                   'slices.SortFunc/BinarySearchFunc contracts', 'harness/cmd/c18gen + lean/Drivers/C18.lean line protocol', 'Lean compiler for the driver executable']
    ctx.assumptions = ['versions are modelled as ranks in a linear order; "0" is rank 0', 'event lists with limit events or several fields set are outside the model']
    ctx.rule = ('case = (package, vulnerability record with 1-2 affected entries, 1-2 ranges each); thorough enumerates every well-formed event list of length <=5 over 7 ranks '
                'in 3 listing orders x 13 query ranks x 3 ecosystems; random cases mix 70% well-formed shuffled lists with ill-formed ones. non-trivial = some range has >=2 events '
                'and the record is for the queried package; distinct = distinct case lines')
    ok, _ = ctx.lean_build(['Scalibr.Properties.C18', 'drv_c18'])
    proofs_ok = ctx.audit(['Scalibr.Properties.C18'], THEOREMS)
    if ctx.tier == 'thorough':
        proofs_ok = ctx.leanchecker('Scalibr.Properties.C18') and proofs_ok
    n = {'quick': 20000, 'thorough': 200000}[ctx.tier]
    if ctx.fingerprints(['guidedremediation/internal/vulns/vulns.go:IsAffected,VKToPackage']):
        n *= 4

    def nontrivial(case, fi, fm):
        t = case.split(' ')
        return any(x.count(':') >= 2 for x in t[5:])

    def oracle(case, fi, fm):
        # the spec (OSV evaluation, computed by the Lean driver from the case) judged against the IMPLEMENTATION's answer
        if fm.get('wf') == '1' and 'spec' in fm and fi.get('aff') != fm.get('spec'):
            return 'IsAffected returned %s, the OSV evaluation of this well-formed record is %s' % (fi.get('aff', fi.get('_')), fm['spec'])
        return None

    def classify(case, fi, fm):
        return 'wf=%s aff=%s' % (fm.get('wf'), fi.get('aff', fi.get('_')))

    lib.standard_stream(ctx, gen='c18gen', driver='drv_c18', gen_args=['-seed', str(ctx.seed), '-n', str(n), '-tier', ctx.tier],
                        compare_keys=['aff'], nontrivial=nontrivial, oracle=oracle, classify=classify)
    if not proofs_ok:
        lib.proof_failed(ctx, 'Scalibr.Properties.C18')
