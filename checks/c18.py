"""C18 — Affected-version decisions follow the OSV range rules."""
from . import lib

META = {
    'level': 'proof',
    'technique': 'Lean 4 theorems (sort with tie-break + binary search + exact-hit scan = the order-free OSV sentence, all event lists incl. '
                 'events sharing a version) + exhaustive/random correspondence of the Lean model with vulns.IsAffected, every answer judged by the specification',
    'design_ref': 'DESIGN.md §4 (section of C18), §5 (defects), §7 (seeded changes)',
    'text': 'Kernel-checked theorems: the specification is the property\'s own order-free sentence (osvDecl: the version lies in an interval opened by an '
            'introduced event i <= q that no fixed event in (i, q] and no last_affected event in [i, q) closes); it equals the OSV evaluation loop over the events '
            'ordered by (version, kind: fixed, introduced, last_affected) for EVERY event list (C18_decl). A range is well formed when, ordered that way, its '
            'events alternate introduced, fixed|last_affected, … without repetition — so events may share a version exactly as far as they can be ordered '
            'to alternate unambiguously: {introduced X, last_affected X} (exactly X), {fixed X, introduced X} after an earlier opening (adjacent intervals), or all '
            'three; {introduced X, fixed X} as an (empty) interval of its own, two closing events on one version and duplicates are not (C18_wf_tie_shapes). For '
            'every well-formed range in every listing order the model of IsAffected (sort by version then kind, binary search, scan of all events on an exact hit, '
            'previous event otherwise) equals the specification (C18_range, C18_range_decl, C18_record), also stated over an abstract comparison (C18_range_cmp, '
            'C18_range_decl_cmp); the sorted list — hence the decision — does not depend on the listing order nor on the stability of the sort '
            '(C18_listing_order, C18_sort_pre); other packages/ecosystems never match. The model is tied to the Go function by running both on every '
            'well-formed event list of length <=5 over 7 versions x 3 ecosystems, lists with a shared version in all their listing orders (thorough), or a seeded '
            'sample (quick) of untied lists, tied lists (single-version intervals, adjacent intervals, closing event listed first, different spellings of the tied '
            'version, >12 events, queries at / just below / just above the tied version), near-ties and arbitrary ill-formed lists; each implementation answer on a '
            'well-formed record is compared with the specification. SECOND ENTRY POINT (match.go): remediation.MatchVuln takes, for the vulnerable package of each '
            'subgraph, the severities of the first affected[] entry that IsAffected accepts as a one-entry record; the Lean model of MatchVuln (ids/aliases, dev-only, '
            'selection, score threshold with rounding, depth) is proved to select by the OSV rule on well-formed records (C18_match_select, _first, _none, C18_matchvuln), '
            'never to select an entry of another package/ecosystem (C18_match_other), and is tied to the real MatchVuln on generated records whose entries carry their '
            'own severities (answer at the case threshold and at 8 profile thresholds, so the selected score is observable). vulns.VKToPackage and its mock extractor '
            '(ecosystem, PURL, stub methods) are modelled and compared on a fixed table of names x 4 systems.',
    'note': 'Trusted: Lean kernel; axioms propext/Quot.sound/Classical.choice at most; deps.dev semver.Compare is a total order agreeing with the rank tables '
            '(checked at generator start-up); slices.SortFunc / BinarySearchFunc by contract (any correct sort: the comparator is total on distinct events); the Go harness and line protocol. '
            'The model is the code after the repair of the tie defect (events on one version were left in listing order and only the first was looked at: '
            'C18_old_closing_listed_first, C18_old_adjacent_intervals are decided witnesses about the decision procedure before it).',
}
THEOREMS = ['Scalibr.Vulns.C18_decl', 'Scalibr.Vulns.C18_range', 'Scalibr.Vulns.C18_range_decl', 'Scalibr.Vulns.C18_listing_order',
            'Scalibr.Vulns.C18_listing_order_decision', 'Scalibr.Vulns.C18_record', 'Scalibr.Vulns.C18_range_cmp', 'Scalibr.Vulns.C18_decl_cmp',
            'Scalibr.Vulns.C18_range_decl_cmp', 'Scalibr.Vulns.C18_range_type', 'Scalibr.Vulns.C18_other', 'Scalibr.Vulns.C18_unknown_ecosystem',
            'Scalibr.Vulns.C18_sort_pre', 'Scalibr.Vulns.C18_wf_tie_shapes', 'Scalibr.Vulns.C18_old_closing_listed_first',
            'Scalibr.Vulns.C18_old_adjacent_intervals', 'Scalibr.Vulns.C18_illformed_differs', 'Scalibr.Vulns.specAffectedB_iff',
            'Scalibr.Vulns.C18_match_entry', 'Scalibr.Vulns.C18_match_select', 'Scalibr.Vulns.C18_match_select_first', 'Scalibr.Vulns.C18_match_select_none',
            'Scalibr.Vulns.C18_match_other', 'Scalibr.Vulns.C18_matchvuln', 'Scalibr.Vulns.C18_match_toplevel',
            'Scalibr.Vulns.C18_before_introduced', 'Scalibr.Vulns.C18_at_or_after_fixed', 'Scalibr.Vulns.C18_after_last_affected',
            'Scalibr.Vulns.C18_introduced_version_affected', 'Scalibr.Vulns.C18_inside_interval']

ECO = {'0': 'npm', '1': 'Maven', '2': 'PyPI', '3': ''}
PURL_TYPE = {'0': 'npm', '1': 'maven', '2': 'pypi'}


def _hex(s):
    return s.encode().hex() if s else '-'


def _vk_expected(case):
    """what VKToPackage + mock extractor must yield, computed here from the case alone (independent of the Lean model)"""
    _, sys_, name, ver = case.split(' ')
    nm = bytes.fromhex(name).decode() if name != '-' else ''
    if sys_ in PURL_TYPE:
        ns, n = ('', nm)
        if sys_ == '1':
            ns, _, n = nm.partition(':')
        purl = '%s|%s|%s|%s' % (PURL_TYPE[sys_], _hex(ns), _hex(n), ver)
    else:
        purl = 'nil'
    return {'eco': _hex(ECO[sys_]), 'name': name, 'ver': ver, 'purl': purl, 'stubs': '-|nil|0'}


def _ranges(case):
    """event lists of the case line: [[(kind, rank), …], …]"""
    out = []
    for x in case.split(' ')[5:]:
        if ':' in x:
            out.append([(e.split(':')[0], int(e.split(':')[1]) % 100) for e in x.split(',')])
    return out


def run(ctx):
    ctx.trusted = ['Lean 4.33.0 kernel', 'axioms: propext, Quot.sound (see theorems.*.axioms)', 'deps.dev semver.Compare orders the rank tables (asserted at generator start)',
                   'slices.SortFunc/BinarySearchFunc contracts (SortFunc: any correct sort — the comparator separates distinct events, C18_sort_pre)',
                   'harness/cmd/c18gen + lean/Drivers/C18.lean line protocol', 'Lean compiler for the driver executable']
    ctx.trusted += ['severity table of c18gen = sevScore of Drivers/C18.lean (asserted against severity.CalculateScore at generator start)',
                    'math.Round(10*(h/100)) = (h+5) div 10 for thresholds h <= 1100 (asserted at generator start)']
    ctx.assumptions = ['MatchVuln: the id/alias, dev-only, threshold and depth parts are stated as the code computes them (definitional; they carry the selection to the answer); '
                       'the claim of C18 there is the selection of the affected[] entry by the OSV rule',
                       'versions are modelled as ranks in a linear order; "0" is rank 0 and only ever an introduced version; the queried version is never the literal "0"',
                       'event lists with limit events or several fields set are outside the model',
                       'well-formed = ordered by (version, kind: fixed < introduced < last_affected) the events alternate introduced / fixed|last_affected from introduced, '
                       'strictly increasing in that order; events sharing a version that cannot be ordered so ({introduced X, fixed X} alone, fixed X + last_affected X, '
                       'duplicates) are ill-formed and carry no claim']
    ctx.rule = ('case = (package, vulnerability record with 1-2 affected entries, 1-2 ranges each); thorough enumerates every well-formed event list of length <=5 over 7 ranks '
                '(events may share a rank; lists that do in ALL their listing orders, the others in 3) x 13 query ranks x 3 ecosystems; random cases: 1/3 tie cases '
                '(adjacent / single-version intervals of 2-6 or 13-24 events in natural, reversed, group-reversed, closings-first or shuffled order, tied events spelled '
                'differently, query within 1 of a tied rank, 1/6 near-ties), the rest 50% untied well-formed shuffled lists, 20% tied lists, 30% arbitrary lists. '
                'non-trivial = some range has >=2 events and the record is for the queried package; distinct = distinct case lines')
    ctx.rule += ('; every 4th random case is followed by a match case (1-3 subgraphs of one package, 1-3 affected entries that mostly split its versions into branches '
                 'with 0-2 severities each from an 11-entry table incl. unparsable/empty ones, some entries for other packages/ecosystems, tied and ill-formed ranges, '
                 'threshold on / 0.04-0.1 around a score in play, ignore ids, dev-only, depth); 44 vkpkg cases (11 names x 4 systems)')
    ok, _ = ctx.lean_build(['Scalibr.Properties.C18', 'Scalibr.Properties.C18Match', 'Scalibr.Properties.C18Consequences', 'drv_c18'])
    proofs_ok = ctx.audit(['Scalibr.Properties.C18', 'Scalibr.Properties.C18Match', 'Scalibr.Properties.C18Consequences'], THEOREMS)
    if ctx.tier == 'thorough':
        proofs_ok = ctx.leanchecker('Scalibr.Properties.C18') and proofs_ok
        proofs_ok = ctx.leanchecker('Scalibr.Properties.C18Match') and proofs_ok
        proofs_ok = ctx.leanchecker('Scalibr.Properties.C18Consequences') and proofs_ok
    n = {'quick': 20000, 'thorough': 200000}[ctx.tier]
    if ctx.fingerprints(['guidedremediation/internal/vulns/vulns.go:IsAffected,VKToPackage']):
        n *= 4

    def nontrivial(case, fi, fm):
        t = case.split(' ')
        if t[0] == 'vkpkg':
            return True
        return any(x.count(':') >= 2 for x in t[5:])

    def oracle(case, fi, fm):
        if case.startswith('vkpkg '):
            want = _vk_expected(case)
            bad = [k for k in want if fi.get(k) != want[k]]
            return ('VKToPackage / mock extractor: %s is %s, expected %s' % (bad[0], fi.get(bad[0], fi.get('_')), want[bad[0]])) if bad else None
        if case.startswith('match '):
            got = '%s:%s' % (fi.get('match', fi.get('_')), fi.get('prof'))
            if fm.get('wf') == '1' and 'spec' in fm and got != fm['spec']:
                return ('MatchVuln answered %s (case threshold : profile thresholds); with each subgraph\'s affected[] entry selected by the OSV rule (ids, dev-only, threshold, depth as documented) it is %s'
                        % (got, fm['spec']))
            return None
        # the spec (the order-free OSV sentence, computed by the Lean driver from the case) judged against the IMPLEMENTATION's answer
        if fm.get('wf') == '1' and 'spec' in fm and fi.get('aff') != fm.get('spec'):
            return 'IsAffected returned %s, the OSV rule for this well-formed record says %s%s' % (
                fi.get('aff', fi.get('_')), fm['spec'], ' (events share a version)' if fm.get('tie') == '1' else '')
        return None

    def classify(case, fi, fm):
        if case.startswith('vkpkg '):
            return 'vkpkg sys=' + case.split(' ')[1]
        if case.startswith('match '):
            t = case.split(' ')
            return 'match wf=%s top=%s m=%s prof=%s' % (fm.get('wf'), '0' if t[8] == '-' else '1', fi.get('match', fi.get('_')), (fi.get('prof') or '').count('1'))
        cls = 'wf=%s aff=%s' % (fm.get('wf'), fi.get('aff', fi.get('_')))
        if fm.get('tie') == '1':
            q = int(case.split(' ')[3]) % 100
            rel, long_ = set(), False
            for r in _ranges(case):
                ranks = [v for _, v in r]
                long_ = long_ or len(r) > 12
                for v in set(ranks):
                    if ranks.count(v) > 1 and abs(q - v) <= 1:
                        rel.add({-1: 'below', 0: 'at', 1: 'above'}[q - v])
            pos = next((x for x in ('at', 'above', 'below') if x in rel), 'elsewhere')   # relative to the nearest tied version
            cls += ' tie(q %s)' % pos + (' >12ev' if long_ else '')
        return cls

    lib.standard_stream(ctx, gen='c18gen', driver='drv_c18', gen_args=['-seed', str(ctx.seed), '-n', str(n), '-tier', ctx.tier],
                        compare_keys=['aff', 'match', 'prof', 'eco', 'name', 'ver', 'purl', 'stubs'], nontrivial=nontrivial, oracle=oracle, classify=classify)
    if not proofs_ok:
        lib.proof_failed(ctx, 'Scalibr.Properties.C18')
