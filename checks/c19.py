"""C19 — Capability filtering and plugin name resolution are consistent."""
import re
from . import lib, translib

META = {
    'level': 'proof',
    'technique': 'Lean 4 theorems over the plugin registry REGENERATED from /repo on every run (values dumped by importing the three list packages + go/ast '
                 'cross-check of the name maps), kernel-checked over the whole table x all 60 capability tuples; general theorems (all plugin lists, all name tables) '
                 'for the validator, the filter and the auto-enabling loop; exhaustive correspondence of the Lean model with the real functions',
    'design_ref': 'DESIGN.md §4 (section of C19), §5 (defects), §7 (seeded changes)',
    'text': 'translator/cmd/regdump rebuilds against the working tree, calls every registered initialiser and writes lean/Scalibr/Gen/Registry.lean (name tables of '
            'filesystem extractors, standalone extractors, detectors: key -> plugins with Name, Requirements, RequiredExtractors) plus the source-level view of the same '
            'tables. Kernel-checked: ValidateRequirements = satisfied on all 3600 (requirement, capability) pairs; FilterByCapabilities = filter(satisfied) for all lists; a scan '
            'configured from filtered lists passes EnableRequiredExtractors + ValidatePluginRequirements for all selections and all capabilities given C19_required, which is '
            'decided on the registry; names unique; every key resolves to registered plugins; own name resolves to the plugin itself; source and dump agree. '
            'The model is tied to the Go functions by an exhaustive diff (all 3600 pairs, FromCapabilities x 60 tuples x 3 registries, every key, every exact name, the '
            'pre-scan check of the filtered registry for all 60 tuples, hand-made detectors requiring every registered extractor) plus random selections.',
    'note': 'Trusted: Lean kernel; the translator (copies Name()/Requirements()/RequiredExtractors() and map keys faithfully; its output is human-diffable and its two '
            'views are compared in the kernel); the Go harness and line protocol. Registry values are those of the linux build of the plugins.',
}
NS = 'Scalibr.Registry.'
KF_ALIAS = 'C19/enable-required-appends-into-shared-slice'
KF_NILCAPS = 'C19/nil-capabilities-panic'
KF_CLIDUP = 'C19/cli-extractor-named-twice-enabled-twice'
KF_GOVREQ = 'C19/govulncheck-network-requirement-inverted'
# set-union clauses: resolving a list of names; auto-enabling required extractors (borrowed by C01 at Scan level)
ENABLE_MODULE = 'Scalibr.Properties.C19Enable'
ENABLE_THEOREMS = ['Scalibr.Registry.' + t for t in ['C19_resolves_list_partial', 'C19_resolves_list_error', 'C19_registry_names_determine', 'C19_resolves_list',
                                                     'C19_enable_once_partial', 'C19_enable_idempotent']]
THEOREMS = [NS + t for t in ['C19_unknown_environment', 
    'C19_validate_spec', 'C19_filter', 'C19_filter_mem', 'C19_enable_valid_partial', 'C19_filtered_selection_valid_partial', 'C19_keys_nodup', 'C19_required',
    'C19_filtered_valid', 'C19_any_selection_valid', 'C19_names_unique', 'C19_tables_wellformed', 'C19_resolves_keys', 'C19_resolves',
    'C19_advertised_groups', 'C19_source_agrees', 'C19_required_needed', 'validate_eq_satisfied', 'mem_allCaps']] + ENABLE_THEOREMS


def unhex(h):
    if h in ('-', ''):
        return ''
    try:
        return bytes.fromhex(h).decode('utf-8', 'replace')
    except ValueError:
        return '?' + h


def unhexl(s):
    return [] if s in ('-', '') else [unhex(x) for x in s.split(',')]


OSN = ['OSAny', 'OSLinux', 'OSWindows', 'OSMac', 'OSUnix']
NETN = ['NetworkAny', 'NetworkOffline', 'NetworkOnline']


def _seq(s):
    def one(x):
        return [(unhex(n) if len(n) > 3 else n) for n in x.split(',')] if x not in ('-', '') else []
    return [one(x) for x in (s or '').split('|')]


def _cnt(s):
    return {unhex(x.split(':')[0]): int(x.split(':')[1]) for x in (s or '-').split(',') if x not in ('-', '')}


def enable_verdict(t, fi, fm):
    """`enab` cases: the enabled lists after EnableRequiredExtractors and what a real Scan then does, against the specification"""
    if 'sres' not in fm:
        return None
    what = 'explicitly enabled fs=%s standalone=%s, detectors requiring %s' % (unhexl(t[1]), unhexl(t[2]), [unhexl(d) for d in t[3].split('|')])
    if fi.get('res') != fm['sres']:
        return '%s: EnableRequiredExtractors gives %s, expected %s' % (what, fi.get('res'), fm['sres'])
    if fm['sres'] != 'ok':
        return None
    if fi.get('en') != fm.get('sen'):
        f = lambda x: [unhexl(p) for p in (x or '-|-').split('|')]
        return '%s: enabled extractors after EnableRequiredExtractors are %s; expected the explicit ones followed by each missing required name ONCE, in order of first occurrence: %s' % (what, f(fi.get('en')), f(fm.get('sen')))
    if fi.get('calls') != fm.get('scalls'):
        return '%s: Extract calls per extractor %s; every enabled extractor must run exactly once on its one required file: %s' % (what, _cnt(fi.get('calls')), _cnt(fm.get('scalls')))
    if fi.get('dup') != '0':
        return '%s: a package occurs more than once in the inventory (packages per extractor %s)' % (what, _cnt(fi.get('pk')))
    if fi.get('stat') != fm.get('sstat'):
        return '%s: status entries per plugin %s; expected one each: %s' % (what, _cnt(fi.get('stat')), _cnt(fm.get('sstat')))
    if fi.get('scan') != 'ok':
        return '%s: the scan failed' % what
    return None


def caps_str(c):
    try:
        return '{OS:%s Network:%s DirectFS:%s RunningSystem:%s}' % (OSN[int(c[0])], NETN[int(c[1])], c[2] == '1', c[3] == '1')
    except (ValueError, IndexError):
        return c


def run(ctx):
    ctx.trusted = ['Lean 4.33.0 kernel', 'axioms: propext, Quot.sound, Classical.choice at most (see theorems.*.axioms)',
                   'translator/cmd/regdump: copies Name(), Requirements(), RequiredExtractors() of every registered initialiser and the map keys of list.go faithfully '
                   '(its value view and its go/ast view are compared by the kernel: C19_source_agrees)',
                   'harness/overlay/**/verif_export_c19.go re-exports the unexported name tables unchanged',
                   'harness/cmd/c19gen + lean/Drivers/C19.lean line protocol', 'Lean compiler for the driver executable']
    ctx.assumptions = ['plugin.OS / plugin.Network values are the declared constants (5 x 3); the translator rejects a registry entry outside them',
                       'the registry is the one of the linux build of /repo (platform-specific plugin files select their linux or dummy variant)',
                       'Go map iteration order is unspecified: results of FromNames / FromCapabilities are compared as sets (every key has members with distinct names: C19_tables_wellformed)',
                       'plugin initialisers are deterministic (calling one twice yields the same Name/Requirements)']
    ctx.rule = ('enab = 1..4 inert detectors with RequiredExtractors() lists over 6 real filesystem + 3 standalone extractor names (overlapping, repeated, enabled explicitly, unknown): enabled lists after the real '
                'EnableRequiredExtractors, and a real Scan over an in-memory tree with one file per extractor: Extract calls (stats.Collector), package multiplicities, status entries; '
                'names also = overlapping lists (group+member, member+group, same name twice, group+group, all+anything) judged against the union of the single resolutions; prer = scan-root shapes {none, one real directory, one virtual FS (Path ""), real+virtual; and none / virtual / real+virtual / container with PathsToExtract set, and a one-layer container image through ScanContainer (registry and defaults only): several roots + specific files must be refused AFTER validation} x 60 capability tuples x (filtered registry, filtered defaults, unfiltered defaults, EVERY plugin alone): '
                'real EnableRequiredExtractors + ValidatePluginRequirements on the real plugins and a real scalibr.New().Scan with inert stand-ins carrying each plugin\'s name/requirements: never a requirement-validation failure for a filtered set; '
                'seq = operation sequences: the registry\'s all/default lists and FromCapabilities results filtered with every ordered pair of 10 capability tuples (and 3-4 in a row), hand-made lists '
                'with 2-4 random tuples: every result, every EARLIER result re-read after the later calls and the input list afterwards must be what the pure model says; exhaustive in both tiers: val = all 60x60 (requirement, capability) pairs; fromcaps = 3 registries x 60 tuples; names = every registered key; name = every key of every '
                'table looked up as an exact name in both extractor tables; pre = Scan\'s pre-check of the filtered/unfiltered registry and of each detector alone for all 60 tuples; '
                'pref = a hand-made detector requiring each registered extractor x 2 detector requirements x 60 tuples; reqd = each detector; uniq. Random on top: name lists with '
                'unknown names/duplicates, filters over hand-made lists, pre-checks of random selections. non-trivial = every case except val with the all-any requirement; '
                'distinct = distinct case lines')
    # 1. regenerate the tables from what the source says NOW
    tr_ok, tr_out = translib.run_translator(ctx, 'regdump', ['-out', lib.LEAN + '/Scalibr/Gen/Registry.lean'])
    m = re.search(r'fs keys=(\d+) plugins=(\d+); standalone keys=(\d+) plugins=(\d+); detectors keys=(\d+) plugins=(\d+); rows=(\d+)', tr_out)
    if m:
        ctx.extra['registry'] = dict(zip(['fs_keys', 'fs_plugins', 'standalone_keys', 'standalone_plugins', 'detector_keys', 'detector_plugins', 'rows'], map(int, m.groups())))
    diffs = [l for l in tr_out.split('\n') if l.startswith('DIFF ')]
    for l in diffs[:3]:
        km = re.search(r'kind=(\S+) key="((?:[^"\\]|\\.)*)"', l)
        kind, key = (km.group(1), km.group(2)) if km else ('fs', '')
        ctx.violation('the registry written in the source and the registry the running code builds differ: ' + l[5:],
                      ['# ' + l, 'names %s k %s' % (kind, key.encode().hex() or '-')])
    # 2. the kernel re-checks every obligation against the regenerated tables
    drv_ok, _ = ctx.lean_build(['drv_c19'])
    ok, _ = ctx.lean_build(['Scalibr.Properties.C19', ENABLE_MODULE])
    proofs_ok = ctx.audit(['Scalibr.Properties.C19', ENABLE_MODULE], THEOREMS)
    if ctx.tier == 'thorough' and ok:
        proofs_ok = ctx.leanchecker('Scalibr.Properties.C19') and proofs_ok
    ctx.checker_cmd = 'cd /verif/translator && go build -tags verif -overlay /verif/harness/overlay/overlay.json -o bin/regdump ./cmd/regdump && bin/regdump && ' \
                      'cd /verif/lean && lake build Scalibr.Properties.C19 drv_c19 && lake env lean Scalibr/Audit/C19.lean'
    failed = translib.failing_theorems(ctx, lib.LEAN + '/Scalibr/Properties/C19.lean') if not ok else []
    if failed:
        ctx.notes.append('theorems that no longer check against the regenerated registry: ' + ', '.join(failed))
    n = {'quick': 3000, 'thorough': 30000}[ctx.tier]

    def nontrivial(case, fi, fm):
        t = case.split(' ')
        return not (t[0] == 'val' and t[1] == '0000')

    def oracle(case, fi, fm):
        # the specification judged against the IMPLEMENTATION's answer; where the expected answer is intrinsic to the
        # case (a filtered configuration must pass, a registered key must resolve, …) it does not even need the driver
        t = case.split(' ')
        op = t[0]
        if fi.get('_') == 'panic':
            return 'the implementation panicked on ' + case
        if op == 'share' and 'sena2' in fm:
            # SPEC: a configuration is not changed by what ANOTHER configuration enables, even when both were built from one filtered list
            if fi.get('ena2') != fm['sena2']:
                def ns(x):
                    return [[unhex(n) for n in part.split(',') if n != '-'] for part in x.split('|')] if '|' in x else x
                a, b = ns(fm['sena2']), ns(fi.get('ena2', ''))
                lost = sorted(set(sum(a, [])) - set(sum(b, []))) if isinstance(a, list) and isinstance(b, list) else '?'
                got = sorted(set(sum(b, [])) - set(sum(a, []))) if isinstance(a, list) and isinstance(b, list) else '?'
                return ('two scan configurations built from ONE capability-filtered list (selection %s under %s; detectors A=%s, B=%s): after B.EnableRequiredExtractors() '
                        'configuration A no longer holds %s (it holds %s instead): the extractor A\'s detector requires was overwritten through the shared backing array') % (
                    unhexl(t[2]), caps_str(t[1]), unhexl(t[3]), unhexl(t[4]), lost, got)
        if op == 'nilcaps' and 'snres' in fm and fi.get('nres') != fm['snres']:
            return '%s with the capabilities left nil and plugin requirements %s: %s; with nothing known about the environment exactly the plugins without requirements pass (expected: %s)' % (
                {'val': 'ScanConfig.ValidatePluginRequirements', 'flt': 'list.FilterByCapabilities', 'one': 'plugin.ValidateRequirements'}[t[1]], caps_str(t[2]),
                {'panic': 'PANICS (nil pointer dereference)', 'ok': 'passes', 'err': 'is refused'}.get(fi.get('nres'), fi.get('nres')), {'ok': 'passes', 'err': 'refused with an error'}[fm['snres']])
        if op == 'govreq' and 'snet' in fm and fi.get('net') != fm['snet']:
            nn = {'0': 'NetworkAny', '1': 'NetworkOffline', '2': 'NetworkOnline'}
            return 'govulncheck/binary configured with the vulnerability database path %r states the network requirement %s; %s (expected %s)' % (
                unhex(t[1]), nn.get(fi.get('net'), fi.get('net')),
                'without a local database it queries the online one' if unhex(t[1]) == '' else 'with a local database it needs no network', nn[fm['snet']])
        if op == 'cli' and fi.get('cres') != 'flagerr':
            sel = 'offline=%s govulncheck-db=%r extractors=%r detectors=%r' % (t[1], unhex(t[2]), unhex(t[3]), unhex(t[4]))
            if fi.get('cdup', '-') != '-':
                return 'the configuration binary/cli builds for %s enables a plugin TWICE: %s (it then runs twice and every package of it is reported twice)' % (sel, unhexl(fi['cdup']))
            if fi.get('cres') != 'ok':
                return 'the configuration binary/cli builds with --filter-by-capabilities for %s fails the pre-scan check: %s' % (sel, fi.get('cres'))
        if op == 'val' and 'spec' in fm and fi.get('ok') != fm['spec']:
            return 'ValidateRequirements(requirements=%s, capabilities=%s) returned %s but the requirements are %ssatisfied' % (
                caps_str(t[1]), caps_str(t[2]), 'nil' if fi.get('ok') == '1' else 'an error', '' if fm['spec'] == '1' else 'NOT ')
        if op == 'fromcaps' and 'spec' in fm and fi.get('names') != fm['spec']:
            a, b = set(unhexl(fi.get('names', '-'))), set(unhexl(fm['spec']))
            return 'FromCapabilities(%s, %s) = satisfied plugins fails: wrongly kept %s, wrongly dropped %s' % (t[1], caps_str(t[2]), sorted(a - b), sorted(b - a))
        if op == 'filterl' and 'spec' in fm and fi.get('kept') != fm['spec']:
            return 'FilterByCapabilities(%s) kept %s of requirements %s under %s; the satisfied ones are %s' % (t[1], fi.get('kept'), t[3], caps_str(t[2]), fm['spec'])
        if op == 'names' and t[2] == 'k' and not fi.get('res', '').startswith('ok:'):
            return 'registered %s name/group %r does not resolve: %s' % (t[1], unhex(t[3]), fi.get('res'))
        if op == 'name' and fm.get('must') == '1':
            want = unhex(t[2])
            got = fi.get('res', '')
            if not got.startswith('ok:') or unhex(got[3:].split('/')[0]) != want:
                return 'resolving the %s plugin\'s own name %r does not return that plugin: %s' % (t[1], want, got)
        if op == 'pre' and t[1] == '1' and fi.get('res') not in ('ok', 'badname'):
            res = fi.get('res', '')
            what = ('required extractor %r cannot be enabled automatically' % unhex(res[8:])) if res.startswith('missing:') else \
                   ('requirement validation fails for %s' % unhexl(res[8:])) if res.startswith('invalid:') else res
            return 'scan configured from the capability-FILTERED selection fs=%s standalone=%s detectors=%s under %s: %s' % (
                unhexl(t[3]), unhexl(t[4]), unhexl(t[5]), caps_str(t[2]), what)
        if op == 'prer' and t[2] == '1':
            shape = {'n': 'no scan root', 'r': 'one real directory', 'v': 'one virtual file system (ScanRoot.Path == "")', 'rv': 'a real directory and a virtual file system', 'c': 'a one-layer container image through ScanContainer', 'e': 'a container image without layers through ScanContainer'}.get(t[1].rstrip('p') or t[1], t[1]) + \
                    (' + PathsToExtract=[a.txt]' if t[1].endswith('p') and t[1] != 'p' else '')
            sel = 'fs=%s standalone=%s detectors=%s' % (unhexl(t[4]), unhexl(t[5]), unhexl(t[6]))
            res = fi.get('res', '')
            if res not in ('ok', 'badname'):
                what = ('required extractor %r cannot be enabled automatically' % unhex(res[8:])) if res.startswith('missing:') else \
                       ('ValidatePluginRequirements fails for %s' % unhexl(res[8:])) if res.startswith('invalid:') else res
                return 'scan configured from the capability-FILTERED selection %s under %s with scan roots = %s: %s (the outcome must depend on capabilities and plugin requirements only)' % (
                    sel, caps_str(t[3]), shape, what)
            if fi.get('scan') in ('prefail', 'other'):
                return 'a real Scan configured from the capability-FILTERED selection %s under %s with scan roots = %s FAILED %s' % (
                    sel, caps_str(t[3]), shape, 'requirement validation' if fi.get('scan') == 'prefail' else 'for another reason')
        if op == 'prer' and fm.get('res', '?') == fi.get('res') and fm.get('res') != 'badname' and fi.get('scan') != fm.get('scan'):
            # SPEC (order of Scan's precondition chain): enabling / requirement validation fail first (prefail); validation passed -> no root: "no scan root specified"; PathsToExtract with
            # more than one root: "can't extract specific files with several scan roots"; otherwise the scan runs and succeeds
            names = {'ok': 'succeeds', 'noroot': 'stops with "no scan root specified"', 'severalroots': 'stops with "can\'t extract specific files with several scan roots"',
                     'prefail': 'fails requirement validation', 'other': 'fails for another reason', 'nolayers': 'is refused with "no chain layers found"'}
            return 'a real Scan of the selection fs=%s standalone=%s detectors=%s under %s with scan-root shape %s %s; the specification says it %s' % (
                unhexl(t[4]), unhexl(t[5]), unhexl(t[6]), caps_str(t[3]), t[1], names.get(fi.get('scan'), fi.get('scan')), names.get(fm.get('scan'), fm.get('scan')))
        if op == 'names' and 'sres' in fm and fi.get('res') != fm['sres']:
            got, want = fi.get('res', ''), fm['sres']
            def ents(x):
                return [unhex(e.split('/')[0]) for e in x[3:].split(',')] if x.startswith('ok:') and x != 'ok:-' else x
            return 'resolving the %s names %s: got %s, the set union of the single resolutions (no plugin twice) is %s' % (t[1], unhexl(t[3]), ents(got), ents(want))
        if op == 'enab':
            v = enable_verdict(t, fi, fm)
            if v:
                return v
        if op == 'seq' and 'sr' in fm:
            if fi.get('r') != fm['sr']:
                return 'FilterByCapabilities(%s) on the SAME list for the capability tuples %s in a row: results %s, the satisfied plugins are %s (a filter must be a pure function of its arguments)' % (
                    t[1], [caps_str(c) for c in t[3].split(';')], _seq(fi.get('r')), _seq(fm['sr']))
            if fi.get('after') != fm['sr']:
                return 'a result RETURNED EARLIER by FilterByCapabilities(%s) was rewritten by a later call on the same list (tuples %s): read again it is %s, it was %s' % (
                    t[1], [caps_str(c) for c in t[3].split(';')], _seq(fi.get('after')), _seq(fm['sr']))
            if fi.get('input') != fm.get('sinput'):
                return 'FilterByCapabilities(%s) MUTATED its argument: the input list is %s afterwards, it was %s' % (t[1], _seq(fi.get('input')), _seq(fm.get('sinput')))
        if op == 'reqd' and fi.get('ok') != '1':
            bad = [(unhex(b.split('@')[0]), caps_str(b.split('@')[1]) if '@' in b else '') for b in fi.get('bad', '-').split(',') if b != '-']
            return 'detector %r: required extractor cannot be enabled automatically wherever the detector runs: %s' % (unhex(t[1]), bad[:4])
        if op == 'uniq' and fi.get('dup', '-') != '-':
            return 'plugin names are not unique across the registry: %s' % unhexl(fi['dup'])
        return None

    def finding_class(case, fi, fm):
        t = case.split(' ')
        # class predicate: the shared list has spare capacity, A's own result is the model's, and A differs afterwards
        if t[0] == 'share' and fi.get('spare') == '1' and fi.get('ena') == fm.get('ena') and fi.get('enb') == fm.get('enb') and fi.get('ena2') != fm.get('sena2'):
            return KF_ALIAS
        # class predicate: nil capabilities, a requirement is stated (so the specification says "refused"), and the call panics
        if t[0] == 'nilcaps' and fi.get('nres') == 'panic' and fm.get('snres') == 'err' and t[2] != '0000':
            return KF_NILCAPS
        # class predicate: the command line's extractor list names an extractor twice (directly and through a group / two groups) and the
        # ONLY complaint is that plugin's double entry among the filesystem / standalone extractors
        # class predicate: the requirement is the exact opposite of the specified one (any <-> online), for either database setting
        if t[0] == 'govreq' and {fi.get('net'), fm.get('snet')} == {'0', '2'}:
            return KF_GOVREQ
        if t[0] == 'cli' and fi.get('cres') == 'ok' and fi.get('cdup', '-') != '-' and all(unhex(d).startswith(('fs ', 'st ')) for d in fi['cdup'].split(',')):
            names = [n.strip() for n in unhex(t[3]).split(',')]
            if len(names) > 1:
                return KF_CLIDUP
        return None

    def classify(case, fi, fm):
        if case.startswith(('share ', 'nilcaps ', 'cli ', 'govreq ')):
            return case.split(' ')[0] + ':' + (fi.get('nres') or fi.get('cres') or fi.get('net') or ('changed' if fi.get('ena2') != fi.get('ena') else 'kept'))
        return case.split(' ')[0] + ':' + (fi.get('res', fi.get('ok', fi.get('_', ''))).split(':')[0] or '-')[:10]

    lib.standard_stream(ctx, gen='c19gen', driver='drv_c19', gen_args=['-seed', str(ctx.seed), '-n', str(n), '-tier', ctx.tier],
                        compare_keys=['errs', 'ok', 'names', 'kept', 'res', 'fs', 'st', 'n', 'dup', 'r', 'after', 'input', 'scan', 'en', 'calls', 'dup', 'stat', 'ena', 'enb'], nontrivial=nontrivial, oracle=oracle, classify=classify,
                        finding_class=finding_class, sample_every=997)
    if not ctx.replay:
        for kf in (KF_ALIAS, KF_NILCAPS, KF_CLIDUP, KF_GOVREQ):
            if kf in ctx.known and kf not in ctx.known_hits:
                ctx.violation('known finding %s no longer reproduces: update known_findings.txt' % kf, ['# ' + kf], found_input=False, name='stale-' + kf.replace('/', '-'))
    if not proofs_ok:
        lib.proof_failed(ctx, 'Scalibr.Properties.C19' + (': ' + ', '.join(failed) if failed else ''))


def run_enable_once(ctx):
    """C01 at Scan level — "a required file is handed to an enabled extractor exactly once and the inventory is exactly the union": the
    auto-enabling of detectors' required extractors must not enable a name twice. Real scalibr.New().Scan with 1..4 inert detectors whose
    RequiredExtractors() lists overlap / repeat / name explicitly enabled extractors, over an in-memory tree with one file per extractor:
    enabled lists after EnableRequiredExtractors, Extract calls per extractor (stats.Collector), package multiplicities and status
    entries are judged against the specification printed by drv_c19 (first-occurrence union; one call per required file).
    Theorems: ENABLE_THEOREMS in ENABLE_MODULE (Properties/C19Enable.lean) — the caller audits them."""
    ok, _ = ctx.lean_build([ENABLE_MODULE, 'drv_c19'])

    def oracle(case, fi, fm):
        t = case.split(' ')
        return enable_verdict(t, fi, fm) if t[0] == 'enab' else None
    st = lib.standard_stream(ctx, gen='c19gen', driver='drv_c19',
                             gen_args=['-seed', str(ctx.seed), '-n', str({'quick': 1500, 'thorough': 15000}[ctx.tier]), '-tier', 'quick', '-only', 'enab'],
                             compare_keys=['res', 'en', 'calls', 'dup', 'stat', 'scan'], nontrivial=lambda c, fi, fm: fi.get('en', '-|-') != '-|-',
                             oracle=oracle, classify=lambda c, fi, fm: 'enab res=%s' % fi.get('res', fi.get('_', '?')).split(':')[0], sample_every=299)
    return ok and st
