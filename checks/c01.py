"""C01 — Every required file is extracted exactly once, and nothing else is."""
from . import lib, walkcommon as W

META = {
    'level': 'proof',
    'technique': 'Lean 4 refinement proof (stateful walk engine = declarative mustExtract comprehension, all trees/options/fault plans) + correspondence of the Lean model with scalibr.Scan',
    'design_ref': 'DESIGN.md §5.0, §5 C01',
    'text': 'Kernel-checked: in every benign configuration the model of handleFile/walkDirUnsorted/walkIndividualPaths/Run makes exactly the extraction attempts the '
            'specification lists, as a list (order, multiplicity), for all forests, option combinations and fault plans; no duplicates on trees with distinct sibling names; '
            'only required, non-excluded, size-admissible files; inventory = union of the Extract results with attribution. The model is tied to the Go engine by running '
            'both on generated scans (0 tolerated differences in error class, inode count, ordered Extract calls, sorted packages, statuses).',
    'note': 'Trusted: Lean kernel; the model/implementation tie is differential (generator reach is printed in the evidence); regexp, glob and go-git engines are parameters '
            '(match sets / domain law). The third sentence (requesting a reached sub-directory = the whole-tree scan restricted to it) is theorems C01_subdir_spec / C01_subdir (one root, DistinctNames, no stat faults at the two start points); on the implementation side it follows from the stream oracle calls = mustExtract holding for both kinds of scan.',
}
THEOREMS = ['Scalibr.Walk.C01_calls', 'Scalibr.Walk.C01_once', 'Scalibr.Walk.C01_only_required', 'Scalibr.Walk.C01_limit_shared',
            'Scalibr.Walk.C01_inv', 'Scalibr.Walk.C01_inv_spec', 'Scalibr.Walk.C01_subdir', 'Scalibr.Walk.C01_subdir_spec', 'Scalibr.Walk.C01_matcher_domainLaw', 'Scalibr.Walk.C01_table_matcher_domainLaw',
            'Scalibr.Walk.run_spec', 'Scalibr.Walk.walkNode_spec', 'Scalibr.Walk.mustFlat_nodup', 'Scalibr.Walk.runRoots_pkgs',
            'Scalibr.Walk.C01_once_run', 'Scalibr.Walk.C01_allFiles_exact', 'Scalibr.Walk.C01_allFiles_complete', 'Scalibr.Walk.C01_only_required_run',
            'Scalibr.Walk.C01_calls_are_files', 'Scalibr.Walk.C01_limit_shared_run', 'Scalibr.Walk.C01_limit_shared_step',
            'Scalibr.Walk.C01_requested_file_bypasses_skip_rules', 'Scalibr.Walk.C01_requested_file_bypasses_skip_rules_run']


def run(ctx):
    ctx.trusted, ctx.assumptions, ctx.rule = W.TRUSTED, W.ASSUME, W.RULE
    ctx.lean_build(['Scalibr.Properties.C01', 'drv_walk'])
    ok = ctx.audit(['Scalibr.Properties.C01'], THEOREMS)
    if ctx.tier == 'thorough':
        ok = ctx.leanchecker('Scalibr.Properties.C01') and ok
    n = {'quick': 6000, 'thorough': 150000}[ctx.tier] * W.scale(ctx)
    W.run_stream(ctx, 'plain', n, W.oracle_calls)
    W.run_stream(ctx, 'mixed', n // 3, W.oracle_calls)
    if not ok:
        lib.proof_failed(ctx, 'Scalibr.Properties.C01')
