"""C01 — Every required file is extracted exactly once, and nothing else is."""
from . import lib, walkcommon as W, c19

META = {
    'level': 'proof',
    'technique': 'Lean 4 refinement proof (stateful walk engine = declarative mustExtract comprehension, all trees/options/fault plans) + correspondence of the Lean model with scalibr.Scan',
    'design_ref': 'DESIGN.md §4 (section of C01), §5 (defects), §7 (seeded changes)',
    'text': 'Kernel-checked: in every benign configuration the model of handleFile/walkDirUnsorted/walkIndividualPaths/Run makes exactly the extraction attempts the '
            'specification lists, as a list (order, multiplicity), for all forests, option combinations and fault plans; no duplicates on trees with distinct sibling names; '
            'only required, non-excluded, size-admissible files; inventory = union of the Extract results with attribution. The model is tied to the Go engine by running '
            'both on generated scans (0 tolerated differences in error class, inode count, ordered Extract calls, sorted packages, statuses).',
    'note': 'Trusted: Lean kernel; the model/implementation tie is differential (generator reach is printed in the evidence); regexp, glob and go-git engines are parameters '
            '(match sets / domain law). The third sentence (requesting a reached sub-directory = the whole-tree scan restricted to it) is theorems C01_subdir_spec_partial / C01_subdir_partial (one root, DistinctNames, no stat faults at the two start points); on the implementation side it is judged by the paired-scan stream `subdir` (whole-tree scan and the same tree with PathsToExtract=[d]; where the driver reports the decidable hypotheses, subdirhyp=1, the calls of the second must be those of the first, restricted to paths under d). C01_only_required / C01_limit_shared are DEFINITIONAL unfoldings of the specification and are not in the audited list (their engine-level forms C01_only_required_run, C01_calls_are_files, C01_limit_shared_run/_step are). Theorem names: `_benign` = configuration class Benign; `_partial` = a hypothesis narrows the quantifier of the property (DistinctNames, one root, paths = []).',
}
THEOREMS = ['Scalibr.Walk.C01_calls_benign', 'Scalibr.Walk.C01_once_partial',
            'Scalibr.Walk.C01_inv', 'Scalibr.Walk.C01_inv_spec_benign', 'Scalibr.Walk.C01_subdir_partial', 'Scalibr.Walk.C01_subdir_spec_partial', 'Scalibr.Walk.C01_matcher_domainLaw', 'Scalibr.Walk.C01_table_matcher_domainLaw',
            'Scalibr.Walk.run_spec', 'Scalibr.Walk.walkNode_spec', 'Scalibr.Walk.mustFlat_nodup', 'Scalibr.Walk.runRoots_pkgs',
            'Scalibr.Walk.C01_once_run_partial', 'Scalibr.Walk.C01_allFiles_exact', 'Scalibr.Walk.C01_allFiles_complete', 'Scalibr.Walk.C01_only_required_run',
            'Scalibr.Walk.C01_calls_are_files', 'Scalibr.Walk.C01_limit_shared_run', 'Scalibr.Walk.C01_limit_shared_step',
            'Scalibr.Walk.C01_requested_file_bypasses_skip_rules', 'Scalibr.Walk.C01_requested_file_bypasses_skip_rules_run_benign',
            'Scalibr.Walk.C01_subdir_decidable_partial', 'Scalibr.Walk.C01_distinct_decidable', 'Scalibr.Walk.C01_parentGis_is_chain']


# Scan-level clause (a required extractor enabled for two detectors must still run once): theorems of Properties/C19Enable.lean
ENABLE_ONCE_THEOREMS = [t for t in c19.ENABLE_THEOREMS if 'enable' in t]


def run(ctx):
    ctx.trusted, ctx.assumptions, ctx.rule = W.TRUSTED, W.ASSUME, W.RULE
    ctx.lean_build(['Scalibr.Properties.C01', 'drv_walk'])
    ctx.lean_build([c19.ENABLE_MODULE])
    ok = ctx.audit(['Scalibr.Properties.C01', c19.ENABLE_MODULE], THEOREMS + ENABLE_ONCE_THEOREMS)
    if ctx.tier == 'thorough':
        ok = ctx.leanchecker('Scalibr.Properties.C01') and ok
        ok = ctx.leanchecker(c19.ENABLE_MODULE) and ok
    # ---- "exactly once / exactly the union" at Scan level: detectors' required extractors are auto-enabled once (the glue in scalibr.go
    # above filesystem.Run; stream and oracle live in checks/c19.py, which owns the real-Scan harness)
    c19.run_enable_once(ctx)
    n = {'quick': 6000, 'thorough': 150000}[ctx.tier] * W.scale(ctx)
    W.run_stream(ctx, 'plain', n, W.oracle_calls)
    W.run_stream(ctx, 'mixed', n // 3, W.oracle_calls)
    # ---- third sentence, judged on the IMPLEMENTATION: pairs (whole-tree scan; the same tree with PathsToExtract = [d]) sharing grp=.
    # Where the driver says the hypotheses of C01_subdir_decidable_partial hold for d (subdirhyp=1: benign, one root, no cut-off, distinct
    # sibling names, d a directory the whole-tree walk reaches, both start points stat-able), the Extract calls of the scan requesting d
    # must be exactly the whole-tree scan's calls on paths under d, in order.
    whole = {}
    stats = {'pairs': 0, 'judged': 0, 'judged_nonempty': 0}

    def under(d, p):
        return d == '.' or p == d or p.startswith(d + '/')

    def oracle_subdir(case, fi, fm):
        v = W.oracle_calls(case, fi, fm)
        if v:
            return v
        if fm.get('distinct') != '1':
            return None
        g = fi.get('grp')
        if fi.get('role') == 'whole':
            whole[g] = (fi.get('err'), W.fl(fi.get('calls')))
            return None
        if fi.get('role') == 'sub' and g in whole:
            stats['pairs'] += 1
            if fm.get('subdirhyp') != '1':
                return None
            err0, calls0 = whole[g]
            d = fi.get('sd')
            want = [c for c in calls0 if under(d, c.split('@')[1])]
            stats['judged'] += 1
            stats['judged_nonempty'] += 1 if want else 0
            if err0 != 'none' or fi.get('err') != 'none':
                return 'sub-directory pair: a benign scan failed (whole err=%s, requested err=%s)' % (err0, fi.get('err'))
            if W.fl(fi.get('calls')) != want:
                return 'requesting the reached directory %s made Extract calls %s, the whole-tree scan restricted to it made %s' % (d, W.fl(fi.get('calls'))[:6], want[:6])
        return None
    W.run_stream(ctx, 'subdir', max(300, n // 6), oracle_subdir)
    ctx.extra['subdir_pairs'] = stats
    if not ok:
        lib.proof_failed(ctx, 'Scalibr.Properties.C01')
