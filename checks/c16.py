"""C16 — Concurrent parts are race-free and schedule-independent (partial)."""
import os
import re
import subprocess
from . import lib, translib

META = {
    'level': 'other',
    'technique': 'Lean 4 theorems over three models (ComputePatches as a nondeterministic worklist: confluence, termination, Patch.Compare is a strict weak order; '
                 'RequestCache as a transition system at lock granularity: invariant over all interleavings, once-per-success, value provenance; the walkContext access '
                 'table REGENERATED from extractor/filesystem by a go/ast translator: every ticker/walker conflict is under statusMu) + exhaustive schedule enumeration '
                 'driving the REAL ComputePatches / RequestCache through gated callbacks and comparing with the Lean models + Go race detector runs',
    'design_ref': 'DESIGN.md §4 (section of C16), §5 (defects), §7 (seeded changes)',
    'text': 'PARTIAL. Proved (all schedules, any number of tasks/callers/keys, kernel-checked): two complete delivery orders of ComputePatches collect the same multiset of '
            'patches, contain exactly the collected patches in their result whatever the version comparison does, and, when the version comparison is a strict weak order on the target versions present (all parsable under the order of one ecosystem — npm, Maven and PyPI tables are exercised — or all unparsable), return the same list, strictly increasing w.r.t. Patch.Compare (sorted, no duplicates); without that hypothesis duplicates can survive (decided witness); Patch.Compare satisfies '
            'SortFunc\'s precondition among patches with >=1 update; the worklist terminates when the introducible vulnerabilities are finite; RequestCache: single flight per key, '
            'no fetch started after a success until the next SetMap, fetch count <= failures + 1; LINEARIZABLE w.r.t. the sequential map-with-fetch-on-miss whenever SetMap does not overlap '
            'a fetch (explicit linearization: legal sequential history ending in the actual cache, every completed Get in it once with its real result at a point inside its interval, order = '
            'real-time order) and provably NOT linearizable otherwise (decided witness); every returned (v, err) was published by a fetch for the same key or installed by SetMap, all parties '
            'of a call see one result; every access to RequestCache.cache/.calls is under mu (regenerated table); status ticker: over the regenerated table every pair of conflicting accesses to walkContext (ticker goroutine vs walker, one a '
            'write) is lexically inside statusMu.Lock()/Unlock(). Tied to the code by enumerating every delivery order / interleaving of 2..4 patch attempts or cache lookups over 1..2 '
            'keys (success/error outcomes, SetMap) on the real code, at the granularity of the caller-supplied callbacks. RUNTIME ONLY (not proved): the Go memory model below callback / '
            'critical-section granularity and inside sync.Mutex/WaitGroup/channels; data-race freedom of the scan engine and the cache is observed with the race detector on the executed '
            'schedules only (all enumerated cache/patch schedules and whole scans lasting longer than the 2 s status interval); third-party clients\' internal locking is not covered.',
    'note': 'In model (a) the nondeterminism is the delivery order of attempt results; an attempt (with its resolve-client and matcher callbacks) is assumed to be a deterministic function '
            'of its vuln-id list — an assumption, exercised by free runs through a shared stateful linearizable fake client, not a theorem. Theorems named _partial carry a hypothesis that '
            'narrows the property (strict-weak-order of the version comparison on the versions present — false for mixed forms and, by C07, for Maven in general —, finiteness, '
            'SetMap not overlapping a fetch). Trusted: Lean kernel; the go/ast translator tickerdump (copies field names, access sites, lock regions faithfully; irregular lock shapes make the theorem fail); the Go '
            'harness (gates inside callbacks, VerifWaiters reads the WaitGroup waiter count through an overlay export) and the line protocol; slices.SortFunc/CompactFunc by contract '
            '(for <=12 elements a stable insertion sort); Go race detector for the runtime part.',
}
NS = 'Scalibr.C16.'
THEOREMS = [NS + t for t in [
    'C16_confluent', 'C16_tasks_confluent', 'C16_final_partial', 'C16_schedule_independent_partial', 'C16_spec_partial', 'C16_patchcmp_order_partial',
    'C16_patchcmp_order_parsed_partial', 'C16_patchcmp_order_unparsed', 'C16_patchcmp_mixed_cycle', 'C16_patchcmp_needs_updates', 'C16_compare_total', 'C16_cmpeq_holds', 'C16_output_members', 'C16_output_sorted_partial', 'C16_output_nodup_partial', 'C16_output_nodup_needs_order',
    'C16_final_formerly_order_dependent',
    'C16_terminates_partial', 'C16_terminates_needs_finite',
    'C16_cache_inv', 'C16_cache_once', 'C16_cache_linearizable_partial', 'C16_cache_realtime', 'C16_cache_setmap_overlap_not_linearizable',
    'C16_cache_provenance', 'C16_cache_content', 'C16_cache_shared', 'C16_oncecell', 'C16_ticker_guarded', 'C16_cache_guarded']]
SITES = ['dopen', 'readdir', 'gitignore', 'stat', 'fopen', 'extract']
TICKER_THEOREM = NS + 'C16_ticker_guarded'
CACHETABLE_THEOREM = NS + 'C16_cache_guarded'
OPT_VARIANTS = ['base', 'symlinks', 'abs', 'maxinodes', 'cancel', 'errfs-dir', 'errfs-gitignore', 'errfs-size']     # harness/cmd/c16gen/scanopt.go
COMPARE = ['res', 'done', 'same', 'got', 'hitsB', 'ret', 'f', 'cls', 'maps']


def run_race_binary(binary, args, timeout=1800):
    e = lib.goenv()
    e['GOMEMLIMIT'] = '4GiB'
    e['GORACE'] = 'halt_on_error=0 exitcode=66'
    p = subprocess.run([binary] + args, stdout=subprocess.PIPE, stderr=subprocess.PIPE, text=True, timeout=timeout, env=e, errors='replace')
    return p.stdout, p.stderr, p.returncode


def race_report(stderr):
    """one-line summary of the first DATA RACE block of a race detector report (both accesses, first non-runtime frame each), or None"""
    i = stderr.find('WARNING: DATA RACE')
    if i < 0:
        return None
    blk = stderr[i:i + 6000].split('==================')[0]
    parts = []
    for m in re.finditer(r'\n((?:Previous )?(?:[Rr]ead|[Ww]rite|Atomic \w+) at \S+ by [^\n:]+):\n((?:\s+\S.*\n\s+\S+:\d+.*\n)+)', blk):
        frames = re.findall(r'\s+(\S+)\(\)\n\s+(\S+):(\d+)', m.group(2))
        pick = next((f for f in frames if 'toolchain' not in f[1] and '/src/runtime/' not in f[1]), frames[0] if frames else ('?', '?', '?'))
        parts.append('%s in %s %s:%s' % (re.sub(r' at \S+', '', m.group(1)), pick[0].split('/')[-1], pick[1], pick[2]))
    return 'DATA RACE: ' + (' / '.join(parts[:2]) if parts else ' '.join(blk.split('\n')[1:3]))


def show_patch(p):
    def unh(h):
        try:
            return '' if h in ('-', '') else bytes.fromhex(h).decode('utf-8', 'replace')
        except ValueError:
            return h
    try:
        ups, fixed, intro = p.split('~')
        u = ', '.join('%s %s->%s' % tuple(unh(x) for x in e.split(':')[:3]) for e in ups.split(',') if e != '-')
        return '{%s | fixes %s | introduces %s}' % (u, [unh(x) for x in fixed.split(',') if x != '-'], [unh(x) for x in intro.split(',') if x != '-'])
    except ValueError:
        return p


def patch_set_verdict(got, spec, how):
    """C16_output_members + C16_confluent need NO hypothesis: whatever the comparator does to the order (and to duplicates), the result
    contains exactly the patches of the closure"""
    g = set() if got in ('-', '') else set(got.split(';'))
    w = set() if spec in ('-', '') else set(spec.split(';'))
    if g == w:
        return None
    return ('ComputePatches %s returned a list whose SET of patches differs from the closure\'s (comparator not a strict weak order here, so order and multiplicity are '
            'unspecified, membership is not): missing %s, extra %s' % (how, [show_patch(p) for p in sorted(w - g)][:3], [show_patch(p) for p in sorted(g - w)][:3]))


def patches_verdict(got, spec, how):
    """the schedule-independent specification (Lean: breadth-first closure, sorted, compacted) against what the implementation returned"""
    if got == spec:
        return None
    g = [] if got in ('-', '') else got.split(';')
    w = [] if spec in ('-', '') else spec.split(';')
    lost = [show_patch(p) for p in w if p not in g]
    extra = [show_patch(p) for p in g if p not in w]
    what = []
    if lost:
        what.append('lost patch(es): ' + '; '.join(lost[:3]))
    if extra:
        what.append('patch(es) that no attempt of the closure produces: ' + '; '.join(extra[:3]))
    if not lost and not extra:
        what.append('same patches in a different order / multiplicity: got %d, expected %d' % (len(g), len(w)))
    return 'ComputePatches %s returned %d patch(es) where the schedule-independent result has %d — %s' % (how, len(g), len(w), ' | '.join(what))


def history_oracle(case, fi, stats=None):
    """The sequential specification of C16_cache_linearizable_partial (a map with fetch-on-miss) judged on the IMPLEMENTATION's
    observed history (reply field hist=), independently of the Lean model's step semantics:
      * the fetch function is never running twice at once for one key (single flight);
      * the completed Get/SetMap/GetMap calls admit a sequential order that respects real time (A returned before B was
        invoked => A first) and is legal: Get(k) returns the stored value if there is one, otherwise some fetch outcome,
        which is stored when it is a success; GetMap returns exactly the map. (Skipped when a SetMap ran while a fetch was in
        flight: that is outside the theorem's hypothesis and provably not linearizable.)"""
    h = fi.get('hist')
    if not h or h == '-':
        return None
    keys = [int(k) for k in case.split(' ')[1].split(',')]
    ev = h.split(',')
    inv, resp, res, fs, fe = {}, {}, {}, {}, {}
    atomic = []          # (index, kind, map)
    def pmap(t):
        return {} if t in ('-', '') else {int(a): int(b) for a, b in (kv.split('=') for kv in t.split(';'))}
    for i, e in enumerate(ev):
        if e.startswith('fs'):
            fs[int(e[2:])] = i
        elif e.startswith('fe'):
            fe[int(e[2:].split(':')[0])] = i
        elif e[0] == 'i':
            inv[int(e[1:])] = i
        elif e[0] == 'r':
            t, r = e[1:].split(':')
            resp[int(t)] = i
            res[int(t)] = r
        elif e[0] in 'SG':
            atomic.append((i, e[0], pmap(e[1:])))
    findings = []
    # 1. single flight
    fl = sorted(fs)
    for a in fl:
        for b in fl:
            if a < b and keys[a] == keys[b] and fs[b] < fe.get(a, 10 ** 9) and fs[a] < fe.get(b, 10 ** 9) and not findings:
                findings.append('the fetch function was invoked for key %d by caller %d while the fetch of caller %d for the same key was still in flight (single flight violated)'
                                % (keys[a], b if fs[b] > fs[a] else a, a if fs[b] > fs[a] else b))
    def out():
        return (' || '.join(findings) + '; history: ' + h) if findings else None
    # 2. linearizability of the completed calls
    if stats is not None:
        stats['histories'] += 1
    if any(k == 'S' and any(fs[t] < i < fe.get(t, 10 ** 9) for t in fs) for i, k, _ in atomic):
        if stats is not None:
            stats['skipped_setmap_overlaps_fetch'] += 1        # outside RunOK: provably not linearizable; provenance / single flight / counts still judged
        return out()
    ops = [('get', inv[t], resp[t], keys[t], res[t], t) for t in resp if t in inv] + [(k, i, i, None, m, None) for i, k, m in atomic]
    n = len(ops)
    if n > 9:
        if stats is not None:
            stats['skipped_too_long'] += 1
        return out()
    if stats is not None:
        stats['linearizability_judged'] += 1
    before = [[ops[a][2] < ops[b][1] for b in range(n)] for a in range(n)]
    def search(done, m):
        if len(done) == n:
            return True
        for x in range(n):
            if x in done or any(before[y][x] for y in range(n) if y not in done and y != x):
                continue
            kind, _, _, k, r, _ = ops[x]
            if kind == 'get':
                if k in m:
                    if r != 'ok%d' % m[k]:
                        continue
                    m2 = m
                elif r.startswith('ok'):
                    m2 = dict(m)
                    m2[k] = int(r[2:])
                else:
                    m2 = m
            elif kind == 'S':
                m2 = dict(r)
            else:
                if r != m:
                    continue
                m2 = m
            if search(done | {x}, m2):
                return True
        return False
    if not search(frozenset(), {}):
        per_key = {}
        for t in resp:
            per_key.setdefault(keys[t], set()).add(res[t])
        multi = {k: sorted(x for x in v if x.startswith('ok')) for k, v in per_key.items() if len([x for x in v if x.startswith('ok')]) > 1}
        what = ('callers of key %s observed values %s; ' % (list(multi)[0], list(multi.values())[0])) if multi else ''
        findings.append(what + 'no sequential order of the completed Get/SetMap/GetMap calls that respects real-time order is legal for the map-with-fetch-on-miss '
                        'specification (not linearizable)')
    return out()


def cache_oracle(case, fi, stats=None):
    """the cache specification evaluated on the IMPLEMENTATION's reply, from the case line alone"""
    hv = history_oracle(case, fi, stats)
    if hv:
        return hv
    t = case.split(' ')
    keys = [int(k) for k in t[1].split(',')]
    pubs = {}      # key -> set of published results ('ok<v>' / 'err')
    setv = {}      # key -> set of values installed by SetMap
    nerr = {}
    nset = 0
    fetcher_key = {}
    for a in t[2].split(','):
        if a[0] == 'P':
            tt, v = a[1:].split(':')
            k = keys[int(tt)]
            pubs.setdefault(k, set()).add('err' if v == 'err' else 'ok' + v)
            if v == 'err':
                nerr[k] = nerr.get(k, 0) + 1
        elif a[0] == 'S':
            nset += 1
            if a[1:] != '-':
                for kv in a[1:].split(';'):
                    k, v = kv.split('=')
                    setv.setdefault(int(k), set()).add('ok' + v)
    ret = fi.get('ret', '')
    if ret.startswith('desync') or ret in ('incomplete', 'bad-schedule'):
        return None
    rets = ret.split(',')
    if len(rets) != len(keys):
        return 'Get returned for %d of %d callers' % (len(rets), len(keys))
    for i, r in enumerate(rets):
        k = keys[i]
        if r == 'stuck':
            return 'caller %d of Get(%d) never returned although every fetch was released' % (i, k)
        if r not in pubs.get(k, set()) and r not in setv.get(k, set()):
            return 'caller %d of Get(%d) returned %s, which no fetch for key %d published and no SetMap installed (published: %s)' % (
                i, k, r, k, sorted(pubs.get(k, set())))
    f = [int(x) for x in fi.get('f', '0,0').split(',')]
    for k in (0, 1):
        if f[k] > nerr.get(k, 0) + 1 + nset:
            return 'the fetch function ran %d times for key %d with %d failures and %d SetMap calls (at most once per success)' % (f[k], k, nerr.get(k, 0), nset)
    return None


def judge_free(ctx, rows, oracle, classify, nontrivial, what):
    """free runs have no schedule to replay on the model: the implementation's result is judged by the specification only"""
    rows = [r for r in rows if r[0].startswith(('pfree ', 'pstrat ', 'cnc ', 'dsc '))]
    if not rows:
        return
    model = ctx.run_driver('drv_c16', [c for c, _ in rows])
    for (case, impl), mod in zip(rows, model):
        fi, fm = lib.fields(impl), lib.fields(mod)
        ctx.add_case(case, nontrivial(case, fi, fm), classify(case, fi, fm))
        if case.startswith('cnc ') and fm.get('same') == '1':
            if fi.get('same') != fm.get('same') and fi.get('_') != 'panic':
                ctx.mismatches.append(case)
        elif case.startswith('dsc ') and 'hitsB' in fm:
            if fi.get('hitsB') != fm.get('hitsB') and fi.get('_') != 'panic':
                ctx.mismatches.append(case)
        elif 'spec' not in fm:
            ctx.mismatches.append(case)
            if not any('driver rejects' in v[0] for v in ctx.violations):
                ctx.violation('%s: the driver rejects a free-run case: %s' % (what, mod), [case + '\t' + impl + '\t' + mod], found_input=False, name='free-driver')
            continue
        verdict = oracle(case, fi, fm)
        if verdict is not None and sum(1 for v in ctx.violations if v[2]) < 3:
            ctx.violation('specification violated by the implementation: ' + verdict, [case + '\t' + impl + '\t' + mod])


def run(ctx):
    ctx.trusted = ['Lean 4.33.0 kernel', 'axioms: propext, Quot.sound, Classical.choice at most (see theorems.*.axioms)',
                   'translator/cmd/tickerdump (go/ast): field names, access sites, write/read classification, lock regions of extractor/filesystem/*.go',
                   'harness/cmd/c16gen: gates inside patchFunc / fetch callbacks; the delivery order of ComputePatches is pinned by releasing one gate at a time and waiting for the '
                   'main loop to read the result (ConstructPatches reads the patched manifest); waiters of a cache call are observed through the overlay export VerifWaiters',
                   'real-strategy stream: harness/remx in-memory resolve client (deps.dev schema) and local matcher; the table of isolated attempts is computed by the harness with the real patchVulns / '
                   'ConstructPatches and is the specification input (an attempt that is wrong even in isolation is outside this check: C11/C12)',
                   'slices.SortFunc / slices.CompactFunc by contract (n <= 12: stable insertion sort)', 'lean/Drivers/C16.lean line protocol; Lean compiler for the driver',
                   'Go race detector (runtime part)']
    ctx.assumptions = ['granularity: one step = one caller-supplied callback returning / one critical section of RequestCache; the Go memory model below that and inside '
                       'sync.Mutex, sync.WaitGroup and channels is NOT modelled (runtime: race detector on the executed schedules only)',
                       'model (a): the nondeterminism is the delivery order of attempt results (= scheduling of the patch goroutines); ONE attempt is one step: patchFunc is assumed to be a '
                       'deterministic function of the vuln-id list, i.e. the resolve client (Versions/Requirements/MatchingVersions) and the vulnerability matcher answer as functions of their '
                       'arguments whatever runs concurrently, and attempts share no other mutable state (each works on Manifest.Clone()); StrategyResult.VulnIDs is the list handed in (true of '
                       'override/relax). Interleavings INSIDE an attempt at callback granularity are not modelled; they are covered by (b) (the shared request caches are linearizable and '
                       'single-flight in the model) and by free runs of the real ComputePatches whose attempts answer through a shared stateful linearizable fake client (a real RequestCache)',
                       'C16_cache_linearizable_partial assumes SetMap only runs while no fetch is in flight; with an overlapping SetMap the cache is NOT linearizable '
                       '(C16_cache_setmap_overlap_not_linearizable, replayed on the real cache from the corpus)',
                       'CombinedNativeClient.clientForSystem is modelled as a once-cell per ecosystem (C16_oncecell: at most one construction, every caller gets the same client); data-race freedom of '
                       'that lazy initialisation and of the first use of the freshly built request caches is runtime behaviour the model cannot exhibit (an unlocked fast-path read has the same '
                       'transitions): it is established by the Go race detector on the generated cnc schedules only',
                       'lock discipline of RequestCache.cache/.calls is a kernel-checked table theorem (C16_cache_guarded); requestCacheCall.val/.err are synchronised by sync.WaitGroup, not by mu: '
                       'race freedom there is OBSERVED (all enumerated cache schedules run under the race detector), not proved',
                       'the ONE remaining hypothesis of C16_final_partial / C16_schedule_independent_partial / C16_spec_partial: the per-version comparison of step 5 is a strict weak order on the target '
                       'versions present — proved for all-parsable versions over a semantic order that is one (npm) and for all-unparsable versions (relax), an ASSUMPTION for Maven (C07: mavenutil\'s '
                       'comparison is not transitive in general), false for mixed parsable/unparsable forms (C16_patchcmp_mixed_cycle; not produced by today\'s strategies; such universes are '
                       'generated on purpose and recorded in coverage.hypothesis_violations). CmpEqImpliesEq is no longer a hypothesis: since fix 09778cd0 Patch.Compare returns 0 only for identical '
                       'patches (C16_compare_total, C16_cmpeq_holds); the alias universes (former known finding C16/compare-equal-distinct-patches) are judged strictly — one result per universe '
                       'under all delivery orders and free runs, equal to the specification',
                       'ConstructPatches is modelled for manifests with distinct requirement names, no new keys, vulnerabilities without subgraphs',
                       'version grammar of the universes: <major>.0.0 parses, ^x / ~x / ranges / 1x do not (asserted against deps.dev npm semver at generator start)',
                       'ticker lifetime assumed by C16_ticker_guarded: one ticker goroutine per RunFS call, signalled by close(quit) but NOT joined, one walkContext shared by all roots of a Run: '
                       'an access made by RunFS itself (even before its own `go` statement) is therefore concurrent with the PREVIOUS root\'s ticker and gets no happens-before exemption; the only '
                       'exempt writes are the keys of the walkContext literal in InitWalkContext (the object is not shared with any goroutine yet)',
                       'ticker table: accesses are syntactic (x.f with x a walkContext receiver/parameter/local); aliasing through other pointers is not tracked']
    ctx.rule = ('combined client: a FRESH resolution.CombinedNativeClient per case used by 2..4 goroutines, per ecosystem (npm via a project .npmrc, Maven, PyPI), first calls simultaneous or '
                'staggered by 300 us, 4 mixes of Versions / Version / Requirements / MatchingVersions per configuration (72 cases quick, x3 thorough; each also under -race, one case at a time), '
                'against ONE in-process httptest registry (no network) whose first response is delayed; returned values against the same operations on one goroutine, one client per ecosystem, '
                'at most one fetch per URL. real strategies: the REAL relax (npm) and override (Maven) strategies — patchVulns, reqsToRelax / ConstrainingSubgraph, resolution, ConstructPatches, common.ComputePatches — on 11 (quick) / 14 '
                '(thorough) deps.dev schema universes: 2..3 advisories with different fix versions on ONE graph node (they share a *DependencySubgraph), diamond parent paths (constraining + '
                'non-constraining), a second vulnerable package, a fix that introduces a vulnerability; every order of running the attempts one at a time (held at their start, the next released when '
                'the previous has returned) and free runs (GOMAXPROCS 1/16, repetitions; also under -race, one case at a time) against the closure over attempts run IN ISOLATION on freshly read and '
                'resolved inputs, sorted/compacted by the Lean model with the target versions ranked by the ecosystem own comparator. twins: 12 universes in which DISTINCT attempts produce the IDENTICAL patch (same manifest => same vulnerabilities) and then diverge — different follow-up id lists, different '
                'final versions, twins again one level down, failing / no-op follow-ups; grouped and per-vuln branch, concrete and relax-style versions; random universes are manifest-consistent '
                '(equal updates => equal vulnerability sets) so twins occur there too. aliases: 4 universes with one package required twice (npm alias), whose fixes agree on keys 1-5 of '
                'Patch.Compare but differ (Fixed ids, requirement Type) and are separated by key 6 since fix 09778cd0: per universe the results of ALL delivery orders and free runs must be equal '
                'to each other and to the specification. '
                'chains: 48 (quick) / 144 (thorough) universes with one initial vulnerability whose fixes introduce new ones 1..8 levels deep, fan-out 1..3 per level, per-vuln (relax) '
                'and grouped (override) branch, attempts over up to 9 (per-vuln) / 25 (grouped) accumulated ids — delivery orders enumerated with a cap AND run ungated under the Go scheduler '
                '(GOMAXPROCS 1 and 16, 2/5 repetitions with Gosched/sleep perturbation before every attempt reads its ids), also under -race one case at a time (halt_on_error: a report is '
                'attributed to the running case); patches: every delivery order (DFS with re-execution) of 14 fixed universes (2..4 initial vulns, follow-ups grouped and per-vuln, errors, empty patches, duplicates, '
                'hypothesis violations) and of N random universes (cap per universe); cache: every interleaving of start-caller / release-fetch-ok / release-fetch-err for 2..4 callers over '
                '1..2 keys (first caller on key 0), plus one SetMap (3 maps) + GetMap anywhere (quick: <=3 callers, thorough: 4); race: the same streams under -race and whole scans '
                '(one process each) of 20..27 files in 3..5 directories over an in-memory FS that is slow (~3 s in total) at ONE site kind per scan — directory Open, every ReadDir(1), '
                '.gitignore Open, Stat, file Open, Extract — as whole-tree scans (ticker goroutine) and requested-path scans (control), plus the legacy every-Open-slow scan over walkcase.MemFS, '
                'plus multi-root scans (2..3 roots, the last Extract of every non-last root outlasts the status interval, a user-installed log.Logger blocks 0.7..1.2 s per status line, so the '
                'previous root\'s un-joined ticker is still inside printStatus when RunFS starts on the next root), plus option scans (scanopt.go: 8 variants — skip lists/regex/glob, gitignore, '
                'MaxFileSize, symlinks, unreadable directories/files/.gitignore, failing extractor, StoreAbsolutePath, MaxInodes, cancellation, ErrorOnFSErrors at three sites — each run fast '
                'and slow (ticker firing), the two outcomes must be equal); '
                'real strategies also under options (upgrade levels, MaxDepth, registry errors for Versions/Requirements, matcher errors, descending version lists, npm alias, Maven classifier); '
                'cnc: every method of CombinedNativeClient incl. AddRegistries and the ecosystems whose client cannot be constructed (unknown system, unparsable Maven URL, unreadable .npmrc); '
                'dsc: the PyPI/npm/Maven datasource clients shared by 2..4 goroutines while their caches are saved (GobEncode/GetMap) and reloaded (GobDecode/SetMap): answers = sequential run, '
                'snapshots answer alike, no request after a reload; '
                'when the access table names an unguarded access, extra scans at the site kinds next to it. non-trivial = patches case with >=3 deliveries, cache case with a waiter or a failed fetch; distinct = distinct case lines')
    # 1. regenerate the access table from what the source says NOW
    targs = ['-out', lib.LEAN + '/Scalibr/Gen/Ticker.lean']
    if getattr(lib, 'ALT_REPO', None):
        targs += ['-dir', lib.ALT_REPO + '/extractor/filesystem']
    tr_ok, tr_out = translib.run_translator(ctx, 'tickerdump', targs, overlay=False)
    m = re.search(r'tickerdump: fields=(\d+) funcs=(\d+) accesses=(\d+) ticker=\[([^\]]*)\] shared=\[([^\]]*)\] unguarded_sites_of_shared_fields=(\d+) irregular=(\d+)', tr_out)
    if m:
        ctx.extra['ticker_table'] = {'fields': int(m.group(1)), 'funcs': int(m.group(2)), 'accesses': int(m.group(3)), 'ticker_funcs': m.group(4).split(','),
                                     'shared_fields': m.group(5).split(','), 'unguarded_same_goroutine_sites_of_shared_fields': int(m.group(6)), 'irregular': int(m.group(7))}
    conflicts = [l for l in tr_out.split('\n') if l.startswith('CONFLICT ')]
    # the same translator over clients/datasource/cache.go: fields of RequestCache, guard mu, every method on any goroutine
    cargs = ['-out', lib.LEAN + '/Scalibr/Gen/CacheAccess.lean', '-ns', 'Scalibr.Gen.CacheAccess', '-struct', 'RequestCache', '-mutex', 'mu', '-anygoroutine',
             '-only', 'cache.go', '-dir', (getattr(lib, 'ALT_REPO', None) or lib.REPO) + '/clients/datasource']
    ctr_ok, ctr_out = translib.run_translator(ctx, 'tickerdump', cargs, overlay=False)
    cm = re.search(r'tickerdump: fields=(\d+) funcs=(\d+) accesses=(\d+) ticker=\[([^\]]*)\] shared=\[([^\]]*)\] unguarded_sites_of_shared_fields=(\d+) irregular=(\d+)', ctr_out)
    if cm:
        ctx.extra['cache_table'] = {'fields': int(cm.group(1)), 'funcs': cm.group(4).split(','), 'accesses': int(cm.group(3)), 'mutex_guarded_fields': cm.group(5).split(','),
                                    'unguarded_sites': int(cm.group(6)), 'irregular': int(cm.group(7))}
    cache_conflicts = [l for l in ctr_out.split('\n') if l.startswith('CONFLICT ')]
    # 2. the kernel re-checks every obligation, C16_ticker_guarded against the regenerated table
    drv_ok, _ = ctx.lean_build(['drv_c16'])
    # the table obligation lives in its own module (the only one importing Gen/Ticker.lean) and is built and audited on its own,
    # so a source change that breaks it does not take the other theorems down
    iso_logs, src_iso = [], []
    iso_ok = {}
    for modname, thm in (('C16Ticker', TICKER_THEOREM), ('C16CacheTable', CACHETABLE_THEOREM)):
        ctx.lean_ok = True
        okm, _ = ctx.lean_build(['Scalibr.Properties.' + modname])
        iso_ok[modname] = okm
        if not okm:
            iso_logs.append(getattr(ctx, 'lean_log', ''))
        ctx.prop = modname
        try:
            ctx.audit(['Scalibr.Properties.' + modname], [thm])
        finally:
            ctx.prop = 'C16'
        src_iso.append(ctx.obligations.get('<source-audit>'))
    tick_ok = iso_ok['C16Ticker']
    tick_log = '\n'.join(iso_logs)
    lean_ok_before = all(iso_ok.values())
    src_tick = next((x for x in src_iso if x and x != 'discharged'), 'discharged')
    ctx.lean_ok = True
    ok, _ = ctx.lean_build(['Scalibr.Properties.C16'])
    ctx.audit(['Scalibr.Properties.C16'], [t for t in THEOREMS if t not in (TICKER_THEOREM, CACHETABLE_THEOREM)])
    if src_tick and src_tick != 'discharged':
        ctx.obligations['<source-audit>'] = src_tick
    ctx.lean_ok = ctx.lean_ok and lean_ok_before
    if ctx.tier == 'thorough':
        if ok:
            ctx.leanchecker('Scalibr.Properties.C16')
        for modname, okm in iso_ok.items():
            if okm:
                ctx.leanchecker('Scalibr.Properties.' + modname)
    proofs_ok = all(v == 'discharged' for v in ctx.obligations.values())
    ctx.checker_cmd = ('cd /verif/translator && go build -o bin/tickerdump ./cmd/tickerdump && bin/tickerdump && cd /verif/lean && '
                       'lake build Scalibr.Properties.C16 Scalibr.Properties.C16Ticker Scalibr.Properties.C16CacheTable drv_c16 && lake env lean Scalibr/Audit/C16.lean && '
                       'lake env lean Scalibr/Audit/C16Ticker.lean && lake env lean Scalibr/Audit/C16CacheTable.lean')
    failed = translib.failing_theorems(ctx, lib.LEAN + '/Scalibr/Properties/C16.lean') if not ok else []
    if not iso_ok['C16CacheTable']:
        failed.append('C16_cache_guarded')
        if cache_conflicts:
            ctx.notes.append('cache access table: ' + ' || '.join(c[9:] for c in cache_conflicts[:3]))
    if not tick_ok:
        failed.append('C16_ticker_guarded')
        ctx.lean_log = tick_log + '\n' + (getattr(ctx, 'lean_log', '') if not ok else '')

    # 3. correspondence streams (all schedules), implementation vs model, specification judged on the implementation
    n = {'quick': 60, 'thorough': 400}[ctx.tier]
    by_universe = {}
    deviations = [0]
    lin_stats = {'histories': 0, 'linearizability_judged': 0, 'skipped_setmap_overlaps_fetch': 0, 'skipped_too_long': 0}

    def nontrivial(case, fi, fm):
        t = case.split(' ')
        if t[0] == 'patches':
            return t[5].count('/') >= 2
        if t[0] in ('pstrat', 'cnc', 'dsc'):
            return True
        if t[0] == 'pfree':
            return t[4].count('|') >= 2
        return 'w' in fi.get('cls', '') or ':err' in t[2]

    def oracle(case, fi, fm):
        t = case.split(' ')
        if t[0] in ('patches', 'pfree', 'pstrat'):
            r = fi.get('res', fi.get('_', '')) if t[0] == 'patches' else fi.get('out', fi.get('_', ''))
            sched = lambda x: '/'.join('[' + ','.join(bytes.fromhex(y).decode('utf-8', 'replace') for y in k.split('.')) + ']' for k in x.split('/') if k != '-')
            if t[0] == 'patches':
                how = 'under the delivery order %s' % sched(t[5])
            elif t[0] == 'pfree':
                how = 'run freely under the Go scheduler (%s: GOMAXPROCS/repetition)' % t[5]
            elif t[6].startswith('gated:'):
                how = '(REAL %s strategy, attempts run one at a time in the order %s)' % ('override' if t[1] == '1' else 'relax', sched(t[6][6:]))
            else:
                how = '(REAL %s strategy, run freely under the Go scheduler, %s)' % ('override' if t[1] == '1' else 'relax', t[6])
            if r == 'panic':
                return 'ComputePatches panicked (%s)' % how
            if t[0] == 'pfree' and fi.get('client') == 'stateful':
                # single flight + caching of the shared client: never more fetches than distinct (package, version) pairs in the universe
                bound = len({e for kv in t[4].split('|') if '=' in kv and kv.split('=')[1] != 'E' for e in kv.split('=')[1].split('@')[0].split(',')})
                if int(fi.get('fetches', '0')) > min(bound, int(fi.get('lookups', '0'))):
                    return 'the shared RequestCache of the stateful client fetched %s times for %s lookups of at most %d distinct keys' % (fi.get('fetches'), fi.get('lookups'), bound)
            if 'spec' not in fm or fm['spec'] == 'nonterminating' or r.startswith(('desync', 'incomplete', 'bad-schedule', 'error')):
                return None
            # the specification does not need the model's run of this schedule: also judged when the implementation made calls the
            # model's worklist never has (res=bad-schedule on the model side)
            if fm.get('order') == '1':
                return patches_verdict(r, fm['spec'], how)
            return patch_set_verdict(fi.get('raw', r), fm['spec'], how)
        if t[0] == 'cnc':
            if fi.get('_') == 'panic':
                return 'CombinedNativeClient panicked under concurrent use (%s)' % case
            unh = lambda h: bytes.fromhex(h).decode('utf-8', 'replace') if h not in (None, '-', '') else ''
            if fi.get('conc') != fi.get('seq'):
                return ('CombinedNativeClient shared by %d goroutines (%s first calls, %s) returned %r; the same operations on one goroutine return %r'
                        % (t[3].count(';') + 1, 'staggered' if t[2] == 't' else 'simultaneous', {'n': 'npm', 'm': 'Maven', 'p': 'PyPI'}.get(t[1], t[1]), unh(fi.get('conc')), unh(fi.get('seq'))))
            if fi.get('same') != '1':
                return 'the goroutines ended up with different %s registry clients (the lazy initialisation ran more than once)' % t[1]
            if fi.get('got') != fm.get('got'):
                return ('the goroutines %s a %s registry client; the once-cell model (construction %s) says they %s'
                        % ('have' if fi.get('got') == '1' else 'do not have', t[1], 'fails' if fm.get('got') == '0' else 'succeeds', 'do' if fm.get('got') == '1' else 'do not'))
            if int(fi.get('hits', '0')) > 1:
                return 'one registry URL was fetched %s times by one CombinedNativeClient (request cache not shared / not single flight)' % fi.get('hits')
            return None
        if t[0] == 'dsc':
            who = 'the %s datasource client shared by %d goroutines (%s)' % ({'n': 'npm', 'm': 'Maven', 'p': 'PyPI'}.get(t[1], t[1]), t[3].count(';') + 1, case)
            if fi.get('_') == 'panic' or 'final' in fi:
                return '%s: %s' % (who, 'panicked' if fi.get('_') == 'panic' else 'its cache cannot be saved/loaded: ' + fi['final'])
            unh = lambda h: bytes.fromhex(h).decode('utf-8', 'replace') if h not in (None, '-', '') else ''
            if fi.get('conc') != fi.get('seq'):
                return '%s answered %r while its cache was being saved; the same lookups on one goroutine return %r' % (who, unh(fi.get('conc')), unh(fi.get('seq')))
            if fi.get('dec') != fi.get('seq'):
                return '%s, cache loaded from the saved encoding (and reloaded while in use), answered %r; the fetching client answered %r' % (who, unh(fi.get('dec')), unh(fi.get('seq')))
            for sn in unh(fi.get('snaps')).split('|') if fi.get('snaps') not in (None, '-', '') else []:
                if sn != unh(fi.get('want')):
                    return '%s: a client loaded from a snapshot saved during the concurrent run answers %r, the fetching client %r' % (who, sn, unh(fi.get('want')))
            if int(fi.get('hits', '0')) > 1:
                return '%s fetched one URL %s times (request cache not single flight while being saved)' % (who, fi.get('hits'))
            if fi.get('hitsB') != '0':
                return '%s made %s registry requests although every answer is in the cache it loaded (a reload dropped entries / the encoding lost them)' % (who, fi.get('hitsB'))
            return None
        return cache_oracle(case, fi, lin_stats)

    def classify(case, fi, fm):
        t = case.split(' ')
        if t[0] == 'patches':
            head = ' '.join(t[:5])
            u = by_universe.setdefault(head, {'order': fm.get('order'), 'res': set(), 'n': 0, 'sample': {}})
            u['res'].add(fi.get('raw', fi.get('res')))
            deviations[0] += 1 if fi.get('dev') == '1' else 0
            u['sample'].setdefault(fi.get('raw', fi.get('res')), case)
            u['n'] += 1
            depth = max(k.split('=')[0].count('.') for k in t[4].split('|')) if t[4] != '-' else 0
            return 'patches mode=%s order=%s ids<=%d' % (t[1], fm.get('order'), depth + 1)
        if t[0] == 'dsc':
            return 'datasource-client save/load %s goroutines=%d' % ({'n': 'npm', 'm': 'maven', 'p': 'pypi'}.get(t[1], t[1]), t[3].count(';') + 1)
        if t[0] == 'cnc':
            return 'combined-client %s goroutines=%d %s' % ({'n': 'npm', 'm': 'maven', 'p': 'pypi'}.get(t[1], t[1]), t[3].count(';') + 1, 'staggered' if t[2] == 't' else 'simultaneous')
        if t[0] == 'pstrat':
            head = ' '.join(t[:5])
            u = by_universe.setdefault(head, {'order': fm.get('order'), 'res': set(), 'n': 0, 'sample': {}})
            if fi.get('out') not in (None, 'error', 'panic'):
                u['res'].add(fi['out'])
                u['sample'].setdefault(fi['out'], case)
            u['n'] += 1
            return 'real-strategy %s %s' % ('override/maven' if t[1] == '1' else 'relax/npm', 'gated' if t[6].startswith('gated:') else t[6].split('r')[0])
        if t[0] == 'pfree':
            head = 'patches ' + ' '.join(t[1:5])          # free runs of a universe belong to the same group as its enumerated delivery orders
            u = by_universe.setdefault(head, {'order': fm.get('order'), 'res': set(), 'n': 0, 'sample': {}})
            if fi.get('out') not in (None, 'error', 'panic'):
                u['res'].add(fi['out'])
                u['sample'].setdefault(fi['out'], case)
            depth = max(k.split('=')[0].count('.') for k in t[4].split('|')) if t[4] != '-' else 0
            return 'free mode=%s ids<=%d %s%s' % (t[1], depth + 1, t[5].split('r')[0], ' stateful-client' if fi.get('client') == 'stateful' else '')
        return 'cache callers=%d keys=%d setmap=%s' % (t[1].count(',') + 1, len(set(t[1].split(','))), '1' if ',S' in t[2] else '0')

    if not ctx.replay or any(l.startswith(('patches ', 'cache ', 'pfree ', 'pstrat ', 'cnc ', 'dsc ')) for l in open(ctx.replay)):
        lib.standard_stream(ctx, gen='c16gen', driver='drv_c16', gen_args=['-seed', str(ctx.seed), '-n', str(n), '-tier', ctx.tier],
                            compare_keys=COMPARE, nontrivial=nontrivial, oracle=oracle, classify=classify, sample_every=1499)
    if not ctx.replay:
        # the same universes (chains 1..8 deep, fan-out 1..3, both branches) run UNGATED under the Go scheduler, GOMAXPROCS 1 and 16,
        # several repetitions with Gosched/sleep perturbation at the entry of every attempt; result against the specification
        binary = ctx.go_build('c16gen')
        if binary:
            rows, okg = ctx.run_gen(binary, ['-mode', 'free', '-seed', str(ctx.seed), '-tier', ctx.tier])
            judge_free(ctx, rows, oracle, classify, nontrivial, 'c16gen -mode free')
            # the REAL relax (npm) and override (Maven) strategies end to end on schema universes with several advisories per node and diamond
            # parent paths: every order of running the attempts one at a time + free runs, against the closure over attempts run in isolation
            rows, okg = ctx.run_gen(binary, ['-mode', 'strat', '-seed', str(ctx.seed), '-tier', ctx.tier])
            if not okg:
                ctx.violation('c16gen -mode strat crashed: ' + '; '.join(ctx.notes[-1:]), ['# see notes'], found_input=False, name='gencrash-strat')
            judge_free(ctx, rows, oracle, classify, nontrivial, 'c16gen -mode strat')
            # one CombinedNativeClient shared by 2..4 goroutines, per ecosystem, against in-process registries: values against a sequential run
            rows, okg = ctx.run_gen(binary, ['-mode', 'cnc', '-seed', str(ctx.seed), '-tier', ctx.tier])
            if not okg:
                ctx.violation('c16gen -mode cnc crashed: ' + '; '.join(ctx.notes[-1:]), ['# see notes'], found_input=False, name='gencrash-cnc')
            judge_free(ctx, rows, oracle, classify, nontrivial, 'c16gen -mode cnc')
    # schedule independence observed on the implementation itself, per universe
    nu = len(by_universe)
    viol = {'mixed_version_forms': 0, 'of_which_result_LISTS_differ_across_schedules': 0}
    for head, u in by_universe.items():
        hyp = u['order'] == '1'
        res = {r for r in u['res'] if r and not r.startswith(('desync', 'bad-schedule', 'incomplete'))}
        if hyp and len(res) > 1 and sum(1 for v in ctx.violations if v[2]) < 3:
            ctx.violation('ComputePatches returned %d different results for ONE input under different delivery orders (hypothesis holds): %s' % (len(res), sorted(res)[:2]),
                          [u['sample'][r] for r in sorted(res)[:3]])
        if not hyp:
            # comparator cyclic (mixed parsable/unparsable target versions): the list is unspecified, but its SET of patches is not (C16_output_members)
            viol['mixed_version_forms'] += 1
            if len(res) > 1:
                viol['of_which_result_LISTS_differ_across_schedules'] += 1
            sets = {frozenset(r.split(';')) for r in res}
            if len(sets) > 1 and sum(1 for v in ctx.violations if v[2]) < 3:
                ctx.violation('ComputePatches returned different SETS of patches for ONE input under different delivery orders (no hypothesis needed for this): %s' % sorted(res)[:2],
                              [u['sample'][r] for r in sorted(res)[:3]])
    ctx.extra['universes'] = nu
    ctx.extra['schedules_per_universe_max'] = max([u['n'] for u in by_universe.values()] or [0])
    ctx.extra['hypothesis_violations'] = viol
    ctx.extra['controller_deviations_dev1'] = deviations[0]
    ctx.extra['cache_history_oracle'] = dict(lin_stats, judged_share='%.0f%%' % (100.0 * lin_stats['linearizability_judged'] / max(1, lin_stats['histories'])))

    # 4. runtime part: the race detector
    race_bin = ctx.go_build('c16gen', race=True)
    races = {'stream_cases_under_race': 0, 'scans': 0, 'scan_seeds': [], 'reports': 0, 'ticker_fired': 0}
    if race_bin is None:
        ctx.violation('harness c16gen does not build with -race against /repo (tie broken): %s' % getattr(ctx, 'go_log', '')[-1200:],
                      ['# go build -race failed'], found_input=False, name='build-race')
    else:
        scan_seeds = []
        if ctx.replay:
            scan_seeds = [int(l.split()[1]) for l in open(ctx.replay) if l.startswith('scan ')]
        else:
            scan_seeds = [ctx.seed * 100 + i for i in range({'quick': 1, 'thorough': 5}[ctx.tier])]
            # 4a'. free runs under the race detector, sequentially, halting at the first report so that it belongs to ONE case
        runs = [['-mode', 'cnc', '-seed', str(ctx.seed), '-tier', ctx.tier], ['-mode', 'free', '-seed', str(ctx.seed), '-tier', ctx.tier],
                ['-mode', 'strat', '-seed', str(ctx.seed), '-tier', ctx.tier]]
        if ctx.replay:
            runs = [['-replay', ctx.replay]] if any(l.startswith(('pfree ', 'pstrat ', 'cnc ', 'dsc ')) for l in open(ctx.replay)) else []
        for free_args in runs:
            what = 'replayed case' if '-replay' in free_args else 'real strategies' if 'strat' in free_args else 'CombinedNativeClient shared by several goroutines: lazily created registry clients and their request caches' if 'cnc' in free_args else 'free run'
            e = lib.goenv()
            e['GORACE'] = 'halt_on_error=1 exitcode=66'
            p = subprocess.run([race_bin] + free_args, stdout=subprocess.PIPE, stderr=subprocess.PIPE, text=True, timeout=1800, env=e, errors='replace')
            frows = [tuple(l.split('\t', 1)) for l in p.stdout.split('\n') if '\t' in l and l.startswith(('pfree ', 'pstrat ', 'cnc ', 'dsc '))]
            races['free_runs_under_race'] = races.get('free_runs_under_race', 0) + len(frows)
            rep = race_report(p.stderr)
            if rep or p.returncode == 66:
                races['reports'] += 1
                running = [l[6:] for l in p.stderr.split('\n') if l.startswith('@case ')]
                case = running[-1] if running else '# (case unknown)'
                i = p.stderr.find('WARNING: DATA RACE')
                ctx.violation('the race detector reports a data race (%s): %s' % (what if ('cnc' in free_args or '-replay' in free_args) else 'inside guided remediation\'s patch computation, ' + what, rep or 'exit code 66'),
                              [case] + ['# ' + l for l in p.stderr[i:].split('\n')[:45]], name='race-' + ('replay' if '-replay' in free_args else 'strat' if 'strat' in free_args else 'cnc' if 'cnc' in free_args else 'free'))
            elif p.returncode != 0:
                ctx.violation('c16gen-race %s exited %d: %s' % (' '.join(free_args[:2]), p.returncode, p.stderr[-600:]), ['# see notes'], found_input=False, name='race-free-crash')
            if drv_ok:
                judge_free(ctx, frows, oracle, classify, nontrivial, 'c16gen-race ' + ' '.join(free_args[:2]))
        # 4a''. ungated Get/GetMap/SetMap from several goroutines on one cache, under the race detector (observation of what
        # C16_cache_guarded states for the struct fields, and of the WaitGroup-ordered call fields it does not cover)
        st_seeds = [int(l.split()[1]) for l in open(ctx.replay) if l.startswith('cstress ')] if ctx.replay else [ctx.seed]
        for ss in st_seeds:
            e = lib.goenv()
            e['GORACE'] = 'halt_on_error=1 exitcode=66'
            p = subprocess.run([race_bin, '-mode', 'cstress', '-seed', str(ss)], stdout=subprocess.PIPE, stderr=subprocess.PIPE, text=True, timeout=600, env=e, errors='replace')
            races['cache_stress_runs'] = races.get('cache_stress_runs', 0) + 1
            ctx.add_case('cstress %d' % ss, True, 'cache stress')
            rep = race_report(p.stderr)
            if rep or p.returncode != 0:
                races['reports'] += 1
                ctx.violation('RequestCache used from several goroutines (Get x4, SetMap, GetMap, no gates): %s' % (rep or 'exit %d: %s' % (p.returncode, p.stderr.strip().split('\n')[0][:200]))
                              + (' | access table: ' + cache_conflicts[0][9:] if cache_conflicts else ''),
                              ['cstress %d' % ss] + ['# ' + l for l in p.stderr.split('\n')[:45]], name='race-cstress-%d' % ss)
            elif 'foreign_values=0' not in p.stdout:
                ctx.violation('RequestCache returned a value nobody fetched or installed: ' + p.stdout.strip(), ['cstress %d' % ss], name='cstress-%d' % ss)
        if not ctx.replay:
            # 4a. the schedule streams again, under the race detector (results compared with the model as well)
            rn = {'quick': 10, 'thorough': n}[ctx.tier]
            out, err, rc = run_race_binary(race_bin, ['-seed', str(ctx.seed), '-n', str(rn), '-tier', ctx.tier])
            rows = [l.split('\t', 1) for l in out.split('\n') if '\t' in l]
            races['stream_cases_under_race'] = len(rows)
            rep = race_report(err)
            if rep or rc == 66:
                races['reports'] += 1
                ctx.violation('race detector report while driving RequestCache / ComputePatches through the enumerated schedules: %s' % (rep or 'exit code 66'),
                              ['# ' + l for l in err.split('\n')[:60]] + ['# re-run: %s -seed %d -n %d -tier %s' % (race_bin, ctx.seed, rn, ctx.tier)], name='race-streams')
            elif rc != 0:
                ctx.violation('c16gen-race exited %d: %s' % (rc, err[-600:]), ['# see notes'], found_input=False, name='race-crash')
            if rows and drv_ok:
                model = ctx.run_driver('drv_c16', [c for c, _ in rows])
                for (c, i), mo in zip(rows, model):      # the specification judged on what the race build observed, too
                    verdict = oracle(c, lib.fields(i), lib.fields(mo))
                    if verdict is not None and sum(1 for v in ctx.violations if v[2]) < 3:
                        ctx.violation('specification violated by the implementation (under -race): ' + verdict, [c + '\t' + i + '\t' + mo])
                bad = [(c, i, mo) for (c, i), mo in zip(rows, model)
                       if any(lib.fields(i).get(k) != lib.fields(mo).get(k) for k in COMPARE)]
                if bad:
                    ctx.mismatches += [b[0] for b in bad]
                    ctx.violation('correspondence c16gen-race/drv_c16: model and implementation differ on %d case(s) under -race' % len(bad),
                                  ['\t'.join(bad[0])], found_input=False, name='corr-race')
        # 4b. whole scans over a slow FS under -race, one process per scan = one case. Each scan is slow at ONE kind of site (directory open,
        # every ReadDir(1), .gitignore open, stat, file open, Extract), so the 2 s tick lands in a different window of handleFile /
        # walkDirUnsorted / runExtractor each time; whole-tree scans (ticker goroutine exists) and requested-path scans (control).
        adjacent = []
        for c in conflicts:
            mm = re.search(r'walker: \w+ in (\S+) line', c)
            if mm:
                # RunFS / runOnScanRoot / Run touch the context BETWEEN walks: what they meet is the previous root's ticker, which is signalled but never joined
                adjacent += {'handleFile': ['gitignore', 'dopen', 'readdir', 'stat'], 'runExtractor': ['fopen', 'extract'],
                             'postHandleFile': ['readdir', 'dopen'], 'RunFS': ['multiroot'], 'runOnScanRoot': ['multiroot'], 'Run': ['multiroot'],
                             'UpdateScanRoot': ['multiroot']}.get(mm.group(1), SITES + ['multiroot'])
        order = sorted(SITES, key=lambda k: (k not in adjacent, SITES.index(k)))
        scans = []
        if ctx.replay:
            for l in open(ctx.replay):
                t = l.split()
                if t and t[0] == 'scan' and len(t) >= 2 and t[1].lstrip('-').isdigit():
                    scans.append((int(t[1]), t[2] if len(t) > 2 else 'legacy', t[3] if len(t) > 3 else 'tree'))
        else:
            for s_ in scan_seeds:
                scans.append((s_, 'legacy', 'tree'))
            for k, s_ in enumerate(scan_seeds[:{'quick': 1, 'thorough': 3}[ctx.tier]]):
                for site in order:
                    scans += [(s_, site, 'tree'), (s_, site, 'paths')]
            # always: scans over several roots (a non-last root's walk outlasts the status interval inside its LAST Extract, a slow logger keeps
            # that root's ticker inside printStatus while the next root's RunFS starts)
            scans += [(ctx.seed * 100 + r, 'multiroot', 'tree') for r in range({'quick': 1, 'thorough': 3}[ctx.tier])]
            # always: the engine's options and error paths with the ticker firing, outcome compared with the same scan run fast (scanopt.go)
            scans += [(ctx.seed * 100 + r, 'opt-' + v, 'tree') for r in range({'quick': 1, 'thorough': 2}[ctx.tier]) for v in OPT_VARIANTS]
            for site in [x for x in order + ['multiroot'] if x in adjacent]:      # the table names an unguarded access: more scans next to it
                scans += [(ctx.seed * 100 + 50 + r, site, 'tree') for r in range(2)]
        e = lib.goenv()
        e['GORACE'] = 'halt_on_error=0 exitcode=66'
        races['scan_cases'] = len(scans)
        races['scans_by_site'] = {}
        for b in range(0, len(scans), 14):
            procs = []
            for (s_, site, sm) in scans[b:b + 14]:
                procs.append(((s_, site, sm), subprocess.Popen([race_bin, '-mode', 'scan', '-seed', str(s_), '-site', site, '-scanmode', sm],
                                                             stdout=subprocess.PIPE, stderr=subprocess.PIPE, text=True, env=e)))
            for (s_, site, sm), p in procs:
                case = 'scan %d %s %s' % (s_, site, sm)
                try:
                    out, err = p.communicate(timeout=300)
                except subprocess.TimeoutExpired:
                    p.kill()
                    out, err = p.communicate()
                    err += '\n(timeout)'
                races['scans'] += 1
                races['scans_by_site'][site + '/' + sm] = races['scans_by_site'].get(site + '/' + sm, 0) + 1
                if s_ not in races['scan_seeds']:
                    races['scan_seeds'].append(s_)
                ctx.add_case(case, True, 'scan %s %s' % (site, sm))
                fired = 'ticker_fired=1' in out
                races['ticker_fired'] += 1 if fired else 0
                if len(ctx.samples) < 12 and site != 'legacy' and sm == 'tree':
                    ctx.samples.append({'case': case, 'impl': out.strip()[:300], 'model': 'race-free (C16_ticker_guarded)'})
                rep = race_report(err)
                if rep or p.returncode == 66:
                    races['reports'] += 1
                    msg = ('the race detector reports a data race in a filesystem scan that outlasts the status interval (slow site: %s, %s scan): %s'
                           % (site, 'whole-tree' if sm == 'tree' else 'requested-path', rep or 'exit code 66'))
                    if conflicts:
                        msg += ' | access table: ' + conflicts[0][9:]
                    if sum(1 for v in ctx.violations if v[2] and 'filesystem scan' in v[0]) < 2:
                        ctx.violation(msg, [case] + ['# ' + l for l in err.split('\n')[:40]], name='race-scan-%d-%s-%s' % (s_, site, sm))
                elif p.returncode == 0 and site.startswith('opt-') and 'same=0' in out:
                    unh = lambda h: bytes.fromhex(h).decode('utf-8', 'replace')
                    mo, mf = re.search(r'outcome=([0-9a-f]*)', out), re.search(r'fast=([0-9a-f]*)', out)
                    ctx.violation('the outcome of a filesystem scan (%s) depends on whether the status ticker ran: run fast it is %r, lasting longer than the status interval %r'
                                  % (site, unh(mf.group(1))[:600] if mf else '?', unh(mo.group(1))[:600] if mo else '?'), [case], name='scan-%d-%s-%s' % (s_, site, sm))
                elif p.returncode != 0 or 'complete=1' not in out:
                    ctx.violation('race scan %s did not complete: rc=%s %s %s' % (case, p.returncode, out.strip(), err[-400:]), [case], found_input=False,
                                  name='scan-%d-%s-%s' % (s_, site, sm))
                elif sm == 'tree' and not fired:
                    ctx.notes.append('%s finished before the 2 s ticker fired: inconclusive' % case)
        if any(sm == 'tree' for _, _, sm in scans) and races['ticker_fired'] == 0 and not ctx.violations:
            ctx.violation('no race scan lasted long enough for the status ticker to fire: the runtime part did not exercise printStatus',
                          ['scan %d %s %s' % x for x in scans], found_input=False, name='scan-vacuous')
    ctx.extra['race_detector'] = races
    ctx.extra['explanation'] = ('level other (partial): kernel-checked theorems about the models + exhaustive schedule correspondence on the real code; race freedom below callback '
                                'granularity is observed by the race detector on executed schedules only')
    if conflicts:
        ctx.notes.append('access table conflicts: ' + ' || '.join(c[9:] for c in conflicts[:4]))
    if not proofs_ok:
        if failed:
            ctx.notes.append('theorems that no longer check: ' + ', '.join(failed))
        lib.proof_failed(ctx, 'Scalibr.Properties.C16' + ('Ticker' if failed == ['C16_ticker_guarded'] else '') + (': ' + ', '.join(failed) if failed else '') + (' | ' + conflicts[0][9:] if conflicts else ''))
