"""Shared by C01, C08, C09, C10 (and the engine part of C02): the model-A correspondence stream
(harness/cmd/walkgen + lean/Drivers/Walk.lean) and its oracles."""
from . import lib

COMPARE = ['err', 'vis', 'calls', 'pkgs', 'st', 'fnd']
FINGERPRINT = ['extractor/filesystem/filesystem.go:Run,runOnScanRoot,InitWalkContext,RunFS,walkIndividualPaths,walkContext.handleFile,walkContext.postHandleFile,'
               'lazyFileAPI.Stat,walkContext.shouldSkipDir,walkContext.runExtractor,walkContext.UpdateScanRoot,fileSize,addErrToMap,errToExtractorStatus',
               'extractor/filesystem/internal/walkdir_iterate.go:walkDirUnsorted,WalkDirUnsorted,readDir,dirIterator.next',
               'extractor/filesystem/internal/gitignore.go:GitignoreMatch,ParseDirForGitignore,ParseParentGitignores',
               'scalibr.go:Scanner.Scan,newScanResult,sortResults,CmpPackages,cmpStatus', 'plugin/plugin.go:StatusFromErr']


def scale(ctx):
    """stream size multiplier: 4x when a mirrored function changed since its fingerprint was recorded"""
    return 4 if ctx.fingerprints(FINGERPRINT) else 1
TRUSTED = ['Lean 4.33.0 kernel', 'axioms: propext, Quot.sound, Classical.choice at most (see theorems.*.axioms)',
           'the go-git gitignore matcher obeys the domain rule (hypothesis GiOK = DomainLaw; proved for the Lean matcher of the generated pattern sub-language, '
           'which the correspondence stream validates against go-git on every scan with UseGitignore)',
           'regexp / gobwas-glob are opaque predicates: the generator evaluates the real engines on every directory path of the case and the model consumes the match sets',
           'slices.SortFunc by contract (stable insertion sort for n<=12)',
           'harness/walkcase (in-memory fs.FS with data-driven listing order, sizes and faults; fake extractors) and the line protocol',
           'Lean compiler for the driver executable']
ASSUME = ['FileRequired and Extract are tables (path-determined); faults are path-determined (the same operation on the same path fails the same way)',
          'requested paths are not symlinks (fs.Stat follows links on a real filesystem)', 'Windows path separators are outside the model; StoreAbsolutePath is exercised by the stream (absolute roots, prefix stripping) but has no theorem',
          'gitignore patterns outside the modelled sub-language (globs with "/", "**", character classes, blank-affixed lines) are generated as RAW lines and answered from a table of real go-git verdicts computed per case (C01_table_matcher_domainLaw); the sub-language matcher itself is validated against go-git on every gitignore scan of the stream']
RULE = ('case = forest of 1-3 roots (depth<=3, <=14 nodes each; names with dots, spaces, leading dash, non-ASCII, prefixes of each other; regular files, symlinks, FIFOs, '
        '.gitignore files at any depth with literal / dir-only / negated patterns), data-driven listing order, every option combination (skip list, real regexp and glob, gitignore, '
        'requested paths incl. repeated and missing ones, sub-directory cut-off, symlink reading, size limit around the file sizes), 1-3 table-driven extractors returning packages/errors/panics; '
        'modes add fault plans (0-2 faults over open-dir, open-file, open-.gitignore, stat, stat-on-open-file, k-th directory read), inode limits at 1, n-1, n, n+1, cancellation from '
        'inside the k-th Extract or before the scan. non-trivial = at least one Extract call was made; distinct = distinct case lines')


def fl(x):
    return [] if x in (None, '-', '') else x.split(';')


def run_stream(ctx, mode, n, oracle, classify=None, extra_gen_args=None):
    def nontrivial(case, fi, fm):
        return fi.get('calls', '-') != '-'

    def cls(case, fi, fm):
        # which specification verdicts apply to the case (the shares of judged cases are visible in the evidence):
        # B benign (calls/pkgs/statuses/findings = specification), F fatal class (err = fs iff traversal fault), L limit class (exact inode
        # behaviour), C cancel class (exact cancellation outcome), M sequential machine (every configuration without a panicking extractor)
        if fm.get('glue'):
            return '%s err=%s glue=%s' % (mode, fi.get('err'), fm.get('glue'))
        ver = ''.join(k for k, f in (('B', 'hyp'), ('F', 'fatalhyp'), ('L', 'limithyp'), ('C', 'cancelhyp'), ('M', 'nopanic')) if fm.get(f) == '1')
        return '%s err=%s verdicts=%s' % (mode, fi.get('err'), ver or '-')
    return lib.standard_stream(ctx, gen='walkgen', driver='drv_walk',
                               gen_args=['-mode', mode, '-seed', str(ctx.seed), '-n', str(n)] + (extra_gen_args or []),
                               compare_keys=COMPARE, nontrivial=nontrivial, oracle=oracle, classify=classify or cls)


def oracle_fatal(case, fi, fm):
    """C09 "fatal only on request": with ErrorOnFSErrors (no limit, no cancellation, no extractor panic) the scan must
    fail exactly when the walk is told about a filesystem failure (specification: traversalFaultScan)."""
    if fm.get('fatalhyp') != '1' or 'specfatal' not in fm:
        return None
    want = 'fs' if fm['specfatal'] == '1' else 'none'
    if fi.get('err') != want:
        return 'ErrorOnFSErrors is set and the walk %s a filesystem failure, but the scan reported err=%s (expected %s)' % (
            'meets' if want == 'fs' else 'does not meet', fi.get('err'), want)
    return None


def oracle_calls(case, fi, fm):
    """C01 / C09: where the hypothesis of the refinement theorem holds (benign configuration), the
    IMPLEMENTATION's Extract calls must be exactly the specification's, in order; and the scan must succeed."""
    g = oracle_glue(case, fi, fm)
    if g or fm.get('glue'):
        return g
    if fm.get('hyp') != '1':
        return None
    if fi.get('err') != 'none':
        return 'benign configuration (no limit, no cancellation, errors not fatal, no extractor panic) but the scan reported err=%s' % fi.get('err')
    if fi.get('calls') != fm.get('spec'):
        a, b = fl(fi.get('calls')), fl(fm.get('spec'))
        missing = [x for x in b if x not in a]
        extra = [x for x in a if x not in b]
        return 'Extract calls differ from mustExtract: missing=%s extra=%s (e@hexpath@size)' % (missing[:4], extra[:4])
    if 'specpkgs' in fm and fi.get('pkgs') != fm.get('specpkgs'):
        return 'reported packages %s differ from the union of the owed Extract results %s (id@extractor@hexpath)' % (fl(fi.get('pkgs'))[:6], fl(fm.get('specpkgs'))[:6])
    if 'specst' in fm and fi.get('st') != fm.get('specst'):
        return 'plugin statuses %s differ from the specified ones %s' % (fi.get('st'), fm.get('specst'))
    if 'specfnd' in fm and fi.get('fnd') != fm.get('specfnd'):
        return 'findings of the filesystem extractors %s differ from the union of the owed Extract results %s (extractor@hexpath, emitted order)' % (
            fl(fi.get('fnd'))[:6], fl(fm.get('specfnd'))[:6])
    if 'contained' in fm and fi.get('calls') != fm.get('contained'):
        # theorem C09_contained_run_any_benign: the attempts are those of the FAULT-FREE rule for every file no fault lies on the way to
        a, b = fl(fi.get('calls')), fl(fm.get('contained'))
        return 'Extract calls differ from the fault-free calls minus the files behind a fault: missing=%s extra=%s' % (
            [x for x in b if x not in a][:4], [x for x in a if x not in b][:4])
    return None


def oracle_glue(case, fi, fm):
    """The glue around the walk (Model/Scan.lean `glue`): Scan refuses a configuration without scan roots, with requested paths AND several roots, or
    (absolute roots) with a requested / skipped path under no root — nothing may be walked or extracted; without any filesystem extractor the scan
    succeeds at once with an empty result and visits no inode (limits, faults and a cancelled context do not apply)."""
    g = fm.get('glue')
    if g == 'refused' and (fi.get('err') != 'cfg' or fi.get('vis') not in ('0', '?') or fi.get('calls', '-') != '-' or fi.get('pkgs', '-') != '-'):
        return 'the configuration must be refused before any walk, but the scan reported err=%s vis=%s calls=%s' % (fi.get('err'), fi.get('vis'), fi.get('calls'))
    if g == 'empty' and (fi.get('err') != 'none' or fi.get('vis') not in ('0', '?') or fi.get('calls', '-') != '-' or fi.get('st', '-') != '-'):
        return 'no filesystem extractor is enabled: the scan must succeed with an empty result without visiting anything, reported err=%s vis=%s st=%s' % (
            fi.get('err'), fi.get('vis'), fi.get('st'))
    return None


def oracle_machine(case, fi, fm):
    """C10_machine_any: in EVERY configuration without a panicking extractor the scan ends with the filesystem error (possible only with
    ErrorOnFSErrors) or its error, AfterInodeVisited count and Extract calls are those the sequential machine prescribes on the specification's trace."""
    if fm.get('glue') or fm.get('nopanic') != '1' or 'mspecerr' not in fm:
        return None
    eofs = dict(x.split('=') for x in case.split(' ')[1].split(',')).get('eofs') == '1'
    if fi.get('err') == 'fs':
        return None if eofs else 'the scan failed with a filesystem error although ErrorOnFSErrors is off'
    want = (fm['mspecerr'], fm.get('mspecvis'), fm.get('mspeccalls'))
    got = (fi.get('err'), fi.get('vis'), fi.get('calls'))
    if fi.get('vis') == '?':   # no stats collector configured (ScanConfig.Stats nil): the visit count is not observable
        want, got = (want[0], '?', want[2]), (got[0], '?', got[2])
    if got != want:
        return 'limit/cancellation outcome: the sequential reading of the specification gives err=%s vis=%s calls=%s, the scan reported err=%s vis=%s calls=%s' % (want + got)
    return None
