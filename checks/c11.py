"""C11 — Guided remediation only upgrades, and only as far as the policy allows."""
import os
from . import lib

META = {
    'level': 'proof',
    'technique': 'Lean 4 theorems on models of Level.Allows (truth table regenerated from the Go method on every run), the override candidate scan and '
                 're-resolution loop, NpmRelaxer.Relax and suggestMavenVersion; table-driven correspondence with the real functions (deps.dev semver results as tables)',
    'design_ref': 'DESIGN.md §4 (section of C11), §5 (defects), §7 (seeded changes)',
    'text': 'Kernel-checked, unbounded: Allows = regenerated table; every override round pins a known version not below (strictly above, for a comparator that separates '
            'distinct versions) the resolved one with an allowed difference and fewer vulnerabilities; the level bounds the difference to the ORIGINAL base after any '
            'number of rounds (given DiffClassLaws: same-major / same-major.minor / same are transitive) and the loop stops within |versions| rounds (given HonoursPinsM: '
            're-resolution yields the pinned version); every Relax step builds the new requirement from a version strictly above the highest matching one with an allowed '
            'difference; suggestMavenVersion (after fixes 3e9bb9ee, 63128997) proposes only known versions STRICTLY above current with an allowed difference, for every input '
            '(full strength; a range no known version satisfies keeps the requirement), and Suggest does so for EVERY requirement of a manifest against that requirement\'s own version (C11_update_patch); level None touches nothing in all three. '
            'With several packages every round judges each package against the version resolved at the start of that round (C11_override_multi_step); a pin chosen that way can be '
            'overtaken by another override (known finding C11/override-pin-overtaken, witness proved). Both assumed laws are checked on every generated universe.',
    'note': 'Trusted: Lean kernel (axioms propext/Quot.sound/Classical.choice at most); deps.dev semver (Compare, Difference, constraint matching) and the Maven/npm resolvers are '
            'parameters, supplied per case as tables computed with the same libraries; mavenutil.CompareVersions (guava flavours, commons date versions) is taken as the '
            'order the library defines; slices.SortFunc/BinarySearchFunc contracts; harness/cmd/c11gen + lean/Drivers/C11.lean. The relax loop across several requirements '
            'and packages is exercised end to end by C12, not modelled here.',
}
U = 'Scalibr.Upgrade.'
O = 'Scalibr.Override.'
R = 'Scalibr.Relax.'
S = 'Scalibr.Suggest.'
M = 'Scalibr.OverrideMulti.'
THEOREMS = [U + 'C11_allows_table', U + 'C11_allows_meaning', U + 'C11_config_strings_meaning', U + 'C11_config_strings_allows', U + 'C11_config_strings_witnesses', U + 'C11_rank_exists_iff', U + 'C11_rank_is_order_partial', U + 'C11_no_rank_of_cycle', U + 'C11_semantic_maven_has_no_rank',
            O + 'C11_override_step', O + 'C11_override_upward_partial', O + 'C11_override_upward_cmp_partial', O + 'C11_override_unsorted_witness', O + 'C11_override_equal_version_fixed',
            O + 'C11_cumulative_partial', O + 'C11_terminates_partial', O + 'C11_terminates_bound_partial',
            M + 'C11_terminates_multi_partial', M + 'C11_terminates_multi_bound_partial', M + 'C11_cumulative_multi_partial',
            O + 'C11_none_untouched_override', 'Scalibr.OverrideMulti.C11_override_multi_step', 'Scalibr.OverrideMulti.C11_override_multi_upward_partial', 'Scalibr.OverrideMulti.C11_none_untouched_multi', 'Scalibr.OverrideMulti.C11_override_pin_overtaken_witness', R + 'C11_relax_step', R + 'C11_none_untouched_relax', S + 'C11_update_step', S + 'C11_update_step_cmp_partial', S + 'C11_update_no_current', S + 'C11_update_reported', S + 'C11_update_patch',
            S + 'C11_none_untouched_update', S + 'C11_update_fixed_witnesses']


def regenerate_allows(ctx):
    """translator step: rewrite lean/Scalibr/Gen/Allows.lean from the real Level.Allows (DESIGN.md §2.2 step 1)"""
    binary = ctx.go_build('c11gen')
    if binary is None:
        return False
    rc, out = lib.sh([binary, '-emit-allows'], env=lib.goenv())
    if rc != 0 or 'allowsTable' not in out:
        ctx.notes.append('c11gen -emit-allows failed: ' + out[-400:])
        return False
    path = lib.LEAN + '/Scalibr/Gen/Allows.lean'
    old = open(path).read() if os.path.exists(path) else ''
    if old != out:
        open(path, 'w').write(out)
        ctx.notes.append('Gen/Allows.lean changed on this run')
    ctx.extra['allows_table_rows'] = out.count('(') - 2
    return True

def ep_verdict(fi, fm):
    """Spec.EntryPoints.judge on the observation (res, errs, same) against the driver's want="""
    w, err, errs, same = fm.get('want'), fi.get('outcome') == 'err', int(fi.get('errs', '0') or 0), fi.get('same', '-')
    if w == 'refuse' and not (err and same != '0'):
        return 'must be refused with an error and leave the manifest as it is (got %s, manifest unchanged=%s)' % (fi.get('outcome'), same)
    if w == 'succeed' and err:
        return 'must succeed, an error was returned'
    if w == 'flagged' and not (err or errs > 0):
        return 'a requirement that cannot be resolved passed silently: no error and no resolve error in the result'
    if w not in ('refuse', 'succeed', 'flagged'):
        return 'driver did not judge the case'
    return None


def joint_application_verdict(fi):
    """C11 read on several patches applied at once (FixVulns, override, MaxUpgrades != 1): every applied update must move its package
    strictly upward from the version the package resolves to in "original manifest + all OTHER applied updates" (field down= lists the
    updates that do not).  The class C11/override-pin-overtaken excuses this only for patches whose fixed sets are pairwise disjoint
    (overlap=0; see joint_application_class); with overlapping fixed sets it is a violation."""
    r = fi.get('r', fi.get('_', ''))
    if r != 'ok':
        return 'FixVulns with several patches: ' + r
    if fi.get('down', '-') not in ('-', ''):
        return ('patches applied jointly (%s patches; fixed sets %s): the update(s) %s (package:written version:version it resolves to without that update, '
                'the other applied updates in place) do not move the package strictly upward; all updates: %s'
                % (fi.get('np'), 'OVERLAP' if fi.get('overlap') == '1' else 'pairwise disjoint', fi.get('down'), fi.get('jups')))
    return None


def joint_application_class(fi):
    """the recorded finding covers jointly applied patches with pairwise disjoint fixed sets only"""
    return 'C11/override-pin-overtaken' if fi.get('down', '-') not in ('-', '') and fi.get('overlap') == '0' else None


def run(ctx):
    ctx.trusted = ['Lean 4.33.0 kernel', 'axioms: propext, Quot.sound, Classical.choice at most (see theorems.*.axioms)',
                   'deps.dev semver (Compare / Difference / ParseConstraint / MatchVersion) and the deps.dev resolvers: parameters, tabulated per case with the same libraries',
                   'c11gen -emit-allows copies Level.Allows faithfully into Gen/Allows.lean (40 rows, human-diffable)',
                   'slices.SortFunc / BinarySearchFunc contracts', 'harness/cmd/c11gen + harness/remx + lean/Drivers/C11.lean', 'Lean compiler for the driver executable']
    ctx.assumptions = ['DiffClassLaws (same-major, same-major.minor, same are transitive; diff a a = Same): hypothesis of C11_cumulative_partial / C11_cumulative_multi_partial, evaluated on every generated universe (field laws=)',
                       'HonoursPinsM (re-resolution yields the pinned version): hypothesis of C11_cumulative_partial / C11_cumulative_multi_partial and of the termination theorems, observed on every override case (req = final)',
                       'the Maven order is deps.dev semver.Maven (third party) with the two exceptions mavenutil.CompareVersions documents (guava flavours, commons date versions), restated in harness/remx SpecMavenCompare: rank tables come from that restatement and the real comparator is compared with it on every pair of every sg / up / ov universe (field cmp=); npm: semver.NPM.Compare',
                       'Relax: requirements that are not semver constraints (dist-tags) are outside the model']
    ctx.rule = ('rx = (level, single comparators and || unions of 2-3 islands with releases in the gaps, 1-12 npm versions incl. pre-releases and 0.x, half of the universes with dist-tags: latest below / inside / above the range, next, beta) through the real NpmRelaxer.Relax, old and new requirement resolved by the real npm resolver; sg = (level, plain/range requirement, 1-13 Maven versions, '
                'a few guava/commons universes) through the real suggestMavenVersion; ov = (level, direct or transitive dependency on g:p, 1-12 Maven versions, 1-3 vulnerabilities with fixed / '
                'last_affected / explicit lists) through the real override patchVulns loop with in-memory resolve client and local matcher; mo = three Maven packages (two direct, one transitive whose version depends on the '
                'direct ones; 2-6 versions each with patch/minor/major steps), 2-4 vulnerability records of which about half affect two packages, never-fixed and windowed advisories on the transitive package, per-package levels '
                '(major/minor/patch/none), through the same real loop, the resolver tabulated per (direct, direct) pair; every written override is judged against the version the package resolves to WITHOUT it in the final manifest; '
                'rl (every fourth case a diamond: two direct requirements that both hold the vulnerable package, none / one / both configured none — with one pinned the call must give up and RETURN) = npm manifest `lib ^1.0.0`, 3-6 major versions of lib each bringing its own set of never-fixed vulnerable packages (so steps fix some and introduce several: diamonds in the '
                'introduced-vulnerability graph), through the real public FixVulns (relax) under a 4 s watchdog: a call that does not return is `r=hang`; '
                'up = a pom that declares the same groupId:artifactId several times with different versions (jar / test-jar / classifier variants in <dependencies>, dependencyManagement, a profile, a pluginManagement plugin; '
                'versions across major and minor boundaries, ranges, unknown versions; per-package and default levels; IgnoreDev) through the real public Update, judged per requirement on result.Patches and per declaration on the re-read pom. thorough adds every subset of 6 versions x level x '
                '1-2 chained vulnerabilities (override) and 25 requirements x 4 levels x 3 universes (relax). '
                'ja = patches applied jointly through the public FixVulns (Maven/override, MaxUpgrades 0 / 2 / 3): foo (direct) brings bar; FOO on foo < 3.0.0, BAR on bar below 2.0.0 or 3.0.0 (and, in a third of the cases, again from 3.0.0 on), 0-3 vulnerabilities only the newest foo has (they decide whether the narrow override of bar or the parent upgrade of foo sorts first), bar also direct, NoIntroduce — all 192 combinations; every applied update is judged against the version its package resolves to in "original manifest + all OTHER applied updates" (re-resolved), excused by the recorded class only when the applied patches\' fixed sets are pairwise disjoint. '
                'cf = --upgrade-config lists through the real NewConfigFromStrings: 1-6 entries over 1-3 packages from a pool of 17 names (plain, @scope/name, Maven g:a, names with three colons, empty segments, a name ending in a level word, '
                'blanks, non-ASCII) + the default level as bare word or ":word", repeated packages, every fifth word not a level (unknown word, other case, blanks / tab around it, empty, a colon inside); queried: every named package, its '
                'prefix before the first colon, its trimmed spelling, the default, an unnamed package; plus every pool name x every level x {alone, after a default, overwritten, followed by an invalid entry}. '
                'About half of the rx / ov / mo / rl / up cases (by a hash of the case) build their upgrade.Config through NewConfigFromStrings too ("g:p:minor", default as "minor" or ":minor", an overwritten earlier entry, an ignored "pkg:latest"). non-trivial = the real code changed something; distinct = distinct case lines')
    gen_ok = regenerate_allows(ctx)
    ok, _ = ctx.lean_build(['Scalibr.Properties.C11', 'Scalibr.Properties.C11MavenCycle', 'drv_c11'])
    proofs_ok = ctx.audit(['Scalibr.Properties.C11', 'Scalibr.Properties.C11MavenCycle'], THEOREMS) and gen_ok
    if ctx.tier == 'thorough':
        proofs_ok = ctx.leanchecker('Scalibr.Properties.C11') and proofs_ok
    n = {'quick': 4000, 'thorough': 40000}[ctx.tier]
    KEYS = ['r', 'final', 'greater', 'pins', 'res', 'ups', 'pom', 'cfg', 'get']

    def agree(fi, fm):
        return all(fi.get(k) == fm.get(k) for k in KEYS)

    def bit(s, i):
        return s is not None and s != '-' and 0 <= i < len(s) and s[i] == '1'

    def nontrivial(case, fi, fm):
        op = case.split(' ')[0]
        r = fi.get('r', '')
        if op == 'rx':
            return r[:1] in ('t', 'c')
        if op == 'sg':
            return r.startswith('update')
        if op == 'mo':
            return r == 'ok' and fm.get('rounds', '0') != '0'
        if op == 'up':
            return fi.get('ups', '-') != '-'
        if op == 'rl':
            return fi.get('patches', '0') != '0'
        if op == 'cf':
            return fi.get('cfg', '-') != '-'
        if op == 'ep':
            return True
        if op == 'ja':
            return fi.get('np', '0') not in ('0', '1')
        return r == 'ok' and fi.get('final') != case.split(' | ')[1].split(' ')[1]

    def oracle(case, fi, fm):
        op = case.split(' ')[0]
        level = case.split(' ')[1]
        r = fi.get('r', fi.get('_', ''))
        if r == 'panic':
            return 'the real code panicked'
        if op == 'ep':
            v = ep_verdict(fi, fm)
            return ('entry point, kind %s (see Spec/EntryPoints.lean): ' % level + v) if v else None
        if op == 'ja':
            return joint_application_verdict(fi)
        if fi.get('cmp') == '0':
            return ('mavenutil.CompareVersions differs in sign from the specified order on a pair of versions of this universe (Maven order, in which different '
                    'spellings of one version are equal, with the guava-flavour and commons date-version exceptions)')
        if op == 'cf':
            if fm.get('wf') == '1' and fi.get('get') != fm.get('spec'):
                return ('NewConfigFromStrings: the level Config.Get returns for a queried package is not the one the entries say (last valid '
                        '"pkg:level" entry for the package, split at the LAST colon; else the last valid default entry; else major): got %s, intended %s'
                        % (fi.get('get'), fm.get('spec')))
            return None
        if op == 'rx':
            if r[:1] in ('t', 'c') and r[1:].isdigit():
                a, _, b = fi.get('tops', '-1:-1').partition(':')
                if int(b) <= int(a):
                    return ('Relax: the new requirement resolves to version #%s, the old one resolved to #%s (real npm resolver, dist-tags included): not strictly upward' % (b, a))
                if not bit(fm.get('spec'), int(b)):
                    return ('Relax: the new requirement resolves to version #%s (real npm resolver), which is not within the configured level of the version the old one '
                            'resolved to (#%s): the requirement admits more than the level allows' % (b, a))
                if not bit(fm.get('spec'), int(r[1:])):
                    return 'Relax built the requirement from version #%s, which is not strictly above the highest matching version #%s with an allowed difference' % (r[1:], fm.get('last'))
            elif r != 'fail':
                return 'Relax: ' + r
        elif op == 'ov':
            if r != 'ok':
                return 'override loop: ' + r
            if fi.get('req') != fi.get('final'):
                return 'HonoursPins observed false: requirement #%s, resolved #%s' % (fi.get('req'), fi.get('final'))
            if fm.get('laws') == '1' and not bit(fm.get('spec'), int(fi.get('final', '-1'))):
                return 'override ended at version #%s: not the base and not strictly above it with an allowed difference to the base' % fi.get('final')
            if fm.get('laws') != '1' and int(fi.get('final', '-1')) < int(case.split(' | ')[1].split(' ')[1]):
                return 'override ended below the base'
        elif op == 'rl':
            if r == 'hang':
                return ('FixVulns (npm / relax) did not return within the watchdog time: the computation does not terminate on this universe '
                        '(the termination clause of C11; the loop models terminate: C11_terminates_partial / C11_terminates_multi_partial)')
            if r != 'ok':
                return 'relax end to end: ' + r
            import json as _json
            c = _json.loads(bytes.fromhex(case.split(' | ')[0].split(' ')[2]))
            touched = [x for x in fi.get('touched', '-').split('+') if x not in ('-', '')]
            if c.get('Diamond'):
                for bit_, name in ((1, 'd1'), (2, 'd2')):
                    if c.get('NoneOn', 0) & bit_ and name in touched:
                        return 'relax end to end: %s is configured none, yet its requirement was relaxed' % name
                if c.get('NoneOn', 0) == 0 and c.get('Depth', 0) in (0, 2, 3) and fi.get('patches') == '0':
                    return 'relax end to end: both requirements that hold the vulnerable package may be relaxed, yet no patch was offered'
            if c.get('Level', 0) >= 1 and 'lib' in touched and not c.get('Diamond'):
                return 'relax end to end: lib is configured %s, every newer lib is a major step, yet its requirement was relaxed' % ['major', 'minor', 'patch', 'none'][c['Level']]
            if c.get('Depth', 0) == 1 and (fi.get('vulns') != '0' or fi.get('patches') != '0' or fi.get('same') != '1'):
                return 'relax end to end: MaxDepth 1, all vulnerable packages are two edges from the root, yet vulnerabilities / patches were reported or the manifest changed'
            if c.get('Depth', 0) == 2 and 'wrap' in touched:
                return 'relax end to end: MaxDepth 2, the vulnerable packages are three edges away through wrap, yet wrap was relaxed'
            if fi.get('patches') == '0' and fi.get('same') != '1':
                return 'relax end to end: no patch reported, but the manifest on disk changed'
        elif op == 'up' and fi.get('extra', '0') != '0':
            return ('Update on a manifest with a local parent: an update was reported for the <parent> (its package is configured none) or for the dependency '
                    'the manifest only inherits, or the parent pom.xml was rewritten (extra=%s)' % fi.get('extra'))
        elif op == 'up':
            if r != 'ok':
                return 'Update on a whole pom: ' + r
            oks = fm.get('spec', '').split(';')
            # every reported update is judged against ITS OWN requirement (okset of that requirement)
            if fi.get('ups', '-') != '-':
                for u in fi['ups'].split(','):
                    i, _, v = u.partition(':')
                    if not (i.isdigit() and v.isdigit() and int(i) < len(oks) and bit(oks[int(i)], int(v))):
                        return ('Update reports requirement #%s -> version #%s: not a known version strictly above that requirement\'s own version with a difference '
                                'its package\'s level allows' % (i, v))
            # … and so is every declaration of the re-read pom: the reported target, or untouched
            want = fm.get('pom', fm.get('pomd'))
            got = fi.get('pom', fi.get('pomd'))
            if want is not None and got != want:
                return 'Update: the re-read pom has versions %s per declaration, the reported updates give %s' % (got, want)
        elif op == 'mo':
            if r != 'ok':
                return 'override loop (several packages): ' + r
            if fm.get('done') != '1':
                return 'the model of the override loop ran out of fuel (C11_terminates_multi_bound_partial says it cannot)'
            tb = case.split(' | ')[1].split(' ')
            pins0 = tb[2].split('.')
            pins = fi.get('pins', '-.-.-').split('.')
            res = fi.get('res', '-.-.-').split('.')
            names = ['g:app', 'g:bee', 'g:lib']
            for p in (0, 1):
                if pins[p] != res[p]:
                    return 'HonoursPins observed false for %s: requirement #%s, resolved #%s' % (names[p], pins[p], res[p])
                if pins[p] != pins0[p] and not bit(fm.get('okA' if p == 0 else 'okB'), int(pins[p]) if pins[p].isdigit() else -1):
                    return 'override of %s: #%s -> #%s is not strictly upward within its level' % (names[p], pins0[p], pins[p])
            if pins[2] != '-':
                # judged against the version g:lib resolves to WITHOUT this override in the final manifest
                rows = fm.get('okL', '').split(';')
                a = int(pins[0]) if pins[0].isdigit() else 0
                b = int(pins[1]) if pins[1].isdigit() else 0
                row = rows[a].split(',')[b] if a < len(rows) and b < len(rows[a].split(',')) else 'x'
                if row != 'x':
                    if res[2] != pins[2]:
                        return 'HonoursPins observed false for g:lib: dependencyManagement #%s, resolved #%s' % (pins[2], res[2])
                    base = tb[3].split(';')[a].split(',')[b]
                    if not bit(row, int(pins[2])):
                        return ('dependencyManagement pins g:lib to version #%s, but without that override the final manifest resolves g:lib to #%s: '
                                'not strictly upward within its level' % (pins[2], base))
        elif op == 'sg' and level != '3':        # Suggest never calls the function for level None
            if r.startswith('update:'):
                i = r.split(':')[1]
                if not i.isdigit() or not bit(fm.get('spec'), int(i)):
                    return 'suggestMavenVersion proposed version #%s: not strictly above current with an allowed difference' % i
            elif r not in ('keep', 'err'):
                return 'suggestMavenVersion: ' + r
        return None

    def finding_class(case, fi, fm):
        if not agree(fi, fm):
            return None
        if case.startswith('ja '):
            return joint_application_class(fi)
        if case.startswith('up ') and 'pomd' in fm and fi.get('ups') == fm.get('ups') and fi.get('pomd') != fm.get('pomd'):
            return 'C11/pom-origin-ignored'      # the reported updates are right; the writer addressed the wrong one of two declarations with one key
        c = fm.get('cls', '-')
        return c if c != '-' else None

    def classify(case, fi, fm):
        op = case.split(' ')[0]
        r = fi.get('r', fi.get('_', '?'))
        if op == 'rx':
            r = r[:1] if r[:1] in ('t', 'c') else r
        if op == 'sg':
            r = r.split(':')[0]
        extra = ' rounds=%s laws=%s' % (fm.get('rounds'), fm.get('laws')) if op == 'ov' else (' rounds=%s' % fm.get('rounds') if op == 'mo' else '')
        if op == 'mo':
            return 'mo r=%s%s' % (r, extra)
        if op == 'rl':
            return 'rl r=%s patches=%s' % (r, fi.get('patches'))
        if op == 'ja':
            return 'ja r=%s np=%s down=%s overlap=%s' % (r, fi.get('np'), 'some' if fi.get('down', '-') not in ('-', '') else 'none', fi.get('overlap'))
        if op == 'ep':
            return 'ep want=%s outcome=%s' % (fm.get('want'), fi.get('outcome'))
        if op == 'cf':
            return 'cf r=%s wf=%s entries=%s' % (r, fm.get('wf'), 'some' if fi.get('cfg', '-') != '-' else 'none')
        if op == 'up':
            return 'up r=%s updates=%s samekey=%s' % (r, 'some' if fi.get('ups', '-') != '-' else 'none', '1' if 'pomd' in fm else '0')
        return '%s level=%s r=%s%s' % (op, case.split(' ')[1], r, extra)

    lib.standard_stream(ctx, gen='c11gen', driver='drv_c11', gen_args=['-seed', str(ctx.seed), '-n', str(n), '-tier', ctx.tier],
                        compare_keys=KEYS, nontrivial=nontrivial, oracle=oracle, classify=classify, finding_class=finding_class, sample_every=1499)
    if not proofs_ok:
        lib.proof_failed(ctx, 'Scalibr.Properties.C11')
