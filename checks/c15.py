"""C15 — SBOMs the library writes can be read back by the library."""
import re
from . import lib

META = {
    'level': 'other',
    'technique': 'Lean 4 theorems about a statement-level model of ToSPDX23/ToCDX and of the sbom/spdx + sbom/cdx importers, parametric in the '
                 'serialiser/parser pair (Codec) and the purl library; differential validation of the Codec.roundtrips ASSUMPTION and of the model by '
                 'writing real files with binary/spdx.Write23 / binary/cdx.Write and scanning them with the real SBOM extractors',
    'design_ref': 'DESIGN.md §4 (section of C15), §5 (defects), §7 (seeded changes)',
    'text': 'Kernel-checked for ALL inventories: if the chosen format\'s codec round-trips ON THE DOCUMENT AT HAND (pointwise hypothesis of C15_spdx_partial / C15_cdx_partial) and the purl library obeys NormLaws (name, version, type, namespace, qualifiers, sub-path), scanning the written file returns, '
            'in order, exactly the normalised purls (norm u = FromString(u.String())) of the exported packages — SPDX: purl present with non-empty name and version; '
            'CycloneDX: purl present — duplicates kept, purl-less packages and the extra "main" SPDX package absent (C15_spdx_partial, C15_cdx_partial; C15_spdx / C15_cdx and *_general are the identity-codec forms kept as examples); if the parser rejects '
            'what the writer produced the scan fails (C15_codec_failure); file-name dispatch is independent of Go map order. The tie to the code: each generated '
            'inventory (0..30 packages, all 39 purl types, namespaces, qualifiers, sub-paths, escaping-sensitive characters, newlines/<text>, control characters, '
            'duplicates, purl-less and CPE-only packages, malformed purls) is exported in the five formats with the real writers and scanned with the real extractors; '
            'the returned purl multiset must equal both the Lean model\'s prediction and the Spec definition.',
    'note': 'Level "other": Codec.roundtrips for tools-golang (JSON, YAML, tag-value) and cyclonedx-go (JSON, XML) is an ASSUMPTION — it is validated differentially on the '
            'generated inventories, NOT proved; packageurl-go (String/FromString) is a per-case table supplied by the harness. On the unchanged tree the assumption is '
            'false for SPDX tag-value on every document (known finding C15/spdx-tag-value-supplier; newline / <text> in names break the same format) and for SPDX YAML when a '
            'name, version or location contains DEL, a C1 control other than NEL, or U+FFFE/U+FFFF (known finding C15/spdx-yaml-control-char: the writer returns an error). '
            'SPDX export deliberately skips purls with an empty name or version (logged by ToSPDX23); purls that packageurl-go cannot parse back (unknown type, empty name, '
            'duplicate qualifier keys, conan/swift/cran custom rules) are lost by both importers and are outside the property\'s domain (malformed stream).',
}
THEOREMS = ['Scalibr.Sbom.C15_spdx_partial', 'Scalibr.Sbom.C15_cdx_partial', 'Scalibr.Sbom.C15_spdx_at', 'Scalibr.Sbom.C15_cdx_at',
            'Scalibr.Sbom.C15_constant_norm_excluded', 'Scalibr.Sbom.C15_evil_type_excluded', 'Scalibr.Sbom.C15_qualifier_rewrite_excluded', 'Scalibr.Sbom.C15_spdx_nonwrapper_imported', 'Scalibr.Sbom.specNorm_fields',
            'Scalibr.Sbom.C15_spdx_general', 'Scalibr.Sbom.C15_spdx', 'Scalibr.Sbom.C15_spdx_hasPurl',
            'Scalibr.Sbom.C15_cdx_general', 'Scalibr.Sbom.C15_cdx', 'Scalibr.Sbom.C15_inventory_order',
            'Scalibr.Sbom.C15_codec_failure', 'Scalibr.Sbom.C15_codec_failure_cdx',
            'Scalibr.Sbom.C15_every_doc_has_noassertion_supplier', 'Scalibr.Sbom.C15_tagvalue_supplier_rejected',
            'Scalibr.Sbom.C15_tagvalue_supplier_repair', 'Scalibr.Sbom.C15_dispatch_keys_suffix_free',
            'Scalibr.Sbom.C15_spdx_dispatch_unambiguous', 'Scalibr.Sbom.C15_spdx_versionless_dropped',
            'Scalibr.Sbom.C15_unparsable_lost', 'Scalibr.Sbom.spdx_doc_import', 'Scalibr.Sbom.cdx_doc_import',
            'Scalibr.Sbom.specPurls_eq_specNorm', 'Scalibr.Sbom.lostOf_zero']

FORMATS = ('spdx23-json', 'spdx23-yaml', 'spdx23-tag-value', 'cdx-json', 'cdx-xml')
PER_PKG = 19   # tokens per package in a case line (lean/Drivers/C15.lean)


def unhs(t):
    return '' if t in ('_', '-') else bytes.fromhex(t).decode('utf-8', 'replace')


def packages(case):
    """[(fields…)] of a case line: name version locs cpes hasPurl type ns pname pversion quals subpath raw norm normName normVersion"""
    t = case.split(' ')
    n = int(t[3])
    return [t[4 + PER_PKG * i: 4 + PER_PKG * (i + 1)] for i in range(n)]


def yaml_unprintable(s):
    """characters go-yaml's reader refuses ("control characters are not allowed") that encoding/json leaves unescaped"""
    return any(c == '\x7f' or ('\x80' <= c <= '\x9f' and c != '\x85') or c in '￾￿' for c in s)


def yaml_control_char_class(case):
    """class predicate of C15/spdx-yaml-control-char: an SPDX-exported package (purl, name and version non-empty) carries such a character in a
    string ToSPDX23 copies into the document: purl name, purl version, the location(s) quoted in PackageSourceInfo"""
    for f in packages(case):
        if f[4] != '1' or f[7] == '_' or f[8] == '_':
            continue
        locs = [] if f[2] == '-' else [unhs(x) for x in f[2].split(',')]
        if any(yaml_unprintable(s) for s in [unhs(f[7]), unhs(f[8])] + locs[:2]):
            return True
    return False


def tagvalue_text_block_class(case):
    """second half of the class C15/spdx-tag-value-supplier: the only way a tag-value file written by the library is accepted at all is a "<text>" in an
    exported string (purl name, purl version, quoted location) that swallows the PackageSupplier lines; what is read back is then not what was written"""
    for f in packages(case):
        if f[4] != '1' or f[7] == '_' or f[8] == '_':
            continue
        locs = [] if f[2] == '-' else [unhs(x) for x in f[2].split(',')]
        if any('<text>' in s for s in [unhs(f[7]), unhs(f[8])] + locs[:2]):
            return True
    return False


def run(ctx):
    ctx.trusted = ['Lean 4.33.0 kernel', 'axioms: propext, Quot.sound, Classical.choice at most (see theorems.*.axioms)',
                   'harness/cmd/c15gen (fake extractor whose ToPURL returns the stored purl; real converter, writers, extractors) + lean/Drivers/C15.lean line protocol',
                   'Lean compiler for the driver executable',
                   'packageurl-go String/FromString: supplied per case as a table (raw -> normal form) computed by the harness with github.com/package-url/packageurl-go ALONE (no function of /repo/purl takes part, so a defect in /repo\'s String / FromString wrappers cannot cancel out between the expected and the observed side)']
    ctx.assumptions = ['the codec hypothesis of C15_spdx_partial / C15_cdx_partial is POINTWISE: decode (encode (toSpdx inv)) = some (toSpdx inv) for the inventory at hand (tools-golang json/yaml/tagvalue, '
                       'cyclonedx-go JSON/XML); it is ASSUMED, validated differentially only (false for tag-value always, for YAML on DEL/C1/non-characters: known findings). The older `∀ d` form '
                       '(Codec.roundtrips, C15_spdx / C15_cdx) is kept for the identity-codec examples only',
                       'NormLaws (norm idempotent, version untouched, name equal up to case and _ . - folding, TYPE only lower-cased, namespace up to case / empty segments, every qualifier value kept, sub-path up to empty/./.. segments; accessors: Spec PurlFields) constrains the purl normalisation in the theorems; c15gen checks packageurl-go\'s print-then-parse against it on every generated purl — and, component by component, that nothing else is lost (every qualifier value, the sub-path, the namespace) — and exits 3 on a violation',
                       'Lean canonName / lowerL fold ASCII case only: the driver judges rows whose name, namespace or type hold a non-ASCII character by the fold-free laws (version, qualifier values, sub-path); packageurl-go lower-cases with strings.ToLower (e.g. U+0130 -> i in an alpm name)',
                       'the SPDX wrapper package is identified structurally (DESCRIBES target, no external reference), never by name: C15_spdx_nonwrapper_imported',
                       'ops.parse "" = none (purl.FromString("") fails) in the CycloneDX theorems',
                       'uuid.New()/time.Now() are an arbitrary Env; they do not reach the observable',
                       'strings are valid UTF-8 (generator alphabet); SPDX .rdf is not an output format of the library and is excluded (f ≠ rdf)']
    ctx.rule = ('case = (stream, output format ~ formats exported before it, inventory); every inventory is ONE ScanResult value exported to all five formats in a generated order (as binary/cli does with several -o flags): the k-th case re-runs the k-1 earlier exports on the same value, exports, scans the file back, and compares the scan result with a deep copy taken before the first export (mut=). The file is written by the real writers (binary/spdx Write23, binary/cdx Write; a quarter of the cases through cli.Flags.WriteScanResults with one -o item per export) to an output path in a generated state — fresh, an existing shorter file, existing LONGER arbitrary bytes, a previous LARGER export in the same format, a longer file that was read-only — and read back from that path. streams: matrix (every purl type x component (name, namespace, version, qualifier values, sub-path) x 15 byte classes that print/parse treat specially: blank % ? # @ / : + & = non-ASCII control %41 %2f and a mix; one inventory per (type, component)), fixed (empty inventory, one package per purl type in lower and '
                'upper case, the 13-package probe, inventories whose names collide with the exporters\' structural vocabulary: main, main-*, Package-main, SPDXRef-DOCUMENT, NOASSERTION, NONE, SCALIBR, a_b/a-b/a+b …), valid, esc (JSON/YAML/XML/tag-value/URL-sensitive atoms), raw (newlines, tabs, <text>), ctl (control and non-characters), '
                'malformed (purls packageurl-go rejects); cliflags (format names around the supported ones: ValidateFlags must refuse what the writers cannot write and nothing may be created; every --spdx-* / --cdx-* document configuration x format x OUTPUT FILE NAME: '
                'every extension and base name the importers select by in lower / upper / mixed case, stems with blanks, dots (scan-v1.2), dates and host names, an empty stem, and the names the project itself uses: result.spdx.yaml (cli_test.go), result.cyclonedx.json (-o help text)); '
                'import (hand-written third-party documents: CPE-only / CPE + purl / two purls / unparsable purl / RDF-style reference types; CycloneDX components nested two levels deep) with fixed expected purls; '
                'unwritable paths (isdir, nodir: the writer must return an error) and a written file cut in half (the importer must return an error). inventory size 0..30, 15% purl-less, 10% with CPE metadata, 1/6 duplicates. non-trivial = at least one package with a purl; '
                'distinct = distinct case lines. compared: sorted purl multiset (model vs implementation, and implementation vs Spec), count of purl-less returned packages')
    ok, _ = ctx.lean_build(['Scalibr.Properties.C15', 'drv_c15'])
    proofs_ok = ctx.audit(['Scalibr.Properties.C15'], THEOREMS)
    if ctx.tier == 'thorough':
        proofs_ok = ctx.leanchecker('Scalibr.Properties.C15') and proofs_ok
    n = {'quick': 1000, 'thorough': 20000}[ctx.tier]
    types = {}
    pathstates = {}  # state of the output path before the judged export (and whether cli.Flags.WriteScanResults wrote it) -> cases
    positions = {}   # how many exports of the same ScanResult value preceded the judged one -> cases
    judged = {'all': {}, 'positively': {}}   # per format: cases, and cases in which every oracle clause up to the purl comparison held

    def nontrivial(case, fi, fm):
        return any(f[4] == '1' for f in packages(case))

    def oracle(case, fi, fm):
        # the Spec (computed by the Lean driver from the case) judged against the IMPLEMENTATION's answer
        t = case.split(' ')
        stream, fmt = t[1], re.split('[~@]', t[2])[0]
        if 'spec' not in fm:
            return None                      # driver could not parse the case: reported as a correspondence failure
        for f in packages(case):
            if f[4] == '1':
                k = unhs(f[5]).lower()
                types[k] = types.get(k, 0) + 1
        st = fi.get('st', fi.get('_'))
        opts = t[2].split('~')[0].partition('@')[2].split(',')
        if fmt.startswith('import:'):
            # hand-written third-party style documents (CPE-only / two-purl SPDX packages, nested CycloneDX components): fixed expectations
            if st != 'ok' or fi.get('got') != fi.get('want'):
                return 'importing document %s returned %s (st=%s), expected %s  (name|purl per package)' % (fmt, unhs(fi.get('got', '-')), st, unhs(fi.get('want', '-')))
            return None
        if fmt not in FORMATS:
            # stream cliflags, a format name the writers do not know: ValidateFlags must refuse it and nothing may be written
            if fi.get('vf') != '0':
                return 'cli.ValidateFlags accepts the output format %r, which neither binary/spdx nor binary/cdx can write (WriteScanResults: %s)' % (fmt, st)
            if fi.get('created') == '1':
                return 'WriteScanResults created a file for the unknown output format %r' % fmt
            if fi.get('wr') == '0':
                return 'the writer (binary/spdx Write23 / binary/cdx Write) accepted the unknown output format %r' % fmt
            return None
        if fi.get('vf') == '0' or st == 'flag-rejected':
            if 'cfg4' in opts:
                return None      # --spdx-creators without a colon: an invalid flag value may be refused
            return 'cli.ValidateFlags refuses a supported export (-o %s=<path>, options %s)' % (fmt, ','.join(opts))
        if 'isdir' in opts or 'nodir' in opts:
            # the output path cannot be written (it is a directory / its directory is missing): the writer must say so
            return None if st == 'write-err' else 'writing %s to an unwritable path (%s) did not fail: st=%s' % (fmt, 'isdir' if 'isdir' in opts else 'nodir', st)
        if 'trunc' in opts:
            # the written file cut in half: a JSON / XML importer must reject it; YAML / tag-value may reject it or read a prefix; nobody may crash
            if st == 'read-err' or (st == 'ok' and fmt in ('spdx23-yaml', 'spdx23-tag-value')):
                return None
            return 'format %s: the importer answered st=%s on a file cut in half (expected a reader error)' % (fmt, st)
        if fi.get('mut') == '1':
            # "for every inventory" includes the one the previous export left behind: exporting must not modify the scan result
            return ('exporting as %s (after %s) MODIFIED the scan result: the packages of the ScanResult value are no longer the deep copy taken before the exports '
                    '(same packages, same order, same fields)' % (fmt, t[2].partition('~')[2].replace('+', ', ') or 'no earlier export'))
        if st != 'ok':
            return 'format %s, inventory of %s package(s): export + scan of the written file failed (%s); the specification expects the purls %s back' % (fmt, t[3], st, fm['spec'][:200])
        if fi.get('purls') != fm['spec']:
            return 'format %s: scanning the written file returned purls %s, the exported packages\' normalised purls are %s' % (fmt, fi.get('purls', '')[:300], fm['spec'][:300])
        if stream != 'malformed' and fm.get('wf') != '1':
            return 'stream %s: %s exported purl(s) of an in-domain inventory cannot be parsed back by purl.FromString and are lost' % (stream, fm.get('lost'))
        if fm.get('laws') == '0':
            return ('the purl library breaks NormLaws on this inventory (print-then-parse changed a version, a name beyond case/separator folding, the TYPE beyond its case, '
                    'a namespace, a qualifier value or the sub-path): the normal forms the oracle compares with are not "the same purl up to type normalisation"')
        judged['positively'][fmt] = judged['positively'].get(fmt, 0) + 1
        if fmt.startswith('spdx') and fm.get('specall') not in (None, fm['spec']):
            return ('format %s: %d package(s) whose purl has no version (or no name) are not exported at all (ToSPDX23 "PURL name or version empty, skipping"); '
                    'the scan of the written file returns %s, the inventory\'s purls are %s' % (fmt, len(fm['specall'].split(',')) - (len(fm['spec'].split(',')) if fm['spec'] != '-' else 0),
                                                                                            fm['spec'][:200], fm['specall'][:200]))
        return None

    def finding_class(case, fi, fm):
        t = case.split(' ')
        if t[1] != 'malformed' and fm.get('wf') == '0' and fi.get('st', fi.get('_')) == 'ok' and fi.get('purls') == fm.get('spec'):
            lost = [unhs(f[5]).lower() for f in packages(case) if f[4] == '1' and f[12] == '!']
            if lost and all(x in ('cran', 'swift', 'conan') for x in lost):
                return 'C15/typed-purl-rule-rejected'   # class predicate: everything else came back; the lost purls are ONLY of the types with a packageurl-go custom rule
        if fi.get('st') == 'not-required' and unhs(fi.get('name', '-')) in ('result.spdx.yaml', 'result.cyclonedx.json'):
            return 'C15/own-output-name-not-imported'   # class predicate: exactly the two names the project itself uses for these outputs
        if 'cfg4' in t[2].split('~')[0].partition('@')[2].split(',') and fi.get('st', fi.get('_')) == 'panic' and t[2].startswith('spdx23'):
            return 'C15/cli-spdx-creators-without-colon-panics'   # class predicate: SPDX export through the cli with --spdx-creators lacking "TYPE:NAME"
        fmt, st = re.split('[~@]', t[2])[0], fi.get('st', fi.get('_'))
        judged['all'][fmt] = judged['all'].get(fmt, 0)   # (counted in classify)
        if fmt in ('spdx23-json', 'spdx23-yaml') and st == 'ok' and fi.get('purls') == fm.get('spec') and fm.get('specall') not in (None, fm.get('spec')) \
                and fm.get('laws') != '0' and (t[1] == 'malformed' or fm.get('wf') == '1'):
            return 'C15/spdx-versionless-dropped'   # class predicate: everything the Spec with ToSPDX23's skip rule expects came back; ONLY the versionless / nameless purls are missing
        if fmt == 'spdx23-tag-value' and (st == 'read-err' or (st == 'ok' and tagvalue_text_block_class(case))):
            return 'C15/spdx-tag-value-supplier'
        if fmt == 'spdx23-yaml' and st == 'write-err' and yaml_control_char_class(case):
            return 'C15/spdx-yaml-control-char'
        return None

    def classify(case, fi, fm):
        t = case.split(' ')
        f0 = re.split('[~@]', t[2])[0]
        judged['all'][f0] = judged['all'].get(f0, 0) + 1
        pos = 0 if '~' not in t[2] else t[2].count('+') + 1
        positions[pos] = positions.get(pos, 0) + 1
        pst = t[2].split('~')[0].partition('@')[2] or 'fresh'
        pathstates[pst] = pathstates.get(pst, 0) + 1
        return '%s %s st=%s' % (t[1], f0, fi.get('st', fi.get('_')))

    lib.standard_stream(ctx, gen='c15gen', driver='drv_c15', gen_args=['-seed', str(ctx.seed), '-n', str(n), '-tier', ctx.tier],
                        compare_keys=['purls', 'extra'], nontrivial=nontrivial, oracle=oracle, classify=classify, finding_class=finding_class,
                        strict_known=False)  # the model does not mirror the two recorded codec defects (it answers as the Spec does), so the class is excused on the implementation's status
    ctx.extra['purl_types_seen'] = dict(sorted(types.items()))
    ctx.extra['exports_before_the_judged_one'] = dict(sorted(positions.items()))
    ctx.extra['output_path_state_before_the_export'] = dict(sorted(pathstates.items()))
    ctx.extra['judged_positively_by_format'] = {f: '%d of %d' % (judged['positively'].get(f, 0), k) for f, k in sorted(judged['all'].items())}
    ctx.extra['tag_value_share'] = ('spdx23-tag-value: %d of %d cases judged positively — the format never reads back on the unchanged code (known finding C15/spdx-tag-value-supplier), '
                                    'so for this format the theorems\' codec hypothesis is false for every inventory and the stream only re-confirms the finding' % (
                                        judged['positively'].get('spdx23-tag-value', 0), judged['all'].get('spdx23-tag-value', 0)))
    ctx.extra['explanation'] = ('KNOWN-FINDING lines: every spdx23-tag-value case fails at the reader (PackageSupplier: NOASSERTION: NOASSERTION), and spdx23-yaml cases whose exported '
                                'strings contain DEL/C1/non-characters fail at the writer; all other cases of the five formats are checked strictly.')
    if not proofs_ok:
        lib.proof_failed(ctx, 'Scalibr.Properties.C15')
