"""Running the "regenerated facts" translator (/verif/translator, DESIGN.md §1): the translator commands are
rebuilt against /repo's current working tree and re-run on every check; they delete and rewrite
lean/Scalibr/Gen/<X>.lean. Used by C19 (regdump) and C14 (purldump)."""
import os
import re
from . import lib

TRANSLATOR = lib.VERIF + '/translator'


def run_translator(ctx, cmd, args=(), overlay=True):
    """build + run translator/cmd/<cmd>. Returns (ok, stdout). A failure is a broken tie: the table moved or
    changed shape in the source, or the registry no longer builds."""
    lib.sh([lib.sys.executable, lib.VERIF + '/tools/mkoverlay.py'])
    os.makedirs(TRANSLATOR + '/bin', exist_ok=True)
    sumfile = TRANSLATOR + '/go.sum'
    want = open(lib.REPO + '/go.sum').read()
    if not os.path.exists(sumfile) or open(sumfile).read() != want:
        open(sumfile, 'w').write(want)
    out_bin = TRANSLATOR + '/bin/' + cmd
    b = ['go', 'build', '-tags', 'verif']
    if overlay:
        b += ['-overlay', lib.HARNESS + '/overlay/overlay.json']
    b += ['-o', out_bin, './cmd/' + cmd]
    rc, out = lib.sh(b, cwd=TRANSLATOR, env=lib.goenv(), timeout=3600)
    if rc != 0:
        ctx.violation('translator %s does not build against /repo (tie broken): %s' % (cmd, out[-1500:]),
                      ['# translator/cmd/%s could not be built' % cmd], found_input=False, name='translator-build-' + cmd)
        return False, out
    rc, out = lib.sh([out_bin] + list(args), cwd=TRANSLATOR, env=lib.goenv(), timeout=1800)
    ctx.notes.append('translator %s: %s' % (cmd, out.strip().split('\n')[-1][:400]))
    if rc != 0:
        ctx.violation('translator %s could not regenerate its table from /repo (a construct it reads moved or changed shape): %s' % (cmd, out[-1500:]),
                      ['# ' + l for l in out.strip().split('\n')[-20:]], found_input=False, name='translator-' + cmd)
        return False, out
    return True, out


def failing_theorems(ctx, lean_file):
    """map `error: <file>:<line>` in the build log to the enclosing theorem names"""
    log = getattr(ctx, 'lean_log', '') or ''
    rel = os.path.relpath(lean_file, lib.LEAN)
    lines = [int(m.group(1)) for m in re.finditer(r'error: ' + re.escape(rel) + r':(\d+):', log)]
    if not lines:
        return []
    decls = []
    for i, l in enumerate(open(lean_file), 1):
        m = re.match(r'\s*(?:theorem|def|lemma)\s+(\S+)', l)
        if m:
            decls.append((i, m.group(1)))
        elif re.match(r'\s*example\b', l):
            decls.append((i, 'example@%d' % i))
    out = []
    for ln in lines:
        name = None
        for i, n in decls:
            if i <= ln:
                name = n
        if name and name not in out:
            out.append(name)
    return out
