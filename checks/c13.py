"""C13 — Manifest writers change exactly the requested requirements."""
import re
from . import lib

META = {
    'level': 'proof',
    'technique': 'Lean 4 theorems on models of packagejson.Write/Read (section cascade, alias syntax, gjson path escaping) and of '
                 'generatePropertyPatches (checked slices); correspondence of both models, and of an abstract model of the pom.xml writer '
                 '(buildPatches, origins, property patches), with the real ReadWriter.Read/Write on generated manifests',
    'design_ref': 'DESIGN.md §4 (section of C13), §5 (defects), §7 (seeded changes)',
    'text': 'Kernel-checked, unbounded: (npm) for documents with unique keys and well-formed updates a successful Write yields exactly '
            'substitute(requirements, updates) on re-Read, keeps keys/order and every unaddressed entry, is the identity on no updates, and never '
            'succeeds silently on a key that is present; Read loses no entry of the three sections (a requirement is keyed by package and alias: C13_npm_read_complete, for every document); the escaped path component is parsed back by gjson as the literal key; on the span model of the file the output is the input with '
            'exactly the addressed value spans replaced (every other byte in place), and the bytes are unchanged with no updates. '
            '(pom) generatePropertyPatches never slices out of range for any two strings, and every returned patch map interpolates the old '
            'requirement to exactly the new one and gives no name two values (full strength after fix d4dd80ce). '
            'The abstract pom writer has Write\'s error outcome (malformed Name), is the identity on no updates, and on the literal fragment (all versions literal, keys without placeholders, unique keys, any number of updates on different keys) '
            'succeeds, re-reads as substituted and applies every update (no silent success). Beyond that fragment the pom.xml writer is covered by correspondence plus the '
            'requirement-level oracle (re-read = substitute), not by a general theorem; four classes where the unchanged writer leaves the '
            'property are recorded as known findings with witnesses (comment inside <version>, dependencies-vs-dependencyManagement addressing, shared property, '
            'a property of the pom inside a dependency\'s coordinates); keys written through the project\'s own coordinates (${project.groupId}) are resolved since the ResolvedKey fix (modelled: coordDict / interpKey; decided witness); three '
            'former ones (white space in key elements, undefined property, repeated placeholder) were repaired and their witnesses are regression cases, as is the dependencyManagement element without <dependencies> (entries for keys the pom does not hold were dropped). Token level: writeString (the rewrite applied to every dependency / parent / properties element) is modelled on token '
            'lists and is the identity whenever each addressed child holds exactly its value (comment-in-<version> counterexample proved); the element dispatch above it '
            '(write / writeProject / writeDependency) and the XML tokenizer/encoder (forkedxml) are not modelled.',
    'note': 'Trusted: Lean kernel (axioms propext/Quot.sound/Classical.choice at most); gjson/sjson address exactly the parsed literal key and change only '
            'that value (bytes compared on every case); encoding/json, forkedxml and deps.dev maven decoding/interpolation (exercised, not modelled); '
            'harness/cmd/c13gen and lean/Drivers/C13.lean. Not modelled: npm workspaces, local parent POMs (specification verdict only), dependencyManagement imports.',
}
NPM = 'Scalibr.Npm.'
POM = 'Scalibr.Pom.'
THEOREMS = [NPM + 'C13_npm_escape', NPM + 'C13_npm_roundtrip_partial', NPM + 'C13_npm_identity', NPM + 'C13_npm_no_silent_success',
            NPM + 'C13_npm_present_applied', NPM + 'C13_npm_alias_at_witness', NPM + 'C13_npm_alias_separate_fixed_witness', NPM + 'C13_npm_read_complete', NPM + 'C13_npm_read_complete_old_witness', NPM + 'C13_npm_absent_key_witness', NPM + 'C13_npm_every_update_applied',
            NPM + 'C13_npm_bytes_partial', NPM + 'C13_npm_bytes_untouched_partial', NPM + 'C13_npm_bytes_identity',
            POM + 'C13_pom_props_total', POM + 'C13_pom_props_fuel_adequate', POM + 'C13_pom_props_sound', POM + 'C13_pom_props_repeated_name_fixed',
            POM + 'C13_pom_props_fixed_witnesses', POM + 'C13_pom_identity', POM + 'C13_pom_invalid_name_error',
            POM + 'C13_pom_literal_roundtrip_partial', POM + 'C13_pom_no_silent_success_partial',
            POM + 'C13_pom_class_witnesses', POM + 'C13_pom_origin_fixed_witnesses', POM + 'C13_pom_ignores_version_from_witness', POM + 'C13_pom_other_profile_witness', POM + 'C13_pom_fixed_witnesses',
            POM + 'C13_pom_project_key_fixed_witness', POM + 'C13_pom_key_property_witness',
            'Scalibr.PomTok.C13_pom_tokens_identity_partial', 'Scalibr.PomTok.C13_pom_tokens_fuel_adequate', 'Scalibr.PomTok.C13_pom_tokens_comment_witness']


def unhex(x):
    return '' if x == '_' else bytes.fromhex(x).decode('utf-8', 'replace')


def interpolate(s, m):
    """the specification's left-to-right ${name} replacement, evaluated on the IMPLEMENTATION's map"""
    out = ''
    while True:
        i = s.find('${')
        if i < 0:
            return out + s
        j = s.find('}', i + 2)
        if j < 0:
            return out + s
        name = s[i + 2:j]
        out += s[:i] + (m[name] if name in m else s[i:j + 1])
        s = s[j + 1:]



def _npm_unplaceable(case):
    """first update of an `npm` case that equals none of the requirements package.json lists — (real name, alias key, version), an
    "npm:<name>@<version>" value being an alias of <name> under the entry's key — or None. Independent of the Lean model."""
    t = case.split(' ')
    if len(t) < 5 or t[4] == '-':
        return None
    hx = lambda h: bytes.fromhex(h).decode('utf-8', 'surrogateescape') if h not in ('', '_') else ''
    reqs = set()
    for sec in t[1:4]:
        if sec == '-':
            continue
        for e in sec.split(','):
            k, _, v = e.partition(':')
            k, v = hx(k), hx(v)
            q = (k, None, v)
            if v.startswith('npm:'):
                r0 = v[4:]
                i = r0.rfind('@')
                nm, ver = (r0[:i], r0[i + 1:]) if i > 0 else (r0, '')
                if nm:
                    q = (nm, k, ver)
            reqs.add(q)
    for u in t[4].split(','):
        name, ka, frm, to = u.split(':')
        q = (hx(name), None if ka == '~' else hx(ka), hx(frm))
        if q not in reqs:
            return '%s%s %s -> %s' % (q[0], '' if q[1] is None else ' (alias %s)' % q[1], q[2], hx(to))
    return None

def run(ctx):
    ctx.trusted = ['Lean 4.33.0 kernel', 'axioms: propext, Quot.sound, Classical.choice at most (see theorems.*.axioms)',
                   'gjson.GetBytes / sjson.SetBytes address the literal key the path component parses to and rewrite only that value (output bytes are compared with a re-rendering on every case)',
                   'encoding/json (Read), forkedxml, deps.dev maven.Project decoding and interpolation: exercised by the streams, not modelled',
                   'harness/cmd/c13gen + lean/Drivers/C13.lean line protocol', 'Lean compiler for the driver executable']
    ctx.assumptions = ['package.json sections have unique keys',
                       'updates carry plain version strings (no ":", "/", "@"); an aliased update names its package and a non-empty old version',
                       'pom model: no local parents, imports, active profiles; plugin dependencies only under pluginManagement; property values are literals; one update per dependency key']
    ctx.rule = ('npm case = three sections (0-4 entries, 26 names incl. dotted/scoped/wildcard/escaped/non-ASCII, plain/alias/non-registry values, repeated keys across sections; every fourth manifest requires one package through its own name and 1-2 npm: aliases, at identical or different ranges, all in "dependencies" or spread over the three sections (Read keys a requirement by package and alias), each entry updated) in a '
                'random layout (indent, key order, noise sections) x a subset of the requirements Read reports as updates (some with a wrong old version or an ill-formed new one); '
                'thorough adds every section combination x equal/different versions x 8 names, plain and aliased. '
                'pp case = (s1, s2) from literal/placeholder pools; thorough adds 155 templates x every s2 of length <=5 over {1 . - x}. '
                'ws case = one dependency / parent / properties element (comments, CDATA, entities, attributes, white space, PIs inside or beside the addressed child) through the real writeString with the element\'s own version, a new one, or property values. '
                'pch case = multi-module layout with 1-3 local parents, intermediate poms that inherit groupId / version, default and explicit relativePath, literal-version entries at every level (every third layout with ${project.groupId} / ${pom.groupId} group ids, the child having its own group id or the chain\'s), updates addressed to each, every fourth layout with two entries of the child on one property that a parent defines, both updated (the property moves in the parent, a conflicting second version is written out in the child), written to the same path or to another directory (parents must appear next to the output); '
                '(every third layout: versions through a property defined by the declaring pom, by one of its ancestors, or overridden by a pom below it; entries in profiles of the manifest and of its parents; the new version of every update must be the text of some element of the written files); '
                'pom case = abstract pom (every fifth with 1-2 pluginManagement plugins — half of them without <groupId> — holding 1-2 dependencies of their own; 1-4 dependencies, every third with a second declaration of one groupId:artifactId under another key (test-jar / classifier) and another version, dependencyManagement, 0-2 profiles, properties used as whole/prefix/suffix/two placeholders, ${project.version}; every sixth with group / artifact ids written through ${project.groupId} / ${pom.groupId} / ${project.version}, every twentieth through a property of the pom) rendered with '
                'comments / one-line forms / namespaces, x update subsets drawn from the real Read (all subsets when <=4 in thorough) + the no-update case (plain, comment or CDATA in <version>); '
                'every fourth pom without managed entries still has the element: <dependencyManagement/>, <dependencyManagement></dependencyManagement>, white space or a comment inside, or an empty / self-closing <dependencies> inside, and is then also written with updates for keys it does not hold (they must be added there); '
                'a self-closing <dependencyManagement/> comes back as <dependencyManagement></dependencyManagement> (same tokens; the writer re-wraps the inner XML) and bytes are compared with that spelling. '
                'non-trivial = at least one update (npm, pom) or s1 with a placeholder and a non-"no" answer (pp); distinct = distinct case lines')
    ok, _ = ctx.lean_build(['Scalibr.Properties.C13', 'drv_c13'])
    proofs_ok = ctx.audit(['Scalibr.Properties.C13'], THEOREMS)
    if ctx.tier == 'thorough':
        proofs_ok = ctx.leanchecker('Scalibr.Properties.C13') and proofs_ok
    n = {'quick': 2000, 'thorough': 12000}[ctx.tier]
    KEYS = ['r', 'dev', 'opt', 'prod', 'reqs', 'deps', 'props', 'out', 'rb', 'view']

    def agree(fi, fm):
        return all(fi.get(k) == fm.get(k) for k in KEYS)

    def nontrivial(case, fi, fm):
        t = case.split(' ')
        if t[0] == 'pp':
            return '247b' in t[1] and fi.get('r') != 'no'
        if t[0] == 'ws':
            return t[2] != '-'
        if t[0] in ('pch', 'prm', 'nws'):
            return t[2] != '-'
        return t[4] != '-'

    def oracle(case, fi, fm):
        op = case.split(' ')[0]
        if fi.get('_') == 'panic':
            return 'the writer panicked'
        r = fi.get('r', '')
        if op == 'npm':
            if r in ('err-but-wrote', 'ok-nofile', 'ok-badjson', 'ok-rereaderr'):
                return 'package.json Write: ' + r
            if fm.get('rc') == '0' and fm.get('wf') == '1':
                return 'package.json Read: an entry of the file is not among the requirements (an npm: alias and the plain entry of its package are two requirements)'
            if r == 'ok':
                # computed here from the case alone (no model): an update that matches no entry of the file as Read reports them
                # (name, alias, version) cannot have been applied, so Write must not have returned nil (seed C13m)
                lost = _npm_unplaceable(case)
                if lost:
                    return 'package.json Write returned nil, but the update %s matches no entry of the file: success reported without having applied it' % lost
            if r == 'ok' and fm.get('wf') == '1':
                if fi.get('reqs') != fm.get('spec'):
                    return 'package.json: re-read requirements differ from substitute(original, updates)'
                if fi.get('bytes') != '1':
                    return 'package.json: bytes outside the addressed values changed'
        elif op == 'nws':
            if r in ('readerr', 'err', 'ok-nofile', 'ok-rereaderr'):
                return 'package.json with workspaces: ' + r
            if r == 'ok':
                if fi.get('wreqs') != fm.get('spec'):
                    return 'package.json with workspaces: re-read requirements differ from substitute(original, updates)'
                if fi.get('same') != '1':
                    return 'package.json with workspaces: a workspace package.json changed'
                if fi.get('rest') != '1':
                    return 'package.json with workspaces: the root file changed outside the values'
        elif op == 'prm':
            import json as _json
            bad = _json.loads(bytes.fromhex(case.split(' ')[1])).get('Bad', '')
            if bad:
                return None if fi.get('refused') == '1' else 'pom.xml whose remote parent is unusable (%s): Read must fail, it succeeded' % bad
            if r in ('readerr', 'ok-nofile', 'ok-rereaderr', 'ok-decoy-touched'):
                return 'pom.xml with a remote parent: ' + r
            if r == 'ok':
                if fi.get('chain') != fm.get('spec'):
                    return 'pom.xml with a remote parent / BOM import: re-read requirements differ from substitute(original, updates)'
                if '0' in fi.get('applied', '-'):
                    return 'pom.xml with a remote parent / BOM import: Write returned nil, but the new version of an update is not in the written file'
                if fi.get('id') == '0':
                    return 'pom.xml with a remote parent / BOM import: no updates, but the bytes written differ from the bytes read'
        elif op == 'pch':
            if r.startswith('ok-missing') or r == 'ok-rereaderr':
                return 'pom.xml Write, local parent chain: ' + r + ' (every file of the chain must be written next to the output and read back)'
            if r == 'ok':
                want = fm.get('spec')
                if fi.get('added', '-') not in ('-', ''):      # requirements that did not exist: a dependencyManagement entry of the manifest each
                    want = ','.join(sorted([x for x in (want or '-').split(',') if x != '-'] + fi['added'].split(',')))
                if fi.get('chain') != want:
                    return 'pom.xml, local parent chain: re-read requirements of the child (parents merged) differ from substitute(original, updates)'
                if fi.get('same') != '1':
                    return 'pom.xml, local parent chain: a pom of the chain that no update addresses is not byte-identical'
                if '0' in fi.get('applied', '-'):
                    return ('pom.xml, local parent chain: Write returned nil, but the new version of an update is in none of the written files '
                            '(success without applying the update)')
        elif op == 'ws':
            t = case.split(' ')
            if fi.get('out') in ('err', 'unparseable'):
                return 'writeString: ' + fi.get('out')
            if t[1] == 'id' and fi.get('out') != t[3]:
                return 'pom.xml writeString with the element\'s own version (no update): the token sequence changed'
        elif op == 'pp':
            if r.startswith('ok:'):
                t = case.split(' ')
                s1, s2 = unhex(t[1]), unhex(t[2])
                m = {}
                body = r[3:]
                if body != '-':
                    for e in body.split(','):
                        k, _, v = e.partition('=')
                        m[unhex(k)] = unhex(v)
                if interpolate(s1, m) != s2:
                    return 'generatePropertyPatches(%r, %r) returned %r, which interpolates to %r' % (s1, s2, m, interpolate(s1, m))
        else:
            if r in ('ok-nofile', 'ok-rereaderr', 'err-but-wrote'):
                return 'pom.xml Write: ' + r
            if r == 'ok' and fi.get('foreign') == '0':
                return ('pom.xml: an element Read takes nothing from (dependencies of a plugin under <build><plugins> or of a profile\'s plugin, <properties> of a '
                        '<developer>) was rewritten: no update is addressed to it')
            if r == 'ok' and fm.get('added', '-') not in ('-', ''):
                got = fi.get('reqs', '').split(',')
                if any(a not in got for a in fm['added'].split(',')):
                    return ('pom.xml: Write returned nil, but an update for a key the pom does not hold was not added to '
                            'dependencyManagement (success without applying the update)')
            if r == 'ok' and fm.get('scope') == '1':
                if fi.get('reqs') != fm.get('spec'):
                    return 'pom.xml: re-read requirements differ from substitute(original, updates)'
                if case.split(' ')[4] == '-':
                    if fi.get('tok') != '1':
                        return 'pom.xml: no updates, but the token sequence (elements, attributes, text, comments) changed'
                    if op in ('pom', 'pome', 'pomf', 'poma') and fi.get('id') != '1':
                        return 'pom.xml: no updates and nothing special inside <version>, but the bytes written differ from the bytes read'
                elif fi.get('rest') != '1':
                    return 'pom.xml: bytes outside <version> / property values changed'
        return None

    def finding_class(case, fi, fm):
        if not agree(fi, fm):
            return None          # a model/implementation difference is never excused by a class
        op = case.split(' ')[0]
        if op == 'prm':
            # class predicate of C13/pom-inherited-dependency: an update is addressed to a dependency the manifest inherits, with an
            # explicit version, from a parent that is not a local file (field UpInherited of the case)
            import json as _json
            c = _json.loads(bytes.fromhex(case.split(' ')[1]))
            if c.get('UpInherited', 0) > 0 and fi.get('r') == 'ok' and '0' not in fi.get('applied', '-'):
                return 'C13/pom-inherited-dependency'
            return None
        if op == 'pch':
            # class predicate of C13/pom-parent-path-at: a directory of the chain has "@" in its name (field AtDir) and an update goes to a parent
            import json as _json
            c = _json.loads(bytes.fromhex(case.split(' ')[1]))
            if c.get('AtDir') and fi.get('r') == 'ok':
                return 'C13/pom-parent-path-at'
            return None
        if op == 'nws':
            return None
        if op == 'pomc' and case.split(' ')[4] == '-':
            return 'C13/pom-version-comment'
        if op == 'poma' and case.split(' ')[4] == '-':
            return 'C13/pom-attributes-dropped'
        if op == 'ws':
            return fm['cls'] if fm.get('cls', '-') != '-' else None
        if op.startswith('pom') and fm.get('cls', '-') != '-':
            return fm['cls']
        return None

    def classify(case, fi, fm):
        op = case.split(' ')[0]
        r = fi.get('r', fi.get('_', '?')).split(':')[0]
        if op == 'npm':
            return 'npm r=%s wf=%s' % (r, fm.get('wf'))
        if op == 'pp':
            return 'pp r=%s cons=%s' % (r, fm.get('cons'))
        if op in ('pch', 'prm', 'nws'):
            return '%s r=%s updates=%s' % (op, r, 'none' if case.split(' ')[2] == '-' else 'some')
        if op == 'ws':
            return 'ws %s simple=%s same=%s' % (case.split(' ')[1], fm.get('simple'), fm.get('same'))
        return '%s r=%s updates=%s cls=%s' % (op, r, 'none' if case.split(' ')[4] == '-' else 'some', fm.get('cls'))

    lib.standard_stream(ctx, gen='c13gen', driver='drv_c13', gen_args=['-seed', str(ctx.seed), '-n', str(n), '-tier', ctx.tier],
                        compare_keys=KEYS, nontrivial=nontrivial, oracle=oracle, classify=classify, finding_class=finding_class,
                        sample_every=997)
    if not proofs_ok:
        lib.proof_failed(ctx, 'Scalibr.Properties.C13')
