// regdump: the "regenerated facts" translator for C19 (DESIGN.md §1, §5 C19).
//
// It is rebuilt against /repo's CURRENT working tree on every run and writes
// lean/Scalibr/Gen/Registry.lean (stale copy deleted first):
//
//  1. VALUES: it imports the three list packages, calls every registered initialiser and records,
//     per registry key (plugin names and group names), the plugins the key yields: Name(),
//     Requirements() as (OS, Network, DirectFS, RunningSystem), RequiredExtractors() for detectors.
//     The unexported name tables are reached through harness/overlay/**/verif_export_c19.go.
//  2. SOURCE: independently, go/ast evaluates the map literals / concat(...) / vals(...) expressions
//     of the list packages' list.go symbolically (keys `pkg.Name` are resolved to the constant's
//     value in the imported package's source) and emits key -> member-key tables. The Lean theorem
//     C19_source_agrees states that both views coincide, so a plugin registered in the source but
//     missing from the dump (or registered under a key that is not its Name()) is noticed.
package main

import (
	"flag"
	"fmt"
	"go/ast"
	"go/parser"
	"go/token"
	"os"
	"path/filepath"
	"sort"
	"strconv"
	"strings"

	dl "github.com/google/osv-scalibr/detector/list"
	el "github.com/google/osv-scalibr/extractor/filesystem/list"
	sl "github.com/google/osv-scalibr/extractor/standalone/list"
	"github.com/google/osv-scalibr/plugin"
)

const modPath = "github.com/google/osv-scalibr/"

type row struct {
	name     string
	os, net  int
	dfs, rs  bool
	required []string
}

func fail(format string, a ...any) {
	fmt.Fprintf(os.Stderr, "regdump: "+format+"\n", a...)
	os.Exit(3)
}

var osNames = []string{".any", ".linux", ".windows", ".mac", ".unix"}
var netNames = []string{".any", ".offline", ".online"}

func mkRow(key string, p plugin.Plugin, required []string) (r row) {
	defer func() {
		if e := recover(); e != nil {
			fail("key %q: plugin panicked while being described: %v", key, e)
		}
	}()
	c := p.Requirements()
	if c == nil {
		fail("key %q: plugin %q has nil Requirements()", key, p.Name())
	}
	if int(c.OS) < 0 || int(c.OS) >= len(osNames) || int(c.Network) < 0 || int(c.Network) >= len(netNames) {
		fail("key %q: plugin %q has requirement values outside the declared constants: OS=%d Network=%d", key, p.Name(), c.OS, c.Network)
	}
	req := append([]string{}, required...)
	return row{p.Name(), int(c.OS), int(c.Network), c.DirectFS, c.RunningSystem, req}
}

func lq(s string) string {
	// Lean string literal: ASCII printable only is expected for plugin names
	for _, c := range s {
		if c < 0x20 || c > 0x7e {
			fail("non-printable character in name %q", s)
		}
	}
	return strconv.Quote(s)
}

func (r row) lean() string {
	rq := make([]string, len(r.required))
	for i, x := range r.required {
		rq[i] = lq(x)
	}
	return fmt.Sprintf("⟨%s, ⟨%s, %s, %v, %v⟩, [%s]⟩", lq(r.name), osNames[r.os], netNames[r.net], r.dfs, r.rs, strings.Join(rq, ", "))
}

type table map[string][]row

func sortRows(rs []row) {
	sort.SliceStable(rs, func(i, j int) bool { return rs[i].name < rs[j].name })
}

func writeTable(w *strings.Builder, name, doc string, t table) int {
	keys := make([]string, 0, len(t))
	for k := range t {
		keys = append(keys, k)
	}
	sort.Strings(keys)
	n := 0
	fmt.Fprintf(w, "/-- %s -/\ndef %s : List (String × List Plugin) := [\n", doc, name)
	for i, k := range keys {
		rs := t[k]
		sortRows(rs)
		ls := make([]string, len(rs))
		for j, r := range rs {
			ls[j] = r.lean()
			n++
		}
		sep := ","
		if i == len(keys)-1 {
			sep = ""
		}
		if len(ls) <= 1 {
			fmt.Fprintf(w, "  (%s, [%s])%s\n", lq(k), strings.Join(ls, ""), sep)
		} else {
			fmt.Fprintf(w, "  (%s, [\n    %s])%s\n", lq(k), strings.Join(ls, ",\n    "), sep)
		}
	}
	w.WriteString("]\n\n")
	return n
}

// ---------------------------------------------------------------- source side (go/ast)

type srcPkg struct {
	dir     string
	fset    *token.FileSet
	files   []*ast.File
	vars    map[string]ast.Expr  // package-level var name -> initialiser
	imports map[string]string    // local import name -> import path (per package; list.go is one file)
	cache   map[string][]string  // evaluated key sets
	consts  map[string]string    // cache "importpath.Const" -> value
}

func loadSrc(dir string) *srcPkg {
	sp := &srcPkg{dir: dir, fset: token.NewFileSet(), vars: map[string]ast.Expr{}, imports: map[string]string{}, cache: map[string][]string{}, consts: map[string]string{}}
	ents, err := os.ReadDir(dir)
	if err != nil {
		fail("cannot read %s: %v", dir, err)
	}
	for _, e := range ents {
		n := e.Name()
		if e.IsDir() || !strings.HasSuffix(n, ".go") || strings.HasSuffix(n, "_test.go") {
			continue
		}
		f, err := parser.ParseFile(sp.fset, filepath.Join(dir, n), nil, 0)
		if err != nil {
			fail("cannot parse %s: %v", n, err)
		}
		sp.files = append(sp.files, f)
		for _, im := range f.Imports {
			p, _ := strconv.Unquote(im.Path.Value)
			local := filepath.Base(p)
			if im.Name != nil {
				local = im.Name.Name
			}
			sp.imports[local] = p
		}
		for _, d := range f.Decls {
			gd, ok := d.(*ast.GenDecl)
			if !ok || gd.Tok != token.VAR {
				continue
			}
			for _, s := range gd.Specs {
				vs := s.(*ast.ValueSpec)
				for i, nm := range vs.Names {
					if i < len(vs.Values) {
						sp.vars[nm.Name] = vs.Values[i]
					}
				}
			}
		}
	}
	return sp
}

// constOf resolves `local.Name` to the string constant declared in the imported package's source.
func (sp *srcPkg) constOf(local, name string) string {
	ip, ok := sp.imports[local]
	if !ok {
		fail("source: unknown import name %q in %s", local, sp.dir)
	}
	ck := ip + "." + name
	if v, ok := sp.consts[ck]; ok {
		return v
	}
	if !strings.HasPrefix(ip, modPath) {
		fail("source: constant %s is outside the repository", ck)
	}
	dir := filepath.Join("/repo", strings.TrimPrefix(ip, modPath))
	ents, err := os.ReadDir(dir)
	if err != nil {
		fail("source: cannot read %s: %v", dir, err)
	}
	fset := token.NewFileSet()
	local2 := map[string]string{}
	var pending ast.Expr
	for _, e := range ents {
		n := e.Name()
		if e.IsDir() || !strings.HasSuffix(n, ".go") || strings.HasSuffix(n, "_test.go") {
			continue
		}
		f, err := parser.ParseFile(fset, filepath.Join(dir, n), nil, 0)
		if err != nil {
			continue // files for other build configurations may not parse in isolation; the const is looked up in the rest
		}
		for _, d := range f.Decls {
			gd, ok := d.(*ast.GenDecl)
			if !ok || gd.Tok != token.CONST {
				continue
			}
			for _, s := range gd.Specs {
				vs := s.(*ast.ValueSpec)
				for i, nm := range vs.Names {
					if i < len(vs.Values) {
						if bl, ok := vs.Values[i].(*ast.BasicLit); ok && bl.Kind == token.STRING {
							v, _ := strconv.Unquote(bl.Value)
							if prev, dup := local2[nm.Name]; dup && prev != v {
								fail("source: constant %s.%s declared with two values (%q, %q) in files for different platforms", ip, nm.Name, prev, v)
							}
							local2[nm.Name] = v
						} else if nm.Name == name {
							pending = vs.Values[i]
						}
					}
				}
			}
		}
	}
	v, ok := local2[name]
	if !ok {
		if pending != nil {
			fail("source: constant %s is not a plain string literal", ck)
		}
		fail("source: constant %s not found in %s", ck, dir)
	}
	sp.consts[ck] = v
	return v
}

func uniqSorted(xs []string) []string {
	sort.Strings(xs)
	out := xs[:0]
	for i, x := range xs {
		if i == 0 || x != xs[i-1] {
			out = append(out, x)
		}
	}
	return out
}

// keyOf evaluates a map key expression: a string literal or `pkg.Const`.
func (sp *srcPkg) keyOf(e ast.Expr) string {
	switch k := e.(type) {
	case *ast.BasicLit:
		if k.Kind == token.STRING {
			v, _ := strconv.Unquote(k.Value)
			return v
		}
	case *ast.SelectorExpr:
		if id, ok := k.X.(*ast.Ident); ok {
			return sp.constOf(id.Name, k.Sel.Name)
		}
	}
	fail("source: unsupported map key expression at %s", sp.fset.Position(e.Pos()))
	return ""
}

// keys evaluates an InitMap-valued expression to its key set.
func (sp *srcPkg) keys(e ast.Expr) []string {
	switch x := e.(type) {
	case *ast.Ident:
		if v, ok := sp.cache[x.Name]; ok {
			return v
		}
		init, ok := sp.vars[x.Name]
		if !ok {
			fail("source: identifier %s is not a package-level variable with an initialiser (%s)", x.Name, sp.fset.Position(e.Pos()))
		}
		sp.cache[x.Name] = nil // cycle guard
		v := sp.keys(init)
		sp.cache[x.Name] = v
		return v
	case *ast.CompositeLit:
		var out []string
		for _, el := range x.Elts {
			kv, ok := el.(*ast.KeyValueExpr)
			if !ok {
				fail("source: map literal element without key at %s", sp.fset.Position(el.Pos()))
			}
			out = append(out, sp.keyOf(kv.Key))
		}
		return uniqSorted(out)
	case *ast.CallExpr:
		if id, ok := x.Fun.(*ast.Ident); ok && id.Name == "concat" {
			var out []string
			for _, a := range x.Args {
				out = append(out, sp.keys(a)...)
			}
			return uniqSorted(out)
		}
	}
	fail("source: unsupported InitMap expression at %s", sp.fset.Position(e.Pos()))
	return nil
}

// members evaluates the VALUE of a name-table entry to the set of plugin keys it draws initialisers
// from: `vals(m)` -> keys(m); a literal `{pkg.New, …}` under a plugin key -> that key itself.
func (sp *srcPkg) members(key string, e ast.Expr) []string {
	switch x := e.(type) {
	case *ast.CallExpr:
		if id, ok := x.Fun.(*ast.Ident); ok && id.Name == "vals" && len(x.Args) == 1 {
			return sp.keys(x.Args[0])
		}
	case *ast.CompositeLit:
		out := make([]string, len(x.Elts))
		for i := range x.Elts {
			out[i] = key
		}
		return out
	}
	fail("source: unsupported name-table value for key %q at %s", key, sp.fset.Position(e.Pos()))
	return nil
}

// nameTable evaluates the name-table variable: later concat arguments overwrite earlier ones (maps.Copy).
func (sp *srcPkg) nameTable(e ast.Expr, into map[string][]string) {
	switch x := e.(type) {
	case *ast.Ident:
		init, ok := sp.vars[x.Name]
		if !ok {
			fail("source: identifier %s has no initialiser", x.Name)
		}
		sp.nameTable(init, into)
		return
	case *ast.CompositeLit:
		for _, el := range x.Elts {
			kv := el.(*ast.KeyValueExpr)
			k := sp.keyOf(kv.Key)
			into[k] = sp.members(k, kv.Value)
		}
		return
	case *ast.CallExpr:
		if id, ok := x.Fun.(*ast.Ident); ok && id.Name == "concat" {
			for _, a := range x.Args {
				sp.nameTable(a, into)
			}
			return
		}
	}
	fail("source: unsupported name-table expression at %s", sp.fset.Position(e.Pos()))
}

func writeAst(w *strings.Builder, name, doc string, t map[string][]string) {
	keys := make([]string, 0, len(t))
	for k := range t {
		keys = append(keys, k)
	}
	sort.Strings(keys)
	fmt.Fprintf(w, "/-- %s -/\ndef %s : List (String × List String) := [\n", doc, name)
	for i, k := range keys {
		ms := append([]string{}, t[k]...)
		sort.Strings(ms)
		q := make([]string, len(ms))
		for j, m := range ms {
			q[j] = lq(m)
		}
		sep := ","
		if i == len(keys)-1 {
			sep = ""
		}
		fmt.Fprintf(w, "  (%s, [%s])%s\n", lq(k), strings.Join(q, ", "), sep)
	}
	w.WriteString("]\n\n")
}

func main() {
	out := flag.String("out", "/verif/lean/Scalibr/Gen/Registry.lean", "generated Lean file")
	flag.Parse()
	_ = os.Remove(*out) // stale copy first

	// ---- values
	fsNames, fsAll := table{}, table{}
	for k, inits := range el.VerifNames() {
		fsNames[k] = []row{}
		for _, in := range inits {
			fsNames[k] = append(fsNames[k], mkRow(k, in(), nil))
		}
	}
	for k, inits := range el.All {
		fsAll[k] = []row{}
		for _, in := range inits {
			fsAll[k] = append(fsAll[k], mkRow(k, in(), nil))
		}
	}
	stNames, stAll := table{}, table{}
	for k, inits := range sl.VerifNames() {
		stNames[k] = []row{}
		for _, in := range inits {
			stNames[k] = append(stNames[k], mkRow(k, in(), nil))
		}
	}
	for k, inits := range sl.All {
		stAll[k] = []row{}
		for _, in := range inits {
			stAll[k] = append(stAll[k], mkRow(k, in(), nil))
		}
	}
	detNames, detAll := table{}, table{}
	for k, inits := range dl.VerifNames() {
		detNames[k] = []row{}
		for _, in := range inits {
			d := in()
			detNames[k] = append(detNames[k], mkRow(k, d, d.RequiredExtractors()))
		}
	}
	for k, inits := range dl.All {
		detAll[k] = []row{}
		for _, in := range inits {
			d := in()
			detAll[k] = append(detAll[k], mkRow(k, d, d.RequiredExtractors()))
		}
	}

	// ---- source
	type src struct {
		dir, tableVar string
	}
	ast3 := map[string]map[string][]string{}
	astAll := map[string][]string{}
	for kind, s := range map[string]src{
		"fs":  {"/repo/extractor/filesystem/list", "extractorNames"},
		"st":  {"/repo/extractor/standalone/list", "extractorNames"},
		"det": {"/repo/detector/list", "detectorNames"},
	} {
		sp := loadSrc(s.dir)
		init, ok := sp.vars[s.tableVar]
		if !ok {
			fail("source: variable %s not found in %s (the table moved or changed shape)", s.tableVar, s.dir)
		}
		t := map[string][]string{}
		sp.nameTable(init, t)
		ast3[kind] = t
		astAll[kind] = sp.keys(&ast.Ident{Name: "All"})
	}

	// ---- cross-check report (also proved in Lean as C19_source_agrees; printed so that the check can
	// name the concrete key when the two views differ)
	ndiff := 0
	for kind, tabs := range map[string]struct {
		dump table
		src  map[string][]string
	}{"fs": {fsNames, ast3["fs"]}, "st": {stNames, ast3["st"]}, "det": {detNames, ast3["det"]}} {
		ks := map[string]bool{}
		for k := range tabs.dump {
			ks[k] = true
		}
		for k := range tabs.src {
			ks[k] = true
		}
		for k := range ks {
			var dn []string
			for _, r := range tabs.dump[k] {
				dn = append(dn, r.name)
			}
			sort.Strings(dn)
			sn := append([]string{}, tabs.src[k]...)
			sort.Strings(sn)
			_, inD := tabs.dump[k]
			_, inS := tabs.src[k]
			if !inD || !inS || strings.Join(dn, "\x00") != strings.Join(sn, "\x00") {
				ndiff++
				fmt.Printf("DIFF kind=%s key=%q in-dump=%v in-source=%v dump-members=%q source-members=%q\n", kind, k, inD, inS, dn, sn)
			}
		}
	}

	var w strings.Builder
	w.WriteString("-- GENERATED by /verif/translator/cmd/regdump from /repo's working tree on every run of ./check C19.\n")
	w.WriteString("-- Never edit by hand: the file is deleted and rewritten. Values come from calling the registered\n")
	w.WriteString("-- initialisers (Name(), Requirements(), RequiredExtractors()); the *Src tables come from go/ast over list.go.\n")
	w.WriteString("import Scalibr.Model.Registry\nnamespace Scalibr.Gen.Registry\nopen Scalibr.Registry\n\n")
	n := 0
	n += writeTable(&w, "fsNames", "extractor/filesystem/list: extractorNames — every plugin name and group name with the plugins its initialisers yield (sorted by name)", fsNames)
	n += writeTable(&w, "fsAll", "extractor/filesystem/list: All", fsAll)
	n += writeTable(&w, "stNames", "extractor/standalone/list: extractorNames", stNames)
	n += writeTable(&w, "stAll", "extractor/standalone/list: All", stAll)
	n += writeTable(&w, "detNames", "detector/list: detectorNames (third component = RequiredExtractors())", detNames)
	n += writeTable(&w, "detAll", "detector/list: All", detAll)
	writeAst(&w, "fsNamesSrc", "source view (go/ast) of extractor/filesystem/list.extractorNames: key -> keys of the maps its initialisers are drawn from", ast3["fs"])
	writeAst(&w, "stNamesSrc", "source view of extractor/standalone/list.extractorNames", ast3["st"])
	writeAst(&w, "detNamesSrc", "source view of detector/list.detectorNames", ast3["det"])
	q := func(xs []string) string {
		o := make([]string, len(xs))
		for i, x := range xs {
			o[i] = lq(x)
		}
		return "[" + strings.Join(o, ", ") + "]"
	}
	fmt.Fprintf(&w, "/-- source view of the key sets of the three `All` maps -/\ndef fsAllSrc : List String := %s\ndef stAllSrc : List String := %s\ndef detAllSrc : List String := %s\n\n", q(astAll["fs"]), q(astAll["st"]), q(astAll["det"]))
	w.WriteString("end Scalibr.Gen.Registry\n")
	if err := os.MkdirAll(filepath.Dir(*out), 0o755); err != nil {
		fail("%v", err)
	}
	if err := os.WriteFile(*out, []byte(w.String()), 0o644); err != nil {
		fail("%v", err)
	}
	fmt.Printf("regdump: fs keys=%d plugins=%d; standalone keys=%d plugins=%d; detectors keys=%d plugins=%d; rows=%d; source keys fs=%d st=%d det=%d; source/dump differences=%d\n",
		len(fsNames), len(fsAll), len(stNames), len(stAll), len(detNames), len(detAll), n, len(ast3["fs"]), len(ast3["st"]), len(ast3["det"]), ndiff)
}
