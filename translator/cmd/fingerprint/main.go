// fingerprint: structural fingerprints of the Go functions that hand-written Lean models mirror.
// usage: fingerprint <repo root> <file>:<func>[,<func>…] …      (func may be Recv.Method; `<file>:*` = every function of the file;
//        `<dir>/:*` = every function of every non-test .go file below the directory)
// Prints JSON {"<file>:<func>": "<sha1 of the function printed without comments>"}.
// A changed fingerprint proves nothing by itself; the owning check records it in its evidence and runs a
// larger correspondence stream for that function (DESIGN.md §1, "regenerated facts").
package main

import (
	"bytes"
	"crypto/sha1"
	"encoding/hex"
	"encoding/json"
	"fmt"
	"go/ast"
	"go/parser"
	"go/printer"
	"go/token"
	"os"
	"path/filepath"
	"strings"
)

func name(fd *ast.FuncDecl) string {
	if fd.Recv != nil && len(fd.Recv.List) == 1 {
		t := fd.Recv.List[0].Type
		if s, ok := t.(*ast.StarExpr); ok {
			t = s.X
		}
		if ix, ok := t.(*ast.IndexExpr); ok {
			t = ix.X
		}
		if ix, ok := t.(*ast.IndexListExpr); ok {
			t = ix.X
		}
		if id, ok := t.(*ast.Ident); ok {
			return id.Name + "." + fd.Name.Name
		}
	}
	return fd.Name.Name
}

func main() {
	root := os.Args[1]
	out := map[string]string{}
	var args []string
	for _, arg := range os.Args[2:] {
		file, fns, _ := strings.Cut(arg, ":")
		if fns == "*" && strings.HasSuffix(file, "/") {
			filepath.Walk(filepath.Join(root, file), func(p string, info os.FileInfo, err error) error {
				if err == nil && !info.IsDir() && strings.HasSuffix(p, ".go") && !strings.HasSuffix(p, "_test.go") && !strings.Contains(p, "/testdata/") {
					rel, _ := filepath.Rel(root, p)
					args = append(args, rel+":*")
				}
				return nil
			})
			continue
		}
		args = append(args, arg)
	}
	for _, arg := range args {
		file, fns, _ := strings.Cut(arg, ":")
		fset := token.NewFileSet()
		f, err := parser.ParseFile(fset, filepath.Join(root, file), nil, 0) // comments dropped
		if err != nil {
			fmt.Fprintln(os.Stderr, err)
			for _, fn := range strings.Split(fns, ",") {
				out[file+":"+fn] = "unparsable"
			}
			continue
		}
		want := map[string]bool{}
		for _, fn := range strings.Split(fns, ",") {
			want[fn] = true
			if fn != "*" {
				out[file+":"+fn] = "missing"
			}
		}
		for _, d := range f.Decls {
			fd, ok := d.(*ast.FuncDecl)
			if !ok || !(want[name(fd)] || want["*"]) {
				continue
			}
			var b bytes.Buffer
			printer.Fprint(&b, token.NewFileSet(), fd)
			h := sha1.Sum(b.Bytes())
			out[file+":"+name(fd)] = hex.EncodeToString(h[:])
		}
	}
	enc := json.NewEncoder(os.Stdout)
	enc.SetIndent("", " ")
	enc.Encode(out)
}
