// purldump: the "regenerated facts" translator for C14 (DESIGN.md §1, §5 C14, Appendix A.30). Standard
// library only (go/ast, go/parser), re-run against /repo's working tree on every check. It writes
// lean/Scalibr/Gen/Purl.lean (stale copy deleted first) with
//
//   - typeConsts : the purl type constants of purl/purl.go (string constants named Type<Upper…>)
//   - validTypes : the VALUES of the keys of the map literal inside purl.validType, as written; when validType is no
//     longer such a lookup: validTableFound = false and an empty list (the emitted half below does not depend on it)
//   - emitted    : every purl type reachable from a built-in extractor's ToPURL method — `purl.TypeX`
//     selectors and string literals / resolvable identifiers in the `Type:` field of PackageURL literals, in
//     the method body and in every repository function it (transitively) calls; lower-cased here because
//     validType lower-cases before the lookup (Lean's String.toLower does not reduce in the kernel)
//   - dynamic    : ToPURL methods that return a purl taken from the scanned data (SBOM extractors)
//   - unresolved : `Type:` expressions the translator cannot evaluate. The theorem demands this list be
//     empty, so a construct the translator does not understand breaks the tie instead of passing silently.
//
// The extractor packages are those imported by extractor/filesystem/list/list.go and
// extractor/standalone/list/list.go.
package main

import (
	"flag"
	"fmt"
	"go/ast"
	"go/parser"
	"go/token"
	"os"
	"path/filepath"
	"sort"
	"strconv"
	"strings"
)

const modPath = "github.com/google/osv-scalibr/"

func fail(format string, a ...any) {
	fmt.Fprintf(os.Stderr, "purldump: "+format+"\n", a...)
	os.Exit(3)
}

type pkg struct {
	dir     string
	rel     string
	files   []*ast.File
	funcs   map[string][]*ast.FuncDecl // name -> decls (functions and methods; several per name across build variants)
	imports map[*ast.File]map[string]string
}

var fset = token.NewFileSet()
var pkgs = map[string]*pkg{}

func load(rel string) *pkg {
	if p, ok := pkgs[rel]; ok {
		return p
	}
	dir := filepath.Join("/repo", rel)
	p := &pkg{dir: dir, rel: rel, funcs: map[string][]*ast.FuncDecl{}, imports: map[*ast.File]map[string]string{}}
	pkgs[rel] = p
	ents, err := os.ReadDir(dir)
	if err != nil {
		return p
	}
	for _, e := range ents {
		n := e.Name()
		if e.IsDir() || !strings.HasSuffix(n, ".go") || strings.HasSuffix(n, "_test.go") {
			continue
		}
		f, err := parser.ParseFile(fset, filepath.Join(dir, n), nil, 0)
		if err != nil {
			fail("cannot parse %s/%s: %v", rel, n, err)
		}
		p.files = append(p.files, f)
		im := map[string]string{}
		for _, i := range f.Imports {
			path, _ := strconv.Unquote(i.Path.Value)
			local := filepath.Base(path)
			if i.Name != nil {
				local = i.Name.Name
			}
			im[local] = path
		}
		p.imports[f] = im
		for _, d := range f.Decls {
			if fd, ok := d.(*ast.FuncDecl); ok && fd.Body != nil {
				p.funcs[fd.Name.Name] = append(p.funcs[fd.Name.Name], fd)
			}
		}
	}
	return p
}

func fileOf(p *pkg, fd *ast.FuncDecl) *ast.File {
	for _, f := range p.files {
		if f.Pos() <= fd.Pos() && fd.End() <= f.End() {
			return f
		}
	}
	return nil
}

type row struct{ pkg, via, typ string }

type analysis struct {
	consts     map[string]string // purl type constants
	emitted    map[row]bool
	dynamic    map[[2]string]bool
	unresolved map[[2]string]bool
	visited    map[*ast.FuncDecl]bool
}

func (a *analysis) pos(n ast.Node) string {
	p := fset.Position(n.Pos())
	r, _ := filepath.Rel("/repo", p.Filename)
	return fmt.Sprintf("%s:%d", r, p.Line)
}

// purlName: the local import name of the purl package in this file ("" if not imported; "." inside package purl)
func purlName(p *pkg, f *ast.File) string {
	if p.rel == "purl" {
		return "."
	}
	for local, path := range p.imports[f] {
		if path == modPath+"purl" {
			return local
		}
	}
	return ""
}

// typeExpr evaluates the expression of a `Type:` field.
func (a *analysis) typeExpr(origin string, p *pkg, f *ast.File, fd *ast.FuncDecl, e ast.Expr, depth int) {
	pn := purlName(p, f)
	switch x := e.(type) {
	case *ast.BasicLit:
		if x.Kind == token.STRING {
			v, _ := strconv.Unquote(x.Value)
			if v != "" { // the empty string only ever initialises a variable that is assigned below
				a.emitted[row{origin, "literal " + a.pos(x), strings.ToLower(v)}] = true
			}
			return
		}
	case *ast.SelectorExpr:
		if id, ok := x.X.(*ast.Ident); ok && id.Name == pn {
			if v, ok := a.consts[x.Sel.Name]; ok {
				a.emitted[row{origin, x.Sel.Name, strings.ToLower(v)}] = true
				return
			}
		}
	case *ast.Ident:
		if pn == "." {
			if v, ok := a.consts[x.Name]; ok {
				a.emitted[row{origin, x.Name, strings.ToLower(v)}] = true
				return
			}
		}
		// a local variable: every assignment to it inside the function must be evaluable
		if depth < 3 {
			found := false
			ast.Inspect(fd.Body, func(n ast.Node) bool {
				as, ok := n.(*ast.AssignStmt)
				if !ok {
					return true
				}
				for i, l := range as.Lhs {
					if li, ok := l.(*ast.Ident); ok && li.Name == x.Name && i < len(as.Rhs) {
						found = true
						a.typeExpr(origin, p, f, fd, as.Rhs[i], depth+1)
					}
				}
				return true
			})
			if found {
				return
			}
		}
	}
	a.unresolved[[2]string{origin, a.pos(e)}] = true
}

func isPURLLit(cl *ast.CompositeLit, pn string) bool {
	switch t := cl.Type.(type) {
	case *ast.SelectorExpr:
		id, ok := t.X.(*ast.Ident)
		return ok && id.Name == pn && t.Sel.Name == "PackageURL"
	case *ast.Ident:
		return pn == "." && t.Name == "PackageURL"
	}
	return false
}

// walk collects from one function body and follows calls into repository functions.
func (a *analysis) walk(origin string, p *pkg, fd *ast.FuncDecl) {
	if a.visited[fd] {
		return
	}
	a.visited[fd] = true
	f := fileOf(p, fd)
	pn := purlName(p, f)
	ast.Inspect(fd.Body, func(n ast.Node) bool {
		switch x := n.(type) {
		case *ast.CompositeLit:
			if isPURLLit(x, pn) {
				for _, el := range x.Elts {
					if kv, ok := el.(*ast.KeyValueExpr); ok {
						if k, ok := kv.Key.(*ast.Ident); ok && k.Name == "Type" {
							a.typeExpr(origin, p, f, fd, kv.Value, 0)
						}
					}
				}
			}
		case *ast.SelectorExpr:
			// any mention of a purl type constant in reachable code counts as emitted (over-approximation)
			if id, ok := x.X.(*ast.Ident); ok && id.Name == pn && pn != "" {
				if v, ok := a.consts[x.Sel.Name]; ok {
					a.emitted[row{origin, x.Sel.Name, strings.ToLower(v)}] = true
				}
			}
		case *ast.AssignStmt:
			for i, l := range x.Lhs {
				if se, ok := l.(*ast.SelectorExpr); ok && se.Sel.Name == "Type" && i < len(x.Rhs) {
					// `u.Type = …` on some struct: only relevant when it evaluates to a purl type; never fatal
					if r, ok := x.Rhs[i].(*ast.SelectorExpr); ok {
						if id, ok := r.X.(*ast.Ident); ok && id.Name == pn {
							if v, ok := a.consts[r.Sel.Name]; ok {
								a.emitted[row{origin, r.Sel.Name, strings.ToLower(v)}] = true
							}
						}
					}
				}
			}
		case *ast.CallExpr:
			switch fn := x.Fun.(type) {
			case *ast.Ident: // same-package function
				for _, g := range p.funcs[fn.Name] {
					if g.Recv == nil {
						a.walk(origin, p, g)
					}
				}
			case *ast.SelectorExpr:
				if id, ok := fn.X.(*ast.Ident); ok {
					if path, ok := p.imports[f][id.Name]; ok {
						if strings.HasPrefix(path, modPath) { // function of another repository package
							q := load(strings.TrimPrefix(path, modPath))
							for _, g := range q.funcs[fn.Sel.Name] {
								if g.Recv == nil {
									a.walk(origin, q, g)
								}
							}
						}
					} else { // method call on a local value: follow same-package methods of that name
						for _, g := range p.funcs[fn.Sel.Name] {
							if g.Recv != nil && fn.Sel.Name != "ToPURL" {
								a.walk(origin, p, g)
							}
						}
					}
				}
			}
		}
		return true
	})
}

// classifyReturns flags ToPURL methods whose result is not built in code.
func (a *analysis) classifyReturns(origin string, fd *ast.FuncDecl) (nilOnly bool) {
	nilOnly = true
	ast.Inspect(fd.Body, func(n ast.Node) bool {
		if _, ok := n.(*ast.FuncLit); ok {
			return false
		}
		rs, ok := n.(*ast.ReturnStmt)
		if !ok || len(rs.Results) != 1 {
			return true
		}
		switch r := rs.Results[0].(type) {
		case *ast.Ident:
			if r.Name != "nil" {
				nilOnly = false
			}
		case *ast.UnaryExpr, *ast.CallExpr, *ast.CompositeLit:
			nilOnly = false
		default:
			nilOnly = false
			a.dynamic[[2]string{origin, a.pos(r)}] = true
		}
		return true
	})
	return nilOnly
}

func lq(s string) string { return strconv.Quote(s) }

func main() {
	out := flag.String("out", "/verif/lean/Scalibr/Gen/Purl.lean", "generated Lean file")
	flag.Parse()
	_ = os.Remove(*out)

	a := &analysis{consts: map[string]string{}, emitted: map[row]bool{}, dynamic: map[[2]string]bool{}, unresolved: map[[2]string]bool{}, visited: map[*ast.FuncDecl]bool{}}
	// 1. purl/purl.go: the purl type constants (every string constant named Type<Upper…>; the bare `Type` is the
	// Maven qualifier key) — independent of how validType is written —, then validType's table IF it still is a
	// map literal inside the function (otherwise validTableFound = false: C14_types_accepted cannot be stated over the
	// source any more, and the runtime `accept` stream of c14gen is what names a rejected type)
	pp := load("purl")
	if len(pp.files) == 0 {
		fail("purl/purl.go not found")
	}
	allConsts := map[string]string{}
	for _, f := range pp.files {
		for _, d := range f.Decls {
			gd, ok := d.(*ast.GenDecl)
			if !ok || gd.Tok != token.CONST {
				continue
			}
			for _, s := range gd.Specs {
				vs := s.(*ast.ValueSpec)
				for i, nm := range vs.Names {
					if i < len(vs.Values) {
						if bl, ok := vs.Values[i].(*ast.BasicLit); ok && bl.Kind == token.STRING {
							v, _ := strconv.Unquote(bl.Value)
							allConsts[nm.Name] = v
							if len(nm.Name) > 4 && strings.HasPrefix(nm.Name, "Type") && nm.Name[4] >= 'A' && nm.Name[4] <= 'Z' {
								a.consts[nm.Name] = v
							}
						}
					}
				}
			}
		}
	}
	if len(a.consts) < 10 {
		fail("only %d purl type constants found in purl/purl.go (the layout changed)", len(a.consts))
	}
	var validKeys []string
	tableProblem := ""
	for _, fd := range pp.funcs["validType"] {
		ast.Inspect(fd.Body, func(n ast.Node) bool {
			if cl, ok := n.(*ast.CompositeLit); ok {
				if _, isMap := cl.Type.(*ast.MapType); isMap {
					for _, el := range cl.Elts {
						kv, ok := el.(*ast.KeyValueExpr)
						if !ok {
							tableProblem = "map element without key at " + a.pos(el)
							continue
						}
						switch k := kv.Key.(type) {
						case *ast.Ident:
							validKeys = append(validKeys, k.Name)
						case *ast.BasicLit:
							validKeys = append(validKeys, k.Value) // quoted literal, resolved below
						default:
							tableProblem = "unsupported key at " + a.pos(kv.Key)
						}
					}
					return false
				}
			}
			return true
		})
	}
	var validTypes []string
	for _, k := range validKeys {
		if strings.HasPrefix(k, "\"") {
			v, _ := strconv.Unquote(k)
			validTypes = append(validTypes, v)
		} else if v, ok := allConsts[k]; ok {
			validTypes = append(validTypes, v)
		} else {
			tableProblem = "key " + k + " is not a string constant of purl.go"
		}
	}
	if len(validKeys) == 0 && tableProblem == "" {
		tableProblem = "purl.validType has no map literal any more (the accepted-type test moved or changed shape)"
	}
	tableFound := tableProblem == ""
	if !tableFound {
		validTypes = nil
	}
	sort.Strings(validTypes)

	// 2. the built-in extractor packages: imports of the two list.go files
	extPkgs := map[string]bool{}
	for _, l := range []string{"extractor/filesystem/list", "extractor/standalone/list"} {
		lp := load(l)
		if len(lp.files) == 0 {
			fail("%s not found", l)
		}
		for _, f := range lp.files {
			for _, path := range lp.imports[f] {
				if strings.HasPrefix(path, modPath+"extractor/") && !strings.HasSuffix(path, "/list") &&
					path != modPath+"extractor/filesystem" && path != modPath+"extractor/standalone" {
					extPkgs[strings.TrimPrefix(path, modPath)] = true
				}
			}
		}
	}
	var rels []string
	for r := range extPkgs {
		rels = append(rels, r)
	}
	sort.Strings(rels)
	nToPURL := 0
	var nilOnly, noToPURL []string
	for _, rel := range rels {
		p := load(rel)
		ms := p.funcs["ToPURL"]
		n := 0
		allNil := true
		for _, fd := range ms {
			if fd.Recv == nil {
				continue
			}
			n++
			nToPURL++
			if !a.classifyReturns(rel, fd) {
				allNil = false
			}
			a.visited = map[*ast.FuncDecl]bool{} // reachability is per ToPURL method
			a.walk(rel, p, fd)
		}
		if n == 0 {
			noToPURL = append(noToPURL, rel)
		} else if allNil {
			nilOnly = append(nilOnly, rel)
		}
	}
	if nToPURL < 10 {
		fail("only %d ToPURL methods found under the listed extractor packages (the layout changed)", nToPURL)
	}

	// 2b. binary/proto: the metadata types setProtoMetadata's type switch knows, as "<import path>.<Type>"
	var protoMeta []string
	pb := load("binary/proto")
	for _, fd := range pb.funcs["setProtoMetadata"] {
		f := fileOf(pb, fd)
		ast.Inspect(fd.Body, func(n ast.Node) bool {
			cc, ok := n.(*ast.CaseClause)
			if !ok {
				return true
			}
			for _, e := range cc.List {
				star := ""
				if st, ok := e.(*ast.StarExpr); ok {
					e = st.X
					star = "*"
				}
				if se, ok := e.(*ast.SelectorExpr); ok {
					if id, ok := se.X.(*ast.Ident); ok {
						if path, ok := pb.imports[f][id.Name]; ok {
							protoMeta = append(protoMeta, star+path+"."+se.Sel.Name)
						}
					}
				}
			}
			return true
		})
	}
	sort.Strings(protoMeta)

	// 3. write
	var w strings.Builder
	w.WriteString("-- GENERATED by /verif/translator/cmd/purldump from /repo's working tree on every run of ./check C14.\n")
	w.WriteString("-- Never edit by hand: the file is deleted and rewritten.\nnamespace Scalibr.Gen.Purl\n\n")
	var cn []string
	for k := range a.consts {
		cn = append(cn, k)
	}
	sort.Strings(cn)
	w.WriteString("/-- the purl type constants of purl/purl.go: (Go name, value) -/\ndef typeConsts : List (String × String) := [\n")
	for i, k := range cn {
		sep := ","
		if i == len(cn)-1 {
			sep = ""
		}
		fmt.Fprintf(&w, "  (%s, %s)%s\n", lq(k), lq(a.consts[k]), sep)
	}
	fmt.Fprintf(&w, "]\n\n/-- whether purl.validType still is a map-literal lookup the translator can read; if not, `validTypes` is empty,\nC14_types_accepted fails on purpose, and the runtime `accept` stream decides the property -/\ndef validTableFound : Bool := %v\n", tableFound)
	w.WriteString("\n/-- values of the keys of the map literal in purl.validType, as written in the source -/\ndef validTypes : List String := [")
	for i, v := range validTypes {
		if i > 0 {
			w.WriteString(", ")
		}
		w.WriteString(lq(v))
	}
	w.WriteString("]\n\n")
	var rows []row
	for r := range a.emitted {
		rows = append(rows, r)
	}
	sort.Slice(rows, func(i, j int) bool {
		if rows[i].pkg != rows[j].pkg {
			return rows[i].pkg < rows[j].pkg
		}
		if rows[i].typ != rows[j].typ {
			return rows[i].typ < rows[j].typ
		}
		return rows[i].via < rows[j].via
	})
	w.WriteString("/-- (extractor package, how the type is written, lower-cased purl type) for every type reachable from a built-in ToPURL -/\ndef emitted : List (String × String × String) := [\n")
	for i, r := range rows {
		sep := ","
		if i == len(rows)-1 {
			sep = ""
		}
		fmt.Fprintf(&w, "  (%s, %s, %s)%s\n", lq(r.pkg), lq(r.via), lq(r.typ), sep)
	}
	w.WriteString("]\n\n")
	pairList := func(name, doc string, m map[[2]string]bool) {
		var ks [][2]string
		for k := range m {
			ks = append(ks, k)
		}
		sort.Slice(ks, func(i, j int) bool { return ks[i][0]+ks[i][1] < ks[j][0]+ks[j][1] })
		fmt.Fprintf(&w, "/-- %s -/\ndef %s : List (String × String) := [", doc, name)
		for i, k := range ks {
			if i > 0 {
				w.WriteString(", ")
			}
			fmt.Fprintf(&w, "(%s, %s)", lq(k[0]), lq(k[1]))
		}
		w.WriteString("]\n\n")
	}
	pairList("dynamic", "ToPURL methods returning a purl that comes from the scanned data (package, position of the return expression)", a.dynamic)
	pairList("unresolved", "`Type:` expressions of PackageURL literals the translator could not evaluate (must be empty)", a.unresolved)
	strList := func(name, doc string, xs []string) {
		fmt.Fprintf(&w, "/-- %s -/\ndef %s : List String := [", doc, name)
		for i, x := range xs {
			if i > 0 {
				w.WriteString(", ")
			}
			w.WriteString(lq(x))
		}
		w.WriteString("]\n\n")
	}
	strList("extractorPackages", "extractor packages imported by the two extractor list.go files", rels)
	strList("nilOnly", "packages whose ToPURL methods only ever return nil", nilOnly)
	strList("noToPURL", "listed packages without a ToPURL method of their own", noToPURL)
	strList("protoMetaTypes", "metadata types (\"*\" for a pointer, import path, \".\", type name) that binary/proto.setProtoMetadata's type switch converts; any other metadata leaves the proto `metadata` oneof unset", protoMeta)
	fmt.Fprintf(&w, "def toPurlMethods : Nat := %d\n\nend Scalibr.Gen.Purl\n", nToPURL)
	if err := os.MkdirAll(filepath.Dir(*out), 0o755); err != nil {
		fail("%v", err)
	}
	if err := os.WriteFile(*out, []byte(w.String()), 0o644); err != nil {
		fail("%v", err)
	}
	ptypes := map[string]bool{}
	for _, r := range rows {
		ptypes[r.typ] = true
	}
	if !tableFound {
		fmt.Printf("purldump: VALIDTYPE-TABLE-NOT-FOUND: %s\n", tableProblem)
	}
	fmt.Printf("purldump: type constants=%d valid types=%d extractor packages=%d ToPURL methods=%d emitted rows=%d distinct emitted types=%d dynamic=%d unresolved=%d nil-only=%d proto-metadata-types=%d\n",
		len(cn), len(validTypes), len(rels), nToPURL, len(rows), len(ptypes), len(a.dynamic), len(a.unresolved), len(nilOnly), len(protoMeta))
}
