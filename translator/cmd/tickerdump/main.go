// tickerdump: the "regenerated facts" translator for C16(c) (DESIGN.md §1, §5 C16). Standard library only
// (go/ast, go/parser); re-run against /repo's working tree on every check. It reads the non-test Go files of
// extractor/filesystem and writes lean/Scalibr/Gen/Ticker.lean (stale copy deleted first) with
//
//   - fields      : the fields of `walkContext`, in declaration order (index = field id)
//   - funcs       : every function/method of the package that touches a `walkContext` value, plus one pseudo
//     function per `go func(){…}` literal ("RunFS.go1"); index = function id
//   - tickerFuncs : functions that run on a goroutine started by a `go` statement: the go-literals and everything
//     they (transitively) call on the walk context (`wc.printStatus()`)
//   - walkerFuncs : functions that run on the calling goroutine: every declared function that is not ticker-only,
//     and everything those call (method values such as `wc.handleFile` passed as callbacks count as calls)
//   - accesses    : every `x.f` with `x` a walkContext value and `f` a field: (field, function, write?, guarded?,
//     init?, line). write = assignment target, `++/--`, `&x.f`, or a key of a `walkContext{…}` literal (init = true:
//     the object is not shared yet). guarded = the access is lexically between `x.statusMu.Lock()` and the matching
//     `x.statusMu.Unlock()` of the same block, or after a `x.statusMu.Lock(); defer x.statusMu.Unlock()` pair
//   - irregular   : lock/unlock shapes the translator does not understand (Unlock without Lock in the same block,
//     deferred Unlock outside the function's top-level block, a block that ends holding a lock it took, statusMu used
//     other than as the receiver of Lock/Unlock). The theorem demands 0, so such a change breaks the tie loudly.
//
// Which identifiers denote a walkContext: method receivers and parameters of type `*walkContext`/`walkContext`,
// and local variables assigned from `&walkContext{…}`, `walkContext{…}` or a call of a package function whose
// first result has that type.
package main

import (
	"flag"
	"fmt"
	"go/ast"
	"go/parser"
	"go/token"
	"os"
	"path/filepath"
	"sort"
	"strings"
)

const pkgDir = "/repo/extractor/filesystem"

// the struct whose fields are tabulated and the mutex field that guards them; -struct / -mutex select another pair
// (C16(b): RequestCache / mu in clients/datasource)
var structName = "walkContext"
var mutexName = "statusMu"

func fail(format string, a ...any) {
	fmt.Fprintf(os.Stderr, "tickerdump: "+format+"\n", a...)
	os.Exit(3)
}

type access struct {
	field, fn            int
	write, guarded, init bool
	line                 int
}

var (
	fset      = token.NewFileSet()
	fields    []string
	fieldIdx  = map[string]int{}
	funcs     []string
	funcIdx   = map[string]int{}
	calls     = map[int]map[string]bool{} // function id -> callee names
	goRoots   []int
	accesses  []access
	irregular []string
	retWC     = map[string]bool{} // package functions whose first result is a walkContext
	declared  = map[string]bool{}
)

func fn(name string) int {
	if i, ok := funcIdx[name]; ok {
		return i
	}
	funcIdx[name] = len(funcs)
	funcs = append(funcs, name)
	calls[len(funcs)-1] = map[string]bool{}
	return len(funcs) - 1
}

func isWCType(e ast.Expr) bool {
	if s, ok := e.(*ast.StarExpr); ok {
		e = s.X
	}
	// an instantiated / parameterised generic type: RequestCache[K, V]
	switch g := e.(type) {
	case *ast.IndexExpr:
		e = g.X
	case *ast.IndexListExpr:
		e = g.X
	}
	id, ok := e.(*ast.Ident)
	return ok && id.Name == structName
}

func isWCLit(e ast.Expr) bool {
	if u, ok := e.(*ast.UnaryExpr); ok && u.Op == token.AND {
		e = u.X
	}
	cl, ok := e.(*ast.CompositeLit)
	return ok && cl.Type != nil && isWCType(cl.Type)
}

// scope = identifiers that denote a walkContext inside one function
type walker struct {
	fn     int
	name   string
	vars   map[string]bool
	goN    *int
	topBlk *ast.BlockStmt
}

func (w *walker) isWC(e ast.Expr) bool {
	id, ok := e.(*ast.Ident)
	return ok && w.vars[id.Name]
}

// mutexCall recognises `x.statusMu.Lock()` / `x.statusMu.Unlock()`
func (w *walker) mutexCall(e ast.Expr) string {
	c, ok := e.(*ast.CallExpr)
	if !ok {
		return ""
	}
	s, ok := c.Fun.(*ast.SelectorExpr)
	if !ok || (s.Sel.Name != "Lock" && s.Sel.Name != "Unlock") {
		return ""
	}
	m, ok := s.X.(*ast.SelectorExpr)
	if !ok || m.Sel.Name != mutexName || !w.isWC(m.X) {
		return ""
	}
	return s.Sel.Name
}

func (w *walker) irr(pos token.Pos, what string) {
	irregular = append(irregular, fmt.Sprintf("%s:%d %s", w.name, fset.Position(pos).Line, what))
}

// block walks the statements of one block; held = the lock state on entry. Returns the state at the end.
func (w *walker) block(b *ast.BlockStmt, held bool) bool {
	if b == nil {
		return held
	}
	return w.stmts(b.List, held, b == w.topBlk)
}

func (w *walker) stmts(list []ast.Stmt, held bool, top bool) bool {
	entry := held
	tookHere := false
	deferred := false
	for _, st := range list {
		switch s := st.(type) {
		case *ast.ExprStmt:
			switch w.mutexCall(s.X) {
			case "Lock":
				if held {
					w.irr(s.Pos(), "Lock while the lock is held")
				}
				held, tookHere = true, true
				continue
			case "Unlock":
				if !held {
					w.irr(s.Pos(), "Unlock without a Lock in scope")
				}
				if !tookHere && entry {
					// releasing a lock taken by an enclosing block: only understood when the block then leaves the function
				}
				held, tookHere = false, false
				continue
			}
		case *ast.DeferStmt:
			if w.mutexCall(s.Call) == "Unlock" {
				if !held || !top {
					w.irr(s.Pos(), "deferred Unlock that is not directly after a Lock in the function's top-level block")
				}
				deferred = true
				continue
			}
		}
		held = w.stmt(st, held)
	}
	if held && tookHere && !deferred {
		w.irr(token.NoPos, "a block ends holding a lock it took (no Unlock, no deferred Unlock)")
	}
	if !held && entry {
		// the block released the enclosing block's lock; accepted only when it ends by leaving the function
		last := list[len(list)-1]
		if _, ok := last.(*ast.ReturnStmt); !ok {
			w.irr(last.Pos(), "a nested block releases the enclosing block's lock and falls through")
		}
		return entry
	}
	if deferred {
		return held
	}
	if tookHere {
		return entry
	}
	return held
}

// stmt records the accesses of one statement, recursing into nested blocks with the current lock state.
func (w *walker) stmt(st ast.Stmt, held bool) bool {
	switch s := st.(type) {
	case *ast.BlockStmt:
		return w.block(s, held)
	case *ast.IfStmt:
		if s.Init != nil {
			w.stmt(s.Init, held)
		}
		w.expr(s.Cond, held, false)
		w.block(s.Body, held)
		if s.Else != nil {
			w.stmt(s.Else, held)
		}
		return held
	case *ast.ForStmt:
		if s.Init != nil {
			w.stmt(s.Init, held)
		}
		if s.Cond != nil {
			w.expr(s.Cond, held, false)
		}
		if s.Post != nil {
			w.stmt(s.Post, held)
		}
		w.block(s.Body, held)
		return held
	case *ast.RangeStmt:
		if s.Key != nil {
			w.expr(s.Key, held, s.Tok == token.ASSIGN)
		}
		if s.Value != nil {
			w.expr(s.Value, held, s.Tok == token.ASSIGN)
		}
		w.expr(s.X, held, false)
		w.block(s.Body, held)
		return held
	case *ast.SwitchStmt:
		if s.Init != nil {
			w.stmt(s.Init, held)
		}
		if s.Tag != nil {
			w.expr(s.Tag, held, false)
		}
		for _, c := range s.Body.List {
			cc := c.(*ast.CaseClause)
			for _, e := range cc.List {
				w.expr(e, held, false)
			}
			w.stmts(cc.Body, held, false)
		}
		return held
	case *ast.TypeSwitchStmt:
		if s.Init != nil {
			w.stmt(s.Init, held)
		}
		w.stmt(s.Assign, held)
		for _, c := range s.Body.List {
			w.stmts(c.(*ast.CaseClause).Body, held, false)
		}
		return held
	case *ast.SelectStmt:
		for _, c := range s.Body.List {
			cc := c.(*ast.CommClause)
			if cc.Comm != nil {
				w.stmt(cc.Comm, held)
			}
			w.stmts(cc.Body, held, false)
		}
		return held
	case *ast.LabeledStmt:
		return w.stmt(s.Stmt, held)
	case *ast.AssignStmt:
		for _, l := range s.Lhs {
			w.expr(l, held, true)
		}
		for i, r := range s.Rhs {
			w.expr(r, held, false)
			// a new walkContext variable
			if i < len(s.Lhs) {
				if id, ok := s.Lhs[i].(*ast.Ident); ok && (isWCLit(r) || w.callReturnsWC(r)) {
					w.vars[id.Name] = true
				}
			}
		}
		return held
	case *ast.IncDecStmt:
		w.expr(s.X, held, true)
		return held
	case *ast.ExprStmt:
		w.expr(s.X, held, false)
		return held
	case *ast.ReturnStmt:
		for _, r := range s.Results {
			w.expr(r, held, false)
		}
		return held
	case *ast.DeferStmt:
		// runs at function exit: not under any lexical lock
		w.expr(s.Call, false, false)
		return held
	case *ast.GoStmt:
		w.goStmt(s)
		return held
	case *ast.SendStmt:
		w.expr(s.Chan, held, false)
		w.expr(s.Value, held, false)
		return held
	case *ast.DeclStmt:
		if gd, ok := s.Decl.(*ast.GenDecl); ok {
			for _, sp := range gd.Specs {
				if vs, ok := sp.(*ast.ValueSpec); ok {
					for i, v := range vs.Values {
						w.expr(v, held, false)
						if i < len(vs.Names) && (isWCLit(v) || w.callReturnsWC(v)) {
							w.vars[vs.Names[i].Name] = true
						}
					}
					if vs.Type != nil && isWCType(vs.Type) {
						for _, n := range vs.Names {
							w.vars[n.Name] = true
						}
					}
				}
			}
		}
		return held
	case *ast.BranchStmt, *ast.EmptyStmt:
		return held
	case nil:
		return held
	}
	fail("unsupported statement %T at %s", st, fset.Position(st.Pos()))
	return held
}

func (w *walker) callReturnsWC(e ast.Expr) bool {
	c, ok := e.(*ast.CallExpr)
	if !ok {
		return false
	}
	id, ok := c.Fun.(*ast.Ident)
	return ok && retWC[id.Name]
}

// goStmt: the literal's body runs on a new goroutine
func (w *walker) goStmt(s *ast.GoStmt) {
	for _, a := range s.Call.Args {
		w.expr(a, false, false)
	}
	if fl, ok := s.Call.Fun.(*ast.FuncLit); ok {
		*w.goN++
		name := fmt.Sprintf("%s.go%d", w.name, *w.goN)
		id := fn(name)
		goRoots = append(goRoots, id)
		sub := &walker{fn: id, name: name, vars: w.vars, goN: w.goN, topBlk: fl.Body}
		sub.block(fl.Body, false)
		return
	}
	// `go x.m()` / `go f(x)`: a pseudo function that just calls it
	*w.goN++
	name := fmt.Sprintf("%s.go%d", w.name, *w.goN)
	id := fn(name)
	goRoots = append(goRoots, id)
	sub := &walker{fn: id, name: name, vars: w.vars, goN: w.goN}
	sub.expr(s.Call, false, false)
}

// expr records the field accesses inside an expression. write applies to the outermost selector only.
func (w *walker) expr(e ast.Expr, held bool, write bool) {
	switch x := e.(type) {
	case nil:
		return
	case *ast.SelectorExpr:
		if w.isWC(x.X) {
			if fi, ok := fieldIdx[x.Sel.Name]; ok {
				if x.Sel.Name == mutexName {
					w.irr(x.Pos(), "statusMu used other than as the receiver of Lock/Unlock")
				}
				accesses = append(accesses, access{fi, w.fn, write, held, false, fset.Position(x.Pos()).Line})
				return
			}
			// a method value / method call target: counts as a call
			calls[w.fn][x.Sel.Name] = true
			return
		}
		// x.f.g = …  writes g of another object; x.f is read
		w.expr(x.X, held, false)
	case *ast.Ident:
		if declared[x.Name] {
			calls[w.fn][x.Name] = true // a package function referenced (called or passed)
		}
	case *ast.CallExpr:
		if m := w.mutexCall(x); m != "" {
			w.irr(x.Pos(), "statusMu."+m+"() used inside an expression")
			return
		}
		w.expr(x.Fun, held, false)
		mut := false
		if id, ok := x.Fun.(*ast.Ident); ok && (id.Name == "delete" || id.Name == "clear") {
			mut = true // delete(x.f, k) / clear(x.f) mutate the map the field holds
		}
		for i, a := range x.Args {
			w.expr(a, held, mut && i == 0)
		}
	case *ast.UnaryExpr:
		w.expr(x.X, held, write || x.Op == token.AND)
	case *ast.StarExpr:
		w.expr(x.X, held, false)
	case *ast.ParenExpr:
		w.expr(x.X, held, write)
	case *ast.BinaryExpr:
		w.expr(x.X, held, false)
		w.expr(x.Y, held, false)
	case *ast.IndexExpr:
		// x.f[k] = v mutates the map/slice the field holds: for race purposes a write to what the field guards
		w.expr(x.X, held, write)
		w.expr(x.Index, held, false)
	case *ast.SliceExpr:
		w.expr(x.X, held, false)
		w.expr(x.Low, held, false)
		w.expr(x.High, held, false)
		w.expr(x.Max, held, false)
	case *ast.TypeAssertExpr:
		w.expr(x.X, held, false)
	case *ast.KeyValueExpr:
		w.expr(x.Value, held, false)
	case *ast.CompositeLit:
		isWC := x.Type != nil && isWCType(x.Type)
		for _, el := range x.Elts {
			if kv, ok := el.(*ast.KeyValueExpr); ok {
				if id, ok := kv.Key.(*ast.Ident); ok && isWC {
					if fi, ok := fieldIdx[id.Name]; ok {
						accesses = append(accesses, access{fi, w.fn, true, false, true, fset.Position(kv.Pos()).Line})
					}
				} else if !isWC {
					w.expr(kv.Key, held, false)
				}
				w.expr(kv.Value, held, false)
			} else {
				if isWC {
					fail("positional walkContext literal at %s", fset.Position(x.Pos()))
				}
				w.expr(el, held, false)
			}
		}
	case *ast.FuncLit:
		// a closure that is not started with `go`: runs on this goroutine at some later point, outside any lexical lock
		sub := &walker{fn: w.fn, name: w.name, vars: w.vars, goN: w.goN, topBlk: x.Body}
		sub.block(x.Body, false)
	case *ast.BasicLit, *ast.ArrayType, *ast.MapType, *ast.ChanType, *ast.FuncType, *ast.InterfaceType, *ast.StructType, *ast.Ellipsis:
		return
	case *ast.IndexListExpr:
		w.expr(x.X, held, false)
	default:
		fail("unsupported expression %T at %s", e, fset.Position(e.Pos()))
	}
}

func leanStr(s string) string { return "\"" + strings.ReplaceAll(strings.ReplaceAll(s, "\\", "\\\\"), "\"", "\\\"") + "\"" }
func leanBool(b bool) string {
	if b {
		return "true"
	}
	return "false"
}
func natList(xs []int) string {
	var s []string
	for _, x := range xs {
		s = append(s, fmt.Sprint(x))
	}
	return "[" + strings.Join(s, ", ") + "]"
}

func closure(roots []int) []int {
	seen := map[int]bool{}
	var out []int
	var visit func(i int)
	visit = func(i int) {
		if seen[i] {
			return
		}
		seen[i] = true
		out = append(out, i)
		var cs []string
		for c := range calls[i] {
			cs = append(cs, c)
		}
		sort.Strings(cs)
		for _, c := range cs {
			if j, ok := funcIdx[c]; ok {
				visit(j)
			}
		}
	}
	for _, r := range roots {
		visit(r)
	}
	sort.Ints(out)
	return out
}

func main() {
	out := flag.String("out", "/verif/lean/Scalibr/Gen/Ticker.lean", "output file")
	src := flag.String("dir", pkgDir, "package directory (the check never changes this)")
	flag.StringVar(&structName, "struct", structName, "struct type whose fields are tabulated")
	flag.StringVar(&mutexName, "mutex", mutexName, "name of the mutex field")
	ns := flag.String("ns", "Scalibr.Gen.Ticker", "Lean namespace of the generated table")
	only := flag.String("only", "", "comma-separated file names to read (default: every non-test file of the package)")
	anyG := flag.Bool("anygoroutine", false, "no `go` statement in the package: every function may run on any goroutine (library type used concurrently by its callers)")
	flag.Parse()
	os.Remove(*out)
	ents, err := os.ReadDir(*src)
	if err != nil {
		fail("%v", err)
	}
	var files []*ast.File
	for _, e := range ents {
		n := e.Name()
		if e.IsDir() || !strings.HasSuffix(n, ".go") || strings.HasSuffix(n, "_test.go") || strings.HasPrefix(n, "verif_") {
			continue
		}
		if *only != "" && !strings.Contains(","+*only+",", ","+n+",") {
			continue
		}
		f, err := parser.ParseFile(fset, filepath.Join(*src, n), nil, parser.SkipObjectResolution)
		if err != nil {
			fail("%v", err)
		}
		files = append(files, f)
	}
	// 1. the struct
	for _, f := range files {
		for _, d := range f.Decls {
			gd, ok := d.(*ast.GenDecl)
			if !ok {
				continue
			}
			for _, sp := range gd.Specs {
				ts, ok := sp.(*ast.TypeSpec)
				if !ok || ts.Name.Name != structName {
					continue
				}
				st, ok := ts.Type.(*ast.StructType)
				if !ok {
					fail("%s is not a struct", structName)
				}
				for _, fl := range st.Fields.List {
					if len(fl.Names) == 0 {
						fail("embedded field in %s", structName)
					}
					for _, n := range fl.Names {
						fieldIdx[n.Name] = len(fields)
						fields = append(fields, n.Name)
					}
				}
			}
		}
	}
	if len(fields) == 0 {
		fail("type %s not found in %s", structName, *src)
	}
	if _, ok := fieldIdx[mutexName]; !ok {
		fail("%s has no field %s (the guard moved or was renamed)", structName, mutexName)
	}
	// 2. functions
	var decls []*ast.FuncDecl
	for _, f := range files {
		for _, d := range f.Decls {
			if fd, ok := d.(*ast.FuncDecl); ok && fd.Body != nil {
				decls = append(decls, fd)
				if fd.Recv == nil {
					declared[fd.Name.Name] = true
					if fd.Type.Results != nil && len(fd.Type.Results.List) > 0 && isWCType(fd.Type.Results.List[0].Type) {
						retWC[fd.Name.Name] = true
					}
				}
			}
		}
	}
	var declIDs []int
	for _, fd := range decls {
		vars := map[string]bool{}
		if fd.Recv != nil && len(fd.Recv.List) == 1 && isWCType(fd.Recv.List[0].Type) && len(fd.Recv.List[0].Names) == 1 {
			vars[fd.Recv.List[0].Names[0].Name] = true
		}
		for _, p := range fd.Type.Params.List {
			if isWCType(p.Type) {
				for _, n := range p.Names {
					vars[n.Name] = true
				}
			}
		}
		name := fd.Name.Name
		if fd.Recv != nil && !isWCType(fd.Recv.List[0].Type) {
			// a method of another type: keep the names apart
			t := fd.Recv.List[0].Type
			if s, ok := t.(*ast.StarExpr); ok {
				t = s.X
			}
			if id, ok := t.(*ast.Ident); ok {
				name = id.Name + "." + name
			}
		}
		if _, dup := funcIdx[name]; dup {
			fail("two functions named %s", name)
		}
		id := fn(name)
		declIDs = append(declIDs, id)
		n := 0
		w := &walker{fn: id, name: name, vars: vars, goN: &n, topBlk: fd.Body}
		w.block(fd.Body, false)
	}
	if len(goRoots) == 0 && !*anyG {
		fail("no `go` statement found in %s: the status ticker moved", *src)
	}
	ticker := closure(goRoots)
	if *anyG {
		// callers use the type from several goroutines: both "sides" are all functions that touch it
		ticker = nil
		for i := range funcs {
			ticker = append(ticker, i)
		}
	}
	isTicker := map[int]bool{}
	for _, t := range ticker {
		isTicker[t] = true
	}
	isGo := map[int]bool{}
	for _, g := range goRoots {
		isGo[g] = true
	}
	var wroots []int
	for _, id := range declIDs {
		if !isTicker[id] || *anyG {
			wroots = append(wroots, id)
		}
	}
	walkerF := closure(wroots)
	// go-literal pseudo functions are reached "by call" from their parent only through the go statement: never walker-side
	var wf []int
	for _, x := range walkerF {
		if !isGo[x] {
			wf = append(wf, x)
		}
	}
	sort.Slice(accesses, func(i, j int) bool {
		a, b := accesses[i], accesses[j]
		if a.line != b.line {
			return a.line < b.line
		}
		if a.field != b.field {
			return a.field < b.field
		}
		return !a.write && b.write
	})

	var sb strings.Builder
	sb.WriteString("-- GENERATED by /verif/translator/cmd/tickerdump from /repo's working tree on every run of ./check C16.\n")
	sb.WriteString("-- Never edit by hand: the file is deleted and rewritten.\n")
	sb.WriteString("import Scalibr.Model.Ticker\nnamespace " + *ns + "\nopen Scalibr.Ticker\n\n")
	fmt.Fprintf(&sb, "/-- fields of `%s` (%s), index = field id -/\ndef fields : List String := [\n", structName, strings.TrimPrefix(*src, "/repo/"))
	for i, f := range fields {
		sep := ","
		if i == len(fields)-1 {
			sep = ""
		}
		fmt.Fprintf(&sb, "  %s%s  -- %d\n", leanStr(f), sep, i)
	}
	sb.WriteString("]\n\n/-- functions of the package, index = function id; `F.goN` = the N-th `go` statement of F -/\ndef funcs : List String := [\n")
	for i, f := range funcs {
		sep := ","
		if i == len(funcs)-1 {
			sep = ""
		}
		fmt.Fprintf(&sb, "  %s%s  -- %d\n", leanStr(f), sep, i)
	}
	fmt.Fprintf(&sb, "]\n\n/-- the field holding the mutex -/\ndef mutexField : Nat := %d\n\n", fieldIdx[mutexName])
	fmt.Fprintf(&sb, "/-- functions running on a goroutine started by a `go` statement (the status ticker) -/\ndef tickerFuncs : List Nat := %s\n\n", natList(ticker))
	fmt.Fprintf(&sb, "/-- functions running on the goroutine that performs the walk -/\ndef walkerFuncs : List Nat := %s\n\n", natList(wf))
	fmt.Fprintf(&sb, "/-- lock/unlock shapes the translator does not understand -/\ndef irregular : List String := [%s]\n\n", func() string {
		var s []string
		for _, x := range irregular {
			s = append(s, leanStr(x))
		}
		return strings.Join(s, ", ")
	}())
	sb.WriteString("/-- ⟨field, function, write, guarded, init, line⟩ -/\ndef accesses : List Access := [\n")
	for i, a := range accesses {
		sep := ","
		if i == len(accesses)-1 {
			sep = ""
		}
		fmt.Fprintf(&sb, "  ⟨%d, %d, %s, %s, %s, %d⟩%s  -- %s in %s\n", a.field, a.fn, leanBool(a.write), leanBool(a.guarded), leanBool(a.init), a.line, sep, fields[a.field], funcs[a.fn])
	}
	sb.WriteString("]\n\ndef table : Table := ⟨fields.length, mutexField, tickerFuncs, walkerFuncs, accesses, irregular.length⟩\n\nend " + *ns + "\n")
	if err := os.WriteFile(*out, []byte(sb.String()), 0o644); err != nil {
		fail("%v", err)
	}
	// summary for the evidence: shared fields and the unguarded sites that are not conflicts
	shared := map[int]bool{}
	wfset := map[int]bool{}
	for _, x := range wf {
		wfset[x] = true
	}
	for _, a := range accesses {
		for _, b := range accesses {
			if a.field == b.field && isTicker[a.fn] && wfset[b.fn] && (a.write || b.write) && !a.init && !b.init {
				shared[a.field] = true
			}
		}
	}
	for _, a := range accesses {
		for _, b := range accesses {
			if a.field == b.field && isTicker[a.fn] && wfset[b.fn] && (a.write || b.write) && !a.init && !b.init && !(a.guarded && b.guarded) {
				rw := func(x access) string {
					if x.write {
						return "write"
					}
					return "read"
				}
				g := func(x access) string {
					if x.guarded {
						return "guarded"
					}
					return "UNGUARDED"
				}
				fmt.Printf("CONFLICT field=%s ticker: %s in %s line %d (%s) / walker: %s in %s line %d (%s)\n", fields[a.field],
					rw(a), funcs[a.fn], a.line, g(a), rw(b), funcs[b.fn], b.line, g(b))
			}
		}
	}
	var sh []string
	unguardedShared := 0
	for _, a := range accesses {
		if shared[a.field] && !a.guarded && !a.init {
			unguardedShared++
		}
	}
	for f := range shared {
		sh = append(sh, fields[f])
	}
	sort.Strings(sh)
	var tn []string
	for _, t := range ticker {
		tn = append(tn, funcs[t])
	}
	fmt.Printf("tickerdump: fields=%d funcs=%d accesses=%d ticker=[%s] shared=[%s] unguarded_sites_of_shared_fields=%d irregular=%d\n",
		len(fields), len(funcs), len(accesses), strings.Join(tn, ","), strings.Join(sh, ","), unguardedShared, len(irregular))
}
