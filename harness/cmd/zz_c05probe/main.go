package main

import (
	"archive/tar"
	"context"
	"fmt"
	"io"
	"path"
	"sort"
	"strings"

	v1 "github.com/google/go-containerregistry/pkg/v1"
	"github.com/google/go-containerregistry/pkg/v1/empty"
	"github.com/google/go-containerregistry/pkg/v1/mutate"
	scalibr "github.com/google/osv-scalibr"
	"github.com/google/osv-scalibr/artifact/image/layerscanning/image"
	"github.com/google/osv-scalibr/extractor"
	"github.com/google/osv-scalibr/extractor/filesystem"
	"github.com/google/osv-scalibr/inventory"
	"github.com/google/osv-scalibr/plugin"
	"github.com/google/osv-scalibr/purl"

	"verif/harness/hx"
	"verif/harness/imgx"
)

type pkgex struct {
	calls  *int
	cancel func()
	after  int
}

func (pkgex) Name() string                       { return "verif/pkgex" }
func (pkgex) Version() int                       { return 0 }
func (pkgex) Requirements() *plugin.Capabilities { return &plugin.Capabilities{} }
func (pkgex) FileRequired(api filesystem.FileAPI) bool {
	return path.Base(api.Path()) == "pkgs.list"
}
func (e pkgex) Extract(ctx context.Context, in *filesystem.ScanInput) (inventory.Inventory, error) {
	*e.calls++
	if e.after > 0 && *e.calls == e.after {
		e.cancel()
	}
	b, err := io.ReadAll(in.Reader)
	if err != nil {
		return inventory.Inventory{}, err
	}
	var ps []*extractor.Package
	for _, l := range strings.Split(string(b), "\n") {
		if l != "" {
			ps = append(ps, &extractor.Package{Name: l, Version: "1", Locations: []string{in.Path}})
		}
	}
	return inventory.Inventory{Packages: ps}, nil
}
func (pkgex) ToPURL(p *extractor.Package) *purl.PackageURL {
	return &purl.PackageURL{Type: purl.TypeGeneric, Name: p.Name, Version: p.Version}
}
func (pkgex) Ecosystem(p *extractor.Package) string { return "" }

func scan(name string, layers [][]imgx.TarEnt, cancelAfter int) {
	img := empty.Image
	for i, l := range layers {
		var err error
		img, err = mutate.Append(img, mutate.Addendum{Layer: imgx.MkLayer(l), History: v1.History{CreatedBy: fmt.Sprintf("cmd%d", i)}})
		if err != nil {
			panic(err)
		}
	}
	im, err := image.FromV1Image(img, image.DefaultConfig())
	if err != nil {
		panic(err)
	}
	defer im.CleanUp()
	ctx, cancel := context.WithCancel(context.Background())
	defer cancel()
	calls := 0
	res, err := scalibr.New().ScanContainer(ctx, im, &scalibr.ScanConfig{
		FilesystemExtractors: []filesystem.Extractor{pkgex{&calls, cancel, cancelAfter}}, Capabilities: &plugin.Capabilities{}})
	if err != nil {
		fmt.Println(name, "ERR", err)
		return
	}
	var out []string
	for _, p := range res.Inventory.Packages {
		out = append(out, fmt.Sprintf("%s@%s:layer%d", p.Name, p.Locations[0], p.LayerDetails.Index))
	}
	sort.Strings(out)
	fmt.Println(name, "status="+res.Status.String(), "extractCalls=", calls, out)
}

func main() {
	imgx.Main("probe", func(scratch string, out *hx.Out) {
		R, S := byte(tar.TypeReg), byte(tar.TypeSymlink)
		// A: layer1 turns the location into a symlink to another list; layer2 restores the regular file
		scan("symlink-replaces-file", [][]imgx.TarEnt{
			{{Name: "pkgs.list", Typ: R, Body: "p1\n"}},
			{{Name: "pkgs.list", Typ: S, Link: "other/g"}, {Name: "other/g", Typ: R, Body: "p2\n"}},
			{{Name: "pkgs.list", Typ: R, Body: "p1\n"}},
		}, 0)
		// B: same history without the symlink (plain rewrite) for comparison
		scan("plain-rewrite", [][]imgx.TarEnt{
			{{Name: "pkgs.list", Typ: R, Body: "p1\n"}},
			{{Name: "pkgs.list", Typ: R, Body: "p2\n"}},
			{{Name: "pkgs.list", Typ: R, Body: "p1\n"}},
		}, 0)
		for _, after := range []int{0, 2, 3} {
			scan(fmt.Sprintf("cancel-after-%d", after), [][]imgx.TarEnt{
				{{Name: "pkgs.list", Typ: R, Body: "p2\n"}},
				{{Name: "pkgs.list", Typ: R, Body: "p1\np3\n"}},
				{{Name: "pkgs.list", Typ: R, Body: "p1\np2\n"}},
			}, after)
		}
	})
}
