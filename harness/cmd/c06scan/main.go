// c06scan: run-time observation for the scan half of C06 — a scan with every offline filesystem extractor leaves the
// scanned tree, the working directory and TMPDIR exactly as they were.
//
// Each case builds a tree that places valid (copied from the repository's fixtures, never scanned in place), empty,
// truncated or corrupt files at production paths, snapshots tree / cwd / TMPDIR (path, type, mode, size, link target,
// SHA-256), scans through a DirFS scan root, snapshots again and prints the difference.
//
// Output: "scan <seed> <variants>\tstatus=<ok|failed|panic> ext=<n extractors> files=<n> pkgs=<n> diff=<-|items> tmp=<-|items> cwd=<-|items>"
package main

import (
	"context"
	"crypto/sha256"
	"encoding/hex"
	"fmt"
	"io/fs"
	"math/rand"
	"os"
	"path/filepath"
	"sort"
	"strings"

	scalibr "github.com/google/osv-scalibr"
	"github.com/google/osv-scalibr/extractor/filesystem/list"
	scalibrfs "github.com/google/osv-scalibr/fs"
	"github.com/google/osv-scalibr/log"
	"github.com/google/osv-scalibr/plugin"

	"verif/harness/hx"
)

type nopLogger struct{}

func (nopLogger) Errorf(string, ...any) {}
func (nopLogger) Error(...any)          {}
func (nopLogger) Warnf(string, ...any)  {}
func (nopLogger) Warn(...any)           {}
func (nopLogger) Infof(string, ...any)  {}
func (nopLogger) Info(...any)           {}
func (nopLogger) Debugf(string, ...any) {}
func (nopLogger) Debug(...any)          {}

// production path -> fixture directory (below /repo/extractor/filesystem) and a name hint, or literal content
type spec struct {
	path, dir, hint, literal string
}

var specs = []spec{
	{"var/lib/dpkg/status", "os/dpkg/testdata/dpkg", "single", ""},
	{"var/lib/dpkg/status.d/foo", "os/dpkg/testdata/dpkg", "single", ""},
	{"usr/lib/opkg/status", "os/dpkg/testdata/opkg", "", ""},
	{"lib/apk/db/installed", "os/apk/testdata", "installed", ""},
	{"var/lib/rpm/Packages", "os/rpm/testdata", "Packages", ""},
	{"var/lib/rpm/Packages.db", "os/rpm/testdata", "Packages.db", ""},
	{"usr/lib/sysimage/rpm/rpmdb.sqlite", "os/rpm/testdata", "rpmdb.sqlite", ""},
	{"var/lib/rpm/rpmdb.sqlite", "os/rpm/testdata", "rpmdb.sqlite", ""},
	{"var/lib/pacman/local/zlib-1.3-1/desc", "os/pacman/testdata", "valid", ""},
	{"var/db/pkg/dev-libs/zlib-1.3/PF", "os/portage/testdata", "valid", ""},
	{"snap/core/123/meta/snap.yaml", "os/snap/testdata", "single-arch", ""},
	{"var/lib/flatpak/app/org.x.Y/current/active/export/share/metainfo/org.x.Y.metainfo.xml", "os/flatpak/testdata", "valid", ""},
	{"etc/cos-package-info.json", "os/cos/testdata", "single", ""},
	{"etc/os-release", "", "", "ID=debian\nVERSION_ID=\"12\"\n"},
	{"var/lib/containerd/io.containerd.metadata.v1.bolt/meta.db", "containers/containerd/testdata", "metadata_linux_test.db", ""},
	{"var/lib/containerd/io.containerd.grpc.v1.cri/containers/abc/status", "containers/containerd/testdata", "status", ""},
	{"usr/lib/python3/dist-packages/x-1.0.dist-info/METADATA", "language/python/wheelegg/testdata", "distinfo_meta", ""},
	{"usr/lib/python3/dist-packages/y-1.0.egg-info/PKG-INFO", "language/python/wheelegg/testdata", "pkginfo", ""},
	{"usr/lib/python3/dist-packages/monotonic-1.6-py3.10.egg", "language/python/wheelegg/testdata", "monotonic-1.6", ""},
	{"app/requirements.txt", "language/python/requirements/testdata", "", ""},
	{"app/poetry.lock", "language/python/poetrylock/testdata", "", ""},
	{"app/Pipfile.lock", "language/python/pipfilelock/testdata", "", ""},
	{"app/pdm.lock", "language/python/pdmlock/testdata", "", ""},
	{"app/uv.lock", "language/python/uvlock/testdata", "", ""},
	{"app/setup.py", "language/python/setup/testdata", "", ""},
	{"app/lib/a.jar", "language/java/archive/testdata", "complex.jar", ""},
	{"app/lib/b.jar", "language/java/archive/testdata", "invalid_jar", ""},
	{"app/pom.xml", "language/java/pomxml/testdata", "", ""},
	{"app/gradle.lockfile", "language/java/gradlelockfile/testdata", "", ""},
	{"app/gradle/verification-metadata.xml", "language/java/gradleverificationmetadataxml/testdata", "", ""},
	{"usr/bin/gobin", "language/golang/gobinary/testdata", "linux-amd64", ""},
	{"app/go.mod", "language/golang/gomod/testdata", "", ""},
	{"app/HelloWorldApp.dll", "language/dotnet/dotnetpe/testdata", "HelloWorldApp.dll", ""},
	{"app/Invalid.dll", "language/dotnet/dotnetpe/testdata", "Invalid.dll", ""},
	{"app/packages.lock.json", "language/dotnet/packageslockjson/testdata", "", ""},
	{"app/x.deps.json", "language/dotnet/depsjson/testdata", "", ""},
	{"app/package.json", "language/javascript/packagejson/testdata", "", ""},
	{"app/node_modules/x/package.json", "language/javascript/packagejson/testdata", "", ""},
	{"app/package-lock.json", "language/javascript/packagelockjson/testdata", "", ""},
	{"app/yarn.lock", "language/javascript/yarnlock/testdata", "", ""},
	{"app/pnpm-lock.yaml", "language/javascript/pnpmlock/testdata", "", ""},
	{"app/bun.lock", "language/javascript/bunlock/testdata", "", ""},
	{"app/Cargo.lock", "language/rust/cargolock/testdata", "", ""},
	{"app/Cargo.toml", "language/rust/cargotoml/testdata", "", ""},
	{"app/Gemfile.lock", "language/ruby/gemfilelock/testdata", "", ""},
	{"usr/lib/ruby/gems/specifications/x-1.0.gemspec", "language/ruby/gemspec/testdata", "", ""},
	{"app/composer.lock", "language/php/composerlock/testdata", "", ""},
	{"app/pubspec.lock", "language/dart/pubspec/testdata", "", ""},
	{"app/mix.lock", "language/erlang/mixlock/testdata", "", ""},
	{"app/stack.yaml.lock", "language/haskell/stacklock/testdata", "", ""},
	{"app/cabal.project.freeze", "language/haskell/cabal/testdata", "", ""},
	{"app/renv.lock", "language/r/renvlock/testdata", "", ""},
	{"app/Package.resolved", "language/swift/packageresolved/testdata", "", ""},
	{"app/Podfile.lock", "language/swift/podfilelock/testdata", "", ""},
	{"app/conan.lock", "language/cpp/conanlock/testdata", "", ""},
	{"app/sbom.spdx.json", "sbom/spdx/testdata", "sbom.spdx.json", ""},
	{"app/sbom.cdx.json", "sbom/cdx/testdata", "sbom.cdx.json", ""},
	{"usr/lib/modules/6.1/kernel/x.ko", "os/kernel/module/testdata", "", ""},
	{"boot/vmlinuz-6.1", "os/kernel/vmlinuz/testdata", "", ""},
	{"opt/conda/conda-meta/x-1.0-0.json", "language/python/condameta/testdata", "", ""},
	{"home/u/.vscode/extensions/extensions.json", "misc/vscodeextensions/testdata", "", ""},
	{"var/www/wp-content/plugins/x/x.php", "misc/wordpress/plugins/testdata", "", ""},
}

const fixtures = "/repo/extractor/filesystem"

func fixture(s spec) []byte {
	if s.dir == "" {
		return []byte(s.literal)
	}
	var best []byte
	_ = filepath.WalkDir(filepath.Join(fixtures, s.dir), func(p string, d fs.DirEntry, err error) error {
		if err != nil || d.IsDir() || best != nil {
			return nil
		}
		if s.hint != "" && !strings.Contains(filepath.Base(p), s.hint) {
			return nil
		}
		fi, e := d.Info()
		if e != nil || !fi.Mode().IsRegular() || fi.Size() > 4<<20 {
			return nil
		}
		b, e := os.ReadFile(p)
		if e == nil {
			best = b
		}
		return nil
	})
	if best == nil {
		best = []byte("fixture not found\n")
	}
	return best
}

func snapshot(root string) map[string]string {
	m := map[string]string{}
	_ = filepath.WalkDir(root, func(p string, d fs.DirEntry, err error) error {
		rel, _ := filepath.Rel(root, p)
		if err != nil {
			m[rel] = "ERR"
			return nil
		}
		fi, e := os.Lstat(p)
		if e != nil {
			m[rel] = "ERR"
			return nil
		}
		switch {
		case fi.Mode()&fs.ModeSymlink != 0:
			t, _ := os.Readlink(p)
			m[rel] = "l:" + t
		case fi.IsDir():
			m[rel] = fmt.Sprintf("d:%o", fi.Mode().Perm())
		default:
			b, _ := os.ReadFile(p)
			h := sha256.Sum256(b)
			m[rel] = fmt.Sprintf("f:%o:%d:%s", fi.Mode().Perm(), fi.Size(), hex.EncodeToString(h[:8]))
		}
		return nil
	})
	return m
}

func diff(a, b map[string]string) string {
	var out []string
	for k, v := range a {
		if w, ok := b[k]; !ok {
			out = append(out, hx.Hex("-"+k))
		} else if w != v {
			out = append(out, hx.Hex("~"+k+" "+v+" -> "+w))
		}
	}
	for k := range b {
		if _, ok := a[k]; !ok {
			out = append(out, hx.Hex("+"+k+" "+b[k]))
		}
	}
	sort.Strings(out)
	return hx.Join(out, ",")
}

func main() {
	o := hx.Parse()
	log.SetLogger(nopLogger{})
	out := hx.NewOut()
	defer out.Flush()
	base, err := os.MkdirTemp("", "c06scan-*")
	if err != nil {
		panic(err)
	}
	defer os.RemoveAll(base)
	contents := make([][]byte, len(specs))
	for i, s := range specs {
		contents[i] = fixture(s)
	}
	caps := &plugin.Capabilities{OS: plugin.OSLinux, Network: plugin.NetworkOffline, DirectFS: true, RunningSystem: false}
	orig, _ := os.Getwd()
	defer os.Chdir(orig)
	r := hx.Rng(o)
	for i := 0; i < o.N; i++ {
		seed := r.Int63()
		cr := rand.New(rand.NewSource(seed))
		root := filepath.Join(base, fmt.Sprintf("s%d", i))
		tree, tmp, cwd := filepath.Join(root, "tree"), filepath.Join(root, "tmp"), filepath.Join(root, "cwd")
		for _, d := range []string{tree, tmp, cwd} {
			if err := os.MkdirAll(d, 0o755); err != nil {
				panic(err)
			}
		}
		var variants strings.Builder
		for k, s := range specs {
			b := contents[k]
			v := 0
			if i > 0 { // the first tree of a run is all valid
				v = cr.Intn(5)
			}
			switch v {
			case 1:
				b = nil
			case 2:
				b = b[:len(b)/2]
			case 3:
				c := make([]byte, len(b))
				cr.Read(c)
				b = c
			case 4: // one flipped region
				c := append([]byte{}, b...)
				if len(c) > 8 {
					at := cr.Intn(len(c) - 8)
					cr.Read(c[at : at+8])
				}
				b = c
			}
			variants.WriteByte(byte('0' + v))
			p := filepath.Join(tree, filepath.FromSlash(s.path))
			if err := os.MkdirAll(filepath.Dir(p), 0o755); err != nil {
				panic(err)
			}
			if err := os.WriteFile(p, b, 0o644); err != nil {
				panic(err)
			}
		}
		os.Setenv("TMPDIR", tmp)
		os.Chdir(cwd)
		before, tb, cb := snapshot(tree), snapshot(tmp), snapshot(cwd)
		exs := list.FromCapabilities(caps)
		status, pkgs := "ok", 0
		func() {
			defer func() {
				if e := recover(); e != nil {
					status = "panic"
				}
			}()
			res := scalibr.New().Scan(context.Background(), &scalibr.ScanConfig{
				FilesystemExtractors: exs, Capabilities: caps, ScanRoots: scalibrfs.RealFSScanRoots(tree)})
			if res.Status == nil || res.Status.Status != plugin.ScanStatusSucceeded {
				status = "failed"
			}
			pkgs = len(res.Inventory.Packages)
		}()
		after, ta, ca := snapshot(tree), snapshot(tmp), snapshot(cwd)
		os.Chdir(orig)
		out.Emit(fmt.Sprintf("scan %d %s", seed, variants.String()),
			fmt.Sprintf("status=%s ext=%d files=%d pkgs=%d diff=%s tmp=%s cwd=%s", status, len(exs), len(specs), pkgs, diff(before, after), diff(tb, ta), diff(cb, ca)))
		os.RemoveAll(root)
	}
}
