// c06scan: run-time observation for the scan half of C06 — a scan with every offline filesystem extractor leaves the
// scanned tree, the working directory and TMPDIR exactly as they were.
//
// A case is a tree plus a route:
//
//	scan <route> <seed> <variants> [<profile>]
//	                                     route r = real directory scan root (DirectFS), v = virtual FS (ScanRoot.Path == ""), Linux capabilities;
//	                                     w/x = the same with Windows capabilities, m/n with macOS capabilities
//	  profile (scan options; default 0): 0 none
//	    1 PathsToExtract (directories, a file, a missing path) + UseGitignore (.gitignore files in the tree)
//	    2 ReadSymlinks + StoreAbsolutePath + MaxFileSize 2048; a seeded third of the production files are symbolic links to copies
//	      OUTSIDE the scanned tree (directory `outside`, snapshotted too: field out=), plus a dangling link
//	    3 PathsToExtract + IgnoreSubDirs + DirsToSkip + SkipDirGlob + SkipDirRegex + ErrorOnFSErrors
//	    4 MaxInodes 25 (the walk ends with an error part-way) + UseGitignore
//	    5 the rpm, .NET PE and containerd extractors configured: a stats collector, rpm Timeout 0 (ListPackages without a deadline)
//	    7 TMPDIR names a directory that does not exist (GetRealPath / the rpm SQLite copy cannot make their temporary directory)
//	    8 no extractor at all; 9 the context is cancelled before the scan starts; a PathsToExtract entry outside every scan root
//	    6 the same three with small size limits (rpm / PE MaxFileSizeBytes 4096, containerd MaxMetaDBFileSize 1000) and a collector
//
// <variants> has one character per entry of the file table below: 0 valid (content copied from the repository's
// fixtures, which are never scanned in place), 1 zero bytes, 2 truncated to half, 3 random bytes of the same length,
// 4 eight random bytes flipped, 5 missing, 9 a DIRECTORY of that name (reads fail with EISDIR), 7 / 8 the first / second
// alternative valid content where the table has one, 6 valid on disk but (virtual routes only) every Read of the file through the scan file
// system fails after half of its bytes (an I/O error of the remote / container file system).  Files are written 0644, directories 0755, by the scanning user, so an
// illegitimate write succeeds and shows.  TMPDIR and the working directory are fresh per scan.  The snapshot taken
// before and after the scan records, for the scanned tree, the working directory and TMPDIR: the set of paths, and per
// path type and full mode, and for files and links size, mtime (ns), link target and SHA-256.  Anything that differs
// after Scan returns counts (also a left-over -wal/-shm/journal/lock file); files created and removed again do not
// (which is why directory mtimes are left out).
//
// The stream: (a) for every extractor group that opens AUXILIARY files beside the one FileRequired accepted
// (`groups`): primary valid x each auxiliary in {valid, zero, truncated, corrupt, missing}, and primary in {zero,
// truncated, corrupt} x auxiliaries valid, on both routes; (b) -n random trees.
//
// Output: "<case>\tstatus=<ok|failed|panic> ext=<n> pkgs=<n> diff=<-|items> tmp=<-|items> cwd=<-|items> panic=<-|hex>"   items hex-encoded.
package main

import (
	"bytes"
	"context"
	"crypto/sha256"
	"database/sql"
	"encoding/hex"
	"errors"
	"fmt"
	"io"
	"io/fs"
	"math/rand"
	"os"
	"path/filepath"
	"regexp"
	"runtime/debug"
	"sort"
	"strconv"
	"strings"
	"syscall"

	"github.com/erikvarga/go-rpmdb/pkg/bdb"
	"github.com/gobwas/glob"
	scalibr "github.com/google/osv-scalibr"
	"github.com/google/osv-scalibr/extractor/filesystem"
	"github.com/google/osv-scalibr/extractor/filesystem/containers/containerd"
	"github.com/google/osv-scalibr/extractor/filesystem/language/dotnet/dotnetpe"
	"github.com/google/osv-scalibr/extractor/filesystem/list"
	"github.com/google/osv-scalibr/extractor/filesystem/os/rpm"
	scalibrfs "github.com/google/osv-scalibr/fs"
	"github.com/google/osv-scalibr/log"
	"github.com/google/osv-scalibr/plugin"
	"github.com/google/osv-scalibr/stats"
	_ "github.com/mattn/go-sqlite3"

	"verif/harness/hx"
)

type nopLogger struct{}

func (nopLogger) Errorf(string, ...any) {}
func (nopLogger) Error(...any)          {}
func (nopLogger) Warnf(string, ...any)  {}
func (nopLogger) Warn(...any)           {}
func (nopLogger) Infof(string, ...any)  {}
func (nopLogger) Info(...any)           {}
func (nopLogger) Debugf(string, ...any) {}
func (nopLogger) Debug(...any)          {}

// production path -> fixture directory (below <repo>/extractor/filesystem) and a name hint ("=name" exact), or literal
// content; literal "#missing" = absent by default, "#wal-*" = generated SQLite database in WAL mode with a live -wal/-shm
type spec struct {
	path, dir, hint, literal string
}

var specs = []spec{
	{"var/lib/dpkg/status", "os/dpkg/testdata/dpkg", "single", ""},
	{"var/lib/dpkg/status.d/foo", "os/dpkg/testdata/dpkg", "single", ""},
	{"usr/lib/opkg/status", "os/dpkg/testdata/opkg", "", ""},
	{"lib/apk/db/installed", "os/apk/testdata", "installed", ""},
	{"usr/share/rpm/Packages", "os/rpm/testdata", "=Packages_epoch", ""}, // the one Berkeley DB fixture of the repository that holds packages
	{"usr/share/rpm/Packages-journal", "", "", "#hot-journal"},           // absent by default; beside an SQLite-format Packages (variant 7) a genuine hot rollback journal
	{"usr/share/rpm/__db.001", "", "", "\x00\x00\x00\x00berkeley region file stand-in\n"},
	{"usr/share/rpm/.dbenv.lock", "", "", ""},
	{"usr/share/rpm/.rpm.lock", "", "", ""},
	{"usr/share/rpm/Packages.db", "os/rpm/testdata", "=Packages.db", ""},
	{"var/lib/rpm/rpmdb.sqlite", "", "", "#rpm-sqlite"},          // generated: the header blobs of the Berkeley DB fixture in an SQLite rpmdb
	{"var/lib/rpm/rpmdb.sqlite-journal", "", "", "#hot-journal"}, // absent by default; the hot rollback journal of variant 7 of the database
	{"usr/lib/sysimage/rpm/rpmdb.sqlite", "", "", "#wal-db"},
	{"usr/lib/sysimage/rpm/rpmdb.sqlite-wal", "", "", "#wal-wal"},
	{"usr/lib/sysimage/rpm/rpmdb.sqlite-shm", "", "", "#wal-shm"},
	{"var/lib/pacman/local/zlib-1.3-1/desc", "os/pacman/testdata", "valid", ""},
	{"var/db/pkg/dev-libs/zlib-1.3/PF", "os/portage/testdata", "valid", ""},
	{"snap/core/123/meta/snap.yaml", "os/snap/testdata", "single-arch", ""},
	{"var/lib/flatpak/app/org.x.Y/current/active/export/share/metainfo/org.x.Y.metainfo.xml", "os/flatpak/testdata", "valid", ""},
	{"etc/cos-package-info.json", "os/cos/testdata", "single", ""},
	{"etc/os-release", "", "", "ID=debian\nVERSION_ID=\"12\"\n"},
	{"usr/lib/os-release", "", "", "ID=debian\nVERSION_ID=\"12\"\n"},
	{"home/u/.config/google-chrome/Default/Extensions/aapbdbdomjkkjkaonfhkkikfgjllcleb/1.0_0/manifest.json", "", "", "{\"manifest_version\":3,\"name\":\"__MSG_name__\",\"version\":\"1.0\",\"default_locale\":\"en\",\"author\":{\"email\":\"a@b.c\"}}"},
	{"home/u/.config/google-chrome/Default/Extensions/aapbdbdomjkkjkaonfhkkikfgjllcleb/1.0_0/_locales/en/message.json", "", "", "{\"name\":{\"message\":\"Ext\"}}"},
	{"var/lib/containerd/io.containerd.metadata.v1.bolt/meta.db", "containers/containerd/testdata", "meta_linux_test_single.db", ""},
	{"var/lib/containerd/io.containerd.snapshotter.v1.overlayfs/metadata.db", "containers/containerd/testdata", "metadata_linux_test.db", ""},
	{"var/lib/containerd/io.containerd.grpc.v1.cri/containers/b47fb93b51d091e16ae145b8b1438e5c011fd68cd65305fcd42fd83a13da7a8c/status", "", "", "{\"Pid\":8915,\"CreatedAt\":1700000000,\"StartedAt\":1700000001,\"Message\":\"\"}"},
	{"usr/lib/python3/dist-packages/x-1.0.dist-info/METADATA", "language/python/wheelegg/testdata", "distinfo_meta", ""},
	{"usr/lib/python3/dist-packages/y-1.0.egg-info/PKG-INFO", "language/python/wheelegg/testdata", "pkginfo", ""},
	{"usr/lib/python3/dist-packages/monotonic-1.6-py3.10.egg", "language/python/wheelegg/testdata", "monotonic-1.6", ""},
	{"app/requirements.txt", "", "", "-r other-requirements.txt\nrequests==2.31.0\n"},
	{"app/other-requirements.txt", "", "", "flask==3.0.0\n"},
	{"app/poetry.lock", "language/python/poetrylock/testdata", "", ""},
	{"app/Pipfile.lock", "language/python/pipfilelock/testdata", "", ""},
	{"app/pdm.lock", "language/python/pdmlock/testdata", "", ""},
	{"app/uv.lock", "language/python/uvlock/testdata", "", ""},
	{"app/setup.py", "language/python/setup/testdata", "", ""},
	{"app/lib/a.jar", "language/java/archive/testdata", "complex.jar", ""},
	{"app/lib/b.jar", "language/java/archive/testdata", "invalid_jar", ""},
	{"app/pom.xml", "language/java/pomxml/testdata", "", ""},
	{"app/gradle.lockfile", "language/java/gradlelockfile/testdata", "", ""},
	{"app/gradle/verification-metadata.xml", "language/java/gradleverificationmetadataxml/testdata", "", ""},
	{"usr/bin/gobin", "language/golang/gobinary/testdata", "linux-amd64", ""},
	{"app/go.mod", "language/golang/gomod/testdata", "=indirect-1.16.mod", ""},
	{"app/go.sum", "language/golang/gomod/testdata", "=indirect-1.16.sum", ""},
	{"app/HelloWorldApp.dll", "language/dotnet/dotnetpe/testdata", "HelloWorldApp.dll", ""},
	{"app/Invalid.dll", "language/dotnet/dotnetpe/testdata", "Invalid.dll", ""},
	{"app/packages.lock.json", "language/dotnet/packageslockjson/testdata", "", ""},
	{"app/x.deps.json", "language/dotnet/depsjson/testdata", "", ""},
	{"app/package.json", "language/javascript/packagejson/testdata", "", ""},
	{"app/node_modules/x/package.json", "language/javascript/packagejson/testdata", "", ""},
	{"app/package-lock.json", "language/javascript/packagelockjson/testdata", "", ""},
	{"app/yarn.lock", "language/javascript/yarnlock/testdata", "", ""},
	{"app/pnpm-lock.yaml", "language/javascript/pnpmlock/testdata", "", ""},
	{"app/bun.lock", "language/javascript/bunlock/testdata", "", ""},
	{"app/Cargo.lock", "language/rust/cargolock/testdata", "", ""},
	{"app/Cargo.toml", "language/rust/cargotoml/testdata", "", ""},
	{"app/Gemfile.lock", "language/ruby/gemfilelock/testdata", "", ""},
	{"usr/lib/ruby/gems/specifications/x-1.0.gemspec", "language/ruby/gemspec/testdata", "", ""},
	{"app/composer.lock", "language/php/composerlock/testdata", "", ""},
	{"app/pubspec.lock", "language/dart/pubspec/testdata", "", ""},
	{"app/mix.lock", "language/erlang/mixlock/testdata", "", ""},
	{"app/stack.yaml.lock", "language/haskell/stacklock/testdata", "", ""},
	{"app/cabal.project.freeze", "language/haskell/cabal/testdata", "", ""},
	{"app/renv.lock", "language/r/renvlock/testdata", "", ""},
	{"app/Package.resolved", "language/swift/packageresolved/testdata", "", ""},
	{"app/Podfile.lock", "language/swift/podfilelock/testdata", "", ""},
	{"app/conan.lock", "language/cpp/conanlock/testdata", "", ""},
	{"app/sbom.spdx.json", "sbom/spdx/testdata", "sbom.spdx.json", ""},
	{"app/sbom.cdx.json", "sbom/cdx/testdata", "sbom.cdx.json", ""},
	{"usr/lib/modules/6.1/kernel/x.ko", "os/kernel/module/testdata", "", ""},
	{"boot/vmlinuz-6.1", "os/kernel/vmlinuz/testdata", "", ""},
	{"opt/conda/conda-meta/x-1.0-0.json", "language/python/condameta/testdata", "", ""},
	{"home/u/.vscode/extensions/extensions.json", "misc/vscodeextensions/testdata", "", ""},
	{"var/www/wp-content/plugins/x/x.php", "misc/wordpress/plugins/testdata", "", ""},
	// a file WITH the PE magic (MZ … PE\0\0), otherwise garbage: the .NET PE extractor goes all the way to GetRealPath and its
	// clean-up with it, also on the virtual route (fix 01c65931: the clean-up removed "file" in the working directory)
	{"app/Magic.dll", "", "", "#pe"},
	{"app/Magic.exe", "", "", "#pe"},
	// a real .exe (no CLR tables: the extractor falls back to the version resources) and the state file of a Windows (runhcs) container
	{"app/HelloWorldApp.exe", "language/dotnet/dotnetpe/testdata", "HelloWorldApp.exe", ""},
	{"ProgramData/containerd/state/io.containerd.runtime.v2.task/default/test_pod/shim.pid", "", "", "4242\n"},
}

// other VALID contents of a production file (variants 7, 8: the first, the second alternative; without one they mean 0)
var altSpecs = map[string][]spec{
	"var/lib/containerd/io.containerd.metadata.v1.bolt/meta.db": {{"", "containers/containerd/testdata", "meta_windows.db", ""}},
	"var/lib/containerd/io.containerd.grpc.v1.cri/containers/b47fb93b51d091e16ae145b8b1438e5c011fd68cd65305fcd42fd83a13da7a8c/status": {
		{"", "", "", "{\"Pid\":\"not a number\"}"}, {"", "", "", "{\"State\":\"running\"}"}},
	"ProgramData/containerd/state/io.containerd.runtime.v2.task/default/test_pod/shim.pid": {{"", "", "", "not a number\n"}},
	"etc/os-release":     {{"", "", "", "ID=rhel\nBUILD_ID=20240101\n"}, {"", "", "", "ID=rocky\nVERSION_ID=\"9.3\"\n"}},
	"usr/lib/os-release": {{"", "", "", "NAME=x\n"}},
}
var alts [][][]byte

// group: an extractor's primary file and the auxiliary files it opens (or that its database library looks for) itself
type group struct {
	name    string
	primary string
	aux     []string
}

var groups = []group{
	{"containerd", "var/lib/containerd/io.containerd.metadata.v1.bolt/meta.db", []string{
		"var/lib/containerd/io.containerd.snapshotter.v1.overlayfs/metadata.db",
		"var/lib/containerd/io.containerd.grpc.v1.cri/containers/b47fb93b51d091e16ae145b8b1438e5c011fd68cd65305fcd42fd83a13da7a8c/status"}},
	{"rpm-sqlite-wal", "usr/lib/sysimage/rpm/rpmdb.sqlite", []string{"usr/lib/sysimage/rpm/rpmdb.sqlite-wal", "usr/lib/sysimage/rpm/rpmdb.sqlite-shm", "etc/os-release"}},
	{"rpm-sqlite-journal", "var/lib/rpm/rpmdb.sqlite", []string{"var/lib/rpm/rpmdb.sqlite-journal"}},
	{"rpm-bdb", "usr/share/rpm/Packages", []string{"usr/share/rpm/__db.001", "usr/share/rpm/.dbenv.lock", "usr/share/rpm/.rpm.lock", "usr/share/rpm/Packages-journal"}},
	{"rpm-ndb", "usr/share/rpm/Packages.db", []string{"usr/share/rpm/.rpm.lock"}},
	{"gomod", "app/go.mod", []string{"app/go.sum"}},
	{"requirements", "app/requirements.txt", []string{"app/other-requirements.txt"}},
	{"chrome-extension", "home/u/.config/google-chrome/Default/Extensions/aapbdbdomjkkjkaonfhkkikfgjllcleb/1.0_0/manifest.json",
		[]string{"home/u/.config/google-chrome/Default/Extensions/aapbdbdomjkkjkaonfhkkikfgjllcleb/1.0_0/_locales/en/message.json"}},
	{"os-release", "var/lib/dpkg/status", []string{"etc/os-release", "usr/lib/os-release"}},
}

// groups that only run under another OS profile: name, primary, routes
var osGroups = []struct {
	primary string
	routes  string
}{
	{"app/Magic.dll", "wx"},
	{"app/Magic.exe", "wx"},
	{"app/HelloWorldApp.dll", "wx"},
	{"app/HelloWorldApp.exe", "wx"},
}

func repoRoot() string {
	if r := os.Getenv("VERIF_REPO"); r != "" {
		return r
	}
	return "/repo"
}

func fixture(s spec) []byte {
	if s.dir == "" {
		return []byte(s.literal)
	}
	var best []byte
	_ = filepath.WalkDir(filepath.Join(repoRoot(), "extractor/filesystem", s.dir), func(p string, d fs.DirEntry, err error) error {
		if err != nil || d.IsDir() || best != nil {
			return nil
		}
		b := filepath.Base(p)
		if strings.HasPrefix(s.hint, "=") {
			if b != s.hint[1:] {
				return nil
			}
		} else if s.hint != "" && !strings.Contains(b, s.hint) {
			return nil
		}
		fi, e := d.Info()
		if e != nil || !fi.Mode().IsRegular() || fi.Size() > 4<<20 {
			return nil
		}
		if c, e := os.ReadFile(p); e == nil {
			best = c
		}
		return nil
	})
	if best == nil {
		best = []byte("fixture not found\n")
	}
	return best
}

// walTrio makes an SQLite database in WAL mode whose last transaction still sits in the -wal file (what a machine
// snapshot taken while rpm runs, or after a crash, looks like), from a copy of the rpm fixture.
func walTrio(base string, rpmdb []byte) (db, wal, shm []byte) {
	dir := filepath.Join(base, "walgen")
	must(os.MkdirAll(dir, 0o755))
	defer os.RemoveAll(dir)
	p := filepath.Join(dir, "x.sqlite")
	must(os.WriteFile(p, rpmdb, 0o644))
	h, err := sql.Open("sqlite3", "file:"+p+"?_journal_mode=WAL")
	must(err)
	h.SetMaxOpenConns(1)
	for _, q := range []string{"PRAGMA wal_autocheckpoint=0", "CREATE TABLE IF NOT EXISTS verif_t(a)", "INSERT INTO verif_t VALUES (1)"} {
		_, err = h.Exec(q)
		must(err)
	}
	db, err = os.ReadFile(p)
	must(err)
	wal, err = os.ReadFile(p + "-wal")
	must(err)
	shm, err = os.ReadFile(p + "-shm")
	must(err)
	h.Close()
	return
}

// hotPair: an SQLite rpm database in rollback-journal mode (what rpm uses where shared memory is not available) in the state an
// interrupted or concurrently copied transaction leaves: the database file holds uncommitted pages, the journal beside it is HOT
// (valid header, page records): whoever opens the database read-write rolls it back in place and deletes the journal.
func hotPair(base string, rpmdb []byte) (db, journal []byte) {
	dir := filepath.Join(base, "hotgen")
	must(os.MkdirAll(dir, 0o755))
	defer os.RemoveAll(dir)
	p := filepath.Join(dir, "x.sqlite")
	must(os.WriteFile(p, rpmdb, 0o644))
	h, err := sql.Open("sqlite3", "file:"+p+"?_journal_mode=DELETE")
	must(err)
	defer h.Close()
	h.SetMaxOpenConns(1)
	ex := func(q string, args ...any) {
		_, err := h.Exec(q, args...)
		must(err)
	}
	ex("CREATE TABLE IF NOT EXISTS Filler (id INTEGER PRIMARY KEY, data BLOB)")
	for i := 0; i < 50; i++ {
		ex("INSERT INTO Filler (data) VALUES (?)", bytes.Repeat([]byte{byte(i)}, 3000))
	}
	// a tiny page cache makes the open transaction spill modified pages into the database file, after syncing the journal header
	ex("PRAGMA cache_size=2")
	ex("BEGIN IMMEDIATE")
	ex("UPDATE Filler SET data = zeroblob(3000)")
	db, err = os.ReadFile(p)
	must(err)
	journal, err = os.ReadFile(p + "-journal")
	must(err)
	ex("ROLLBACK")
	return
}

// rpmSqlite builds an SQLite rpmdb (table Packages(hnum, blob)) from the header blobs of a Berkeley DB Packages file.
func rpmSqlite(base string, bdbFile []byte) []byte {
	dir := filepath.Join(base, "rpmgen")
	must(os.MkdirAll(dir, 0o755))
	defer os.RemoveAll(dir)
	src := filepath.Join(dir, "Packages")
	must(os.WriteFile(src, bdbFile, 0o644))
	p := filepath.Join(dir, "rpmdb.sqlite")
	h, err := sql.Open("sqlite3", "file:"+p)
	must(err)
	h.SetMaxOpenConns(1)
	_, err = h.Exec("CREATE TABLE Packages (hnum INTEGER PRIMARY KEY AUTOINCREMENT, blob BLOB NOT NULL)")
	must(err)
	if b, err := bdb.Open(src); err == nil {
		for e := range b.Read(context.Background()) {
			if e.Err != nil {
				break
			}
			_, err = h.Exec("INSERT INTO Packages(blob) VALUES (?)", e.Value)
			must(err)
		}
		b.Close()
	}
	must(h.Close())
	out, err := os.ReadFile(p)
	must(err)
	return out
}

// flakyFS: the scan file system of the virtual routes; Read on the files in `fail` returns an I/O error after half the bytes
type flakyFS struct {
	scalibrfs.FS
	fail map[string]int // path -> bytes delivered before the error
}

type flakyFile struct {
	fs.File
	left int
}

var errIO = errors.New("input/output error (injected)")

func (f *flakyFile) Read(b []byte) (int, error) {
	if f.left <= 0 {
		return 0, errIO
	}
	if len(b) > f.left {
		b = b[:f.left]
	}
	n, err := f.File.Read(b)
	f.left -= n
	return n, err
}

// ReadAt / Seek of the underlying file stay reachable for the extractors that ask for them
func (f *flakyFile) ReadAt(b []byte, off int64) (int, error) {
	if r, ok := f.File.(io.ReaderAt); ok {
		if int(off)+len(b) > f.left {
			return 0, errIO
		}
		return r.ReadAt(b, off)
	}
	return 0, errors.New("not a ReaderAt")
}

func (f *flakyFile) Seek(off int64, whence int) (int64, error) {
	if r, ok := f.File.(io.Seeker); ok {
		return r.Seek(off, whence)
	}
	return 0, errors.New("not a Seeker")
}

func (x flakyFS) Open(name string) (fs.File, error) {
	f, err := x.FS.Open(name)
	if err != nil {
		return nil, err
	}
	if n, ok := x.fail[name]; ok {
		return &flakyFile{f, n}, nil
	}
	return f, nil
}

func must(err error) {
	if err != nil {
		panic(err)
	}
}

func snapshot(root string) map[string]string {
	m := map[string]string{}
	_ = filepath.WalkDir(root, func(p string, d fs.DirEntry, err error) error {
		rel, _ := filepath.Rel(root, p)
		if err != nil {
			m[rel] = "ERR"
			return nil
		}
		fi, e := os.Lstat(p)
		if e != nil {
			m[rel] = "ERR"
			return nil
		}
		switch {
		case fi.Mode()&fs.ModeSymlink != 0:
			t, _ := os.Readlink(p)
			m[rel] = fmt.Sprintf("l:%v:%d:%s", fi.Mode(), fi.ModTime().UnixNano(), t)
		case fi.IsDir():
			// a directory's mtime moves when an entry is created and removed again, which by itself does not count
			m[rel] = fmt.Sprintf("d:%v", fi.Mode())
		case !fi.Mode().IsRegular():
			m[rel] = fmt.Sprintf("o:%v", fi.Mode()) // a fifo and the like: never opened
		default:
			b, _ := os.ReadFile(p)
			h := sha256.Sum256(b)
			m[rel] = fmt.Sprintf("f:%v:%d:%d:%s", fi.Mode(), fi.Size(), fi.ModTime().UnixNano(), hex.EncodeToString(h[:8]))
		}
		return nil
	})
	return m
}

func diff(a, b map[string]string) string {
	var out []string
	for k, v := range a {
		if w, ok := b[k]; !ok {
			out = append(out, hx.Hex("removed "+k))
		} else if w != v {
			out = append(out, hx.Hex("changed "+k+" "+v+" -> "+w))
		}
	}
	for k := range b {
		if _, ok := a[k]; !ok {
			out = append(out, hx.Hex("created "+k+" "+b[k]))
		}
	}
	sort.Strings(out)
	return hx.Join(out, ",")
}

var contents [][]byte
var defaults []byte
var base string

func index(path string) int {
	for i, s := range specs {
		if s.path == path {
			return i
		}
	}
	panic("no such file in the table: " + path)
}

func runCase(route byte, seed int64, variants string, id int, profile byte) string {
	if len(variants) < len(specs) && len(variants) >= 74 {
		variants += string(defaults[len(variants):]) // a case line written before the table grew: the new files in their default state
	}
	if len(variants) != len(specs) {
		return "bad-case"
	}
	// bbolt maps the database file: a truncated meta.db / metadata.db makes the containerd extractor read past the mapping, a
	// fault that kills the process (seen about once in ten runs, depending on the memory layout). Turn it into a panic the
	// harness recovers and reports as status=panic (a C02 matter) instead of losing the whole stream.
	defer debug.SetPanicOnFault(debug.SetPanicOnFault(true))
	cr := rand.New(rand.NewSource(seed))
	root := filepath.Join(base, fmt.Sprintf("s%d", id))
	tree, tmp, cwd, outside := filepath.Join(root, "tree"), filepath.Join(root, "tmp"), filepath.Join(root, "cwd"), filepath.Join(root, "outside")
	for _, d := range []string{tree, tmp, cwd, outside} {
		must(os.MkdirAll(d, 0o755))
	}
	defer os.RemoveAll(root)
	flaky := map[string]int{}
	for k, s := range specs {
		b := contents[k]
		switch variants[k] {
		case '0':
		case '6':
			flaky[s.path] = len(b) / 2
		case '9':
			must(os.MkdirAll(filepath.Join(tree, filepath.FromSlash(s.path)), 0o755))
			continue
		case '7', '8':
			if k := int(variants[k] - '7'); k < len(alts[index(s.path)]) {
				b = alts[index(s.path)][k]
			}
		case '1':
			b = nil
		case '2':
			b = b[:len(b)/2]
		case '3':
			c := make([]byte, len(b))
			cr.Read(c)
			b = c
		case '4':
			c := append([]byte{}, b...)
			if len(c) > 8 {
				at := cr.Intn(len(c) - 8)
				cr.Read(c[at : at+8])
			}
			b = c
		default:
			continue // missing
		}
		p := filepath.Join(tree, filepath.FromSlash(s.path))
		must(os.MkdirAll(filepath.Dir(p), 0o755))
		if profile == '2' && cr.Intn(3) == 0 {
			// the production path is a symbolic link to the file, which lives outside the scanned tree
			o := filepath.Join(outside, fmt.Sprintf("f%d-%s", k, filepath.Base(s.path)))
			must(os.WriteFile(o, b, 0o644))
			must(os.Symlink(o, p))
			continue
		}
		must(os.WriteFile(p, b, 0o644))
	}
	switch profile {
	case '1', '4':
		// a symbolic link and a fifo in the tree while ReadSymlinks is off
		must(os.MkdirAll(filepath.Join(tree, "app"), 0o755))
		must(os.Symlink("requirements.txt", filepath.Join(tree, "app", "dev-requirements.txt")))
		_ = syscall.Mkfifo(filepath.Join(tree, "app", "pipe.lock"), 0o644)
		must(os.WriteFile(filepath.Join(tree, ".gitignore"), []byte("node_modules\n*.jar\n/boot\n"), 0o644))
		must(os.MkdirAll(filepath.Join(tree, "app"), 0o755))
		must(os.WriteFile(filepath.Join(tree, "app", ".gitignore"), []byte("Cargo.*\n!Cargo.lock\nlib/\n"), 0o644))
	case '2':
		must(os.MkdirAll(filepath.Join(tree, "app", "lib"), 0o755))
		must(os.Symlink("/nonexistent/verif/x.jar", filepath.Join(tree, "app", "lib", "dangling.jar")))
		must(os.Symlink(outside, filepath.Join(tree, "app", "outside-dir")))
	}
	orig, _ := os.Getwd()
	os.Setenv("TMPDIR", tmp)
	os.Setenv("SQLITE_TMPDIR", tmp)
	must(os.Chdir(cwd))
	defer os.Chdir(orig)
	before, tb, cb, ob := snapshot(tree), snapshot(tmp), snapshot(cwd), snapshot(outside)
	// routes: r/v = Linux capabilities, real directory root / virtual FS; w/x = Windows, m/n = macOS likewise (extractors that
	// require another OS, e.g. the .NET PE one, only run under that profile; their code is plain file parsing)
	osCap, real := plugin.OSLinux, route == 'r'
	switch route {
	case 'w', 'x':
		osCap, real = plugin.OSWindows, route == 'w'
	case 'm', 'n':
		osCap, real = plugin.OSMac, route == 'm'
	}
	caps := &plugin.Capabilities{OS: osCap, Network: plugin.NetworkOffline, DirectFS: real, RunningSystem: false}
	roots := scalibrfs.RealFSScanRoots(tree)
	if !real {
		roots = []*scalibrfs.ScanRoot{{FS: flakyFS{scalibrfs.DirFS(tree), flaky}, Path: ""}}
	}
	exs := list.FromCapabilities(caps)
	cfg := &scalibr.ScanConfig{FilesystemExtractors: exs, Capabilities: caps, ScanRoots: roots}
	in := func(ps ...string) []string {
		var out []string
		for _, q := range ps {
			out = append(out, filepath.Join(tree, filepath.FromSlash(q)))
		}
		return out
	}
	switch profile {
	case '1':
		cfg.PathsToExtract = in("app", "var/lib/dpkg/status", "usr/lib/sysimage/rpm", "var/lib/containerd", "usr/share/rpm", "no/such/path")
		cfg.UseGitignore = true
		cfg.SkipDirGlob = glob.MustCompile("**/node_modules")
		cfg.SkipDirRegex = regexp.MustCompile("gradle$")
	case '2':
		cfg.ReadSymlinks, cfg.StoreAbsolutePath, cfg.MaxFileSize = true, true, 2048
	case '3':
		cfg.PathsToExtract, cfg.IgnoreSubDirs = in("app", "var/lib/rpm", "usr/share/rpm"), true
		cfg.DirsToSkip = in("app/lib")
		cfg.SkipDirGlob = glob.MustCompile("**/node_modules")
		cfg.SkipDirRegex = regexp.MustCompile("gradle$")
		cfg.ErrorOnFSErrors = true
	case '4':
		cfg.MaxInodes, cfg.UseGitignore = 25, true
	case '7':
		os.Setenv("TMPDIR", filepath.Join(tmp, "missing"))
		os.Setenv("SQLITE_TMPDIR", filepath.Join(tmp, "missing"))
	case '8':
		cfg.FilesystemExtractors = nil
	case '9':
		cfg.PathsToExtract = append(in("app"), "/etc")
	case '5', '6':
		var lim int64
		mdb := containerd.DefaultConfig().MaxMetaDBFileSize
		if profile == '6' {
			lim, mdb = 4096, 1000
		}
		repl := map[string]filesystem.Extractor{
			rpm.Name:        rpm.New(rpm.Config{Stats: stats.NoopCollector{}, MaxFileSizeBytes: lim, Timeout: 0}),
			dotnetpe.Name:   dotnetpe.New(dotnetpe.Config{Stats: stats.NoopCollector{}, MaxFileSizeBytes: lim}),
			containerd.Name: containerd.New(containerd.Config{MaxMetaDBFileSize: mdb}),
		}
		var out []filesystem.Extractor
		for _, e := range exs {
			if r, ok := repl[e.Name()]; ok {
				e = r
			}
			out = append(out, e)
		}
		cfg.FilesystemExtractors = out
		cfg.Stats = stats.NoopCollector{}
	}
	status, pkgs, pmsg := "ok", 0, "-"
	func() {
		defer func() {
			if e := recover(); e != nil {
				status = "panic"
				m := fmt.Sprint(e)
				if len(m) > 120 {
					m = m[:120]
				}
				pmsg = hx.Hex(m)
			}
		}()
		ctx := context.Background()
		if profile == '9' && seed%2 == 0 {
			c2, cancel := context.WithCancel(ctx)
			cancel()
			ctx = c2
			cfg.PathsToExtract = nil
		}
		res := scalibr.New().Scan(ctx, cfg)
		if res.Status == nil || res.Status.Status != plugin.ScanStatusSucceeded {
			status = "failed"
		}
		pkgs = len(res.Inventory.Packages)
	}()
	after, ta, ca, oa := snapshot(tree), snapshot(tmp), snapshot(cwd), snapshot(outside)
	return fmt.Sprintf("status=%s ext=%d pkgs=%d diff=%s tmp=%s cwd=%s out=%s panic=%s", status, len(exs), pkgs, diff(before, after), diff(tb, ta), diff(cb, ca), diff(ob, oa), pmsg)
}

func main() {
	o := hx.Parse()
	log.SetLogger(nopLogger{})
	out := hx.NewOut()
	os.Stdout = os.Stderr // libraries under scan (the PE parser) print to os.Stdout; the protocol stream keeps the real one
	defer out.Flush()
	var err error
	base, err = os.MkdirTemp("", "c06scan-*")
	must(err)
	defer os.RemoveAll(base)
	contents = make([][]byte, len(specs))
	defaults = make([]byte, len(specs))
	for i, s := range specs {
		defaults[i] = '0'
		if strings.HasPrefix(s.literal, "#") {
			if s.literal == "#missing" || s.literal == "#hot-journal" {
				defaults[i] = '5'
				contents[i] = []byte("\xd9\xd5\x05\xf9\x20\xa1\x63\xd7 stand-in for a rollback journal\n")
			}
			if s.literal == "#pe" {
				b := make([]byte, 1024)
				for k := range b {
					b[k] = byte(k*7 + 3)
				}
				copy(b, "MZ")
				b[0x3c], b[0x3d], b[0x3e], b[0x3f] = 0x80, 0, 0, 0
				copy(b[0x80:], "PE\x00\x00")
				contents[i] = b
			}
			if s.literal == "#wal-wal" || s.literal == "#wal-shm" {
				defaults[i] = '5' // absent in the pristine tree: the groups put them there
			}
			continue
		}
		contents[i] = fixture(s)
	}
	alts = make([][][]byte, len(specs))
	for i, s := range specs {
		for _, a := range altSpecs[s.path] {
			alts[i] = append(alts[i], fixture(a))
		}
	}
	contents[index("var/lib/rpm/rpmdb.sqlite")] = rpmSqlite(base, contents[index("usr/share/rpm/Packages")])
	hotDB, hotJ := hotPair(base, contents[index("var/lib/rpm/rpmdb.sqlite")])
	contents[index("var/lib/rpm/rpmdb.sqlite-journal")] = hotJ
	contents[index("usr/share/rpm/Packages-journal")] = hotJ
	// variant 7 of the two rollback-mode databases: the state that goes with the hot journal (for Packages: an SQLite-format file
	// under the Berkeley DB name, which go-rpmdb recognises by its magic bytes)
	alts[index("var/lib/rpm/rpmdb.sqlite")] = [][]byte{hotDB}
	alts[index("usr/share/rpm/Packages")] = [][]byte{hotDB, contents[index("var/lib/rpm/rpmdb.sqlite")]}
	db, wal, shm := walTrio(base, contents[index("var/lib/rpm/rpmdb.sqlite")])
	contents[index("usr/lib/sysimage/rpm/rpmdb.sqlite")] = db
	contents[index("usr/lib/sysimage/rpm/rpmdb.sqlite-wal")] = wal
	contents[index("usr/lib/sysimage/rpm/rpmdb.sqlite-shm")] = shm

	id := 0
	emitP := func(route byte, seed int64, variants string, profile byte) {
		id++
		line := fmt.Sprintf("scan %c %d %s", route, seed, variants)
		if profile != '0' {
			line += " " + string(profile)
		}
		out.Emit(line, runCase(route, seed, variants, id, profile))
	}
	emit := func(route byte, seed int64, variants string) { emitP(route, seed, variants, '0') }
	if o.Replay != "" {
		for _, l := range hx.ReplayLines(o.Replay) {
			t := strings.Split(l, " ")
			if (len(t) != 4 && len(t) != 5) || t[0] != "scan" || len(t[1]) != 1 {
				panic("bad case line " + l)
			}
			seed, err := strconv.ParseInt(t[2], 10, 64)
			must(err)
			prof := byte('0')
			if len(t) == 5 {
				prof = t[4][0]
			}
			emitP(t[1][0], seed, t[3], prof)
		}
		return
	}
	if o.Tier == "list" { // the file table and the groups, for the evidence
		for i, s := range specs {
			fmt.Printf("file %d %s default=%c\n", i, s.path, defaults[i])
		}
		for _, g := range groups {
			fmt.Printf("group %s primary=%s aux=%s\n", g.name, g.primary, strings.Join(g.aux, ","))
		}
		return
	}
	with := func(changes map[int]byte) string {
		v := append([]byte{}, defaults...)
		for k, c := range changes {
			v[k] = c
		}
		return string(v)
	}
	for _, route := range []byte{'r', 'v'} {
		emit(route, 1, with(nil)) // the pristine tree
		for _, g := range groups {
			p := index(g.primary)
			for _, a := range g.aux {
				ai := index(a)
				for _, c := range []byte{'0', '1', '2', '3', '5'} {
					if c == defaults[ai] {
						continue // that is the pristine tree
					}
					emit(route, int64(ai)*7+int64(c), with(map[int]byte{ai: c}))
				}
			}
			for _, c := range []byte{'1', '2', '3'} {
				ch := map[int]byte{p: c}
				for _, a := range g.aux { // auxiliaries valid (also those absent by default)
					ch[index(a)] = '0'
				}
				emit(route, int64(p)*11+int64(c), with(ch))
			}
			// every auxiliary present and valid next to a valid primary
			ch := map[int]byte{}
			for _, a := range g.aux {
				ch[index(a)] = '0'
			}
			emit(route, 3, with(ch))
		}
	}
	for _, route := range []byte("wxmn") {
		emit(route, 1, with(nil)) // the pristine tree under the other OS profiles
	}
	for _, g := range osGroups {
		for _, route := range []byte(g.routes) {
			for _, c := range []byte{'1', '2', '3', '4'} {
				emit(route, int64(c), with(map[int]byte{index(g.primary): c}))
			}
		}
	}
	// every file that an extractor copies out of a virtual file system (GetRealPath: rpm databases, PE files), and a few others,
	// with a read error half-way, one at a time; then all of them at once
	var all6 = map[int]byte{}
	for _, q := range []string{"usr/share/rpm/Packages", "usr/share/rpm/Packages.db", "var/lib/rpm/rpmdb.sqlite", "usr/lib/sysimage/rpm/rpmdb.sqlite",
		"app/HelloWorldApp.dll", "app/Magic.dll", "app/Magic.exe", "app/lib/a.jar", "usr/bin/gobin", "var/lib/dpkg/status", "app/package-lock.json"} {
		k := index(q)
		all6[k] = '6'
		for _, route := range []byte("vx") {
			emit(route, 6, with(map[int]byte{k: '6'}))
		}
	}
	emit('v', 66, with(all6))
	emit('x', 66, with(all6))
	// rollback-mode databases with a genuine hot journal beside them, under both names; a stale journal beside a clean database
	for _, route := range []byte("rv") {
		for _, pr := range [][2]string{{"var/lib/rpm/rpmdb.sqlite", "var/lib/rpm/rpmdb.sqlite-journal"}, {"usr/share/rpm/Packages", "usr/share/rpm/Packages-journal"}} {
			emit(route, 70, with(map[int]byte{index(pr[0]): '7', index(pr[1]): '0'}))
			emit(route, 71, with(map[int]byte{index(pr[0]): '7'}))
			emit(route, 72, with(map[int]byte{index(pr[1]): '0'}))
		}
		emit(route, 73, with(map[int]byte{index("usr/share/rpm/Packages"): '8', index("usr/share/rpm/Packages-journal"): '0'}))
	}
	// a directory where a database or one of its side files is expected
	for _, q := range []string{"usr/lib/sysimage/rpm/rpmdb.sqlite-wal", "usr/lib/sysimage/rpm/rpmdb.sqlite-shm", "var/lib/rpm/rpmdb.sqlite-journal", "var/lib/rpm/rpmdb.sqlite",
		"usr/share/rpm/Packages", "var/lib/containerd/io.containerd.snapshotter.v1.overlayfs/metadata.db", "app/Magic.dll"} {
		for _, route := range []byte("rv") {
			emit(route, 9, with(map[int]byte{index(q): '9'}))
		}
	}
	// the alternative valid contents, one at a time and the containerd ones together
	for i := range specs {
		for a := range alts[i] {
			for _, route := range []byte("rv") {
				emit(route, 7, with(map[int]byte{i: byte('7' + a)}))
			}
		}
	}
	emit('r', 78, with(map[int]byte{index("var/lib/containerd/io.containerd.metadata.v1.bolt/meta.db"): '7',
		index("ProgramData/containerd/state/io.containerd.runtime.v2.task/default/test_pod/shim.pid"): '7'}))
	// the scan options, on the pristine tree and on a damaged one, both kinds of root
	for _, prof := range []byte("123456789") {
		for _, route := range []byte("rvwx") {
			emitP(route, 1, with(nil), prof)
			emitP(route, 2, with(map[int]byte{index("var/lib/rpm/rpmdb.sqlite"): '2', index("usr/lib/sysimage/rpm/rpmdb.sqlite-wal"): '0',
				index("usr/lib/sysimage/rpm/rpmdb.sqlite-shm"): '0', index("app/HelloWorldApp.dll"): '4'}), prof)
		}
	}
	r := hx.Rng(o)
	for i := 0; i < o.N; i++ {
		seed := r.Int63()
		cr := rand.New(rand.NewSource(seed))
		v := make([]byte, len(specs))
		for k := range v {
			v[k] = "00001234556789"[cr.Intn(14)]
		}
		emitP("rvrvwxmn"[i%8], seed, string(v), "0000123456789"[cr.Intn(13)])
	}
}
