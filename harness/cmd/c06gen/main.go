// c06gen: correspondence stream for the unpack half of C06 (unpack.UnpackSquashedFromTarball vs Scalibr.Unpack).
//
// Every case runs in its own sandbox R = <tmp>/case/ with the layout
//
//	R/n/n/…/n (30 levels)/sb/            the sandbox parent that is snapshotted before and after
//	                      sb/target/      the directory handed to the unpacker (empty)
//	                      sb/target-evil/ a sibling whose name has the target's name as a string prefix
//	                      sb/secret       a file that must stay as it is
//
// (30 levels so that no chain of ".."-climbing links built from one tar can leave R.)
//
// Case grammar (see lean/Drivers/C06.lean):   up <entry;entry;...>     entry = <t>:<hexname>:<cid>:<hexlink>, t in r l h d o
// Reply: err=<0|1> pre=<0|1> snap=<items>     items = hexpath=d | hexpath=f<cid> | hexpath=l<hextarget>, sorted, paths relative to R,
// the 30 chain directories left out; absolute link targets have R's own path removed.
package main

import (
	"archive/tar"
	"bytes"
	"fmt"
	"io/fs"
	"math/rand"
	"os"
	"path"
	"path/filepath"
	"sort"
	"strconv"
	"strings"
	"sync"

	"github.com/google/osv-scalibr/artifact/image/require"
	"github.com/google/osv-scalibr/artifact/image/unpack"
	"github.com/google/osv-scalibr/log"

	"verif/harness/hx"
)

type nopLogger struct{}

func (nopLogger) Errorf(string, ...any) {}
func (nopLogger) Error(...any)          {}
func (nopLogger) Warnf(string, ...any)  {}
func (nopLogger) Warn(...any)           {}
func (nopLogger) Infof(string, ...any)  {}
func (nopLogger) Info(...any)           {}
func (nopLogger) Debugf(string, ...any) {}
func (nopLogger) Debug(...any)          {}

const depth = 30

var chainPrefix = strings.Repeat("n/", depth)

type ent struct {
	typ  byte // r l h d o
	name string
	cid  int
	link string
}

// ucfg: an UnpackerConfig and a requirer (req = "A" all, "N" none, "P" the path strings in `paths`; @D@ = the unpack directory)
type ucfg struct {
	cut               int // >= 0: the tarball is cut inside this entry (a regular file: after the first byte of its body; else inside the header)
	retain, errReturn bool
	maxPass, maxBytes int64
	req               byte
	paths             []string
}

var defaultCfg = ucfg{cut: -1, retain: true, maxPass: 3, maxBytes: unpack.DefaultMaxFileBytes, req: 'A'}

func (c ucfg) isDefault() bool {
	return c.cut < 0 && c.retain && !c.errReturn && c.maxPass == 3 && c.maxBytes == unpack.DefaultMaxFileBytes && c.req == 'A'
}

func line(c ucfg, es []ent) string {
	xs := make([]string, len(es))
	for i, e := range es {
		xs[i] = fmt.Sprintf("%c:%s:%d:%s", e.typ, hx.Hex(e.name), e.cid, hx.Hex(e.link))
	}
	if c.isDefault() {
		return "up " + hx.Join(xs, ";")
	}
	req := string(c.req)
	if c.req == 'P' {
		hs := make([]string, len(c.paths))
		for i, q := range c.paths {
			hs[i] = hx.Hex(q)
		}
		req += strings.Join(hs, ",")
	}
	if c.cut >= 0 {
		return fmt.Sprintf("upx %d %s,%s,%d,%d %s %s", c.cut, hx.B(c.retain), hx.B(c.errReturn), c.maxPass, c.maxBytes, req, hx.Join(xs, ";"))
	}
	return fmt.Sprintf("upc %s,%s,%d,%d %s %s", hx.B(c.retain), hx.B(c.errReturn), c.maxPass, c.maxBytes, req, hx.Join(xs, ";"))
}

func must(err error) {
	if err != nil {
		panic(err)
	}
}

func parse(l string) (ucfg, []ent) {
	t := strings.Split(l, " ")
	c := defaultCfg
	switch {
	case len(t) == 2 && t[0] == "up":
	case (len(t) == 4 && t[0] == "upc") || (len(t) == 5 && t[0] == "upx"):
		if t[0] == "upx" {
			k, err := strconv.Atoi(t[1])
			must(err)
			c.cut = k
			t = t[1:]
		}
		f := strings.Split(t[1], ",")
		if len(f) != 4 {
			panic("bad config " + t[1])
		}
		c.retain, c.errReturn = f[0] == "1", f[1] == "1"
		var err error
		c.maxPass, err = strconv.ParseInt(f[2], 10, 64)
		must(err)
		c.maxBytes, err = strconv.ParseInt(f[3], 10, 64)
		must(err)
		c.req = t[2][0]
		if c.req == 'P' && len(t[2]) > 1 {
			for _, h := range strings.Split(t[2][1:], ",") {
				c.paths = append(c.paths, hx.UnHex(h))
			}
		}
		t = []string{"up", t[3]}
	default:
		panic("bad case line " + l)
	}
	var es []ent
	if t[1] == "-" {
		return c, es
	}
	for _, s := range strings.Split(t[1], ";") {
		f := strings.Split(s, ":")
		if len(f) != 4 {
			panic("bad entry " + s)
		}
		cid, err := strconv.Atoi(f[2])
		must(err)
		es = append(es, ent{typ: f[0][0], name: hx.UnHex(f[1]), cid: cid, link: hx.UnHex(f[3])})
	}
	return c, es
}

func snapshot(root string) []string {
	chain := map[string]bool{}
	p := ""
	for i := 0; i < depth; i++ {
		if p == "" {
			p = "n"
		} else {
			p += "/n"
		}
		chain[p] = true
	}
	var items []string
	_ = filepath.WalkDir(root, func(q string, d fs.DirEntry, err error) error {
		if q == root {
			return nil
		}
		rel := filepath.ToSlash(strings.TrimPrefix(q, root+"/"))
		full := rel
		if strings.HasPrefix(rel, chainPrefix) {
			rel = "@/" + strings.TrimPrefix(rel, chainPrefix)
		}
		if err != nil {
			items = append(items, hx.Hex(rel)+"=ERR")
			return nil
		}
		if chain[full] {
			return nil
		}
		switch {
		case d.Type()&fs.ModeSymlink != 0:
			t, _ := os.Readlink(q)
			if strings.HasPrefix(t, root+"/"+chainPrefix) {
				t = "/@/" + strings.TrimPrefix(t, root+"/"+chainPrefix)
			} else if strings.HasPrefix(t, root) {
				t = strings.TrimPrefix(t, root)
			}
			// a target built from the unpack directory's own path carries the sandbox root a second time: make it symbolic
			t = strings.ReplaceAll(t, strings.TrimPrefix(root, "/"), "@R@")
			items = append(items, hx.Hex(rel)+"=l"+hx.Hex(t))
		case d.IsDir():
			items = append(items, hx.Hex(rel)+"=d")
		default:
			b, _ := os.ReadFile(q)
			items = append(items, hx.Hex(rel)+"=f"+strings.TrimPrefix(string(b), "c"))
		}
		return nil
	})
	sort.Strings(items)
	return items
}

var base string
var caseSeq int
var seqMu sync.Mutex

func run(c ucfg, es []ent) string {
	return hx.Guard(func() string {
		seqMu.Lock()
		caseSeq++
		id := caseSeq
		seqMu.Unlock()
		root := filepath.Join(base, fmt.Sprintf("c%d", id))
		sb := root
		for i := 0; i < depth; i++ {
			sb = filepath.Join(sb, "n")
		}
		sb = filepath.Join(sb, "sb")
		target := filepath.Join(sb, "target")
		must(os.MkdirAll(target, 0o755))
		must(os.MkdirAll(filepath.Join(sb, "target-evil"), 0o755))
		must(os.WriteFile(filepath.Join(sb, "secret"), []byte("c0"), 0o644))
		defer os.RemoveAll(root)
		pre := snapshot(root)

		var buf bytes.Buffer
		tw := tar.NewWriter(&buf)
		cutAt := -1
		for k, e := range es {
			// @D@ in a link text stands for the actual unpack directory, @d@ for the same without its leading slash
			e.link = strings.ReplaceAll(strings.ReplaceAll(e.link, "@D@", target), "@d@", strings.TrimPrefix(target, "/"))
			h, body := header(e)
			if k == c.cut {
				must(tw.Flush())
				cutAt = buf.Len() + 200
				if body != nil {
					cutAt = buf.Len() + 512 + 1
				}
			}
			if err := tw.WriteHeader(h); err != nil {
				return "tarerr"
			}
			if body != nil {
				if _, err := tw.Write(body); err != nil {
					return "tarerr"
				}
			}
		}
		must(tw.Close())
		tarBytes := buf.Bytes()
		if cutAt >= 0 && cutAt < len(tarBytes) {
			tarBytes = tarBytes[:cutAt]
		}
		// the tarball lives outside the sandbox root
		tp := filepath.Join(base, fmt.Sprintf("c%d.tar", id))
		must(os.WriteFile(tp, tarBytes, 0o644))
		defer os.Remove(tp)
		cfg := unpack.DefaultUnpackerConfig().WithMaxPass(int(c.maxPass)).WithMaxFileBytes(c.maxBytes)
		if !c.retain {
			cfg = cfg.WithSymlinkResolution(unpack.SymlinkIgnore)
		}
		if c.errReturn {
			cfg.SymlinkErrStrategy = unpack.SymlinkErrReturn
		}
		switch c.req {
		case 'N':
			cfg = cfg.WithRequirer(&require.FileRequirerNone{})
		case 'P':
			ps := make([]string, len(c.paths))
			for i, q := range c.paths {
				ps[i] = strings.ReplaceAll(q, "@D@", target)
			}
			cfg = cfg.WithRequirer(require.NewFileRequirerPaths(ps))
		}
		u, err := unpack.NewUnpacker(cfg)
		must(err)
		uerr := u.UnpackSquashedFromTarball(target, tp)
		post := snapshot(root)
		want := []string{hx.Hex("@/sb") + "=d", hx.Hex("@/sb/secret") + "=f0", hx.Hex("@/sb/target") + "=d", hx.Hex("@/sb/target-evil") + "=d"}
		sort.Strings(want)
		preOK := strings.Join(pre, ",") == strings.Join(want, ",")
		return fmt.Sprintf("err=%s pre=%s snap=%s", hx.B(uerr != nil), hx.B(preOK), hx.Join(post, ","))
	})
}

// ---------------------------------------------------------------- generator

var plain = []string{"a", "b", "c"}
var longOK = strings.Repeat("k", 200)
var tooLong = strings.Repeat("z", 300)

func seg(r *rand.Rand) string {
	switch x := r.Intn(100); {
	case x < 62:
		return plain[r.Intn(3)]
	case x < 74:
		return ".."
	case x < 80:
		return "."
	case x < 84:
		return ""
	case x < 88:
		return "target"
	case x < 92:
		return "target-evil"
	case x < 94:
		return "secret"
	case x < 96:
		return "sb"
	case x < 98:
		return longOK
	default:
		return tooLong
	}
}

// odd spellings the property's quantifier names: several leading slashes, empty and dot segments, dot-dot right
// after the root, a trailing slash
var oddSpellings = []string{"//..", "//../target-evil", "//../x", "///", "/./..", "/./../x", "//", "/.", "./..", "./../x", "a//b", "a/./b",
	"/a//b", "//a", "///a/b", "a/", "/a/", "a/b/", ".//a", "/..", "/../x", "//../..", "/.//..", "a/..//..", "./", "//.//..//"}

func mkPath(r *rand.Rand, maxLen int, allowAbs bool) string {
	if r.Intn(9) == 0 {
		return oddSpellings[r.Intn(len(oddSpellings))]
	}
	n := 1 + r.Intn(maxLen)
	p := make([]string, n)
	for i := range p {
		p[i] = seg(r)
	}
	s := strings.Join(p, "/")
	if allowAbs && r.Intn(5) == 0 {
		s = strings.Repeat("/", 1+r.Intn(3)/2) + s
	}
	if r.Intn(12) == 0 {
		s += "/"
	}
	return s
}

func simplePath(r *rand.Rand, maxLen int) string {
	n := 1 + r.Intn(maxLen)
	p := make([]string, n)
	for i := range p {
		p[i] = plain[r.Intn(3)]
	}
	return strings.Join(p, "/")
}

// absolute link targets built from the ACTUAL unpack directory (@D@), which share its text as a prefix, and names that
// merely share a string prefix with it; the destinations outside (target-evil, secret, sb) exist in the sandbox
var dirTargets = []string{"@D@/b", "@D@/../target-evil", "@D@/../secret", "@D@/./../target-evil", "@D@/a/../../target-evil", "@D@/..", "@D@/../..",
	"@D@-evil", "@D@-evil/x", "@D@x", "@D@", "@D@/", "@D@//../target-evil", "@d@/b", "@d@/../target-evil", "/@d@/../secret", "@D@/b/../../../sb/secret"}

func randCase(r *rand.Rand) []ent {
	var es []ent
	mode := r.Intn(100)
	n := 1 + r.Intn(6)
	for i := 0; i < n; i++ {
		var e ent
		e.cid = 1 + i
		name := mkPath(r, 3, true)
		if mode < 45 {
			name = simplePath(r, 3) // mostly well-behaved names: the interesting part is the links
			if r.Intn(6) == 0 {
				name = mkPath(r, 3, true)
			}
		}
		e.name = name
		switch x := r.Intn(100); {
		case x < 42:
			e.typ = 'r'
		case x < 82:
			e.typ = 'l'
			switch y := r.Intn(100); {
			case y < 30:
				e.link = simplePath(r, 2)
			case y < 45:
				e.link = "/" + simplePath(r, 2)
			case y < 50:
				e.link = "/"
			case y < 58:
				e.link = "."
			case y < 80:
				e.link = mkPath(r, 3, true)
			case y < 90:
				e.link = "../" + simplePath(r, 2)
			case y < 94:
				e.link = plain[r.Intn(3)] + "/.."
			case y < 97:
				e.link = dirTargets[r.Intn(len(dirTargets))]
			default:
				e.link = ""
			}
		case x < 87:
			e.typ = 'h'
			e.link = mkPath(r, 2, true)
		case x < 96:
			e.typ = 'd'
		default:
			e.typ = 'o'
		}
		es = append(es, e)
	}
	// symlink-then-write-through
	if mode >= 80 && len(es) >= 2 {
		links := []string{"@D@/../target-evil", "@D@/..", "@D@/b", "/", ".", "b", "/b/c", "../target-evil", "b/..", "//..", "//../target-evil", "/./..", "//", "./..", "///..", "b//..", "/b/../.."}
		nm := plain[r.Intn(3)]
		if r.Intn(3) == 0 {
			nm = plain[r.Intn(3)] + "/" + nm
		}
		es[0] = ent{typ: 'l', name: nm, cid: 1, link: links[r.Intn(len(links))]}
		es[1].name = es[0].name + "/" + simplePath(r, 2)
		if r.Intn(2) == 0 && len(es) >= 3 { // also a link created through the link
			es[2] = ent{typ: 'l', name: es[0].name + "/" + plain[r.Intn(3)], cid: 3, link: simplePath(r, 1)}
		}
	}
	// two steps out: a directory link INSIDE the root that lifts what follows to the root (p/q/d -> "/" or the unpack directory), a link
	// made through it whose relative target is lexically inside and physically outside (finding 37), then files, directories and links
	// written through THAT link: nothing of them may appear outside
	if mode >= 72 && mode < 80 && len(es) >= 3 {
		lift := []string{"/", "@D@", "@D@/", "/."}[r.Intn(4)]
		dl := simplePath(r, 2) + "/d"
		out := []string{"../target-evil", "../secret", "..", "../../sb/target-evil", "../target-evil/."}[r.Intn(5)]
		es[0] = ent{typ: 'l', name: dl, cid: 1, link: lift}
		es[1] = ent{typ: 'l', name: dl + "/x", cid: 2, link: out}
		for k := 2; k < len(es); k++ {
			es[k].name = []string{"x/", dl + "/x/"}[r.Intn(2)] + simplePath(r, 2)
			if es[k].typ == 'd' {
				es[k].name += "/"
			}
		}
	}
	// drop what archive/tar refuses to write (e.g. an empty name)
	var ok []ent
	for _, e := range es {
		if writable(e) {
			ok = append(ok, e)
		}
	}
	return ok
}

// randCfg: symlink resolution, error strategy, passes, size limit (bodies are "c<cid>": 2 or 3 bytes), requirer; the path set of a
// FileRequirerPaths is drawn from the spellings the unpacker asks for (cleanPath, "/"+cleanPath, dir/cleanPath) of some entries
func randCfg(r *rand.Rand, es []ent) ucfg {
	c := ucfg{cut: -1, retain: r.Intn(5) < 2, errReturn: r.Intn(3) == 0, maxPass: int64(r.Intn(5)), maxBytes: []int64{0, 1, 2, 3, unpack.DefaultMaxFileBytes}[r.Intn(5)], req: 'A'}
	switch x := r.Intn(100); {
	case x < 8:
		c.req = 'N'
	case x < 50:
		c.req = 'P'
		for _, e := range es {
			cl := path.Clean(e.name)
			switch r.Intn(6) {
			case 0:
				c.paths = append(c.paths, cl)
			case 1:
				c.paths = append(c.paths, path.Join("/", cl))
			case 2:
				c.paths = append(c.paths, "@D@/"+strings.TrimPrefix(cl, "/"))
			case 3:
				c.paths = append(c.paths, e.name)
			}
		}
		if len(c.paths) == 0 {
			c.paths = []string{"a"}
		}
	}
	if r.Intn(8) == 0 && len(es) > 0 {
		c.cut = r.Intn(len(es))
	}
	return c
}

// the working directory of the process (relative link targets are READ from it in the non-retain mode): four levels deep, so that
// up to three ".." stay inside it; contents a c b/a b/c target secret = c90 … c95
var cwdFiles = []struct{ p, body string }{{"a", "c90"}, {"c", "c91"}, {"b/a", "c92"}, {"b/c", "c93"}, {"target", "c94"}, {"secret", "c95"}}

func header(e ent) (*tar.Header, []byte) {
	h := &tar.Header{Name: e.name, Mode: 0o644, Format: tar.FormatPAX}
	var body []byte
	switch e.typ {
	case 'r':
		h.Typeflag = tar.TypeReg
		body = []byte(fmt.Sprintf("c%d", e.cid))
		h.Size = int64(len(body))
	case 'l':
		h.Typeflag = tar.TypeSymlink
		h.Linkname = e.link
		h.Mode = 0o777
	case 'h':
		h.Typeflag = tar.TypeLink
		h.Linkname = e.link
	case 'd':
		h.Typeflag = tar.TypeDir
		h.Mode = 0o755
	default:
		h.Typeflag = tar.TypeFifo
	}
	return h, body
}

func writable(e ent) bool {
	var buf bytes.Buffer
	tw := tar.NewWriter(&buf)
	h, body := header(e)
	if err := tw.WriteHeader(h); err != nil {
		return false
	}
	if body != nil {
		if _, err := tw.Write(body); err != nil {
			return false
		}
	}
	return tw.Close() == nil
}

func main() {
	o := hx.Parse()
	log.SetLogger(nopLogger{})
	b := hx.ScratchBase() // /dev/shm only when it is roomy, see hx/scratch.go
	var err error
	base, err = os.MkdirTemp(b, "c06gen-*")
	if err != nil {
		base, err = os.MkdirTemp("", "c06gen-*")
	}
	must(err)
	base, err = filepath.EvalSymlinks(base)
	must(err)
	defer os.RemoveAll(base)
	if o.Replay != "" {
		o.Replay, err = filepath.Abs(o.Replay) // the working directory is about to change
		must(err)
	}
	cwd := filepath.Join(base, "cwdroot", "w", "w", "w", "w")
	must(os.MkdirAll(filepath.Join(cwd, "b"), 0o755))
	for _, f := range cwdFiles {
		must(os.WriteFile(filepath.Join(cwd, f.p), []byte(f.body), 0o644))
	}
	must(os.Chdir(cwd))
	cwdBefore := strings.Join(snapshot(filepath.Join(base, "cwdroot")), ",")
	defer func() {
		if strings.Join(snapshot(filepath.Join(base, "cwdroot")), ",") != cwdBefore {
			fmt.Fprintln(os.Stderr, "c06gen: the working directory changed during the run")
			os.RemoveAll(base)
			os.Exit(3)
		}
	}()
	out := hx.NewOut()
	defer out.Flush()

	type job struct {
		c    ucfg
		es   []ent
		line string
		res  chan string
	}
	jobs := make(chan job, 256)
	order := make(chan job, 4096)
	var wg sync.WaitGroup
	for w := 0; w < 16; w++ {
		wg.Add(1)
		go func() {
			defer wg.Done()
			for j := range jobs {
				j.res <- run(j.c, j.es)
			}
		}()
	}
	done := make(chan struct{})
	go func() {
		for j := range order {
			out.Emit(j.line, <-j.res)
		}
		close(done)
	}()
	submit := func(c ucfg, es []ent, l string) {
		j := job{c: c, es: es, line: l, res: make(chan string, 1)}
		order <- j
		jobs <- j
	}
	if o.Replay != "" {
		for _, l := range hx.ReplayLines(o.Replay) {
			c, es := parse(l)
			submit(c, es, l)
		}
	} else {
		r := hx.Rng(o)
		for i := 0; i < o.N; i++ {
			es := randCase(r)
			c := defaultCfg
			if i%5 >= 3 { // two fifths of the archives under another configuration
				c = randCfg(r, es)
			}
			submit(c, es, line(c, es))
		}
	}
	close(jobs)
	close(order)
	wg.Wait()
	<-done
}
