// c06gen: correspondence stream for the unpack half of C06 (unpack.UnpackSquashedFromTarball vs Scalibr.Unpack).
//
// Every case runs in its own sandbox R = <tmp>/case/ with the layout
//
//	R/n/n/…/n (30 levels)/sb/            the sandbox parent that is snapshotted before and after
//	                      sb/target/      the directory handed to the unpacker (empty)
//	                      sb/target-evil/ a sibling whose name has the target's name as a string prefix
//	                      sb/secret       a file that must stay as it is
//
// (30 levels so that no chain of ".."-climbing links built from one tar can leave R.)
//
// Case grammar (see lean/Drivers/C06.lean):   up <entry;entry;...>     entry = <t>:<hexname>:<cid>:<hexlink>, t in r l h d o
// Reply: err=<0|1> pre=<0|1> snap=<items>     items = hexpath=d | hexpath=f<cid> | hexpath=l<hextarget>, sorted, paths relative to R,
// the 30 chain directories left out; absolute link targets have R's own path removed.
package main

import (
	"archive/tar"
	"bytes"
	"fmt"
	"io/fs"
	"math/rand"
	"os"
	"path/filepath"
	"sort"
	"strconv"
	"strings"
	"sync"

	"github.com/google/osv-scalibr/artifact/image/unpack"
	"github.com/google/osv-scalibr/log"

	"verif/harness/hx"
)

type nopLogger struct{}

func (nopLogger) Errorf(string, ...any) {}
func (nopLogger) Error(...any)          {}
func (nopLogger) Warnf(string, ...any)  {}
func (nopLogger) Warn(...any)           {}
func (nopLogger) Infof(string, ...any)  {}
func (nopLogger) Info(...any)           {}
func (nopLogger) Debugf(string, ...any) {}
func (nopLogger) Debug(...any)          {}

const depth = 30

var chainPrefix = strings.Repeat("n/", depth)

type ent struct {
	typ  byte // r l h d o
	name string
	cid  int
	link string
}

func line(es []ent) string {
	xs := make([]string, len(es))
	for i, e := range es {
		xs[i] = fmt.Sprintf("%c:%s:%d:%s", e.typ, hx.Hex(e.name), e.cid, hx.Hex(e.link))
	}
	return "up " + hx.Join(xs, ";")
}

func must(err error) {
	if err != nil {
		panic(err)
	}
}

func parse(l string) []ent {
	t := strings.Split(l, " ")
	if len(t) != 2 || t[0] != "up" {
		panic("bad case line " + l)
	}
	var es []ent
	if t[1] == "-" {
		return es
	}
	for _, s := range strings.Split(t[1], ";") {
		f := strings.Split(s, ":")
		if len(f) != 4 {
			panic("bad entry " + s)
		}
		cid, err := strconv.Atoi(f[2])
		must(err)
		es = append(es, ent{typ: f[0][0], name: hx.UnHex(f[1]), cid: cid, link: hx.UnHex(f[3])})
	}
	return es
}

func snapshot(root string) []string {
	chain := map[string]bool{}
	p := ""
	for i := 0; i < depth; i++ {
		if p == "" {
			p = "n"
		} else {
			p += "/n"
		}
		chain[p] = true
	}
	var items []string
	_ = filepath.WalkDir(root, func(q string, d fs.DirEntry, err error) error {
		if q == root {
			return nil
		}
		rel := filepath.ToSlash(strings.TrimPrefix(q, root+"/"))
		full := rel
		if strings.HasPrefix(rel, chainPrefix) {
			rel = "@/" + strings.TrimPrefix(rel, chainPrefix)
		}
		if err != nil {
			items = append(items, hx.Hex(rel)+"=ERR")
			return nil
		}
		if chain[full] {
			return nil
		}
		switch {
		case d.Type()&fs.ModeSymlink != 0:
			t, _ := os.Readlink(q)
			if strings.HasPrefix(t, root+"/"+chainPrefix) {
				t = "/@/" + strings.TrimPrefix(t, root+"/"+chainPrefix)
			} else if strings.HasPrefix(t, root) {
				t = strings.TrimPrefix(t, root)
			}
			// a target built from the unpack directory's own path carries the sandbox root a second time: make it symbolic
			t = strings.ReplaceAll(t, strings.TrimPrefix(root, "/"), "@R@")
			items = append(items, hx.Hex(rel)+"=l"+hx.Hex(t))
		case d.IsDir():
			items = append(items, hx.Hex(rel)+"=d")
		default:
			b, _ := os.ReadFile(q)
			items = append(items, hx.Hex(rel)+"=f"+strings.TrimPrefix(string(b), "c"))
		}
		return nil
	})
	sort.Strings(items)
	return items
}

var base string
var caseSeq int
var seqMu sync.Mutex

func run(es []ent) string {
	return hx.Guard(func() string {
		seqMu.Lock()
		caseSeq++
		id := caseSeq
		seqMu.Unlock()
		root := filepath.Join(base, fmt.Sprintf("c%d", id))
		sb := root
		for i := 0; i < depth; i++ {
			sb = filepath.Join(sb, "n")
		}
		sb = filepath.Join(sb, "sb")
		target := filepath.Join(sb, "target")
		must(os.MkdirAll(target, 0o755))
		must(os.MkdirAll(filepath.Join(sb, "target-evil"), 0o755))
		must(os.WriteFile(filepath.Join(sb, "secret"), []byte("c0"), 0o644))
		defer os.RemoveAll(root)
		pre := snapshot(root)

		var buf bytes.Buffer
		tw := tar.NewWriter(&buf)
		for _, e := range es {
			// @D@ in a link text stands for the actual unpack directory, @d@ for the same without its leading slash
			e.link = strings.ReplaceAll(strings.ReplaceAll(e.link, "@D@", target), "@d@", strings.TrimPrefix(target, "/"))
			h, body := header(e)
			if err := tw.WriteHeader(h); err != nil {
				return "tarerr"
			}
			if body != nil {
				if _, err := tw.Write(body); err != nil {
					return "tarerr"
				}
			}
		}
		must(tw.Close())
		// the tarball lives outside the sandbox root
		tp := filepath.Join(base, fmt.Sprintf("c%d.tar", id))
		must(os.WriteFile(tp, buf.Bytes(), 0o644))
		defer os.Remove(tp)
		u, err := unpack.NewUnpacker(unpack.DefaultUnpackerConfig())
		must(err)
		uerr := u.UnpackSquashedFromTarball(target, tp)
		post := snapshot(root)
		want := []string{hx.Hex("@/sb") + "=d", hx.Hex("@/sb/secret") + "=f0", hx.Hex("@/sb/target") + "=d", hx.Hex("@/sb/target-evil") + "=d"}
		sort.Strings(want)
		preOK := strings.Join(pre, ",") == strings.Join(want, ",")
		return fmt.Sprintf("err=%s pre=%s snap=%s", hx.B(uerr != nil), hx.B(preOK), hx.Join(post, ","))
	})
}

// ---------------------------------------------------------------- generator

var plain = []string{"a", "b", "c"}
var longOK = strings.Repeat("k", 200)
var tooLong = strings.Repeat("z", 300)

func seg(r *rand.Rand) string {
	switch x := r.Intn(100); {
	case x < 62:
		return plain[r.Intn(3)]
	case x < 74:
		return ".."
	case x < 80:
		return "."
	case x < 84:
		return ""
	case x < 88:
		return "target"
	case x < 92:
		return "target-evil"
	case x < 94:
		return "secret"
	case x < 96:
		return "sb"
	case x < 98:
		return longOK
	default:
		return tooLong
	}
}

// odd spellings the property's quantifier names: several leading slashes, empty and dot segments, dot-dot right
// after the root, a trailing slash
var oddSpellings = []string{"//..", "//../target-evil", "//../x", "///", "/./..", "/./../x", "//", "/.", "./..", "./../x", "a//b", "a/./b",
	"/a//b", "//a", "///a/b", "a/", "/a/", "a/b/", ".//a", "/..", "/../x", "//../..", "/.//..", "a/..//..", "./", "//.//..//"}

func mkPath(r *rand.Rand, maxLen int, allowAbs bool) string {
	if r.Intn(9) == 0 {
		return oddSpellings[r.Intn(len(oddSpellings))]
	}
	n := 1 + r.Intn(maxLen)
	p := make([]string, n)
	for i := range p {
		p[i] = seg(r)
	}
	s := strings.Join(p, "/")
	if allowAbs && r.Intn(5) == 0 {
		s = strings.Repeat("/", 1+r.Intn(3)/2) + s
	}
	if r.Intn(12) == 0 {
		s += "/"
	}
	return s
}

func simplePath(r *rand.Rand, maxLen int) string {
	n := 1 + r.Intn(maxLen)
	p := make([]string, n)
	for i := range p {
		p[i] = plain[r.Intn(3)]
	}
	return strings.Join(p, "/")
}

// absolute link targets built from the ACTUAL unpack directory (@D@), which share its text as a prefix, and names that
// merely share a string prefix with it; the destinations outside (target-evil, secret, sb) exist in the sandbox
var dirTargets = []string{"@D@/b", "@D@/../target-evil", "@D@/../secret", "@D@/./../target-evil", "@D@/a/../../target-evil", "@D@/..", "@D@/../..",
	"@D@-evil", "@D@-evil/x", "@D@x", "@D@", "@D@/", "@D@//../target-evil", "@d@/b", "@d@/../target-evil", "/@d@/../secret", "@D@/b/../../../sb/secret"}

func randCase(r *rand.Rand) []ent {
	var es []ent
	mode := r.Intn(100)
	n := 1 + r.Intn(6)
	for i := 0; i < n; i++ {
		var e ent
		e.cid = 1 + i
		name := mkPath(r, 3, true)
		if mode < 45 {
			name = simplePath(r, 3) // mostly well-behaved names: the interesting part is the links
			if r.Intn(6) == 0 {
				name = mkPath(r, 3, true)
			}
		}
		e.name = name
		switch x := r.Intn(100); {
		case x < 42:
			e.typ = 'r'
		case x < 82:
			e.typ = 'l'
			switch y := r.Intn(100); {
			case y < 30:
				e.link = simplePath(r, 2)
			case y < 45:
				e.link = "/" + simplePath(r, 2)
			case y < 50:
				e.link = "/"
			case y < 58:
				e.link = "."
			case y < 80:
				e.link = mkPath(r, 3, true)
			case y < 90:
				e.link = "../" + simplePath(r, 2)
			case y < 94:
				e.link = plain[r.Intn(3)] + "/.."
			case y < 97:
				e.link = dirTargets[r.Intn(len(dirTargets))]
			default:
				e.link = ""
			}
		case x < 87:
			e.typ = 'h'
			e.link = mkPath(r, 2, true)
		case x < 96:
			e.typ = 'd'
		default:
			e.typ = 'o'
		}
		es = append(es, e)
	}
	// symlink-then-write-through
	if mode >= 80 && len(es) >= 2 {
		links := []string{"@D@/../target-evil", "@D@/..", "@D@/b", "/", ".", "b", "/b/c", "../target-evil", "b/..", "//..", "//../target-evil", "/./..", "//", "./..", "///..", "b//..", "/b/../.."}
		nm := plain[r.Intn(3)]
		if r.Intn(3) == 0 {
			nm = plain[r.Intn(3)] + "/" + nm
		}
		es[0] = ent{typ: 'l', name: nm, cid: 1, link: links[r.Intn(len(links))]}
		es[1].name = es[0].name + "/" + simplePath(r, 2)
		if r.Intn(2) == 0 && len(es) >= 3 { // also a link created through the link
			es[2] = ent{typ: 'l', name: es[0].name + "/" + plain[r.Intn(3)], cid: 3, link: simplePath(r, 1)}
		}
	}
	// drop what archive/tar refuses to write (e.g. an empty name)
	var ok []ent
	for _, e := range es {
		if writable(e) {
			ok = append(ok, e)
		}
	}
	return ok
}

func header(e ent) (*tar.Header, []byte) {
	h := &tar.Header{Name: e.name, Mode: 0o644, Format: tar.FormatPAX}
	var body []byte
	switch e.typ {
	case 'r':
		h.Typeflag = tar.TypeReg
		body = []byte(fmt.Sprintf("c%d", e.cid))
		h.Size = int64(len(body))
	case 'l':
		h.Typeflag = tar.TypeSymlink
		h.Linkname = e.link
		h.Mode = 0o777
	case 'h':
		h.Typeflag = tar.TypeLink
		h.Linkname = e.link
	case 'd':
		h.Typeflag = tar.TypeDir
		h.Mode = 0o755
	default:
		h.Typeflag = tar.TypeFifo
	}
	return h, body
}

func writable(e ent) bool {
	var buf bytes.Buffer
	tw := tar.NewWriter(&buf)
	h, body := header(e)
	if err := tw.WriteHeader(h); err != nil {
		return false
	}
	if body != nil {
		if _, err := tw.Write(body); err != nil {
			return false
		}
	}
	return tw.Close() == nil
}

func main() {
	o := hx.Parse()
	log.SetLogger(nopLogger{})
	b := ""
	if st, err := os.Stat("/dev/shm"); err == nil && st.IsDir() {
		b = "/dev/shm"
	}
	var err error
	base, err = os.MkdirTemp(b, "c06gen-*")
	if err != nil {
		base, err = os.MkdirTemp("", "c06gen-*")
	}
	must(err)
	base, err = filepath.EvalSymlinks(base)
	must(err)
	defer os.RemoveAll(base)
	out := hx.NewOut()
	defer out.Flush()

	type job struct {
		es   []ent
		line string
		res  chan string
	}
	jobs := make(chan job, 256)
	order := make(chan job, 4096)
	var wg sync.WaitGroup
	for w := 0; w < 16; w++ {
		wg.Add(1)
		go func() {
			defer wg.Done()
			for j := range jobs {
				j.res <- run(j.es)
			}
		}()
	}
	done := make(chan struct{})
	go func() {
		for j := range order {
			out.Emit(j.line, <-j.res)
		}
		close(done)
	}()
	submit := func(es []ent, l string) {
		j := job{es: es, line: l, res: make(chan string, 1)}
		order <- j
		jobs <- j
	}
	if o.Replay != "" {
		for _, l := range hx.ReplayLines(o.Replay) {
			submit(parse(l), l)
		}
	} else {
		r := hx.Rng(o)
		for i := 0; i < o.N; i++ {
			es := randCase(r)
			submit(es, line(es))
		}
	}
	close(jobs)
	close(order)
	wg.Wait()
	<-done
}
