// c06load: the temp-dir life cycle of the layer-scanning image loader (C06, load path): image.FromV1Image creates
// osv-scalibr-image-scanning-* below TMPDIR, removes it again on every error path (handleImageError), and Image.CleanUp
// removes it after a successful load; nothing outside that directory changes.
//
// Each case runs sequentially with a FRESH TMPDIR and a fresh working directory:
//
//	load <nlayers> <fail> <kind> <pos>
//	  fail = index of the layer whose archive is bad, or '-'          pos = good entries before the bad one in that layer
//	  kind = c  a regular file followed by an entry beneath it (MkdirAll: not a directory)
//	         t  archive cut in the middle of an entry's body     h  archive cut in the middle of a header
//	         l  symlink with an empty link name                  n  a name longer than NAME_MAX
//	         d  a regular file at a path an earlier entry made a directory (skipped as already existing: no error)
//	         b  file of exactly MaxFileBytes (fail-open)         o  symlink pointing outside the root (fail-open)
//	         u  unsupported entry type (skipped)                 v  invalid config (MaxFileBytes 0: fails before any directory exists)
//	         -  nothing wrong
//
// Reply: err=<0|1> left=<entries in TMPDIR after the load returned> img=<1 iff ExtractDir exists below TMPDIR>
//
//	partial=<1 iff layer directories with files existed … only observable on success> clean=<entries in TMPDIR after CleanUp, or after the failed load>
//	out=<-|hex items: what changed in the working directory and in a sibling directory of TMPDIR>
package main

import (
	"archive/tar"
	"bytes"
	"compress/gzip"
	"fmt"
	"io"
	"io/fs"
	"os"
	"path/filepath"
	"sort"
	"strconv"
	"strings"

	v1 "github.com/google/go-containerregistry/pkg/v1"
	"github.com/google/go-containerregistry/pkg/v1/empty"
	"github.com/google/go-containerregistry/pkg/v1/mutate"
	"github.com/google/go-containerregistry/pkg/v1/tarball"
	"github.com/google/osv-scalibr/artifact/image/layerscanning/image"
	"github.com/google/osv-scalibr/artifact/image/require"
	"github.com/google/osv-scalibr/log"

	"verif/harness/hx"
)

type nopLogger struct{}

func (nopLogger) Errorf(string, ...any) {}
func (nopLogger) Error(...any)          {}
func (nopLogger) Warnf(string, ...any)  {}
func (nopLogger) Warn(...any)           {}
func (nopLogger) Infof(string, ...any)  {}
func (nopLogger) Info(...any)           {}
func (nopLogger) Debugf(string, ...any) {}
func (nopLogger) Debug(...any)          {}

func must(err error) {
	if err != nil {
		panic(err)
	}
}

const limit = 64

func file(tw *tar.Writer, name string, size int) {
	must(tw.WriteHeader(&tar.Header{Name: name, Typeflag: tar.TypeReg, Mode: 0o644, Size: int64(size)}))
	_, err := tw.Write(bytes.Repeat([]byte{'x'}, size))
	must(err)
}

// layerBytes builds the archive of layer i: `pos` good entries, then the bad one (if this is the failing layer), then one more.
func layerBytes(i int, bad bool, kind byte, pos int) []byte {
	var buf bytes.Buffer
	tw := tar.NewWriter(&buf)
	for k := 0; k < pos || (!bad && k < 2); k++ {
		must(tw.WriteHeader(&tar.Header{Name: fmt.Sprintf("d%d/", i), Typeflag: tar.TypeDir, Mode: 0o755}))
		file(tw, fmt.Sprintf("d%d/f%d", i, k), 3)
	}
	cut := -1
	if bad {
		switch kind {
		case 'c':
			file(tw, "a", 1)
			file(tw, "a/b", 1)
		case 't':
			must(tw.Flush())
			off := buf.Len()
			file(tw, "big", 40)
			cut = off + 512 + 20
		case 'h':
			must(tw.Flush())
			off := buf.Len()
			file(tw, "hdr", 5)
			cut = off + 200
		case 'l':
			must(tw.WriteHeader(&tar.Header{Name: "lnk", Typeflag: tar.TypeSymlink, Mode: 0o777, Linkname: ""}))
		case 'n':
			file(tw, strings.Repeat("n", 300), 1)
		case 'd':
			file(tw, "p/q", 1)
			file(tw, "p", 1)
		case 'b':
			file(tw, "atlimit", limit)
		case 'o':
			must(tw.WriteHeader(&tar.Header{Name: "out", Typeflag: tar.TypeSymlink, Mode: 0o777, Linkname: "../../x"}))
		case 'u':
			must(tw.WriteHeader(&tar.Header{Name: "fifo", Typeflag: tar.TypeFifo, Mode: 0o644}))
		}
		file(tw, fmt.Sprintf("after%d", i), 2)
	}
	must(tw.Close())
	b := buf.Bytes()
	if cut >= 0 {
		b = b[:cut]
	}
	return b
}

func listing(dir string) []string {
	var out []string
	_ = filepath.WalkDir(dir, func(p string, d fs.DirEntry, err error) error {
		if p == dir {
			return nil
		}
		rel, _ := filepath.Rel(dir, p)
		if err != nil {
			out = append(out, rel+":ERR")
			return nil
		}
		fi, _ := os.Lstat(p)
		if fi != nil {
			out = append(out, fmt.Sprintf("%s:%v:%d:%d", rel, fi.Mode(), fi.Size(), fi.ModTime().UnixNano()))
		}
		return nil
	})
	sort.Strings(out)
	return out
}

func run(base string, id, nl int, fail int, kind byte, pos int) string {
	return hx.Guard(func() string {
		root := filepath.Join(base, fmt.Sprintf("l%d", id))
		tmp, cwd, sib := filepath.Join(root, "tmp"), filepath.Join(root, "cwd"), filepath.Join(root, "tmp-sibling")
		for _, d := range []string{tmp, cwd, sib} {
			must(os.MkdirAll(d, 0o755))
		}
		must(os.WriteFile(filepath.Join(sib, "keep"), []byte("k"), 0o644))
		defer os.RemoveAll(root)
		var adds []mutate.Addendum
		for i := 0; i < nl; i++ {
			b := layerBytes(i, i == fail, kind, pos)
			l, err := tarball.LayerFromOpener(func() (io.ReadCloser, error) { return io.NopCloser(bytes.NewReader(b)), nil },
				tarball.WithCompressionLevel(gzip.NoCompression))
			must(err)
			adds = append(adds, mutate.Addendum{Layer: l, History: v1.History{CreatedBy: fmt.Sprintf("cmd-%d", i)}})
		}
		img, err := mutate.Append(empty.Image, adds...)
		must(err)
		orig, _ := os.Getwd()
		os.Setenv("TMPDIR", tmp)
		must(os.Chdir(cwd))
		defer os.Chdir(orig)
		outBefore := append(listing(cwd), listing(sib)...)
		cfg := &image.Config{MaxFileBytes: limit, MaxSymlinkDepth: 6, Requirer: &require.FileRequirerAll{}}
		if kind == 'v' {
			cfg.MaxFileBytes = 0
		}
		im, lerr := image.FromV1Image(img, cfg)
		names, _ := os.ReadDir(tmp)
		left := len(names)
		imgOK, partial := 0, 0
		if lerr == nil && im != nil {
			if strings.HasPrefix(im.ExtractDir, tmp+string(filepath.Separator)) {
				if st, e := os.Stat(im.ExtractDir); e == nil && st.IsDir() {
					imgOK = 1
				}
			}
			if len(listing(im.ExtractDir)) > 0 {
				partial = 1
			}
			_ = im.CleanUp()
		}
		after, _ := os.ReadDir(tmp)
		outAfter := append(listing(cwd), listing(sib)...)
		out := "-"
		if strings.Join(outBefore, "|") != strings.Join(outAfter, "|") {
			out = hx.Hex(strings.Join(outAfter, "|"))
		}
		leftNames := "-"
		if len(after) > 0 {
			var ns []string
			for _, n := range after {
				ns = append(ns, n.Name()[:min(len(n.Name()), 27)])
			}
			leftNames = hx.Hex(strings.Join(ns, ","))
		}
		return fmt.Sprintf("err=%s left=%d img=%d partial=%d clean=%d names=%s out=%s", hx.B(lerr != nil), left, imgOK, partial, len(after), leftNames, out)
	})
}

func main() {
	o := hx.Parse()
	log.SetLogger(nopLogger{})
	base, err := os.MkdirTemp("", "c06load-*")
	must(err)
	defer os.RemoveAll(base)
	out := hx.NewOut()
	defer out.Flush()
	id := 0
	emit := func(nl, fail int, kind byte, pos int) {
		id++
		f := "-"
		if fail >= 0 {
			f = strconv.Itoa(fail)
		}
		out.Emit(fmt.Sprintf("load %d %s %c %d", nl, f, kind, pos), run(base, id, nl, fail, kind, pos))
	}
	if o.Replay != "" {
		for _, l := range hx.ReplayLines(o.Replay) {
			t := strings.Split(l, " ")
			if len(t) != 5 || t[0] != "load" {
				panic("bad case line " + l)
			}
			nl, err := strconv.Atoi(t[1])
			must(err)
			fail := -1
			if t[2] != "-" {
				fail, err = strconv.Atoi(t[2])
				must(err)
			}
			pos, err := strconv.Atoi(t[4])
			must(err)
			emit(nl, fail, t[3][0], pos)
		}
		return
	}
	// exhaustive over the small space: 1..4 layers x every failing position x every kind x 0..2 good entries before
	for nl := 1; nl <= 4; nl++ {
		emit(nl, -1, '-', 0)
		emit(nl, -1, 'v', 0)
		for fail := 0; fail < nl; fail++ {
			for _, kind := range []byte("cthlndbou") {
				for pos := 0; pos <= 2; pos++ {
					emit(nl, fail, kind, pos)
				}
			}
		}
	}
	r := hx.Rng(o)
	for i := 0; i < o.N; i++ {
		nl := 1 + r.Intn(6)
		emit(nl, r.Intn(nl), "cthlndbou"[r.Intn(9)], r.Intn(4))
	}
}
