// c06load: the temp-dir life cycle of the layer-scanning image loader (C06, load path): image.FromV1Image creates
// osv-scalibr-image-scanning-* below TMPDIR, removes it again on every error path (handleImageError), and Image.CleanUp
// removes it after a successful load; nothing outside that directory changes.
//
// Each case runs sequentially with a FRESH TMPDIR and a fresh working directory:
//
//	load <nlayers> <fail> <kind> <pos>
//	  fail = index of the layer whose archive is bad, or '-'          pos = good entries before the bad one in that layer
//	  kind = c  a regular file followed by an entry beneath it (MkdirAll: not a directory)
//	         t  archive cut in the middle of an entry's body     h  archive cut in the middle of a header
//	         l  symlink with an empty link name                  n  a name longer than NAME_MAX
//	         d  a regular file at a path an earlier entry made a directory (skipped as already existing: no error)
//	         b  file of exactly MaxFileBytes (fail-open)         o  symlink pointing outside the root (fail-open)
//	         u  unsupported entry type (skipped)                 v  invalid config (MaxFileBytes 0: fails before any directory exists)
//	         -  nothing wrong
//
// General form (the one the generator emits; `load n f k p` = `load2 L^n f k p 0 0`):
//
//	load2 <hist> <fail> <kind> <pos> <decoys> <seed>
//	  hist   = one letter per chain layer, oldest first: L = a layer with an archive, E = a history entry that says EmptyLayer
//	  fail   = chain-layer index (an L) the kind applies to, or '-'
//	  kind   = the kinds above, and   e  that layer's Uncompressed() returns an error
//	           p  os.Mkdir of the first layer directory fails (TMPDIR so deep that <TMPDIR>/osv-scalibr-image-scanning-N fits into PATH_MAX and .../layer-i does not)
//	           m  os.MkdirTemp fails (TMPDIR does not exist)          y  v1.Image.Layers() returns an error
//	  decoys = 0..2 directories that exist in TMPDIR before the load: osv-scalibr-image-scanning-0 (shares the prefix of the image directory), other
//	  seed   = 0, or the seed of the HOSTILE entries added to every archive: names built from .., ., empty segments, absolute paths into
//	           the sandbox (victim directory, TMPDIR, decoys, working directory), names sharing a prefix with layer-<i> / the image directory,
//	           symbolic and hard links to those places followed by entries written THROUGH the links, in random order
//
//	load3 <hist> <fail> <kind> <pos> <decoys> <seed> <req> <entry>         (load2 … = load3 … A v)
//	  hist   also X = a layer with an archive whose history entry says EmptyLayer (invalid history: the loader falls back to one chain
//	           layer per archive and drops the history)
//	  kind   also k  a regular file followed by a DIRECTORY entry beneath it (handleDir: MkdirAll fails)      (fatal)
//	              w  whiteouts, an opaque marker, a directory entry after its contents, the names "/", ".", "a/." (nothing wrong)
//	              g  the image's ConfigFile() returns an error (no history: nothing wrong)
//	              z  the entry points are called the way a careless caller does: image.FromTarball on a path that does not exist and on a
//	                 file that is no tarball, image.FromV1Image with image.DefaultConfig(), unpack.NewUnpacker with the zero configuration
//	                 and without a requirer, UnpackSquashed("" / nil image), UnpackSquashedFromTarball on a missing and on a truncated
//	                 tarball - every one must fail (or load) without touching anything; the case itself then loads the image normally
//	  req    = A require.FileRequirerAll, N FileRequirerNone, P FileRequirerPaths of d<i>/f0 and a few hostile names: the loader removes
//	           the backing files of what is not required
//	  entry  = v image.FromV1Image, t image.FromTarball on the image saved below the sandbox (not with the injected-error kinds e y g)
//
// After the load life cycle every case (but m and p, whose TMPDIR is unusable) ALSO unpacks the same image with unpack.UnpackSquashed
// into <root>/unpacked (options drawn from the seed: MaxPass, MaxFileBytes, requirer, symlink error strategy, unsupported resolution):
// uerr, and the same three observations (sandbox outside <root>/unpacked unchanged incl. TMPDIR: image-tar-tmp-* removed; no link
// inside leading out).
//
// The sandbox of a case is <root>/{tmp (TMPDIR), cwd, tmp-sibling, victim}; it is snapshotted recursively (type, mode, size, mtime,
// content hash, link target) before the load, after it (minus the image directory) and after CleanUp.
//
// Reply: err=<0|1> left=<entries in TMPDIR after the load returned> img=<1 iff ExtractDir exists below TMPDIR>
//
//	partial=<1 iff layer directories with files existed … only observable on success> clean=<entries in TMPDIR after CleanUp, or after the failed load>
//	out=<-|hex: what changed anywhere in the sandbox outside the image directory (after the load; after CleanUp: anywhere at all)>
//	esc=<-|hex: symbolic links (or other non-file non-directory objects) found on disk inside the image directory that lead out of it>
//	acc=<0|1: ChainLayers() returns one chain layer per history entry / archive and Size() is not negative>
//	nfi=<0|1|-: artifact/image.NewFromImage of the same image failed> nfileft=<scalibr-container-* directories in TMPDIR after a failure>
//	uerr=<0|1|-> uout=<-|hex> uesc=<-|hex> udots=<0|1: some relative link target of the image has a ".." component>
package main

import (
	"archive/tar"
	"bytes"
	"compress/gzip"
	"crypto/sha256"
	"errors"
	"fmt"
	"io"
	"io/fs"
	"math/rand"
	"os"
	"path/filepath"
	"sort"
	"strconv"
	"strings"

	"github.com/google/go-containerregistry/pkg/name"
	v1 "github.com/google/go-containerregistry/pkg/v1"
	"github.com/google/go-containerregistry/pkg/v1/empty"
	"github.com/google/go-containerregistry/pkg/v1/mutate"
	"github.com/google/go-containerregistry/pkg/v1/tarball"
	scalibrimage "github.com/google/osv-scalibr/artifact/image"
	"github.com/google/osv-scalibr/artifact/image/layerscanning/image"
	"github.com/google/osv-scalibr/artifact/image/require"
	"github.com/google/osv-scalibr/artifact/image/unpack"
	"github.com/google/osv-scalibr/log"

	"verif/harness/hx"
)

type nopLogger struct{}

func (nopLogger) Errorf(string, ...any) {}
func (nopLogger) Error(...any)          {}
func (nopLogger) Warnf(string, ...any)  {}
func (nopLogger) Warn(...any)           {}
func (nopLogger) Infof(string, ...any)  {}
func (nopLogger) Info(...any)           {}
func (nopLogger) Debugf(string, ...any) {}
func (nopLogger) Debug(...any)          {}

func must(err error) {
	if err != nil {
		panic(err)
	}
}

const limit = 64

func file(tw *tar.Writer, name string, size int) {
	must(tw.WriteHeader(&tar.Header{Name: name, Typeflag: tar.TypeReg, Mode: 0o644, Size: int64(size)}))
	_, err := tw.Write(bytes.Repeat([]byte{'x'}, size))
	must(err)
}

// layerBytes builds the archive of layer i: `pos` good entries, then the bad one (if this is the failing layer), then one more.
func layerBytes(i int, bad bool, kind byte, pos int, hs []hostile, subst func(string) string) []byte {
	var buf bytes.Buffer
	tw := tar.NewWriter(&buf)
	for k := 0; k < pos || (!bad && k < 2); k++ {
		must(tw.WriteHeader(&tar.Header{Name: fmt.Sprintf("d%d/", i), Typeflag: tar.TypeDir, Mode: 0o755}))
		file(tw, fmt.Sprintf("d%d/f%d", i, k), 3)
	}
	writeHostile(tw, hs, subst)
	cut := -1
	if bad {
		switch kind {
		case 'c':
			file(tw, "a", 1)
			file(tw, "a/b", 1)
		case 't':
			must(tw.Flush())
			off := buf.Len()
			file(tw, "big", 40)
			cut = off + 512 + 20
		case 'h':
			must(tw.Flush())
			off := buf.Len()
			file(tw, "hdr", 5)
			cut = off + 200
		case 'l':
			must(tw.WriteHeader(&tar.Header{Name: "lnk", Typeflag: tar.TypeSymlink, Mode: 0o777, Linkname: ""}))
		case 'n':
			file(tw, strings.Repeat("n", 300), 1)
		case 'k':
			file(tw, "a", 1)
			must(tw.WriteHeader(&tar.Header{Name: "a/b/", Typeflag: tar.TypeDir, Mode: 0o755}))
		case 'w':
			file(tw, "w/x", 1)
			file(tw, "w/.wh.x", 0)
			file(tw, "w/.wh..wh..opq", 0)
			file(tw, ".wh.w2", 0)
			file(tw, "w3/inner/f", 1)
			must(tw.WriteHeader(&tar.Header{Name: "w3/inner/", Typeflag: tar.TypeDir, Mode: 0o700}))
			must(tw.WriteHeader(&tar.Header{Name: "w3/", Typeflag: tar.TypeDir, Mode: 0o711}))
			for _, n := range []string{"/", ".", "./", "w3/.", "w3/inner/..", "//"} {
				_ = tw.WriteHeader(&tar.Header{Name: n, Typeflag: tar.TypeDir, Mode: 0o755})
			}
		case 'd':
			file(tw, "p/q", 1)
			file(tw, "p", 1)
		case 'b':
			file(tw, "atlimit", limit)
		case 'o':
			must(tw.WriteHeader(&tar.Header{Name: "out", Typeflag: tar.TypeSymlink, Mode: 0o777, Linkname: "../../x"}))
		case 'u':
			must(tw.WriteHeader(&tar.Header{Name: "fifo", Typeflag: tar.TypeFifo, Mode: 0o644}))
		}
		file(tw, fmt.Sprintf("after%d", i), 2)
	}
	must(tw.Close())
	b := buf.Bytes()
	if cut >= 0 {
		b = b[:cut]
	}
	return b
}

// snap: every object below dir except the subtree `skip`: relative path -> description
func snap(dir, skip, noMtime string) map[string]string {
	out := map[string]string{}
	_ = filepath.WalkDir(dir, func(p string, d fs.DirEntry, err error) error {
		if p == dir {
			return nil
		}
		if skip != "" && p == skip {
			return filepath.SkipDir
		}
		rel, _ := filepath.Rel(dir, p)
		if len(rel) > 120 {
			rel = rel[:40] + "..." + rel[len(rel)-70:]
		}
		if err != nil {
			out[rel] = "ERR"
			return nil
		}
		fi, e := os.Lstat(p)
		if e != nil {
			out[rel] = "ERR"
			return nil
		}
		desc := fmt.Sprintf("%v:%d", fi.Mode(), fi.Size())
		if p != noMtime && !strings.HasPrefix(noMtime, p+"/") {
			desc += fmt.Sprintf(":%d", fi.ModTime().UnixNano())
		}
		switch {
		case fi.Mode()&fs.ModeSymlink != 0:
			t, _ := os.Readlink(p)
			desc += "->" + t
		case fi.Mode().IsRegular():
			b, _ := os.ReadFile(p)
			desc += fmt.Sprintf(":%x", sha256.Sum256(b))[:18]
		}
		out[rel] = desc
		return nil
	})
	return out
}

func diff(a, b map[string]string) []string {
	var out []string
	for k, v := range a {
		if w, ok := b[k]; !ok {
			out = append(out, "deleted "+k)
		} else if v != w {
			out = append(out, "changed "+k+" "+v+" => "+w)
		}
	}
	for k := range b {
		if _, ok := a[k]; !ok {
			out = append(out, "created "+k+" "+b[k])
		}
	}
	sort.Strings(out)
	return out
}

// escapes: objects inside the image directory that are neither directories nor regular files, with where they lead
func escapes(dir string) []string {
	var out []string
	_ = filepath.WalkDir(dir, func(p string, d fs.DirEntry, err error) error {
		if err != nil || d.IsDir() || d.Type().IsRegular() {
			return nil
		}
		rel, _ := filepath.Rel(dir, p)
		t, _ := os.Readlink(p)
		res, e := filepath.EvalSymlinks(p)
		if e != nil {
			res = t
			if !filepath.IsAbs(t) {
				res = filepath.Join(filepath.Dir(p), t)
			}
		}
		if res != dir && !strings.HasPrefix(res, dir+"/") {
			out = append(out, fmt.Sprintf("%s (%v) -> %s", rel, d.Type(), t))
		}
		return nil
	})
	return out
}

type badLayer struct{ v1.Layer }

func (badLayer) Uncompressed() (io.ReadCloser, error) {
	return nil, errors.New("injected: cannot open layer")
}

type wrapImage struct {
	v1.Image
	bad       int // v1 layer index whose Uncompressed fails, or -1
	layersErr bool
	configErr bool
}

func (w wrapImage) ConfigFile() (*v1.ConfigFile, error) {
	if w.configErr {
		return nil, errors.New("injected: no config file")
	}
	return w.Image.ConfigFile()
}

func (w wrapImage) Layers() ([]v1.Layer, error) {
	if w.layersErr {
		return nil, errors.New("injected: cannot list layers")
	}
	ls, err := w.Image.Layers()
	if err != nil {
		return nil, err
	}
	out := append([]v1.Layer(nil), ls...)
	if w.bad >= 0 && w.bad < len(out) {
		out[w.bad] = badLayer{out[w.bad]}
	}
	return out, nil
}

type hostile struct {
	typ  byte // r d l h
	name string
	link string
}

// hostileEntries: none of them makes the load fail (unique leaf names, no file used as a directory, no empty link name, no over-long
// name), all of them try to reach something outside layer-<i>.  @V@ victim, @T@ TMPDIR, @C@ working directory, @R@ sandbox root (absolute).
func hostileEntries(r *rand.Rand, layer int) []hostile {
	up := []string{"..", "../..", "../../..", "../../../..", "../../../../..", "q/../..", "./..", "q/../../..", ".//..", "q/b/../../../.."}
	dest := []string{"victim", "tmp-sibling", "cwd", "tmp/other", "tmp/osv-scalibr-image-scanning-0", "tmp", ""}
	abs := []string{"@V@", "@T@", "@C@", "@R@", "@T@/other", "@T@/osv-scalibr-image-scanning-0", "@R@/tmp-sibling", "/", "//@V@", "/./@V@/.", "@V@/../victim", "/..", "/../..@V@"}
	near := []string{"../layer-0", "../layer-1", "../layer-" + fmt.Sprint(layer) + "x", "../layer-" + fmt.Sprint(layer) + "-evil", "..a", "...", ".../..", "..../x", "layer-0/..", "q/..", "q/../b"}
	var out []hostile
	leaf := 0
	name := func() string {
		leaf++
		var base string
		switch x := r.Intn(100); {
		case x < 40:
			base = up[r.Intn(len(up))] + "/" + dest[r.Intn(len(dest))]
		case x < 65:
			base = abs[r.Intn(len(abs))]
		case x < 85:
			base = near[r.Intn(len(near))]
		case x < 92:
			base = "q/./b//"
		default:
			base = up[r.Intn(len(up))]
		}
		if r.Intn(5) == 0 {
			base = "./" + base
		}
		return base + fmt.Sprintf("/h%d-%d", layer, leaf)
	}
	n := 2 + r.Intn(5)
	shuffle := r.Intn(3) == 0 // any order
	for i := 0; i < n; i++ {
		switch x := r.Intn(100); {
		case x < 45:
			out = append(out, hostile{'r', name(), ""})
		case x < 60:
			out = append(out, hostile{'d', name() + "/", ""})
		default:
			// a link to somewhere outside, then entries written through it (and a link made through it)
			leaf++
			ln := fmt.Sprintf("k%d-%d", layer, leaf)
			if r.Intn(3) == 0 {
				ln = "q/" + ln
			}
			var target string
			switch y := r.Intn(100); {
			case y < 40:
				target = abs[r.Intn(len(abs))]
			case y < 80:
				target = up[r.Intn(len(up))] + "/" + dest[r.Intn(len(dest))]
			default:
				target = near[r.Intn(len(near))]
			}
			typ := byte('l')
			if r.Intn(4) == 0 {
				typ = 'h'
				if r.Intn(2) == 0 {
					target += "/secret"
				}
			}
			out = append(out, hostile{typ, ln, target})
			out = append(out, hostile{'r', ln + "/secret", ""})
			if r.Intn(2) == 0 {
				out = append(out, hostile{'d', ln + "/dir/sub/", ""})
				out = append(out, hostile{'r', ln + "/dir/file", ""})
			}
			if r.Intn(3) == 0 {
				out = append(out, hostile{'l', ln + "/inner", "../secret"})
			}
			if r.Intn(4) == 0 && !shuffle {
				out = append(out, hostile{'r', ln, ""}) // the link's own name again, as a file (before the link it would be kind c: a fatal error)
			}
		}
	}
	if shuffle {
		r.Shuffle(len(out), func(i, j int) { out[i], out[j] = out[j], out[i] })
	}
	return out
}

func writeHostile(tw *tar.Writer, hs []hostile, subst func(string) string) {
	for _, h := range hs {
		hd := &tar.Header{Name: subst(h.name), Mode: 0o644, Format: tar.FormatPAX}
		var body []byte
		switch h.typ {
		case 'r':
			hd.Typeflag = tar.TypeReg
			body = []byte("pwn")
			hd.Size = 3
		case 'd':
			hd.Typeflag = tar.TypeDir
			hd.Mode = 0o777
		case 'l':
			hd.Typeflag, hd.Linkname, hd.Mode = tar.TypeSymlink, subst(h.link), 0o777
		case 'h':
			hd.Typeflag, hd.Linkname = tar.TypeLink, subst(h.link)
		}
		if err := tw.WriteHeader(hd); err != nil {
			continue
		}
		if body != nil {
			_, err := tw.Write(body)
			must(err)
		}
	}
}

type lcase struct {
	hist   string
	fail   int
	kind   byte
	pos    int
	decoys int
	seed   int64
	req    byte // A N P
	entry  byte // v t
}

func (c lcase) String() string {
	f := "-"
	if c.fail >= 0 {
		f = strconv.Itoa(c.fail)
	}
	if c.req == 0 {
		c.req = 'A'
	}
	if c.entry == 0 {
		c.entry = 'v'
	}
	if c.req == 'A' && c.entry == 'v' {
		return fmt.Sprintf("load2 %s %s %c %d %d %d", c.hist, f, c.kind, c.pos, c.decoys, c.seed)
	}
	return fmt.Sprintf("load3 %s %s %c %d %d %d %c %c", c.hist, f, c.kind, c.pos, c.decoys, c.seed, c.req, c.entry)
}

const tmpLen = 4055 // with "/osv-scalibr-image-scanning-" + 5..10 digits: at most 4093 bytes; "/layer-i" on top of that exceeds PATH_MAX

func run(base string, id int, c lcase) string {
	return hx.Guard(func() string {
		root := filepath.Join(base, fmt.Sprintf("l%d", id))
		tmp, cwd, sib, victim := filepath.Join(root, "tmp"), filepath.Join(root, "cwd"), filepath.Join(root, "tmp-sibling"), filepath.Join(root, "victim")
		for _, d := range []string{tmp, cwd, sib, filepath.Join(victim, "dir")} {
			must(os.MkdirAll(d, 0o755))
		}
		for _, f := range []string{filepath.Join(sib, "keep"), filepath.Join(cwd, "keep"), filepath.Join(victim, "secret"), filepath.Join(victim, "dir", "file")} {
			must(os.WriteFile(f, []byte("k"), 0o644))
		}
		defer os.RemoveAll(root)
		tmpdir, obs := tmp, tmp
		switch c.kind {
		case 'p':
			for len(tmpdir) < tmpLen {
				n := min(200, tmpLen-len(tmpdir)-1)
				if rest := tmpLen - len(tmpdir) - 1 - n; rest == 1 { // never leave room for "/" alone
					n--
				}
				tmpdir += "/" + strings.Repeat("p", n)
			}
			must(os.MkdirAll(tmpdir, 0o755))
			obs = tmpdir
		case 'm':
			tmpdir = filepath.Join(tmp, "missing", "x")
		}
		for k, name := range []string{"osv-scalibr-image-scanning-0", "other"} {
			if k < c.decoys {
				sub := "layer-0"
				if c.kind == 'p' {
					sub = "" // no room for another level
				}
				must(os.MkdirAll(filepath.Join(obs, name, sub), 0o755))
				must(os.WriteFile(filepath.Join(obs, name, sub, "keep"), []byte("k"), 0o644))
			}
		}
		subst := strings.NewReplacer("@V@", victim, "@T@", obs, "@C@", cwd, "@R@", root).Replace
		var adds []mutate.Addendum
		badV1, nv1 := -1, 0
		for i := 0; i < len(c.hist); i++ {
			if c.hist[i] == 'E' {
				adds = append(adds, mutate.Addendum{History: v1.History{CreatedBy: fmt.Sprintf("env-%d", i), EmptyLayer: true}})
				continue
			}
			fatalHere := i == c.fail && c.kind != 'e'
			var hs []hostile
			if c.seed != 0 {
				hs = hostileEntries(rand.New(rand.NewSource(c.seed*131+int64(i))), i)
			}
			b := layerBytes(i, fatalHere, c.kind, c.pos, hs, subst)
			if i == c.fail && c.kind == 'e' {
				badV1 = nv1
			}
			nv1++
			l, err := tarball.LayerFromOpener(func() (io.ReadCloser, error) { return io.NopCloser(bytes.NewReader(b)), nil },
				tarball.WithCompressionLevel(gzip.NoCompression))
			must(err)
			adds = append(adds, mutate.Addendum{Layer: l, History: v1.History{CreatedBy: fmt.Sprintf("cmd-%d", i), EmptyLayer: c.hist[i] == 'X'}})
		}
		built, err := mutate.Append(empty.Image, adds...)
		must(err)
		var img v1.Image = wrapImage{Image: built, bad: badV1, layersErr: c.kind == 'y', configErr: c.kind == 'g'}
		tarPath := ""
		if c.entry == 't' && strings.IndexByte("eyg", c.kind) < 0 {
			tag, err := name.NewTag("verif/img:latest")
			must(err)
			must(os.MkdirAll(filepath.Join(root, "store"), 0o755))
			tarPath = filepath.Join(root, "store", "img.tar")
			must(tarball.WriteToFile(tarPath, tag, built))
		}
		var requirer require.FileRequirer = &require.FileRequirerAll{}
		switch c.req {
		case 'N':
			requirer = &require.FileRequirerNone{}
		case 'P':
			ps := []string{"victim/secret", "/k0-1/secret", "w/x", "after0"}
			for i := range c.hist {
				ps = append(ps, fmt.Sprintf("d%d/f0", i))
			}
			requirer = require.NewFileRequirerPaths(ps)
		}
		orig, _ := os.Getwd()
		os.Setenv("TMPDIR", tmpdir)
		must(os.Chdir(cwd))
		defer os.Chdir(orig)
		before := snap(root, "", obs)
		cfg := &image.Config{MaxFileBytes: limit, MaxSymlinkDepth: 6, Requirer: requirer}
		if c.kind == 'v' {
			switch c.pos % 3 { // the three ways a config is invalid
			case 0:
				cfg.MaxFileBytes = 0
			case 1:
				cfg.Requirer = nil
			default:
				cfg.MaxSymlinkDepth = -1
			}
		}
		misuse := 0
		if c.kind == 'z' {
			bogus := filepath.Join(root, "store-bogus")
			must(os.MkdirAll(bogus, 0o755))
			must(os.WriteFile(filepath.Join(bogus, "not-a-tarball"), []byte("this is no tar archive\n"), 0o644))
			var tb bytes.Buffer
			tw := tar.NewWriter(&tb)
			file(tw, "ok", 3)
			file(tw, "cut", 40)
			must(tw.Flush())
			must(os.WriteFile(filepath.Join(bogus, "cut.tar"), tb.Bytes()[:tb.Len()-520], 0o644))
			zb := snap(root, "", obs)
			bad := func(err error) {
				if err == nil {
					misuse++
				}
			}
			_, e1 := image.FromTarball(filepath.Join(bogus, "missing.tar"), cfg)
			bad(e1)
			_, e2 := image.FromTarball(filepath.Join(bogus, "not-a-tarball"), cfg)
			bad(e2)
			if d, e := image.FromV1Image(built, image.DefaultConfig()); e == nil {
				_ = d.CleanUp()
			} else {
				misuse++
			}
			_, e3 := unpack.NewUnpacker(&unpack.UnpackerConfig{})
			bad(e3)
			_, e4 := unpack.NewUnpacker(&unpack.UnpackerConfig{SymlinkResolution: unpack.SymlinkRetain})
			bad(e4)
			_, e5 := unpack.NewUnpacker(&unpack.UnpackerConfig{SymlinkResolution: unpack.SymlinkRetain, SymlinkErrStrategy: unpack.SymlinkErrLog})
			bad(e5)
			u, e := unpack.NewUnpacker(unpack.DefaultUnpackerConfig())
			must(e)
			bad(u.UnpackSquashed("", built))
			bad(u.UnpackSquashed(filepath.Join(bogus, "x"), nil))
			bad(u.UnpackSquashedFromTarball(filepath.Join(bogus, "x"), filepath.Join(bogus, "missing.tar")))
			if len(diff(zb, snap(root, "", obs))) > 0 {
				misuse += 100
			}
			into := filepath.Join(bogus, "into")
			must(os.MkdirAll(into, 0o755))
			zb = snap(root, into, obs)
			bad(u.UnpackSquashedFromTarball(into, filepath.Join(bogus, "cut.tar")))
			if len(diff(zb, snap(root, into, obs))) > 0 {
				misuse += 1000
			}
			before = snap(root, "", obs)
		}
		var im *image.Image
		var lerr error
		if tarPath != "" {
			im, lerr = image.FromTarball(tarPath, cfg)
		} else {
			im, lerr = image.FromV1Image(img, cfg)
		}
		if lerr != nil && os.Getenv("C06LOAD_DEBUG") != "" {
			fmt.Fprintln(os.Stderr, c.String(), "error:", lerr)
		}
		names, _ := os.ReadDir(obs)
		left := len(names)
		imgOK, partial, acc := 0, 0, 0
		var changed, esc []string
		if lerr == nil && im != nil {
			if cls, e := im.ChainLayers(); e == nil && im.Size() >= 0 {
				want := len(c.hist)
				if strings.Contains(c.hist, "X") || c.kind == 'g' { // invalid / missing history: one chain layer per archive
					want = len(c.hist) - strings.Count(c.hist, "E")
				}
				if len(cls) == want {
					acc = 1
				}
			}
			if strings.HasPrefix(im.ExtractDir, obs+string(filepath.Separator)) {
				if st, e := os.Stat(im.ExtractDir); e == nil && st.IsDir() {
					imgOK = 1
				}
			}
			if len(snap(im.ExtractDir, "", "")) > 0 {
				partial = 1
			}
			esc = escapes(im.ExtractDir)
			for _, d := range diff(before, snap(root, im.ExtractDir, obs)) {
				changed = append(changed, "after the load: "+d)
			}
			_ = im.CleanUp()
		}
		after, _ := os.ReadDir(obs)
		for _, d := range diff(before, snap(root, "", obs)) {
			changed = append(changed, "at the end: "+d)
		}
		hexOr := func(xs []string) string {
			if len(xs) == 0 {
				return "-"
			}
			if len(xs) > 6 {
				xs = append(xs[:6], fmt.Sprintf("(+%d more)", len(xs)-6))
			}
			return hx.Hex(strings.Join(xs, "; "))
		}
		var ns []string
		for _, n := range after {
			ns = append(ns, n.Name()[:min(len(n.Name()), 27)])
		}
		leftNames := "-"
		if len(ns) > 0 {
			leftNames = hx.Hex(strings.Join(ns, ","))
		}
		// ---- the same image through the squashed unpacker
		uerr, uout, uesc, udots := "-", "-", "-", 0
		if c.kind != 'm' && c.kind != 'p' {
			ur := rand.New(rand.NewSource(c.seed*7 + int64(len(c.hist))*13 + int64(c.pos)))
			ucfg := unpack.DefaultUnpackerConfig().WithMaxPass(ur.Intn(4)).WithMaxFileBytes([]int64{0, 2, 3, 1 << 20}[ur.Intn(4)]).WithRequirer(requirer)
			if ur.Intn(3) == 0 {
				ucfg.SymlinkErrStrategy = unpack.SymlinkErrReturn
			}
			if ur.Intn(12) == 0 {
				ucfg = ucfg.WithSymlinkResolution(unpack.SymlinkIgnore) // UnpackSquashed refuses it
			}
			udir := filepath.Join(root, "unpacked")
			must(os.MkdirAll(udir, 0o755))
			ubefore := snap(root, udir, obs)
			u, e := unpack.NewUnpacker(ucfg)
			must(e)
			ue := u.UnpackSquashed(udir, img)
			uerr = hx.B(ue != nil)
			var ch []string
			for _, d := range diff(ubefore, snap(root, udir, obs)) {
				ch = append(ch, d)
			}
			uout, uesc = hexOr(ch), hexOr(escapes(udir))
			if ls, e := built.Layers(); e == nil {
				for _, l := range ls {
					rc, e := l.Uncompressed()
					if e != nil {
						continue
					}
					tr := tar.NewReader(rc)
					for {
						h, e := tr.Next()
						if e != nil {
							break
						}
						if (h.Typeflag == tar.TypeSymlink || h.Typeflag == tar.TypeLink) && !strings.HasPrefix(h.Linkname, "/") {
							for _, seg := range strings.Split(h.Linkname, "/") {
								if seg == ".." {
									udots = 1
								}
							}
						}
					}
					rc.Close()
				}
			}
		}
		// ---- the same image through artifact/image.NewFromImage (what the CLI uses for remote images): it unpacks into a new
		// TMPDIR/scalibr-container-* and returns a DirFS of it; there is no clean-up API (after a SUCCESS the directory is the caller's to
		// find and remove: the harness does), after a FAILURE nothing may be left
		nfi, nfileft := "-", 0
		if c.kind != 'm' && c.kind != 'p' {
			nb := snap(root, "", obs)
			_, ne := scalibrimage.NewFromImage(img)
			nfi = hx.B(ne != nil)
			ents, _ := os.ReadDir(obs)
			for _, e := range ents {
				if strings.HasPrefix(e.Name(), "scalibr-container-") {
					if ne != nil {
						nfileft++
					}
					_ = os.RemoveAll(filepath.Join(obs, e.Name()))
				}
			}
			if d := diff(nb, snap(root, "", obs)); len(d) > 0 && uout == "-" {
				uout = hexOr(append([]string{"NewFromImage:"}, d...))
			}
		}
		return fmt.Sprintf("err=%s left=%d img=%d partial=%d clean=%d names=%s out=%s esc=%s acc=%d uerr=%s uout=%s uesc=%s udots=%d misuse=%d nfi=%s nfileft=%d", hx.B(lerr != nil), left, imgOK, partial,
			len(after), leftNames, hexOr(changed), hexOr(esc), acc, uerr, uout, uesc, udots, misuse, nfi, nfileft)
	})
}

func parseCase(l string) lcase {
	t := strings.Split(l, " ")
	num := func(s string) int {
		n, err := strconv.Atoi(s)
		must(err)
		return n
	}
	c := lcase{fail: -1, req: 'A', entry: 'v'}
	switch {
	case len(t) == 5 && t[0] == "load":
		c.hist = strings.Repeat("L", num(t[1]))
	case (len(t) == 7 && t[0] == "load2") || (len(t) == 9 && t[0] == "load3"):
		c.hist = t[1]
		c.decoys = num(t[5])
		s, err := strconv.ParseInt(t[6], 10, 64)
		must(err)
		c.seed = s
		if len(t) == 9 {
			c.req, c.entry = t[7][0], t[8][0]
		}
	default:
		panic("bad case line " + l)
	}
	if t[2] != "-" {
		c.fail = num(t[2])
	}
	c.kind, c.pos = t[3][0], num(t[4])
	return c
}

func main() {
	o := hx.Parse()
	log.SetLogger(nopLogger{})
	base, err := os.MkdirTemp("", "c06load-*")
	must(err)
	defer os.RemoveAll(base)
	out := hx.NewOut()
	defer out.Flush()
	id := 0
	emitLine := func(line string) {
		id++
		out.Emit(line, run(base, id, parseCase(line)))
	}
	emit := func(c lcase) { emitLine(c.String()) }
	if o.Replay != "" {
		for _, l := range hx.ReplayLines(o.Replay) {
			emitLine(l)
		}
		return
	}
	// exhaustive over the small space: 1..4 layers x every failing position x every kind x 0..2 good entries before
	for nl := 1; nl <= 4; nl++ {
		hist := strings.Repeat("L", nl)
		for _, kind := range []byte("-vympgz") {
			for decoys := 0; decoys <= 2; decoys++ {
				emit(lcase{hist: hist, fail: -1, kind: kind, pos: decoys, decoys: decoys, req: "ANP"[decoys], entry: "vt"[(decoys+nl)%2]})
			}
		}
		for fail := 0; fail < nl; fail++ {
			for _, kind := range []byte("cthlndbouekw") {
				for pos := 0; pos <= 2; pos++ {
					emit(lcase{hist: hist, fail: fail, kind: kind, pos: pos, decoys: (fail + pos) % 3, req: "ANP"[(fail+pos+int(kind))%3], entry: "vt"[(pos+nl)%2]})
				}
			}
		}
	}
	// empty-layer history entries around and between the layers, each failure exit once more
	for _, hist := range []string{"E", "EE", "EL", "LE", "ELE", "LEL", "ELEL", "EELLE", "LEEL", "X", "LX", "XEL", "ELXL"} {
		emit(lcase{hist: hist, fail: -1, kind: '-', decoys: 1})
		emit(lcase{hist: hist, fail: -1, kind: '-', decoys: 1, req: 'P', entry: 't'})
		emit(lcase{hist: hist, fail: -1, kind: 'p', decoys: 1})
		for fail := 0; fail < len(hist); fail++ {
			if hist[fail] != 'E' {
				for _, kind := range []byte("ctekw") {
					emit(lcase{hist: hist, fail: fail, kind: kind, pos: 1, decoys: 2, req: "ANP"[fail%3]})
				}
			}
		}
	}
	r := hx.Rng(o)
	allKinds := "cthlndbouekw-vympgz"
	for i := 0; i < o.N; i++ {
		nl := 1 + r.Intn(5)
		hist := make([]byte, nl)
		var ls []int
		for k := range hist {
			hist[k] = 'L'
			if r.Intn(5) == 0 {
				hist[k] = 'E'
			} else {
				if r.Intn(12) == 0 {
					hist[k] = 'X'
				}
				ls = append(ls, k)
			}
		}
		c := lcase{hist: string(hist), fail: -1, kind: '-', decoys: r.Intn(3), req: "AANP"[r.Intn(4)], entry: "vvt"[r.Intn(3)]}
		if i%4 != 0 || len(ls) == 0 { // three quarters: hostile entries in every archive, with or without a failure on top
			c.seed = 1 + r.Int63n(1<<40)
		}
		if len(ls) > 0 && r.Intn(2) == 0 {
			c.kind = allKinds[r.Intn(len(allKinds))]
			if strings.IndexByte("-vympgz", c.kind) < 0 {
				c.fail, c.pos = ls[r.Intn(len(ls))], r.Intn(4)
			}
		}
		emit(c)
	}
}
