// c15gen: correspondence stream for C15 — export an inventory with the real converters and writers
// (converter.ToSPDX23 / ToCDX, binary/spdx.Write23, binary/cdx.Write), scan the written file with the
// library's own SBOM extractors (extractor/filesystem/sbom/{spdx,cdx}) and print the purls that come back.
//
// Case grammar (see lean/Drivers/C15.lean):
//
//	(<format> may be written <format>~<f1>+<f2>…: the SAME ScanResult value was exported to f1, f2, … before, in that order; the reply
//	 carries mut=<0|1>: 1 = the scan result after the exports differs from the deep copy taken before them)
//	sbom <stream> <format> <n> { <name> <version> <locations> <cpes> <hasPurl> <type> <ns> <pname> <pversion> <quals> <subpath>
//	                             <raw> <norm> <normName> <normVersion> }
//
// strings: hex, "" is `_`; lists: comma-joined, empty list `-`; quals: list of khex:vhex.
// raw = hex(PackageURL.String()), norm = hex(FromString(raw).String()) or `!` — recomputed on every run
// (also on -replay), they are the purl library's table for the Lean model.
// Reply: purls=<sorted comma-joined hex of ToPURL(p).String() of the returned packages> extra=<returned packages whose
// ToPURL is nil> st=<ok|write-err|read-err|not-required|panic>
package main

import (
	"bytes"
	"context"
	"encoding/hex"
	"fmt"
	"math/rand"
	"os"
	"path/filepath"
	"runtime"
	"sort"
	"strconv"
	"strings"
	"sync"
	"sync/atomic"

	scalibr "github.com/google/osv-scalibr"
	"github.com/google/osv-scalibr/binary/cdx"
	"github.com/google/osv-scalibr/binary/cli"
	"github.com/google/osv-scalibr/binary/spdx"
	"github.com/google/osv-scalibr/converter"
	"github.com/google/osv-scalibr/extractor"
	"github.com/google/osv-scalibr/extractor/filesystem"
	cdxe "github.com/google/osv-scalibr/extractor/filesystem/sbom/cdx"
	spdxe "github.com/google/osv-scalibr/extractor/filesystem/sbom/spdx"
	"github.com/google/osv-scalibr/extractor/filesystem/simplefileapi"
	scalibrfs "github.com/google/osv-scalibr/fs"
	"github.com/google/osv-scalibr/inventory"
	"github.com/google/osv-scalibr/log"
	"github.com/google/osv-scalibr/plugin"
	"github.com/google/osv-scalibr/purl"
	"github.com/package-url/packageurl-go"

	"verif/harness/hx"
)

type nopLogger struct{}

func (nopLogger) Errorf(string, ...any) {}
func (nopLogger) Error(...any)          {}
func (nopLogger) Warnf(string, ...any)  {}
func (nopLogger) Warn(...any)           {}
func (nopLogger) Infof(string, ...any)  {}
func (nopLogger) Info(...any)           {}
func (nopLogger) Debugf(string, ...any) {}
func (nopLogger) Debug(...any)          {}

// ---------------------------------------------------------------- the fake extractor

// meta is the Metadata of a package that has no CPE list: converter.extractCPEs ignores it.
type meta struct{ u *purl.PackageURL }

type pex struct{}

func (pex) Name() string                        { return "verif" }
func (pex) Version() int                        { return 0 }
func (pex) Requirements() *plugin.Capabilities  { return &plugin.Capabilities{} }
func (pex) Ecosystem(*extractor.Package) string { return "" }

// ToPURL returns the purl stored in the package's metadata (nil = the package has no purl).
func (pex) ToPURL(p *extractor.Package) *purl.PackageURL {
	switch m := p.Metadata.(type) {
	case meta:
		return m.u
	case *spdxe.Metadata:
		return m.PURL
	case *cdxe.Metadata:
		return m.PURL
	}
	return nil
}

// ---------------------------------------------------------------- cases

type qual struct{ k, v string }

type pk struct {
	name, version                     string
	locs                              []string
	cpes                              []string // nil: metadata is not an SBOM metadata (no CPEs)
	hasPurl                           bool
	typ, ns, pname, pversion, subpath string
	quals                             []qual
}

type tcase struct {
	stream, format string
	// formats the SAME ScanResult value was exported to before this one, in order (binary/cli converts one result once per -o flag)
	prefix []string
	// state of the OUTPUT PATH before the judged export: "" / fresh, shorter, longer-bytes, longer-export, ro; viaCLI: written by cli.Flags.WriteScanResults
	pstate string
	viaCLI bool
	// cfg: index into sbomConfigs (document name / namespace / creators, component name / version / authors: --spdx-* / --cdx-* flags);
	// fname: index into the file names the importer accepts for the format; trunc: the written file is cut short before it is read back
	cfg, fname int
	trunc      bool
	pkgs   []pk
}

func (p pk) purl() purl.PackageURL {
	u := purl.PackageURL{Type: p.typ, Namespace: p.ns, Name: p.pname, Version: p.pversion, Subpath: p.subpath}
	for _, q := range p.quals {
		u.Qualifiers = append(u.Qualifiers, struct {
			Key   string
			Value string
		}{q.k, q.v}) // assignable to packageurl.Qualifier without importing it
	}
	return u
}

// libPurl is the package's purl as a value of the THIRD-PARTY library's own type.
func (p pk) libPurl() packageurl.PackageURL {
	u := packageurl.PackageURL{Type: p.typ, Namespace: p.ns, Name: p.pname, Version: p.pversion, Subpath: p.subpath}
	for _, q := range p.quals {
		u.Qualifiers = append(u.Qualifiers, packageurl.Qualifier{Key: q.k, Value: q.v})
	}
	return u
}

var validTypes = func() map[string]bool {
	m := map[string]bool{}
	for _, t := range allTypes {
		m[t] = true
	}
	return m
}()

// norm is the property's normalisation ("up to type normalisation"): print, then parse, with github.com/package-url/packageurl-go
// ALONE — no function of /repo/purl takes part, so a defect in /repo's PackageURL.String / FromString wrappers (which both SBOM
// importers and the exporters go through) cannot cancel out between the expected and the observed side. ok=false: the library
// cannot parse its own print, or the type is not one /repo/purl accepts (allTypes = validType of purl.go).
func norm(p pk) (packageurl.PackageURL, bool) {
	lu := p.libPurl()
	v, err := packageurl.FromString((&lu).String())
	if err != nil || !validTypes[v.Type] {
		return v, false
	}
	return v, true
}

// canonName mirrors Scalibr.Sbom.canonName (lean/Scalibr/Spec/Sbom.lean).
func canonName(s string) string {
	return strings.Map(func(c rune) rune {
		if c == '_' || c == '.' {
			return '-'
		}
		return []rune(strings.ToLower(string(c)))[0]
	}, s)
}

func cleanSegs(s string) string {
	var out []string
	for _, seg := range strings.Split(s, "/") {
		if seg != "" && seg != "." && seg != ".." {
			out = append(out, seg)
		}
	}
	return strings.Join(out, "/")
}

// normLawViolations counts purls on which the third-party library breaks the laws the C15 theorems and the oracle rely on:
// `NormLaws` (idempotent, version untouched, name equal up to canonName) and, component by component, NOTHING ELSE LOST:
// every qualifier with a non-empty value comes back under its lower-cased key with the very same value and no other
// qualifier appears, the sub-path is the same up to empty / "." / ".." segments, the namespace the same up to case and empty
// segments. Reported on stderr and as exit status 3 (a finding about the trusted library, not about /repo).
var normLawViolations int32

func checkNormLaws(p pk, n packageurl.PackageURL) {
	bad := ""
	n2, err := packageurl.FromString((&n).String())
	switch {
	case err != nil || (&n2).String() != (&n).String():
		bad = "not idempotent"
	case n.Version != p.pversion:
		bad = "version changed"
	case canonName(n.Name) != canonName(p.pname):
		bad = "name changed beyond case and _ . - folding"
	case n.Type != strings.ToLower(p.typ):
		// malformed stream (empty type, "npm/"): the components shift on re-parse; only the three laws above apply
	case strings.ToLower(cleanSegs(n.Namespace)) != strings.ToLower(cleanSegs(p.ns)):
		bad = "namespace changed beyond case and empty segments"
	case cleanSegs(n.Subpath) != cleanSegs(p.subpath):
		bad = "subpath changed beyond empty/./.. segments"
	default:
		want := map[string]string{}
		for _, q := range p.quals {
			if q.v != "" {
				want[strings.ToLower(q.k)] = q.v
			}
		}
		got := n.Qualifiers.Map()
		if len(got) != len(want) {
			bad = "qualifier set changed"
		}
		for k, v := range want {
			if g, ok := got[k]; !ok || g != v {
				bad = fmt.Sprintf("qualifier %q: value %q came back as %q", k, v, g)
			}
		}
	}
	if bad != "" {
		if atomic.AddInt32(&normLawViolations, 1) <= 5 {
			lu := p.libPurl()
			fmt.Fprintf(os.Stderr, "c15gen: packageurl-go breaks the normalisation laws (%s): %q -> %q\n", bad, (&lu).String(), (&n).String())
		}
	}
}

func hs(s string) string {
	if s == "" {
		return "_"
	}
	return hex.EncodeToString([]byte(s))
}

func unhs(s string) string {
	if s == "_" {
		return ""
	}
	b, err := hex.DecodeString(s)
	must(err)
	return string(b)
}

func hlist(xs []string) string {
	if len(xs) == 0 {
		return "-"
	}
	o := make([]string, len(xs))
	for i, x := range xs {
		o[i] = hs(x)
	}
	return strings.Join(o, ",")
}

func unhlist(s string) []string {
	if s == "-" {
		return nil
	}
	var o []string
	for _, x := range strings.Split(s, ",") {
		o = append(o, unhs(x))
	}
	return o
}

func must(err error) {
	if err != nil {
		panic(err)
	}
}

func (c tcase) line() string {
	var sb strings.Builder
	ftok := c.format
	if c.pstate != "" || c.viaCLI || c.cfg != 0 || c.fname != 0 || c.trunc {
		st := c.pstate
		if st == "" {
			st = "fresh"
		}
		if c.viaCLI {
			st += ",cli"
		}
		if c.cfg != 0 {
			st += fmt.Sprintf(",cfg%d", c.cfg)
		}
		if c.fname != 0 {
			st += fmt.Sprintf(",n%d", c.fname)
		}
		if c.trunc {
			st += ",trunc"
		}
		ftok += "@" + st // <format>@<state of the output path>[,cli]
	}
	if len(c.prefix) > 0 {
		ftok += "~" + strings.Join(c.prefix, "+") // <format>~<earlier export>+<earlier export>…
	}
	fmt.Fprintf(&sb, "sbom %s %s %d", c.stream, ftok, len(c.pkgs))
	for _, p := range c.pkgs {
		cp := "-"
		if p.cpes != nil {
			cp = hlist(p.cpes)
		}
		fmt.Fprintf(&sb, " %s %s %s %s", hs(p.name), hs(p.version), hlist(p.locs), cp)
		if !p.hasPurl {
			sb.WriteString(" 0 - - - - - - - - - - - - - -")
			continue
		}
		qs := "-"
		if len(p.quals) > 0 {
			o := make([]string, len(p.quals))
			for i, q := range p.quals {
				o[i] = hs(q.k) + ":" + hs(q.v)
			}
			qs = strings.Join(o, ",")
		}
		u := p.purl()
		fmt.Fprintf(&sb, " 1 %s %s %s %s %s %s %s", hs(p.typ), hs(p.ns), hs(p.pname), hs(p.pversion), qs, hs(p.subpath), hs(u.String()))
		if n, ok := norm(p); ok {
			checkNormLaws(p, n)
			fmt.Fprintf(&sb, " %s %s %s", hs((&n).String()), hs(n.Name), hs(n.Version))
			// the normal form's remaining components, for the Lean driver's `laws=` (NormLaws decided per row)
			nq := "-"
			if len(n.Qualifiers) > 0 {
				o := make([]string, len(n.Qualifiers))
				for i, q := range n.Qualifiers {
					o[i] = hs(q.Key) + ":" + hs(q.Value)
				}
				nq = strings.Join(o, ",")
			}
			fmt.Fprintf(&sb, " %s %s %s %s", hs(n.Type), hs(n.Namespace), nq, hs(n.Subpath))
		} else {
			sb.WriteString(" ! - - - - - -")
		}
	}
	return sb.String()
}

func parseCase(l string) tcase {
	t := strings.Split(l, " ")
	if len(t) < 4 || t[0] != "sbom" {
		panic("c15gen: not a C15 case line: " + l)
	}
	n, err := strconv.Atoi(t[3])
	must(err)
	c := tcase{stream: t[1], format: t[2]}
	if f, pre, ok := strings.Cut(t[2], "~"); ok {
		c.format = f
		if pre != "" {
			c.prefix = strings.Split(pre, "+")
		}
	}
	if f, st, ok := strings.Cut(c.format, "@"); ok {
		c.format = f
		for _, x := range strings.Split(st, ",") {
			switch x {
			case "cli":
				c.viaCLI = true
			case "fresh", "":
			case "trunc":
				c.trunc = true
			default:
				if strings.HasPrefix(x, "cfg") {
					c.cfg, _ = strconv.Atoi(x[3:])
				} else if len(x) > 1 && x[0] == 'n' && x[1] >= '0' && x[1] <= '9' {
					c.fname, _ = strconv.Atoi(x[1:])
				} else {
					c.pstate = x
				}
			}
		}
	}
	w := 19 // tokens per package; lines recorded before the normal form's components were added have 15
	if len(t) == 4+15*n && n > 0 {
		w = 15
	}
	if len(t) != 4+w*n {
		panic("c15gen: wrong token count in case line")
	}
	for i := 0; i < n; i++ {
		f := t[4+w*i : 4+w*(i+1)]
		p := pk{name: unhs(f[0]), version: unhs(f[1]), locs: unhlist(f[2])}
		if f[3] != "-" {
			p.cpes = unhlist(f[3])
			if p.cpes == nil {
				p.cpes = []string{}
			}
		}
		if f[4] == "1" {
			p.hasPurl = true
			p.typ, p.ns, p.pname, p.pversion, p.subpath = unhs(f[5]), unhs(f[6]), unhs(f[7]), unhs(f[8]), unhs(f[10])
			if f[9] != "-" {
				for _, kv := range strings.Split(f[9], ",") {
					k, v, _ := strings.Cut(kv, ":")
					p.quals = append(p.quals, qual{unhs(k), unhs(v)})
				}
			}
		}
		c.pkgs = append(c.pkgs, p)
	}
	return c
}

// ---------------------------------------------------------------- running the real code

type fmtInfo struct {
	file   string
	isSpdx bool
}

var formats = []string{"spdx23-json", "spdx23-yaml", "spdx23-tag-value", "cdx-json", "cdx-xml"}
var formatInfo = map[string]fmtInfo{
	"spdx23-json":      {"o.spdx.json", true},
	"spdx23-yaml":      {"o.spdx.yml", true},
	"spdx23-tag-value": {"o.spdx", true},
	"cdx-json":         {"o.cdx.json", false},
	"cdx-xml":          {"o.cdx.xml", false},
}

// fileNames: every spelling of an output file name the importers select by (extension tables of sbom/spdx, extension AND base-name
// tables of sbom/cdx; both compare case-insensitively); index 0 is formatInfo's.
var fileNames = map[string][]string{
	"spdx23-json":      {"o.spdx.json", "Result.SPDX.JSON", "a b.spdx.json", "scan-v1.2.spdx.json", "host.example.com-2026-09-30.spdx.json", ".spdx.json"},
	"spdx23-yaml":      {"o.spdx.yml", "O.Spdx.Yml", "scan-v1.2.spdx.yml", "host.example.com.spdx.yml", "result.spdx.yaml"},
	"spdx23-tag-value": {"o.spdx", "sbom.SPDX", "v1.2.spdx"},
	"cdx-json":         {"o.cdx.json", "bom.json", "BOM.JSON", "x.CDX.json", "scan-v1.2.cdx.json", "host.example.com-2026-09-30.cdx.json"},
	"cdx-xml":          {"o.cdx.xml", "bom.xml", "Bom.Xml", "x.y.z.cdx.xml"},
}
// (result.spdx.yaml is the name binary/cli/cli_test.go gives an spdx23-yaml output, result.cyclonedx.json the one the help text of the -o flag
// gives a cdx-json output: names the project itself writes SBOMs to)

func (c tcase) fileName() string {
	ns := fileNames[c.format]
	if len(ns) == 0 {
		return "o.out"
	}
	return ns[c.fname%len(ns)]
}

// sbomConfigs: the --spdx-document-name / --spdx-document-namespace / --spdx-creators / --cdx-component-name / --cdx-component-version /
// --cdx-authors flags. They only change document metadata: the purls that come back must not depend on them.
var sbomConfigs = []cli.Flags{
	{},
	{SPDXDocumentName: "my document", SPDXDocumentNamespace: "https://example.com/ns/1", SPDXCreators: "Person:Jane Doe,Tool:scalibr-1.0",
		CDXComponentName: "component", CDXComponentVersion: "1.2.3", CDXAuthors: "a,b"},
	{SPDXDocumentName: "<doc> & \"name\" \u00e9", SPDXCreators: "Organization:ACME: Inc.", CDXComponentName: "main", CDXComponentVersion: "", CDXAuthors: ""},
	{SPDXDocumentNamespace: "urn:x", SPDXCreators: "Tool:a,Tool:b", CDXAuthors: ",,x"},
	{SPDXCreators: "Person"}, // no colon
}

func (c tcase) flags() *cli.Flags {
	f := sbomConfigs[c.cfg%len(sbomConfigs)]
	return &f
}

func scalibrPackages(c tcase) []*extractor.Package {
	var pkgs []*extractor.Package
	for i, p := range c.pkgs {
		var up *purl.PackageURL
		if p.hasPurl {
			u := p.purl()
			up = &u
		}
		var md any
		switch {
		case p.cpes == nil:
			md = meta{up}
		case i%2 == 0:
			md = &spdxe.Metadata{PURL: up, CPEs: p.cpes}
		default:
			md = &cdxe.Metadata{PURL: up, CPEs: p.cpes}
		}
		pkgs = append(pkgs, &extractor.Package{Name: p.name, Version: p.version, Locations: p.locs, Metadata: md, Extractor: pex{}})
	}
	return pkgs
}

// debugf prints the library's error text to stderr when C15_DEBUG is set (never part of the protocol).
func debugf(format string, a ...any) {
	if os.Getenv("C15_DEBUG") != "" {
		fmt.Fprintf(os.Stderr, format+"\n", a...)
	}
}

// pkgImage is a deep copy of what an export may read of one package.
type pkgImage struct {
	ptr                 *extractor.Package
	name, version, purl string
	locs, cpes          []string
}

func imageOf(pkgs []*extractor.Package) []pkgImage {
	out := make([]pkgImage, len(pkgs))
	for i, p := range pkgs {
		im := pkgImage{ptr: p}
		if p != nil {
			im.name, im.version = p.Name, p.Version
			im.locs = append([]string{}, p.Locations...)
			if u := (pex{}).ToPURL(p); u != nil {
				im.purl = u.String()
			}
			switch m := p.Metadata.(type) {
			case *spdxe.Metadata:
				im.cpes = append([]string{}, m.CPEs...)
			case *cdxe.Metadata:
				im.cpes = append([]string{}, m.CPEs...)
			}
		}
		out[i] = im
	}
	return out
}

func sameImage(a, b []pkgImage) bool {
	if len(a) != len(b) {
		return false
	}
	for i := range a {
		if a[i].ptr != b[i].ptr || a[i].name != b[i].name || a[i].version != b[i].version || a[i].purl != b[i].purl ||
			strings.Join(a[i].locs, "\x00") != strings.Join(b[i].locs, "\x00") || strings.Join(a[i].cpes, "\x00") != strings.Join(b[i].cpes, "\x00") {
			return false
		}
	}
	return true
}

// export writes res in the given format into dir and returns the file's path.
func export(res *scalibr.ScanResult, dir, format string) (string, error) {
	return exportAs(res, filepath.Join(dir, formatInfo[format].file), format, &cli.Flags{})
}

// exportAs writes res to path p through the real converters and writers, with the document configuration of the flags.
func exportAs(res *scalibr.ScanResult, p, format string, f *cli.Flags) (string, error) {
	if strings.Contains(format, "spdx23") { // the dispatch of cli.Flags.WriteScanResults
		return p, spdx.Write23(converter.ToSPDX23(res, f.GetSPDXConfig()), p, format)
	}
	return p, cdx.Write(converter.ToCDX(res, f.GetCDXConfig()), p, format)
}

// preparePath puts the output path of the judged export into its generated state (binary/spdx Write23 and binary/cdx Write must
// truncate / create whatever is there):
//
//	fresh          nothing at the path
//	shorter        a 7-byte file
//	longer-bytes   arbitrary bytes, longer than the document about to be written (measured by a trial export next to it)
//	longer-export  a previous, LARGER export in the same format through the real writer (the inventory plus 40 more packages)
//	ro             a longer file that was read-only (0444) and made writable again just before the export
func preparePath(p string, c tcase, dir string) {
	trial := func() int {
		tdir := filepath.Join(dir, "trial")
		must(os.MkdirAll(tdir, 0o755))
		tp, err := export(&scalibr.ScanResult{Inventory: inventory.Inventory{Packages: scalibrPackages(c)}}, tdir, c.format)
		n := 0
		if st, e := os.Stat(tp); err == nil && e == nil {
			n = int(st.Size())
		}
		os.RemoveAll(tdir)
		return n
	}
	switch c.pstate {
	case "", "fresh":
	case "shorter":
		must(os.WriteFile(p, []byte("{\"a\":1"), 0o644))
	case "longer-bytes":
		must(os.WriteFile(p, bytes.Repeat([]byte("x9}\n<"), trial()/5+200), 0o644))
	case "ro":
		must(os.WriteFile(p, bytes.Repeat([]byte(" \n"), trial()/2+500), 0o444))
		must(os.Chmod(p, 0o644))
	case "longer-export":
		big := tcase{stream: c.stream, format: c.format, pkgs: append([]pk{}, c.pkgs...)}
		for i := 0; i < 40; i++ {
			n := fmt.Sprintf("previous-export-filler-package-%02d", i)
			big.pkgs = append(big.pkgs, pk{name: n, version: "1.0.0", locs: []string{"some/long/path/to/" + n}, hasPurl: true, typ: "npm", pname: n, pversion: "1.0.0"})
		}
		if _, err := exportAs(&scalibr.ScanResult{Inventory: inventory.Inventory{Packages: scalibrPackages(big)}}, p, c.format, &cli.Flags{}); err != nil {
			_ = os.WriteFile(p, bytes.Repeat([]byte("y"), trial()+300), 0o644) // the writer refuses this inventory: arbitrary longer bytes instead
		}
	case "isdir": // the output path is an existing directory: the writer must fail with an error
		must(os.MkdirAll(p, 0o755))
	case "nodir": // the directory of the output path does not exist (handled by the caller: p lies in a missing directory)
	default:
		panic("unknown output path state " + c.pstate)
	}
}

// importDocs: documents the exporters never write but the importers accept (third-party SBOMs): SPDX packages identified by a CPE only, by a
// CPE and a purl, by two purls, without any reference; CycloneDX components nested in components, components with a CPE only. Fixed
// expectations (name|purl of every returned package, in order) — the importer branches behind them are outside the round trip.
var importDocs = []struct{ file, doc, want string }{
	{"a.spdx.json", `{"spdxVersion":"SPDX-2.3","SPDXID":"SPDXRef-DOCUMENT","name":"d","packages":[
	 {"name":"nginx","SPDXID":"SPDXRef-1","externalRefs":[{"referenceCategory":"SECURITY","referenceType":"cpe23Type","referenceLocator":"cpe:2.3:a:nginx:nginx:1.21.1:*:*:*:*:*:*:*"}]},
	 {"name":"openssl","SPDXID":"SPDXRef-2","externalRefs":[{"referenceCategory":"SECURITY","referenceType":"cpe23Type","referenceLocator":"cpe:2.3:a:o:o:1:*:*:*:*:*:*:*"},{"referenceCategory":"PACKAGE-MANAGER","referenceType":"purl","referenceLocator":"pkg:generic/openssl@1.1.1l"}]},
	 {"name":"two","SPDXID":"SPDXRef-3","externalRefs":[{"referenceCategory":"PACKAGE-MANAGER","referenceType":"purl","referenceLocator":"pkg:npm/a@1"},{"referenceCategory":"PACKAGE-MANAGER","referenceType":"purl","referenceLocator":"pkg:npm/b@2"}]},
	 {"name":"norefs","SPDXID":"SPDXRef-4"},
	 {"name":"badpurl","SPDXID":"SPDXRef-5","externalRefs":[{"referenceCategory":"PACKAGE-MANAGER","referenceType":"purl","referenceLocator":"not a purl"}]},
	 {"name":"rdfstyle","SPDXID":"SPDXRef-6","externalRefs":[{"referenceCategory":"PACKAGE-MANAGER","referenceType":"http://spdx.org/rdf/references/purl","referenceLocator":"pkg:gem/r@3"}]}]}`,
		"cpe:2.3:a:nginx:nginx:1.21.1:*:*:*:*:*:*:*|-,openssl|pkg:generic/openssl@1.1.1l,b|pkg:npm/b@2,r|pkg:gem/r@3"},
	{"bom.json", `{"bomFormat":"CycloneDX","specVersion":"1.5","components":[
	 {"type":"library","name":"outer","version":"1","purl":"pkg:npm/outer@1","components":[
	   {"type":"library","name":"inner","version":"2","purl":"pkg:npm/inner@2","components":[{"type":"library","name":"innermost","version":"3","purl":"pkg:npm/innermost@3"}]},
	   {"type":"library","name":"cpeonly","version":"4","cpe":"cpe:2.3:a:x:y:4:*:*:*:*:*:*:*"}]},
	 {"type":"library","name":"nothing","version":"5"},
	 {"type":"library","name":"badpurl","version":"6","purl":"::"}]}`,
		"outer|pkg:npm/outer@1,inner|pkg:npm/inner@2,innermost|pkg:npm/innermost@3,cpeonly|-"},
	{"x.cdx.xml", `<?xml version="1.0" encoding="UTF-8"?><bom xmlns="http://cyclonedx.org/schema/bom/1.5" version="1"><components>
	 <component type="library"><name>a</name><version>1</version><purl>pkg:pypi/a@1</purl><components><component type="library"><name>b</name><version>2</version><purl>pkg:pypi/b@2</purl></component></components></component>
	 </components></bom>`, "a|pkg:pypi/a@1,b|pkg:pypi/b@2"},
}

func runImport(tmp string, k int) string {
	return hx.Guard(func() string {
		d := importDocs[k]
		dir, err := os.MkdirTemp(tmp, "i")
		must(err)
		defer os.RemoveAll(dir)
		p := filepath.Join(dir, d.file)
		must(os.WriteFile(p, []byte(d.doc), 0o644))
		var ex filesystem.Extractor = spdxe.New()
		if !strings.Contains(d.file, "spdx") {
			ex = cdxe.New()
		}
		info, err := os.Stat(p)
		must(err)
		if !ex.FileRequired(simplefileapi.New(d.file, info)) {
			return "purls=- extra=0 st=not-required"
		}
		fh, err := os.Open(p)
		must(err)
		defer fh.Close()
		inv, err := ex.Extract(context.Background(), &filesystem.ScanInput{FS: scalibrfs.DirFS(dir), Path: d.file, Root: dir, Info: info, Reader: fh})
		if err != nil {
			debugf("import %s: %v", d.file, err)
			return "purls=- extra=0 st=read-err got=- want=" + hs(d.want)
		}
		var got []string
		for _, q := range inv.Packages {
			u := "-"
			if pu := ex.ToPURL(q); pu != nil {
				u = pu.String()
			}
			got = append(got, q.Name+"|"+u)
		}
		return fmt.Sprintf("purls=- extra=0 st=ok got=%s want=%s", hs(strings.Join(got, ",")), hs(d.want))
	})
}

// run exports ONE ScanResult value first to the formats of c.prefix (as `scalibr -o a=… -o b=…` does: one result, one conversion per
// flag, in order), then to c.format, and scans the last file back. mut=1: the scan result after the exports is not the deep copy taken
// before them (same packages in the same order with the same fields) — exporting must not modify what it exports.
func run(tmp string, c tcase) string {
	return hx.Guard(func() string {
		fi, known := formatInfo[c.format]
		dir, err := os.MkdirTemp(tmp, "c")
		must(err)
		defer os.RemoveAll(dir)
		res := &scalibr.ScanResult{Inventory: inventory.Inventory{Packages: scalibrPackages(c)}}
		before := imageOf(res.Inventory.Packages)
		for i, pf := range c.prefix {
			pdir := filepath.Join(dir, fmt.Sprintf("pre%d", i))
			must(os.MkdirAll(pdir, 0o755))
			if _, err := export(res, pdir, pf); err != nil {
				debugf("write (earlier export) %s: %v", pf, err)
			}
		}
		// the output path in its generated state: the writers must produce the same file whatever was there before
		name := c.fileName()
		p := filepath.Join(dir, name)
		if c.pstate == "nodir" {
			p = filepath.Join(dir, "missing-dir", name)
		}
		if known {
			preparePath(p, c, dir)
		}
		vf := ""
		flags := c.flags()
		if c.viaCLI || !known {
			// the real command-line path: one Flags value, one -o item per export, ValidateFlags, then WriteScanResults
			var outs []string
			for i, pf := range c.prefix {
				outs = append(outs, pf+"="+filepath.Join(dir, fmt.Sprintf("pre%d", i), formatInfo[pf].file))
			}
			outs = append(outs, c.format+"="+p)
			flags.Output = outs
			verr := cli.ValidateFlags(flags)
			vf = " vf=" + hx.B(verr == nil)
			if verr != nil && !known {
				// refused, as it must be: the binary stops here (main calls ValidateFlags first), so no writer is called. Handing the refused item
				// to WriteScanResults would make it write to whatever follows its FIRST "=" (for "cdx-xml=x=<path>": a file x in the working directory)
				// The writers themselves are still asked, directly and with the absolute path: they must refuse the name too and create nothing.
				_, werr := exportAs(res, p, c.format, flags)
				_, serr := os.Stat(p)
				return "purls=- extra=0 st=" + map[bool]string{true: "flag-rejected", false: "ok"}[werr != nil] + " mut=0" + vf + " created=" + hx.B(serr == nil) + " wr=" + hx.B(werr != nil)
			}
			if !known && strings.Count(flags.Output[len(flags.Output)-1], "=") != 1 {
				// accepted although the item does not split into <format>=<path>: reported by the oracle (vf=1); never written
				return "purls=- extra=0 st=ok mut=0" + vf + " created=0"
			}
			if verr != nil && known {
				// the command line refuses these flags: nothing is exported (legitimate only for flag values that are themselves invalid)
				debugf("ValidateFlags: %v", verr)
				return "purls=- extra=0 st=flag-rejected mut=0" + vf
			}
			err = flags.WriteScanResults(res)
			if err != nil && len(c.prefix) > 0 {
				// WriteScanResults stops at the first -o item that fails (e.g. the known YAML writer finding in an EARLIER item): judge this
				// format on its own item
				flags.Output = outs[len(outs)-1:]
				err = flags.WriteScanResults(res)
			}
		} else {
			_, err = exportAs(res, p, c.format, flags)
		}
		mut := hx.B(!sameImage(before, imageOf(res.Inventory.Packages))) + vf
		if !known {
			// a format name the writers do not know (stream cliflags): WriteScanResults must fail or ValidateFlags must have refused it; nothing to read back
			_, serr := os.Stat(p)
			return fmt.Sprintf("purls=- extra=0 st=%s mut=%s created=%s", map[bool]string{true: "write-err", false: "ok"}[err != nil], mut, hx.B(serr == nil))
		}
		if err != nil {
			debugf("write %s: %v", c.format, err)
			return "purls=- extra=0 st=write-err mut=" + mut
		}
		if os.Getenv("C15_DUMP") != "" { // debugging aid: the written file goes to stderr
			b, _ := os.ReadFile(p)
			fmt.Fprintf(os.Stderr, "----- %s\n%s\n", name, b)
		}
		if c.trunc { // the file is cut somewhere inside: the importers must answer with an error (JSON / XML) or a result, never crash
			if st, e := os.Stat(p); e == nil && st.Size() > 2 {
				must(os.Truncate(p, st.Size()/2))
			}
		}
		var ex filesystem.Extractor = spdxe.New()
		if !fi.isSpdx {
			ex = cdxe.New()
		}
		info, err := os.Stat(p)
		must(err)
		if !ex.FileRequired(simplefileapi.New(name, info)) {
			return "purls=- extra=0 st=not-required mut=" + mut + " name=" + hs(name)
		}
		fh, err := os.Open(p)
		must(err)
		defer fh.Close()
		inv, err := ex.Extract(context.Background(), &filesystem.ScanInput{FS: scalibrfs.DirFS(dir), Path: name, Root: dir, Info: info, Reader: fh})
		if err != nil {
			debugf("read %s: %v", c.format, err)
			return "purls=- extra=0 st=read-err mut=" + mut
		}
		var got []string
		extra := 0
		for _, q := range inv.Packages {
			if u := ex.ToPURL(q); u != nil {
				got = append(got, hs(u.String()))
			} else {
				extra++
			}
		}
		sort.Strings(got)
		return fmt.Sprintf("purls=%s extra=%d st=ok mut=%s", hx.Join(got, ","), extra, mut)
	})
}

// ---------------------------------------------------------------- generation

// every purl type of /repo/purl/purl.go (validType), i.e. a superset of what the built-in extractors emit
// (grep purl.Type in /repo/extractor: apk brew cargo cocoapods composer conan cos cran deb flatpak gem generic
// golang googet haskell hex kernelmod macapps maven nix npm nuget opkg pacman portage pub pypi rpm snap wordpress).
var allTypes = []string{purl.TypeAlpm, purl.TypeApk, purl.TypeBitbucket, purl.TypeBrew, purl.TypeCocoapods, purl.TypeCargo,
	purl.TypeComposer, purl.TypeConan, purl.TypeConda, purl.TypeCOS, purl.TypeCran, purl.TypeDebian, purl.TypeDocker,
	purl.TypeFlatpak, purl.TypeGem, purl.TypeGeneric, purl.TypeGithub, purl.TypeGolang, purl.TypeHackage,
	purl.TypeKernelModule, purl.TypeKernelVmlinuz, purl.TypeHaskell, purl.TypeMacApps, purl.TypeHex, purl.TypeMaven,
	purl.TypeNix, purl.TypeNPM, purl.TypePacman, purl.TypeNuget, purl.TypeOCI, purl.TypeOpkg, purl.TypePub,
	purl.TypePortage, purl.TypePyPi, purl.TypeRPM, purl.TypeSnap, purl.TypeSwift, purl.TypeGooget, purl.TypeWordpress}

var typeNS = map[string][]string{
	purl.TypeNPM: {"", "@scope", "@Angular"}, purl.TypeMaven: {"org.apache.commons", "com.Google.guava", "io.x"},
	purl.TypeDebian: {"debian", "ubuntu", "Debian"}, purl.TypeRPM: {"fedora", "redhat", "", "openSUSE"},
	purl.TypeApk: {"alpine", "Alpine", ""}, purl.TypeGolang: {"github.com/a", "golang.org/x", "GitHub.com/Foo/Bar"},
	purl.TypeGithub: {"Google", "a"}, purl.TypeBitbucket: {"Team", "a"}, purl.TypeComposer: {"laravel", "Vendor"},
	purl.TypeCOS: {"", "cos"}, purl.TypeAlpm: {"arch", "Arch"}, purl.TypePacman: {"arch", ""}, purl.TypeSwift: {"github.com/apple", ""},
	purl.TypeDocker: {"library", ""}, purl.TypeConan: {"", "bincrafters"}, purl.TypeHex: {"", "acme"}, purl.TypeSnap: {"", "ubuntu"},
	purl.TypeOpkg: {"", "openwrt"}, purl.TypePortage: {"", "dev-libs", "gentoo"}, purl.TypeFlatpak: {"", "fedora"},
	purl.TypeNix: {"", "nixos"}, purl.TypeGeneric: {"", "a/b/c"},
}

var qualKeys = []string{purl.Distro, purl.Epoch, purl.Arch, purl.Origin, purl.Source, purl.SourceVersion, purl.SourceRPM,
	purl.BuildNumber, purl.PackageDependencies, purl.Classifier, purl.Type, "repository_url", "file_name", "Arch", "vcs_url"}

var plainNames = []string{"pkg", "libc6", "zope.interface", "Zope_Interface", "left-pad", "q", "socket.io", "libstdc++", "Django",
	"python3.11", "org.json", "core", "x", "gtk+3.0", "foo_bar", "A", "lodash.merge", "7zip",
	// names that collide with the exporters' own structural vocabulary: the SPDX wrapper package ("main", id
	// SPDXRef-Package-main-<uuid>), the document ids and names, the NOASSERTION / NONE specials, the tool name, and names
	// whose sanitised SPDX ids coincide (a_b / a-b / a+b all give SPDXRef-Package-a-b-<uuid>)
	"main", "main-bower-files", "main_menu", "main@x", "main.js", "main/sub", "Package-main", "Package-main-1", "SPDXRef-Package-main",
	"SPDXRef-DOCUMENT", "SPDXRef-Document", "DOCUMENT", "Document", "NOASSERTION", "NONE", "SCALIBR", "SCALIBR-generated SPDX",
	"a_b", "a-b", "a+b", "a.b", "Tool", "bom-ref", "metadata", "component"}
var plainVersions = []string{"1.0.0", "1:2.3-4~x", "2.0.0-rc.1+build.5", "v1.2.3", "0", "1.0", "20240101", "1.2.3-r0", "2:1.02.175-2.1ubuntu4", "5.0_p1", "1.0.0.Final", "3.11.4~rc1"}
var plainValues = []string{"amd64", "bookworm", "a b", "1", "jar", "x86_64", "ubuntu-22.04", "glibc-2.36-9+deb12u3", "https://example.com/repo?x=1&y=2", "a:b", "1~2+3", "sources"}
var plainPaths = []string{"usr/lib/node_modules/a/package.json", "var/lib/dpkg/status", "a b/c.json", "f", "opt/app/pom.xml", "lib/apk/db/installed", "x/y/z/Cargo.lock"}
var plainSub = []string{"cmd/x", "src/main", "a/b c", "pkg"}

// atoms that need escaping somewhere: JSON, YAML, XML, tag-value, URLs
var escAtoms = []string{"<", ">", "&", "\"", "'", "\\", "#", ":", " ", "  ", "é", "日本", "İ", "😀", "%", "%41", "?", "@", "/", "=", ";", ",", "*", "!",
	"{", "}", "[", "]", "|", "`", "$", "- ", ": ", " #", "'''", "\"\"\"", "~", "null", "true", "123", "0x1f", "1e3", ".inf", "yes", "<!--", "-->",
	"]]>", "<![CDATA[", "&amp;", "&#10;", "\\n", "\\u0041", "+", "a+b", "\u00a0", "\u2003", "１", "<a href='x'>", "</name>", "{{x}}", "%%", "&&", "\\\"", "NOASSERTION", "NONE"}

// atoms of the raw sub-stream: line structure and tag-value text blocks
var rawAtoms = []string{"\n", "\r\n", "\r", "\t", "<text>", "</text>", "\n\n", " \n ", "<text>a</text>", "\nPackageName: x\n"}

// atoms of the ctl sub-stream: control and non-characters (no syntax can carry all of them literally)
var ctlAtoms = []string{"\x00", "\x01", "\x08", "\x1b[0m", "\x1f", "\x7f", "\u0080", "\u0085", "\u009f", "\u2028", "\u2029", "\ufeff", "\ufffe", "\uffff"}

type gen struct {
	r      *rand.Rand
	stream string
}

func (g gen) pick(xs []string) string { return xs[g.r.Intn(len(xs))] }

// str decorates a plain string according to the stream.
func (g gen) str(plain []string) string {
	s := g.pick(plain)
	var atoms []string
	switch g.stream {
	case "esc":
		atoms = escAtoms
	case "raw":
		if g.r.Intn(3) != 0 {
			atoms = rawAtoms
		} else {
			atoms = escAtoms
		}
	case "ctl":
		if g.r.Intn(3) != 0 {
			atoms = ctlAtoms
		} else {
			atoms = escAtoms
		}
	default:
		return s
	}
	if g.r.Intn(3) == 0 {
		return s
	}
	for k := 1 + g.r.Intn(3); k > 0; k-- {
		a := g.pick(atoms)
		switch g.r.Intn(4) {
		case 0:
			s = a + s
		case 1:
			s = s + a
		case 2:
			i := g.r.Intn(len(s) + 1)
			for i < len(s) && i > 0 && s[i]&0xC0 == 0x80 { // keep valid UTF-8
				i++
			}
			s = s[:i] + a + s[i:]
		default:
			s = a
		}
	}
	return s
}

func (g gen) pkg() pk {
	r := g.r
	p := pk{hasPurl: r.Intn(100) >= 15}
	p.typ = allTypes[r.Intn(len(allTypes))]
	if r.Intn(12) == 0 {
		p.typ = strings.ToUpper(p.typ[:1]) + p.typ[1:]
		if r.Intn(2) == 0 {
			p.typ = strings.ToUpper(p.typ)
		}
	}
	if ns, ok := typeNS[strings.ToLower(p.typ)]; ok {
		p.ns = g.pick(ns)
	} else if r.Intn(4) == 0 {
		p.ns = g.pick([]string{"ns", "Some/Name Space", "a.b"})
	}
	if p.ns != "" && g.stream != "valid" && r.Intn(3) == 0 {
		p.ns = g.str([]string{p.ns})
	}
	p.pname = g.str(plainNames)
	p.pversion = g.str(plainVersions)
	if r.Intn(20) == 0 {
		p.pversion = "" // ToSPDX23 skips these
	}
	// packageurl-go's per-type rules (validCustomRules): conan needs a channel qualifier exactly when it has a
	// namespace, swift needs namespace and version, cran needs a version. The valid streams stay inside them; the
	// malformed stream leaves them.
	switch strings.ToLower(p.typ) {
	case purl.TypeConan:
		if p.ns != "" {
			p.ns = g.pick([]string{"bincrafters", "Conan_Org"}) // not decorated: a namespace of slashes only normalises to ""
			p.quals = append(p.quals, qual{"channel", g.pick([]string{"stable", "testing"})})
		}
	case purl.TypeSwift:
		p.ns = g.pick([]string{"github.com/apple", "github.com/Alamofire"})
		if p.pversion == "" {
			p.pversion = "1.0"
		}
	case purl.TypeCran:
		if p.pversion == "" {
			p.pversion = "1.0"
		}
	}
	seen := map[string]bool{"channel": true}
	for k := r.Intn(4); k > 0 && r.Intn(2) == 0; k-- {
		key := g.pick(qualKeys)
		if seen[strings.ToLower(key)] { // a purl has at most one value per (case-insensitive) key
			continue
		}
		seen[strings.ToLower(key)] = true
		p.quals = append(p.quals, qual{key, g.str(plainValues)})
	}
	if r.Intn(5) == 0 {
		p.subpath = g.str(plainSub)
	}
	// the SCALIBR package's own name/version: usually the purl's, sometimes different or empty
	p.name, p.version = p.pname, p.pversion
	switch r.Intn(8) {
	case 0:
		p.name = g.str(plainNames)
	case 1:
		p.version = g.str(plainVersions)
	case 2:
		p.name = ""
	case 3:
		p.version = ""
	}
	for k := r.Intn(4); k > 0; k-- {
		p.locs = append(p.locs, g.str(plainPaths))
	}
	if r.Intn(10) == 0 {
		p.cpes = []string{}
		for k := r.Intn(3); k > 0; k-- {
			p.cpes = append(p.cpes, g.pick([]string{"cpe:2.3:a:vendor:product:1.0:*:*:*:*:*:*:*", "cpe:2.3:o:linux:linux_kernel:6.1:*:*:*:*:*:*:*", "cpe:/a:x:y:1", ""}))
		}
	}
	if g.stream == "malformed" && p.hasPurl && r.Intn(2) == 0 {
		switch r.Intn(8) {
		case 5:
			p.typ, p.ns, p.quals = "conan", "bincrafters", nil // namespace without channel
		case 6:
			p.typ, p.ns = "swift", "" // namespace required
		case 7:
			p.typ, p.pversion = "cran", "" // version required
		case 0:
			p.typ = g.pick([]string{"bogus", "sbom", "pkg", "my type", "n.p-m+x"})
		case 1:
			p.pname = ""
		case 2:
			p.typ = ""
		case 3:
			p.quals = append(p.quals, qual{g.pick([]string{"a b", "", "1x", "k=v", "é", "arch", "Arch"}), "v"}, qual{"arch", "w"})
		case 4:
			p.typ = "npm/"
		}
	}
	if !p.hasPurl {
		p.typ, p.ns, p.pname, p.pversion, p.subpath, p.quals = "", "", "", "", "", nil
		if p.name == "" {
			p.name = "nopurl"
		}
	}
	return p
}

func (g gen) inventory() []pk {
	r := g.r
	n := r.Intn(7)
	if r.Intn(3) == 0 {
		n = r.Intn(31)
	}
	var ps []pk
	for len(ps) < n {
		if len(ps) > 0 && r.Intn(6) == 0 { // duplicate of an earlier package, sometimes found elsewhere
			d := ps[r.Intn(len(ps))]
			if r.Intn(2) == 0 {
				d.locs = []string{g.str(plainPaths)}
			}
			ps = append(ps, d)
			continue
		}
		ps = append(ps, g.pkg())
	}
	return ps
}

// fixed cases run in both tiers: the empty inventory, one package per purl type (lower- and upper-case type, with
// namespace, qualifiers and sub-path), and the 13-package inventory of the design-round probe (B.17).
func fixedInventories() [][]pk {
	out := [][]pk{nil}
	mk := func(typ, ns, name, ver string, qs []qual, sub string) pk {
		return pk{name: name, version: ver, locs: []string{"f"}, hasPurl: true, typ: typ, ns: ns, pname: name, pversion: ver, quals: qs, subpath: sub}
	}
	for _, t := range allTypes {
		ns := "ns"
		if l, ok := typeNS[t]; ok {
			ns = l[0]
		}
		out = append(out, []pk{mk(t, ns, "Some_Name.x", "1:2.3-4~x+y", []qual{{"arch", "amd64"}, {"distro", "a b+c~d:e"}}, "cmd/x")})
		out = append(out, []pk{mk(strings.ToUpper(t), ns, "name", "1.0", nil, "")})
	}
	probe := []pk{
		mk("npm", "@scope", "pkg", "1.0.0", nil, ""),
		mk("maven", "org.x", "art", "1.0", []qual{{"classifier", "a b"}, {"type", "jar"}}, ""),
		mk("deb", "debian", "libc++", "1:2.3-4~x", []qual{{"arch", "amd64"}, {"distro", "bookworm"}}, ""),
		mk("pypi", "", "Zope_Interface", "5.0", nil, ""),
		mk("golang", "github.com/a", "b", "v1.2.3", nil, "cmd/x"),
		mk("generic", "", "we ird/na:me<>&\"'", "1 2#3?4", nil, ""),
		mk("snap", "", "core", "1", nil, ""),
		mk("gem", "", "dup", "1", nil, ""), mk("gem", "", "dup", "1", nil, ""),
		mk("rpm", "fedora", "x", "1-2.fc3", []qual{{"epoch", "1"}}, ""),
		mk("NPM", "", "UpperType", "1", nil, ""),
		{name: "nopurl", version: "1", locs: []string{"f"}},
		{name: "cpeonly", version: "1", locs: []string{"f"}, cpes: []string{"cpe:2.3:a:v:p:1:*:*:*:*:*:*:*"}},
	}
	out = append(out, probe)
	// structural-vocabulary collisions, always present whatever the seed
	vocab := func(names ...string) []pk {
		var ps []pk
		for _, n := range names {
			ps = append(ps, mk("npm", "", n, "1.0.0", nil, ""))
		}
		return ps
	}
	out = append(out,
		vocab("main"), vocab("main", "x"), vocab("main-bower-files", "main_menu", "main@x", "main.js"),
		vocab("Package-main", "Package-main-1", "SPDXRef-Package-main", "SPDXRef-DOCUMENT", "DOCUMENT", "Document"),
		vocab("NOASSERTION", "NONE", "SCALIBR", "SCALIBR-generated SPDX", "Tool"),
		vocab("a_b", "a-b", "a+b", "a.b"), vocab("bom-ref", "metadata", "component"),
		[]pk{mk("pypi", "", "main", "1", nil, ""), mk("gem", "", "main", "1", nil, ""), mk("generic", "", "main", "2", nil, "")})
	return out
}

// matrixInventories: every byte class that purl print / parse treats specially, in EVERY component separately, for every
// purl type (the table of harness/cmd/c14gen/protopurl.go's `purlrt` stream: types x 5 components x 15 byte classes),
// type-legal (conan: channel qualifier with a namespace, swift: namespace and version, cran: version). One inventory per
// (type, component) holds the 15 byte classes; it is exported and scanned back in all five formats.
var nastyBits = []string{" ", "%", "?", "#", "@", "/", ":", "+", "&", "=", "ü", "\x01", "%41", "%2f", " ?#@ü"}
var purlFields = []string{"name", "ns", "version", "qual", "subpath"}

func matrixInventories() [][]pk {
	var out [][]pk
	for _, t := range allTypes {
		for _, f := range purlFields {
			var inv []pk
			for i, b := range nastyBits {
				p := pk{hasPurl: true, typ: t, ns: "ns", pname: fmt.Sprintf("m%d", i), pversion: "1.0", locs: []string{"f"},
					quals: []qual{{"arch", "amd64"}}}
				switch t {
				case purl.TypeConan:
					p.ns = ""
				case purl.TypeSwift:
					p.ns = "github.com/apple"
				}
				switch f {
				case "name":
					p.pname = "na" + b + "me"
				case "ns":
					p.ns = "n" + b + "s"
					switch t {
					case purl.TypeConan:
						p.quals = append(p.quals, qual{"channel", "stable"})
					case purl.TypeSwift:
						p.ns = "github.com/ap" + b + "ple"
					}
				case "version":
					p.pversion = "1" + b + "0"
				case "qual":
					// the shape of an os-release derived qualifier: distro=Plucky Puffin
					p.quals = []qual{{"arch", "am" + b + "64"}, {"distro", "Plucky" + b + "Puffin"}}
				case "subpath":
					p.subpath = "su" + b + "b/dir"
				}
				p.name, p.version = p.pname, p.pversion
				inv = append(inv, p)
			}
			out = append(out, inv)
		}
	}
	return out
}

func workers() int {
	n := runtime.NumCPU() / 2
	if n > 6 {
		n = 6
	}
	if n < 1 {
		n = 1
	}
	return n
}

func main() {
	o := hx.Parse()
	log.SetLogger(nopLogger{})
	tmp, err := os.MkdirTemp("", "c15gen-*")
	must(err)
	defer os.RemoveAll(tmp)
	// Nothing this process writes may land outside its temp directory: a relative path reaching a writer (an -o item the cli splits differently
	// than the harness composed it) resolves inside it too.
	cwd, err := os.MkdirTemp(tmp, "cwd")
	must(err)
	must(os.Chdir(cwd))
	out := hx.NewOut()
	defer func() {
		out.Flush()
		if n := atomic.LoadInt32(&normLawViolations); n > 0 {
			fmt.Fprintf(os.Stderr, "c15gen: the purl library violated NormLaws on %d purl(s)\n", n)
			os.RemoveAll(tmp)
			os.Exit(3)
		}
	}()
	// Cases are independent (own temp dir each): run a batch on a few goroutines, print in generation order.
	// The case line is rebuilt from the inventory so that raw/norm always come from the current library.
	var pending []tcase
	flush := func() {
		lines := make([]string, len(pending))
		replies := make([]string, len(pending))
		var wg sync.WaitGroup
		sem := make(chan struct{}, workers())
		for i := range pending {
			wg.Add(1)
			sem <- struct{}{}
			go func(i int) {
				defer wg.Done()
				defer func() { <-sem }()
				lines[i] = pending[i].line()
				if strings.HasPrefix(pending[i].format, "import:") {
					k, _ := strconv.Atoi(strings.TrimPrefix(pending[i].format, "import:"))
					replies[i] = runImport(tmp, k%len(importDocs))
					return
				}
				replies[i] = run(tmp, pending[i])
			}(i)
		}
		wg.Wait()
		for i := range pending {
			out.Emit(lines[i], replies[i])
		}
		pending = pending[:0]
	}
	defer flush()
	emit := func(c tcase) {
		pending = append(pending, c)
		if len(pending) >= 1024 {
			flush()
		}
	}
	if o.Replay != "" {
		for _, l := range hx.ReplayLines(o.Replay) {
			emit(parseCase(l))
		}
		return
	}
	// every inventory is exported to all five formats FROM ONE ScanResult value, in a generated order: the k-th case of an inventory
	// carries the k-1 formats exported before it (re-run on replay)
	r := hx.Rng(o)
	emitAll := func(stream string, inv []pk) {
		order := append([]string{}, formats...)
		r.Shuffle(len(order), func(i, j int) { order[i], order[j] = order[j], order[i] })
		for k, f := range order {
			c := tcase{stream: stream, format: f, prefix: append([]string{}, order[:k]...), pkgs: inv}
			c.pstate = []string{"", "", "", "shorter", "longer-bytes", "longer-bytes", "longer-export", "longer-export", "ro", ""}[r.Intn(10)]
			c.viaCLI = r.Intn(4) == 0
			if r.Intn(3) == 0 {
				c.cfg = r.Intn(len(sbomConfigs) - 1) // not the invalid one (cliflags stream only)
			}
			if r.Intn(3) == 0 {
				c.fname = r.Intn(len(fileNames[f]))
			}
			switch r.Intn(40) {
			case 0:
				c.pstate = "isdir" // the writer must fail
			case 1:
				c.pstate = "nodir"
			case 2:
				c.trunc = f != "spdx23-yaml" && f != "spdx23-tag-value" // the importer must reject the file (JSON / XML; a cut YAML / tag-value file may still be one)
			}
			emit(c)
		}
	}
	// a package ToSPDX23 skips (no purl / no version / no name) in FRONT of exportable ones, and behind them
	mkp := func(name, ver string, hasPurl bool) pk {
		p := pk{name: name, version: ver, locs: []string{"f"}, hasPurl: hasPurl}
		if hasPurl {
			p.typ, p.pname, p.pversion = "npm", name, ver
		}
		return p
	}
	for _, inv := range [][]pk{
		{mkp("a", "1", true), mkp("nopurl", "1", false), mkp("c", "3", true), mkp("d", "4", true)},
		{mkp("nopurl", "1", false), mkp("b", "2", true)},
		{mkp("a", "1", true), mkp("nover", "", true), mkp("c", "3", true)},
		{mkp("x", "1", false), mkp("y", "", true), mkp("z", "9", true), mkp("w", "", true), mkp("v", "5", true)},
		// a purl the exporters write but packageurl-go's per-type rules refuse on the way back: an R package without a version (r/renvlock entries
		// may lack one)
		{pk{name: "ggplot2", version: "", locs: []string{"renv.lock"}, hasPurl: true, typ: "cran", pname: "ggplot2"}, mkp("a", "1", true)},
	} {
		emitAll("fixed", inv)
	}
	for k := range importDocs {
		emit(tcase{stream: "import", format: fmt.Sprintf("import:%d", k)})
	}
	// cliflags: format names the command line may be given (-o <format>=<path>). What ValidateFlags accepts, WriteScanResults must be able
	// to write (and the file must read back); what the writers do not know must be refused by ValidateFlags and must not be written.
	for _, f := range []string{"spdx23-xml", "cdx-yaml", "spdx23", "cdx", "spdx23-json_", "SPDX23-JSON", "cdx-json-x", "spdx23-tag-value2", "spdx22-json", "sbom", "cdx-xml=x"} {
		emit(tcase{stream: "cliflags", format: f, viaCLI: true, pkgs: []pk{mkp("a", "1", true)}})
	}
	for ci := range sbomConfigs {
		for _, f := range formats {
			if ci == len(sbomConfigs)-1 && !strings.HasPrefix(f, "spdx23") {
				continue // the invalid --spdx-creators value concerns the SPDX exports
			}
			for ni := range fileNames[f] {
				emit(tcase{stream: "cliflags", format: f, viaCLI: true, cfg: ci, fname: ni, pkgs: []pk{mkp("a", "1", true), mkp("nopurl", "1", false), mkp("b", "2", true)}})
			}
		}
	}
	for _, inv := range fixedInventories() {
		emitAll("fixed", inv)
	}
	for _, inv := range matrixInventories() {
		emitAll("matrix", inv)
	}
	for i := 0; i < o.N; i++ {
		stream := "valid"
		switch x := r.Intn(20); {
		case x < 7:
			stream = "valid"
		case x < 13:
			stream = "esc"
		case x < 16:
			stream = "raw"
		case x < 18:
			stream = "ctl"
		default:
			stream = "malformed"
		}
		emitAll(stream, gen{r, stream}.inventory())
	}
}
