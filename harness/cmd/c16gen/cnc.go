// C16g: the lazily created per-ecosystem registry clients of resolution.CombinedNativeClient (and, through them, the request
// caches) shared by several goroutines.
//
//	cnc <eco n|m|p> <start s|t> <ops per goroutine: op,op;op,…>
//	  eco    npm / Maven / PyPI            start  s = all goroutines released together, t = staggered (goroutine i waits i·300 µs)
//	  eco    also x = a system the client does not support, M = Maven with an unparsable default registry, N = npm with an unreadable project .npmrc
//	         (creation of the ecosystem's client fails: every call must fail the same way, from every goroutine, every time)
//	  op     V<pkg> Versions   v<pkg>:<ver> Version   R<pkg>:<ver> Requirements   M<pkg>:<req hex> MatchingVersions   A AddRegistries (a mirror of the default registry)
//	reply: conc=<per goroutine results> seq=<the same ops, one goroutine, fresh client> same=<1|0 all goroutines ended up with ONE client> got=<1|0 they have a client at all>
//	       hits=<max number of requests for one URL during the concurrent run>
//
// A fresh CombinedNativeClient per run; the registries are one in-process httptest server (no network): PyPI simple index + JSON
// API, npm packuments (project .npmrc points the default registry at it), Maven metadata + poms. The first request is held for a
// moment so that the other goroutines arrive while the ecosystem's client has only just been created. Meaningful mostly under
// -race: the lazy initialisation and the first use of the request caches from several goroutines.
package main

import (
	"context"
	"fmt"
	"net/http"
	"net/http/httptest"
	"os"
	"path/filepath"
	"sort"
	"strings"
	"sync"
	"sync/atomic"
	"time"

	"deps.dev/util/resolve"
	"github.com/google/osv-scalibr/clients/datasource"
	"github.com/google/osv-scalibr/clients/resolution"

	"verif/harness/hx"
)

type registry struct {
	srv   *httptest.Server
	mu    sync.Mutex
	hits  map[string]int
	first atomic.Bool
	dir   string // npm project dir with the .npmrc
	badDir string
}

// cncSharedRegistryList: also run the cases in which the goroutines share a Maven registry list with spare capacity (three
// registries added up front) or one goroutine adds a registry while the others query. On a tree where
// datasource.MavenRegistryAPIClient does not guard its registry list these are data races (finding C16/maven-registry-list).
const cncSharedRegistryList = true

var cncVersions = []string{"1.0.0", "1.1.0", "2.0.0"}

func newRegistry() *registry {
	r := &registry{hits: map[string]int{}}
	r.srv = httptest.NewServer(http.HandlerFunc(func(w http.ResponseWriter, q *http.Request) {
		r.mu.Lock()
		r.hits[q.URL.Path]++
		r.mu.Unlock()
		if r.first.CompareAndSwap(false, true) {
			time.Sleep(3 * time.Millisecond) // keep the very first fetch in flight while the others arrive
		}
		p := strings.Split(strings.Trim(q.URL.Path, "/"), "/")
		switch {
		case len(p) == 3 && p[0] == "pypi" && p[1] == "simple":
			w.Header().Set("Content-Type", "application/vnd.pypi.simple.v1+json")
			fmt.Fprintf(w, `{"name":%q,"files":[],"versions":["1.0.0","1.1.0","2.0.0"]}`, p[2])
		case len(p) == 5 && p[0] == "pypi" && p[1] == "pypi" && p[4] == "json":
			fmt.Fprintf(w, `{"info":{"requires_dist":["dep-of-%s>=1.0"],"yanked":false},"urls":[]}`, p[2])
		case len(p) == 2 && p[0] == "npm":
			var vs []string
			for _, v := range cncVersions {
				vs = append(vs, fmt.Sprintf(`%q:{"dependencies":{"dep-of-%s":"^%s"}}`, v, p[1], v))
			}
			fmt.Fprintf(w, `{"name":%q,"dist-tags":{"latest":"2.0.0"},"versions":{%s}}`, p[1], strings.Join(vs, ","))
		case len(p) == 4 && (p[0] == "maven" || p[0] == "maven2") && p[3] == "maven-metadata.xml":
			fmt.Fprintf(w, `<metadata><groupId>%s</groupId><artifactId>%s</artifactId><versioning><latest>2.0.0</latest><release>2.0.0</release><versions><version>1.0.0</version><version>1.1.0</version><version>2.0.0</version></versions></versioning></metadata>`, p[1], p[2])
		case len(p) == 5 && (p[0] == "maven" || p[0] == "maven2") && strings.HasSuffix(p[4], ".pom"):
			fmt.Fprintf(w, `<project><modelVersion>4.0.0</modelVersion><groupId>%s</groupId><artifactId>%s</artifactId><version>%s</version><dependencies><dependency><groupId>%s</groupId><artifactId>dep-of-%s</artifactId><version>%s</version></dependency></dependencies></project>`, p[1], p[2], p[3], p[1], p[2], p[3])
		default:
			http.NotFound(w, q)
		}
	}))
	dir, err := os.MkdirTemp(stratScratch, "c16cnc")
	if err != nil {
		panic(err)
	}
	r.dir = dir
	os.WriteFile(filepath.Join(dir, ".npmrc"), []byte("registry="+r.srv.URL+"/npm/\n"), 0o644)
	r.badDir = filepath.Join(dir, "bad")
	os.MkdirAll(filepath.Join(r.badDir, ".npmrc"), 0o755)
	return r
}

func (r *registry) close() { r.srv.Close(); os.RemoveAll(r.dir) }

func (r *registry) reset() {
	r.mu.Lock()
	r.hits = map[string]int{}
	r.mu.Unlock()
	r.first.Store(false)
}

func (r *registry) maxHits() int {
	r.mu.Lock()
	defer r.mu.Unlock()
	m := 0
	for _, n := range r.hits {
		if n > m {
			m = n
		}
	}
	return m
}

func (r *registry) client(eco string) *resolution.CombinedNativeClient {
	o := resolution.CombinedNativeClientOptions{ProjectDir: r.dir, MavenRegistry: r.srv.URL + "/maven", PyPIRegistry: r.srv.URL + "/pypi"}
	switch eco {
	case "M":
		o.MavenRegistry = "http://[::1" // url.Parse fails: NewMavenRegistryClient returns an error
	case "N":
		o.ProjectDir = r.badDir // .npmrc is a directory
	}
	cl, err := resolution.NewCombinedNativeClient(o)
	if err != nil {
		panic(err)
	}
	return cl
}

func cncSys(eco string) resolve.System {
	switch eco {
	case "m", "M":
		return resolve.Maven
	case "p":
		return resolve.PyPI
	case "x":
		return resolve.UnknownSystem
	}
	return resolve.NPM
}

func cncPkg(eco, p string) string {
	if eco == "m" || eco == "M" {
		return "g:" + p
	}
	return p
}

func showVersions(vs []resolve.Version) string {
	var out []string
	for _, v := range vs {
		out = append(out, v.Version)
	}
	return strings.Join(out, "+")
}

// doOp runs one operation and renders its result canonically.
func doOp(cl *resolution.CombinedNativeClient, regURL, eco, op string) string {
	ctx := context.Background()
	sys := cncSys(eco)
	kind, rest := op[0], op[1:]
	if kind == 'A' {
		n := 1
		if rest != "" {
			n = int(rest[0] - '0')
		}
		var regs []resolution.Registry
		for i := 0; i < n; i++ {
			regs = append(regs, datasource.MavenRegistry{URL: regURL + "/maven2", ID: fmt.Sprintf("mirror%d", i), ReleasesEnabled: true})
		}
		if err := cl.AddRegistries(regs); err != nil {
			return "err"
		}
		return "added"
	}
	pkg, arg, _ := strings.Cut(rest, ":")
	pk := resolve.PackageKey{System: sys, Name: cncPkg(eco, pkg)}
	switch kind {
	case 'V':
		vs, err := cl.Versions(ctx, pk)
		if err != nil {
			return "err"
		}
		return showVersions(vs)
	case 'v':
		v, err := cl.Version(ctx, resolve.VersionKey{PackageKey: pk, Version: arg, VersionType: resolve.Concrete})
		if err != nil {
			return "err"
		}
		return v.Version
	case 'R':
		rs, err := cl.Requirements(ctx, resolve.VersionKey{PackageKey: pk, Version: arg, VersionType: resolve.Concrete})
		if err != nil {
			return "err"
		}
		var out []string
		for _, r := range rs {
			out = append(out, r.Name+"@"+r.Version)
		}
		sort.Strings(out)
		return strings.Join(out, "+")
	case 'M':
		vs, err := cl.MatchingVersions(ctx, resolve.VersionKey{PackageKey: pk, Version: hx.UnHex(arg), VersionType: resolve.Requirement})
		if err != nil {
			return "err"
		}
		return showVersions(vs)
	}
	return "bad-op"
}

func runCNC(r *registry, eco string, staggered bool, ops [][]string) string {
	return hx.Guard(func() string {
		// a group written !op,op,… is run on the shared client BEFORE the goroutines start (set-up, e.g. registries added while reading the manifest)
		var pre []string
		if len(ops) > 0 && len(ops[0]) > 0 && strings.HasPrefix(ops[0][0], "!") {
			pre = append([]string{ops[0][0][1:]}, ops[0][1:]...)
			ops = ops[1:]
		}
		// the specification: the same operations, one goroutine, a fresh client
		r.reset()
		seqCl := r.client(eco)
		for _, op := range pre {
			doOp(seqCl, r.srv.URL, eco, op)
		}
		seq := make([]string, len(ops))
		for i, os_ := range ops {
			var rs []string
			for _, op := range os_ {
				rs = append(rs, doOp(seqCl, r.srv.URL, eco, op))
			}
			seq[i] = strings.Join(rs, ",")
		}
		// concurrently, on another fresh client
		r.reset()
		cl := r.client(eco)
		for _, op := range pre {
			doOp(cl, r.srv.URL, eco, op)
		}
		conc := make([]string, len(ops))
		ids := make([]string, len(ops))
		start := make(chan struct{})
		var wg sync.WaitGroup
		for i := range ops {
			wg.Add(1)
			go func() {
				defer wg.Done()
				<-start
				if staggered {
					time.Sleep(time.Duration(i) * 300 * time.Microsecond)
				}
				var rs []string
				for _, op := range ops[i] {
					rs = append(rs, doOp(cl, r.srv.URL, eco, op))
				}
				conc[i] = strings.Join(rs, ",")
				ids[i] = cl.VerifClientID(cncSys(eco))
			}()
		}
		close(start)
		wg.Wait()
		same := true // every goroutine ended up with the one client of the ecosystem — or, when its creation fails, with none
		for _, id := range ids {
			if id != ids[0] {
				same = false
			}
		}
		return fmt.Sprintf("conc=%s seq=%s same=%s got=%s hits=%d", hx.Hex(strings.Join(conc, ";")), hx.Hex(strings.Join(seq, ";")), hx.B(same), hx.B(ids[0] != ""), r.maxHits())
	})
}

func parseCNC(l string) (string, bool, [][]string) {
	t := strings.Split(l, " ")
	var ops [][]string
	for _, g := range strings.Split(t[3], ";") {
		ops = append(ops, strings.Split(g, ","))
	}
	return t[1], t[2] == "t", ops
}

// cncStream: per ecosystem, 2..4 goroutines, simultaneous and staggered first calls, mixed operations. Sequential; "@case" on stderr.
func cncStream(reps int, out *hx.Out) {
	r := newRegistry()
	defer r.close()
	req := map[string]string{"n": hx.Hex("^1.0.0"), "m": hx.Hex("[1.0.0,2.0.0)"), "p": hx.Hex(">=1.1")}
	// creation of the ecosystem's client fails, or the system is unknown: the error branches of every delegating method
	for _, eco := range []string{"x", "M", "N"} {
		for _, st := range []string{"s", "t"} {
			ops := "Va,Ra:1.0.0;va:1.0.0,Ma:" + hx.Hex("^1.0.0") + ";Va,Vb"
			if eco == "M" {
				ops += ";A,Va"
			}
			c := fmt.Sprintf("cnc %s %s %s", eco, st, ops)
			fmt.Fprintln(os.Stderr, "@case "+c)
			eco2, stag, o := parseCNC(c)
			out.Emit(c, runCNC(r, eco2, stag, o))
			out.Flush()
		}
	}
	// AddRegistries (mirrors of the default registry: the answers do not depend on which registry serves them). "!A<n>" adds n
	// registries BEFORE the goroutines start — what reading a pom.xml with <repositories> does before the patch attempts run
	// concurrently; a bare "A" adds one while the other goroutines are querying.
	regCases := []string{"!A1;Va;Va,Vb", "!A2;Va,Ra:1.0.0;Vb,Ma:" + req["m"] + ";Va,Vb"}
	if cncSharedRegistryList {
		regCases = append(regCases, "!A3;Va,Ra:1.0.0;Va,Vb;Vb,Ma:"+req["m"]+";Va", "A,Va,Ra:1.0.0;Va,Rb:2.0.0", "A,A,Vb;Va,va:1.1.0;Ra:2.0.0,Va")
	}
	for _, st := range []string{"s", "t"} {
		for _, ops := range regCases {
			c := fmt.Sprintf("cnc m %s %s", st, ops)
			fmt.Fprintln(os.Stderr, "@case "+c)
			eco2, stag, o := parseCNC(c)
			out.Emit(c, runCNC(r, eco2, stag, o))
			out.Flush()
		}
	}
	for _, eco := range []string{"p", "n", "m"} {
		menu := []string{"Va", "Ra:1.0.0", "va:1.1.0", "Ma:" + req[eco], "Vb", "Rb:2.0.0", "Ra:2.0.0"}
		for n := 2; n <= 4; n++ {
			for variant := 0; variant < 4; variant++ {
				var gs []string
				for g := 0; g < n; g++ {
					var ops []string
					switch variant {
					case 0: // everybody's first call is the same Versions lookup
						ops = []string{"Va", menu[(g+1)%len(menu)]}
					case 1: // different first calls on one package
						ops = []string{menu[g%4], menu[(g+2)%4]}
					case 2: // different packages
						ops = []string{menu[(4+g)%len(menu)], menu[g%len(menu)]}
					default:
						ops = []string{menu[(g*3)%len(menu)], menu[(g*5+1)%len(menu)], menu[(g+2)%len(menu)]}
					}
					gs = append(gs, strings.Join(ops, ","))
				}
				for _, st := range []string{"s", "t"} {
					for k := 0; k < reps; k++ {
						c := fmt.Sprintf("cnc %s %s %s", eco, st, strings.Join(gs, ";"))
						fmt.Fprintln(os.Stderr, "@case "+c)
						eco2, stag, ops := parseCNC(c)
						out.Emit(c, runCNC(r, eco2, stag, ops))
						out.Flush()
					}
				}
			}
		}
	}
}

func replayCNC(l string, out *hx.Out) {
	r := newRegistry()
	defer r.close()
	eco, stag, ops := parseCNC(l)
	for k := 0; k < 4; k++ {
		fmt.Fprintln(os.Stderr, "@case "+l)
		out.Emit(l, runCNC(r, eco, stag, ops))
		out.Flush()
	}
}
