// c16gen: schedule-enumerating correspondence streams for C16 and the whole-scan race run.
//
//	-mode corr (default)  patches + cache streams, one "<case>\t<impl reply>" line per complete schedule
//	-mode scan            one filesystem scan over a slow in-memory FS lasting > 2.5 s (the status ticker fires);
//	                      meaningful when built with -race: a DATA RACE report goes to stderr, exit code 66
//
// (a) patches <grouped> <vulns> <oldreqs> <table> <schedule>   (grammar: lean/Drivers/C16.lean)
// The REAL common.ComputePatches runs with a table-driven patchFunc whose every call announces itself and then
// blocks on its own gate. The controller releases one gate at a time — that is the delivery order — and, after each
// release, waits until the follow-up calls the table predicts have announced themselves (a call that was not
// predicted, or a predicted one that does not arrive, is reported as `res=desync…`, which no model reply equals).
// All delivery orders are enumerated depth-first by re-running ComputePatches along every prefix.
//
// (b) cache <keys> <acts>
// The REAL datasource.RequestCache[int,int]; every caller of Get is a goroutine, every fetch function announces its
// entry and blocks on a gate. After starting a caller the controller OBSERVES what it did: returned (done channel),
// entered the fetch function, or joined the waiters of the pending call (read from the call's WaitGroup through the
// overlay export VerifWaiters) — no grace periods. All interleavings of "start next caller", "let fetch t return
// ok/err", optionally one SetMap, are enumerated depth-first by re-running along every prefix.
package main

import (
	"flag"
	"fmt"
	"math/rand"
	"os"
	"runtime"
	"sort"
	"strconv"
	"strings"
	"sync"
	"sync/atomic"
	"time"

	"deps.dev/util/resolve"
	"deps.dev/util/resolve/dep"
	"deps.dev/util/semver"
	scalibr "github.com/google/osv-scalibr"
	"github.com/google/osv-scalibr/clients/datasource"
	"github.com/google/osv-scalibr/guidedremediation"
	"github.com/google/osv-scalibr/guidedremediation/result"

	"verif/harness/hx"
	"verif/harness/walkcase"
)

// a legitimate step takes micro- to milliseconds; a step that does not happen (the implementation deviates from what the
// controller waits for) costs this much, so the number of such steps is bounded by desyncBudget
const stepTimeout = 5 * time.Second
const desyncBudget = 6

var desyncsP, desyncsC atomic.Int32 // per stream: patches, cache

// predicted follow-up attempts that the implementation did not launch (each costs spawnGrace); past the budget the patches
// enumeration stops — by then the oracle has concrete failing inputs
const spawnGrace = 40 * time.Millisecond
const missingBudget = 400

var missingCalls atomic.Int32

// ------------------------------------------------------------------ (a) patches

type req = guidedremediation.VerifC16Req
type outcome = guidedremediation.VerifC16Outcome

type universe struct {
	eco     string // "" npm, "m" Maven, "p" PyPI: the system whose Semver() Patch.Compare's step 5 uses
	grouped bool
	vulns   []string
	reqs    []req
	table   map[string]outcome // key: ids joined by "\x00"; absent = ErrPatchImpossible
	order   []string           // table keys in insertion order (for printing)
}

func key(ids []string) string { return strings.Join(ids, "\x00") }

func (u *universe) put(ids []string, o outcome) {
	k := key(ids)
	if _, ok := u.table[k]; !ok {
		u.order = append(u.order, k)
	}
	u.table[k] = o
}

func (u *universe) get(ids []string) outcome {
	if o, ok := u.table[key(ids)]; ok {
		return o
	}
	return outcome{Err: 1}
}

func hexList(xs []string, sep string) string {
	h := make([]string, len(xs))
	for i, x := range xs {
		h[i] = hx.Hex(x)
	}
	return hx.Join(h, sep)
}

func reqList(rs []req) string {
	h := make([]string, len(rs))
	for i, r := range rs {
		h[i] = hx.Hex(r.Name) + ":" + hx.Hex(r.Version)
		if r.KnownAs != "" {
			h[i] += ":" + hx.Hex(r.KnownAs)
		}
	}
	return hx.Join(h, ",")
}

func (u *universe) head() string {
	var es []string
	for _, k := range u.order {
		o := u.table[k]
		ids := strings.Split(k, "\x00")
		if o.Err != 0 {
			es = append(es, hexList(ids, ".")+"=E")
		} else {
			es = append(es, hexList(ids, ".")+"="+reqList(o.Reqs)+"@"+hexList(o.Vulns, ","))
		}
	}
	return fmt.Sprintf("patches %s%s %s %s %s", hx.B(u.grouped), u.eco, hexList(u.vulns, ","), reqList(u.reqs), hx.Join(es, "|"))
}

func unhexList(s, sep string) []string {
	if s == "-" || s == "" {
		return nil
	}
	var out []string
	for _, x := range strings.Split(s, sep) {
		out = append(out, hx.UnHex(x))
	}
	return out
}

func parseReqs(s string) []req {
	if s == "-" || s == "" {
		return nil
	}
	var out []req
	for _, p := range strings.Split(s, ",") {
		nv := strings.Split(p, ":")
		r := req{Name: hx.UnHex(nv[0]), Version: hx.UnHex(nv[1])}
		if len(nv) > 2 {
			r.KnownAs = hx.UnHex(nv[2])
		}
		out = append(out, r)
	}
	return out
}

func parsePatchesCase(l string) (*universe, [][]string) {
	t := strings.Split(l, " ")
	u := &universe{grouped: strings.HasPrefix(t[1], "1"), eco: t[1][1:], vulns: unhexList(t[2], ","), reqs: parseReqs(t[3]), table: map[string]outcome{}}
	if t[4] != "-" {
		for _, e := range strings.Split(t[4], "|") {
			kv := strings.Split(e, "=")
			ids := unhexList(kv[0], ".")
			if kv[1] == "E" {
				u.put(ids, outcome{Err: 1})
				continue
			}
			rv := strings.Split(kv[1], "@")
			u.put(ids, outcome{Reqs: parseReqs(rv[0]), Vulns: unhexList(rv[1], ",")})
		}
	}
	var sched [][]string
	if t[5] != "-" {
		for _, s := range strings.Split(t[5], "/") {
			sched = append(sched, unhexList(s, "."))
		}
	}
	return u, sched
}

// predictSpawn: the follow-up calls the controller waits for after delivering `ids` (synchronisation only; the
// results are judged by the Lean model, and a wrong prediction shows up as a desync).
func (u *universe) predictSpawn(ids []string) [][]string {
	o := u.get(ids)
	if o.Err != 0 {
		return nil
	}
	changed := false
	old := map[string]string{}
	rk := func(r req) string {
		if r.KnownAs != "" {
			return r.KnownAs
		}
		return r.Name
	}
	for _, r := range u.reqs {
		old[rk(r)] = r.Version
	}
	for _, r := range o.Reqs {
		if v, ok := old[rk(r)]; !ok || v != r.Version {
			changed = true
		}
	}
	if !changed {
		return nil
	}
	inOld := map[string]bool{}
	for _, v := range u.vulns {
		inOld[v] = true
	}
	var intro []string
	seen := map[string]bool{}
	for _, v := range o.Vulns {
		if !inOld[v] && !seen[v] {
			seen[v] = true
			intro = append(intro, v)
		}
	}
	sort.Strings(intro)
	var added []string
	for _, v := range intro {
		dup := false
		for _, x := range ids {
			if x == v {
				dup = true
			}
		}
		if !dup {
			added = append(added, v)
		}
	}
	if len(added) == 0 {
		return nil
	}
	if u.grouped {
		return [][]string{append(append([]string(nil), ids...), added...)}
	}
	var out [][]string
	for _, v := range added {
		out = append(out, append(append([]string(nil), ids...), v))
	}
	return out
}

type call struct {
	ids       []string
	gate      chan struct{}
	delivered chan struct{} // closed when the main loop of ComputePatches starts processing this call's result
}

func showPatches(ps []result.Patch) string {
	var out []string
	for _, p := range ps {
		var us, fs, is []string
		for _, u := range p.PackageUpdates {
			alias, _ := u.Type.GetAttr(dep.KnownAs)
			us = append(us, fmt.Sprintf("%s:%s:%s:%s:%s", hx.Hex(u.Name), hx.Hex(u.VersionFrom), hx.Hex(u.VersionTo), hx.B(u.Transitive), hx.Hex(alias)))
		}
		for _, v := range p.Fixed {
			fs = append(fs, hx.Hex(v.ID))
		}
		for _, v := range p.Introduced {
			is = append(is, hx.Hex(v.ID))
		}
		out = append(out, hx.Join(us, ",")+"~"+hx.Join(fs, ",")+"~"+hx.Join(is, ","))
	}
	return hx.Join(out, ";")
}

// runPatches executes the real ComputePatches along the schedule prefix. It returns the keys of the calls pending
// afterwards; when nothing is pending it also returns the reply.
func runPatches(u *universe, sched [][]string) (pending []string, reply string) {
	announce := make(chan *call, 64)
	type res struct {
		ps  []result.Patch
		err error
		pan bool
	}
	done := make(chan res, 1)
	abort := make(chan struct{})
	go func() {
		defer func() {
			if r := recover(); r != nil {
				done <- res{pan: true}
			}
		}()
		ps, err := guidedremediation.VerifC16ComputePatchesSys(sysOf(u.eco), u.reqs, u.vulns, u.grouped, func(ids []string) outcome {
			c := &call{ids: ids, gate: make(chan struct{}), delivered: make(chan struct{})}
			announce <- c
			select {
			case <-c.gate:
			case <-abort:
				return outcome{Err: 2}
			}
			o := u.get(ids)
			o.Delivered = func() { close(c.delivered) }
			return o
		})
		done <- res{ps: ps, err: err}
	}()
	var pend []*call
	deviated := false
	fail := func(msg string) ([]string, string) {
		close(abort)
		// drain so that the aborted ComputePatches can finish
		go func() {
			for {
				select {
				case <-announce:
				case <-done:
					return
				case <-time.After(stepTimeout):
					return
				}
			}
		}()
		return nil, "res=desync:" + msg
	}
	// expect waits for the calls the table predicts. `grace` bounds the wait: the initial attempts must all arrive (stepTimeout); follow-ups are
	// launched by the collector within microseconds of the result it has just started to process, so a predicted follow-up that has not
	// announced itself after spawnGrace is taken as "the implementation did not launch it" — the run goes on (dev=1) and the final
	// result is judged against the specification. (On the unchanged code a slow machine can at worst make a follow-up arrive late; it is
	// then picked up by the next expect or at the end, and the delivery order that was recorded is still one the model accepts.)
	expect := func(want [][]string, grace time.Duration) string {
		need := map[string]int{}
		for _, w := range want {
			need[key(w)]++
		}
		for n := len(want); n > 0; n-- {
			select {
			case c := <-announce:
				k := key(c.ids)
				if need[k] == 0 {
					deviated = true
				} else {
					need[k]--
				}
				pend = append(pend, c)
			case r := <-done:
				done <- r
				deviated = true
				return ""
			case <-time.After(grace):
				if grace >= stepTimeout {
					return "expected-call-missing"
				}
				deviated = true
				missingCalls.Add(1)
				return ""
			}
		}
		// calls nobody predicted that are already there
		for {
			select {
			case c := <-announce:
				deviated = true
				pend = append(pend, c)
				continue
			default:
			}
			break
		}
		return ""
	}
	var init [][]string
	for _, v := range u.vulns {
		init = append(init, []string{v})
	}
	if e := expect(init, stepTimeout); e != "" {
		return fail(e)
	}
	for _, ids := range sched {
		k := key(ids)
		find := func() int {
			for i, c := range pend {
				if key(c.ids) == k {
					return i
				}
			}
			return -1
		}
		idx := find()
		for deadline := time.Now().Add(stepTimeout); idx < 0 && time.Now().Before(deadline); idx = find() {
			// not pending yet: a follow-up that announced itself later than spawnGrace (slow machine, race build) — wait for it
			select {
			case c := <-announce:
				pend = append(pend, c)
			case r := <-done:
				done <- r
				deadline = time.Now()
			case <-time.After(50 * time.Millisecond):
			}
		}
		if idx < 0 {
			_, _ = fail("not-pending")
			return nil, "res=bad-schedule" // same verdict as the model: this delivery order does not exist
		}
		c := pend[idx]
		pend = append(pend[:idx], pend[idx+1:]...)
		close(c.gate)
		if u.get(ids).Err == 0 {
			// wait until the main loop has RECEIVED this result (it reads the patched manifest's requirements) before
			// anything else is released: the delivery order is then exactly the schedule. A failed attempt carries no
			// manifest; its result changes nothing, so its position relative to the next delivery is immaterial.
			select {
			case <-c.delivered:
			case <-time.After(stepTimeout):
				return fail("result-not-received")
			}
		}
		if e := expect(u.predictSpawn(ids), spawnGrace); e != "" {
			return fail(e)
		}
	}
	if len(pend) > 0 {
		for _, c := range pend {
			pending = append(pending, key(c.ids))
		}
		close(abort)
		go func() { // let the aborted run finish
			for {
				select {
				case <-announce:
				case <-done:
					return
				case <-time.After(stepTimeout):
					return
				}
			}
		}()
		return pending, ""
	}
	// nothing pending by the controller's account: ComputePatches must return now
	select {
	case r := <-done:
		if r.pan {
			return nil, "res=panic"
		}
		if r.err != nil {
			return nil, "res=error"
		}
		// SortFunc's result is only specified when the comparator is a strict weak order: every target version parses
		// or none does (C16_patchcmp_order). Otherwise the result is recorded (raw=) but not compared with the model.
		np, nu := 0, 0
		for _, p := range r.ps {
			for _, pu := range p.PackageUpdates {
				if _, err := semverOf(u.eco).Parse(pu.VersionTo); err == nil {
					np++
				} else {
					nu++
				}
			}
		}
		dev := ""
		if deviated {
			dev = " dev=1"
		}
		if np > 0 && nu > 0 {
			return nil, "res=unspecified done=1 raw=" + showPatches(r.ps) + dev
		}
		return nil, "res=" + showPatches(r.ps) + " done=1" + dev
	case c := <-announce:
		// a call the controller did not know about (late or unpredicted): still pending — hand it back to the enumeration
		pend = append(pend, c)
		for _, c := range pend {
			pending = append(pending, key(c.ids))
		}
		close(abort)
		go func() {
			for {
				select {
				case <-announce:
				case <-done:
					return
				case <-time.After(stepTimeout):
					return
				}
			}
		}()
		return pending, ""
	case <-time.After(stepTimeout):
		return fail("no-return")
	}
}

func schedStr(s [][]string) string {
	var out []string
	for _, ids := range s {
		out = append(out, hexList(ids, "."))
	}
	return hx.Join(out, "/")
}

// enumerate all delivery orders of u (at most limit), emitting one case per complete schedule.
func enumPatches(u *universe, limit int, emit func(c, r string), rng *rand.Rand) int {
	n := 0
	head := u.head()
	var dfs func(prefix [][]string)
	dfs = func(prefix [][]string) {
		if n >= limit || desyncsP.Load() >= desyncBudget || missingCalls.Load() >= missingBudget {
			return
		}
		pending, reply := runPatches(u, prefix)
		if strings.HasPrefix(reply, "res=desync") {
			desyncsP.Add(1)
		}
		if reply != "" {
			n++
			emit(head+" "+schedStr(prefix), reply)
			return
		}
		seen := map[string]bool{}
		var choices []string
		for _, k := range pending {
			if !seen[k] {
				seen[k] = true
				choices = append(choices, k)
			}
		}
		sort.Strings(choices) // announcements arrive in scheduler order; the exploration order must not depend on it
		if rng != nil {
			rng.Shuffle(len(choices), func(i, j int) { choices[i], choices[j] = choices[j], choices[i] })
		}
		for _, k := range choices {
			dfs(append(append([][]string(nil), prefix...), strings.Split(k, "\x00")))
		}
	}
	dfs(nil)
	return n
}


// ---- ecosystems: Patch.Compare's step 5 goes through resolved.Manifest.System().Semver().Parse / Compare

func sysOf(eco string) resolve.System {
	switch eco {
	case "m":
		return resolve.Maven
	case "p":
		return resolve.PyPI
	}
	return resolve.NPM
}

func semverOf(eco string) semver.System { return sysOf(eco).Semver() }

// version forms per style; the Lean driver ranks them (Drivers/C16.lean `parseEco`): for Maven/PyPI "N.0" and "N.0.0" are two
// SPELLINGS of one version (step 5 returns 0, step 6 separates the strings), "N.0-rc1" / "N.0rc1" is the pre-release just below.
const (
	styleNPM = iota
	styleRelax
	styleMaven
	stylePyPI
)

func styleEco(style int) string { return []string{"", "", "m", "p"}[style] }

func ver(style, n int) string {
	switch style {
	case styleRelax:
		return fmt.Sprintf("^%d.0.0", n)
	case styleMaven, stylePyPI:
		return fmt.Sprintf("%d.0", n)
	}
	return fmt.Sprintf("%d.0.0", n)
}

// ecoRank: what the driver computes; ok=false = does not parse as a single version
func ecoRank(eco, s string) (int, bool) {
	num := func(t string) (int, bool) {
		if t == "" || (len(t) > 1 && t[0] == '0') {
			return 0, false
		}
		n := 0
		for _, c := range t {
			if c < '0' || c > '9' {
				return 0, false
			}
			n = n*10 + int(c-'0')
		}
		return n, true
	}
	switch eco {
	case "":
		if strings.HasSuffix(s, ".0.0") {
			if n, ok := num(strings.TrimSuffix(s, ".0.0")); ok {
				return n, true
			}
		}
		return 0, false
	default:
		pre := map[string]string{"m": ".0-rc1", "p": ".0rc1"}[eco]
		if strings.HasSuffix(s, pre) {
			if n, ok := num(strings.TrimSuffix(s, pre)); ok {
				return 2 * n, true
			}
		}
		for _, suf := range []string{".0.0", ".0"} {
			if strings.HasSuffix(s, suf) {
				if n, ok := num(strings.TrimSuffix(s, suf)); ok {
					return 2*n + 1, true
				}
			}
		}
		return 0, false
	}
}

// checkEcos asserts, against the real deps.dev semver systems, everything the driver's ranking assumes about the version
// strings the universes use: they parse, and Compare orders them as their ranks do (equal ranks <=> Compare = 0).
func checkEcos() {
	for _, eco := range []string{"", "m", "p"} {
		sv := semverOf(eco)
		var pool []string
		for n := 1; n <= 45; n++ {
			switch eco {
			case "":
				pool = append(pool, fmt.Sprintf("%d.0.0", n))
			case "m":
				pool = append(pool, fmt.Sprintf("%d.0", n), fmt.Sprintf("%d.0.0", n), fmt.Sprintf("%d.0-rc1", n))
			case "p":
				pool = append(pool, fmt.Sprintf("%d.0", n), fmt.Sprintf("%d.0.0", n), fmt.Sprintf("%d.0rc1", n))
			}
		}
		sgn := func(x int) int {
			if x < 0 {
				return -1
			} else if x > 0 {
				return 1
			}
			return 0
		}
		for _, a := range pool {
			va, err := sv.Parse(a)
			ra, ok := ecoRank(eco, a)
			if err != nil || !ok {
				panic(fmt.Sprintf("eco %q: %q must parse (%v, %v)", eco, a, err, ok))
			}
			for _, b := range pool {
				vb, _ := sv.Parse(b)
				rb, _ := ecoRank(eco, b)
				if sgn(va.Compare(vb)) != sgn(ra-rb) {
					panic(fmt.Sprintf("eco %q: Compare(%q,%q)=%d but ranks %d,%d", eco, a, b, va.Compare(vb), ra, rb))
				}
			}
		}
	}
}

var parsable = []string{"2.0.0", "3.0.0", "9.0.0", "10.0.0", "11.0.0"}
var unparsable = []string{"^2.0.0", "^10.0.0", "1x", ">=2.0.0 <4.0.0", "~3.0.0"}

// checkPools asserts that deps.dev's npm semver agrees with the driver's `parseMajor` grammar on the pools.
func checkPools() {
	for i, a := range parsable {
		va, err := semver.NPM.Parse(a)
		if err != nil {
			panic("pool: " + a + " does not parse")
		}
		for j, b := range parsable {
			vb, _ := semver.NPM.Parse(b)
			c := va.Compare(vb)
			if (i < j && c >= 0) || (i == j && c != 0) || (i > j && c <= 0) {
				panic("pool: order of " + a + " " + b)
			}
		}
	}
	for _, a := range append(unparsable, "1.0.0x") {
		if _, err := semver.NPM.Parse(a); err == nil {
			panic("pool: " + a + " parses")
		}
	}
}

func fixedUniverses() []*universe {
	base := []req{{Name: "x", Version: "1.0.0"}, {Name: "y", Version: "1.0.0"}, {Name: "z", Version: "1.0.0"}}
	bump := func(name, v string) []req {
		out := append([]req(nil), base...)
		for i := range out {
			if out[i].Name == name {
				out[i].Version = v
			}
		}
		return out
	}
	bump2 := func(n1, v1, n2, v2 string) []req {
		out := bump(n1, v1)
		for i := range out {
			if out[i].Name == n2 {
				out[i].Version = v2
			}
		}
		return out
	}
	mk := func(grouped bool, vulns ...string) *universe {
		return &universe{grouped: grouped, vulns: vulns, reqs: base, table: map[string]outcome{}}
	}
	var us []*universe
	for _, g := range []bool{true, false} {
		// 2 independent
		u := mk(g, "A", "B")
		u.put([]string{"A"}, outcome{Reqs: bump("x", "2.0.0"), Vulns: []string{"B"}})
		u.put([]string{"B"}, outcome{Reqs: bump("y", "2.0.0"), Vulns: []string{"A"}})
		us = append(us, u)
		// 3 vulns, one patch introduces C and D
		u = mk(g, "A", "B", "E")
		u.put([]string{"A"}, outcome{Reqs: bump("x", "2.0.0"), Vulns: []string{"B", "E", "D", "C"}})
		u.put([]string{"A", "C", "D"}, outcome{Reqs: bump("x", "3.0.0"), Vulns: []string{"B", "E"}})
		u.put([]string{"A", "C"}, outcome{Reqs: bump("x", "9.0.0"), Vulns: []string{"B", "E", "D"}})
		u.put([]string{"A", "D"}, outcome{Reqs: bump("x", "10.0.0"), Vulns: []string{"B", "E"}})
		u.put([]string{"A", "C", "D"}, outcome{Reqs: bump("x", "3.0.0"), Vulns: []string{"B", "E"}})
		u.put([]string{"B"}, outcome{Reqs: bump("y", "2.0.0"), Vulns: []string{"A", "E"}})
		u.put([]string{"E"}, outcome{Err: 1})
		us = append(us, u)
		// 4 independent, two of them produce the identical patch (de-duplication), one fails, one changes nothing
		u = mk(g, "A", "B", "C", "D")
		u.put([]string{"A"}, outcome{Reqs: bump("x", "2.0.0"), Vulns: []string{"C", "D"}})
		u.put([]string{"B"}, outcome{Reqs: bump("x", "2.0.0"), Vulns: []string{"C", "D"}})
		u.put([]string{"C"}, outcome{Err: 2})
		u.put([]string{"D"}, outcome{Reqs: base, Vulns: []string{"A", "B", "C"}})
		us = append(us, u)
		// 4 independent with chains
		u = mk(g, "A", "B", "C", "D")
		u.put([]string{"A"}, outcome{Reqs: bump("x", "2.0.0"), Vulns: []string{"B", "C", "D", "F"}})
		u.put([]string{"A", "F"}, outcome{Reqs: bump("x", "3.0.0"), Vulns: []string{"B", "C", "D"}})
		u.put([]string{"B"}, outcome{Reqs: bump("y", "2.0.0"), Vulns: []string{"A", "C", "D"}})
		u.put([]string{"C"}, outcome{Reqs: bump2("y", "3.0.0", "z", "2.0.0"), Vulns: []string{"A", "D"}})
		u.put([]string{"D"}, outcome{Reqs: bump("z", "9.0.0"), Vulns: []string{"A", "B", "C", "G"}})
		u.put([]string{"D", "G"}, outcome{Reqs: bump("z", "10.0.0"), Vulns: []string{"A", "B", "C"}})
		us = append(us, u)
		// CmpEqImpliesEq violated: same update, different fixed sets -> the result depends on the schedule
		u = mk(g, "A", "B")
		u.put([]string{"A"}, outcome{Reqs: bump("x", "2.0.0"), Vulns: []string{"B"}})
		u.put([]string{"B"}, outcome{Reqs: bump("x", "2.0.0"), Vulns: []string{"A"}})
		us = append(us, u)
		// relax-style ranges only (nothing parses)
		u = mk(g, "A", "B", "C")
		u.put([]string{"A"}, outcome{Reqs: bump("x", "^2.0.0"), Vulns: []string{"B", "C"}})
		u.put([]string{"B"}, outcome{Reqs: bump("x", "^10.0.0"), Vulns: []string{"A", "C"}})
		u.put([]string{"C"}, outcome{Reqs: bump("x", ">=2.0.0 <4.0.0"), Vulns: []string{"A", "B"}})
		us = append(us, u)
		// mixed parsable / unparsable target versions: the 3-cycle of C16_patchcmp_mixed_cycle (order=0)
		u = mk(g, "A", "B", "C")
		u.put([]string{"A"}, outcome{Reqs: bump("x", "9.0.0"), Vulns: []string{"B", "C"}})
		u.put([]string{"B"}, outcome{Reqs: bump("x", "10.0.0"), Vulns: []string{"A", "C"}})
		u.put([]string{"C"}, outcome{Reqs: bump("x", "1x"), Vulns: []string{"A", "B"}})
		us = append(us, u)
	}
	return us
}


// twinUniverses: DISTINCT attempts that produce the SAME patch and then diverge. Two (or three) initial vulnerabilities are
// fixed by the very same update, which introduces further vulnerabilities; the follow-up attempts (ids ++ introduced, or one per
// introduced vulnerability) differ per twin and end at different versions. Same manifest => same vulnerabilities, so the twins'
// patches are IDENTICAL (CmpEqImpliesEq holds): the expected list has the common patch once and every follow-up's patch.
// (Demo shape: A affects x 1.0 and 1.2, B only 1.0, C only 1.1 — [A],[B] -> 1.1; [A,C] -> 1.3; [B,C] -> 1.2.)
func twinUniverses() []*universe {
	base := []req{{Name: "x", Version: "1.0.0"}, {Name: "y", Version: "1.0.0"}}
	set := func(x, y string) []req { return []req{{Name: "x", Version: x}, {Name: "y", Version: y}} }
	var us []*universe
	for _, g := range []bool{true, false} {
		for _, style := range []int{styleNPM, styleRelax, styleMaven, stylePyPI} {
			v := func(n int) string { return ver(style, n) }
			// the demo shape
			u := &universe{eco: styleEco(style), grouped: g, vulns: []string{"A", "B"}, reqs: base, table: map[string]outcome{}}
			u.put([]string{"A"}, outcome{Reqs: set(v(2), "1.0.0"), Vulns: []string{"C"}})
			u.put([]string{"B"}, outcome{Reqs: set(v(2), "1.0.0"), Vulns: []string{"C"}})
			u.put([]string{"A", "C"}, outcome{Reqs: set(v(4), "1.0.0"), Vulns: nil})
			u.put([]string{"B", "C"}, outcome{Reqs: set(v(3), "1.0.0"), Vulns: []string{"A"}})
			us = append(us, u)
			// three twins, the common patch introduces two vulnerabilities; one twin's follow-up fails, one changes nothing
			u = &universe{eco: styleEco(style), grouped: g, vulns: []string{"A", "B", "E"}, reqs: base, table: map[string]outcome{}}
			for _, t := range []string{"A", "B", "E"} {
				u.put([]string{t}, outcome{Reqs: set(v(2), "1.0.0"), Vulns: []string{"C", "D"}})
			}
			if g {
				u.put([]string{"A", "C", "D"}, outcome{Reqs: set(v(3), "1.0.0"), Vulns: []string{"B"}})
				u.put([]string{"B", "C", "D"}, outcome{Reqs: set(v(4), v(2)), Vulns: nil})
				u.put([]string{"E", "C", "D"}, outcome{Err: 1})
			} else {
				u.put([]string{"A", "C"}, outcome{Reqs: set(v(3), "1.0.0"), Vulns: []string{"B", "D"}})
				u.put([]string{"A", "D"}, outcome{Reqs: set(v(4), "1.0.0"), Vulns: []string{"C"}})
				u.put([]string{"B", "C"}, outcome{Reqs: set(v(5), "1.0.0"), Vulns: []string{"D"}})
				u.put([]string{"B", "D"}, outcome{Reqs: set(v(3), "1.0.0"), Vulns: []string{"B", "D"}}) // the same patch as [A,C]'s: twins again one level down
				u.put([]string{"E", "C"}, outcome{Err: 1})
				u.put([]string{"E", "D"}, outcome{Reqs: base, Vulns: []string{"A", "B", "E"}})
				u.put([]string{"A", "C", "D"}, outcome{Reqs: set(v(9), "1.0.0"), Vulns: nil})
				u.put([]string{"A", "D", "C"}, outcome{Reqs: set(v(9), "1.0.0"), Vulns: nil})
				u.put([]string{"B", "C", "D"}, outcome{Reqs: set(v(10), "1.0.0"), Vulns: nil})
				u.put([]string{"B", "D", "D"}, outcome{Err: 1})
			}
			us = append(us, u)
			// twins plus an unrelated attempt, follow-ups two levels deep
			u = &universe{eco: styleEco(style), grouped: g, vulns: []string{"A", "B", "W"}, reqs: base, table: map[string]outcome{}}
			u.put([]string{"W"}, outcome{Reqs: set("1.0.0", v(2)), Vulns: []string{"A", "B"}})
			u.put([]string{"A"}, outcome{Reqs: set(v(2), "1.0.0"), Vulns: []string{"W", "C"}})
			u.put([]string{"B"}, outcome{Reqs: set(v(2), "1.0.0"), Vulns: []string{"W", "C"}})
			u.put([]string{"A", "C"}, outcome{Reqs: set(v(3), "1.0.0"), Vulns: []string{"W", "F"}})
			u.put([]string{"B", "C"}, outcome{Reqs: set(v(3), "1.0.0"), Vulns: []string{"W", "F"}}) // twins again
			u.put([]string{"A", "C", "F"}, outcome{Reqs: set(v(4), "1.0.0"), Vulns: []string{"W"}})
			u.put([]string{"B", "C", "F"}, outcome{Reqs: set(v(5), "1.0.0"), Vulns: []string{"W", "A"}})
			us = append(us, u)
			if style == styleMaven || style == stylePyPI {
				// two SPELLINGS of one version ("2.0" / "2.0.0": step 5 returns 0, step 6 compares the strings) and a pre-release just below
				u = &universe{eco: styleEco(style), grouped: g, vulns: []string{"A", "B", "C"}, reqs: base, table: map[string]outcome{}}
				pre := map[int]string{styleMaven: "2.0-rc1", stylePyPI: "2.0rc1"}[style]
				u.put([]string{"A"}, outcome{Reqs: set("2.0", "1.0.0"), Vulns: []string{"B", "C"}})
				u.put([]string{"B"}, outcome{Reqs: set("2.0.0", "1.0.0"), Vulns: []string{"A", "C"}})
				u.put([]string{"C"}, outcome{Reqs: set(pre, "1.0.0"), Vulns: []string{"A", "B", "D"}})
				u.put([]string{"C", "D"}, outcome{Reqs: set("3.0.0", "1.0.0"), Vulns: []string{"A", "B"}})
				us = append(us, u)
			}
		}
	}
	return us
}

// aliasUniverses: patches that keys 1-5 of Patch.Compare cannot tell apart although they differ: package x is required twice, once
// directly and once under the npm alias "xx" ("xx": "npm:x@1.0.0"); vulnerability A is reached through the first requirement,
// B through the second. Both fixes read "x 1.0.0 -> 2.0.0" (same Name, VersionFrom, VersionTo) with different Fixed sets and
// requirement Types. Before fix 09778cd0 Compare returned 0 for them and CompactFunc kept whichever was delivered first (former
// known finding C16/compare-equal-distinct-patches); key 6 separates them, both survive in one order. Judged strictly.
func aliasUniverses() []*universe {
	base := []req{{Name: "x", Version: "1.0.0"}, {Name: "x", Version: "1.0.0", KnownAs: "xx"}}
	var us []*universe
	for _, g := range []bool{true, false} {
		u := &universe{grouped: g, vulns: []string{"A", "B"}, reqs: base, table: map[string]outcome{}}
		u.put([]string{"A"}, outcome{Reqs: []req{{Name: "x", Version: "2.0.0"}, {Name: "x", Version: "1.0.0", KnownAs: "xx"}}, Vulns: []string{"B"}})
		u.put([]string{"B"}, outcome{Reqs: []req{{Name: "x", Version: "1.0.0"}, {Name: "x", Version: "2.0.0", KnownAs: "xx"}}, Vulns: []string{"A"}})
		us = append(us, u)
		// the same with follow-ups: each fix introduces its own vulnerability
		u = &universe{grouped: g, vulns: []string{"A", "B"}, reqs: base, table: map[string]outcome{}}
		u.put([]string{"A"}, outcome{Reqs: []req{{Name: "x", Version: "2.0.0"}, {Name: "x", Version: "1.0.0", KnownAs: "xx"}}, Vulns: []string{"B", "C"}})
		u.put([]string{"B"}, outcome{Reqs: []req{{Name: "x", Version: "1.0.0"}, {Name: "x", Version: "2.0.0", KnownAs: "xx"}}, Vulns: []string{"A", "D"}})
		u.put([]string{"A", "C"}, outcome{Reqs: []req{{Name: "x", Version: "3.0.0"}, {Name: "x", Version: "1.0.0", KnownAs: "xx"}}, Vulns: []string{"B"}})
		u.put([]string{"B", "D"}, outcome{Reqs: []req{{Name: "x", Version: "1.0.0"}, {Name: "x", Version: "9.0.0", KnownAs: "xx"}}, Vulns: []string{"A"}})
		us = append(us, u)
	}
	return us
}

// randomUniverse: 2..4 initial vulns over ids A..G, outcomes drawn per task; the table is the closure of the
// initial tasks under the predicted spawn (capped), so every call the implementation can make is listed.
func randomUniverse(rng *rand.Rand) *universe {
	ids := []string{"A", "B", "C", "D", "E", "F", "G"}
	names := []string{"x", "y", "z"}
	base := []req{{Name: "x", Version: "1.0.0"}, {Name: "y", Version: "1.0.0"}, {Name: "z", Version: "1.0.0"}}
	nv := 2 + rng.Intn(3)
	u := &universe{grouped: rng.Intn(2) == 0, reqs: base, table: map[string]outcome{}}
	perm := rng.Perm(len(ids))
	for i := 0; i < nv; i++ {
		u.vulns = append(u.vulns, ids[perm[i]])
	}
	style := rng.Intn(10) // 0..6 parsable only, 7..8 unparsable only, 9 mixed
	if style <= 6 {
		u.eco = []string{"", "", "m", "p"}[rng.Intn(4)] // the parsable pool means the same in all three systems (checkEcos)
	}
	pick := func() string {
		switch {
		case style <= 6:
			return parsable[rng.Intn(len(parsable))]
		case style <= 8:
			return unparsable[rng.Intn(len(unparsable))]
		}
		if rng.Intn(2) == 0 {
			return parsable[rng.Intn(len(parsable))]
		}
		return unparsable[rng.Intn(len(unparsable))]
	}
	byManifest := map[string][]string{}
	var queue [][]string
	for _, v := range u.vulns {
		queue = append(queue, []string{v})
	}
	for n := 0; len(queue) > 0 && n < 14; n++ {
		t := queue[0]
		queue = queue[1:]
		if _, ok := u.table[key(t)]; ok {
			continue
		}
		var o outcome
		switch r := rng.Intn(10); {
		case r == 0:
			o = outcome{Err: 1}
		case r == 1:
			o = outcome{Err: 2}
		case r == 2:
			o = outcome{Reqs: base, Vulns: u.vulns} // nothing changed: empty patch
		default:
			rs := append([]req(nil), base...)
			k := 1 + rng.Intn(2)
			for _, i := range rng.Perm(3)[:k] {
				rs[i].Version = pick()
			}
			_ = names
			var vs []string
			inT := map[string]bool{}
			for _, x := range t {
				inT[x] = true
			}
			for _, v := range u.vulns { // vulns not addressed by the task mostly stay
				if !inT[v] && rng.Intn(4) != 0 {
					vs = append(vs, v)
				}
			}
			depth := len(t)
			for _, v := range ids { // introduced ones, rarer the deeper we are
				isOld := false
				for _, x := range u.vulns {
					if x == v {
						isOld = true
					}
				}
				if !isOld && rng.Intn(3+3*depth) == 0 {
					vs = append(vs, v)
				}
			}
			rng.Shuffle(len(vs), func(i, j int) { vs[i], vs[j] = vs[j], vs[i] })
			// the same patched manifest has the same vulnerabilities, whichever attempt produced it (deterministic
			// resolution + matching): attempts with equal updates yield IDENTICAL patches, possibly with different follow-ups
			if prev, ok := byManifest[reqList(rs)]; ok {
				vs = prev
			} else {
				byManifest[reqList(rs)] = vs
			}
			o = outcome{Reqs: rs, Vulns: vs}
		}
		u.put(t, o)
		queue = append(queue, u.predictSpawn(t)...)
	}
	return u
}


// chainUniverse: one initial vulnerability whose fix introduces new ones, `depth` levels deep; level l (1-based) introduces
// fan[l-1] (1..3) vulnerabilities at once. Per-vuln branch (relax, groupIntroduced=false): every introduced vulnerability
// gets its own follow-up attempt `ids ++ [v]`; the attempt for child cont[l-1] continues the chain, the others fix everything.
// Grouped branch (override): one follow-up `ids ++ all`. Every attempt bumps x to its own version, so all patches are
// distinct (CmpEqImpliesEq holds) and the expected result has one patch per attempt. Attempts over 3 and 5..7 accumulated
// ids with fan-out >= 2 are the shapes where a follow-up slice built without cloning would share its backing array.
func chainUniverse(grouped bool, depth int, fan, cont []int, style int, second bool) *universe {
	base := []req{{Name: "x", Version: "1.0.0"}, {Name: "y", Version: "1.0.0"}}
	u := &universe{eco: styleEco(style), grouped: grouped, vulns: []string{"V0"}, reqs: base, table: map[string]outcome{}}
	var keep []string // initial vulnerabilities no attempt of the chain fixes
	if second {
		u.vulns = append(u.vulns, "W")
		keep = []string{"W"}
		wv := ver(style, 2)
		u.put([]string{"W"}, outcome{Reqs: []req{{Name: "x", Version: "1.0.0"}, {Name: "y", Version: wv}}, Vulns: []string{"V0"}})
	}
	n := 1
	ver := func() string {
		n++
		return ver(style, n)
	}
	bump := func() []req { return []req{{Name: "x", Version: ver()}, {Name: "y", Version: "1.0.0"}} }
	task := []string{"V0"}
	for l := 1; l <= depth; l++ {
		var intro []string
		for i := 1; i <= fan[l-1]; i++ {
			intro = append(intro, fmt.Sprintf("L%dN%d", l, i))
		}
		u.put(task, outcome{Reqs: bump(), Vulns: append(append([]string(nil), keep...), intro...)})
		if grouped {
			task = append(append([]string(nil), task...), intro...)
			continue
		}
		c := cont[l-1] % len(intro)
		for i, v := range intro {
			if i != c {
				u.put(append(append([]string(nil), task...), v), outcome{Reqs: bump(), Vulns: keep})
			}
		}
		task = append(append([]string(nil), task...), intro[c])
	}
	u.put(task, outcome{Reqs: bump(), Vulns: keep})
	return u
}

// chainUniverses: depth 1..8 x fan-out patterns x both branches; style and the extra initial vulnerability alternate.
func chainUniverses(rng *rand.Rand, perDepth int) []*universe {
	var us []*universe
	k := 0
	for depth := 1; depth <= 8; depth++ {
		for v := 0; v < perDepth; v++ {
			fan := make([]int, depth)
			cont := make([]int, depth)
			for l := range fan {
				switch v % 3 {
				case 0:
					fan[l] = 2 + rng.Intn(2) // every level introduces >= 2
				case 1:
					fan[l] = 1 + rng.Intn(3)
				default:
					fan[l] = 1
					if l >= 2 {
						fan[l] = 2 + rng.Intn(2) // single file down to three accumulated ids, then fan out
					}
				}
				cont[l] = rng.Intn(3)
			}
			for _, g := range []bool{false, true} {
				k++
				us = append(us, chainUniverse(g, depth, fan, cont, []int{styleRelax, styleNPM, styleMaven, styleNPM, stylePyPI, styleNPM}[k%6], k%4 == 1))
			}
		}
	}
	return us
}

var preReadCalls atomic.Int64

// fakeClient is the stateful-but-linearizable stand-in for the resolve client the real strategies share between
// attempts: every requirement of every attempt's answer is looked up through ONE real datasource.RequestCache (single
// flight, fetches yield and sleep so that lookups of several attempts overlap), plus a mutex-guarded call log. It answers
// as a function of its arguments — which is exactly the assumption behind `patchFn` in the Lean model — so the result of
// ComputePatches must still be the schedule-free one; a cache that mixed up keys or handed out a stale/zero value would show.
type fakeClient struct {
	versions *datasource.RequestCache[string, string]
	fetches  atomic.Int64
	lookups  atomic.Int64
	mu       sync.Mutex
	log      []string
}

func newFakeClient() *fakeClient {
	return &fakeClient{versions: datasource.NewRequestCache[string, string]()}
}

func (c *fakeClient) resolve(name, version string) string {
	c.lookups.Add(1)
	c.mu.Lock()
	c.log = append(c.log, name)
	c.mu.Unlock()
	v, err := c.versions.Get(name+"@"+version, func() (string, error) {
		n := c.fetches.Add(1)
		runtime.Gosched()
		if n%2 == 0 {
			time.Sleep(40 * time.Microsecond)
		}
		return version, nil
	})
	if err != nil {
		return "fetch-error"
	}
	return v
}

func (c *fakeClient) answer(o outcome) outcome {
	if o.Err != 0 {
		return o
	}
	rs := make([]req, len(o.Reqs))
	for i, r := range o.Reqs {
		rs[i] = req{Name: r.Name, Version: c.resolve(r.Name, r.Version), KnownAs: r.KnownAs}
	}
	o.Reqs = rs
	return o
}

// runFree: the real ComputePatches with an UNGATED table function under the Go scheduler, GOMAXPROCS gmp, and a
// deterministic pattern of Gosched / short sleeps at the entry of every attempt (before it reads its ids).
func runFree(u *universe, gmp, rep int, stateful bool) string {
	var cl *fakeClient
	if stateful {
		cl = newFakeClient()
	}
	old := runtime.GOMAXPROCS(gmp)
	defer runtime.GOMAXPROCS(old)
	preReadCalls.Store(0)
	guidedremediation.VerifC16PreRead = func() {
		c := preReadCalls.Add(1)
		switch (c*2654435761 + int64(rep)*40503) >> 3 % 5 {
		case 1:
			runtime.Gosched()
		case 2:
			for i := 0; i < 4; i++ {
				runtime.Gosched()
			}
		case 3:
			time.Sleep(30 * time.Microsecond)
		case 4:
			time.Sleep(200 * time.Microsecond)
		}
	}
	defer func() { guidedremediation.VerifC16PreRead = nil }()
	return hx.Guard(func() string {
		ps, err := guidedremediation.VerifC16ComputePatchesSys(sysOf(u.eco), u.reqs, u.vulns, u.grouped, func(ids []string) outcome {
			if cl != nil {
				return cl.answer(u.get(ids))
			}
			return u.get(ids)
		})
		if err != nil {
			return "out=error"
		}
		if cl != nil {
			return fmt.Sprintf("out=%s client=stateful lookups=%d fetches=%d", showPatches(ps), cl.lookups.Load(), cl.fetches.Load())
		}
		return "out=" + showPatches(ps)
	})
}

func parseFreeCase(l string) (*universe, int, int, bool) {
	t := strings.Split(l, " ")
	u, _ := parsePatchesCase(strings.Join(append(append([]string{"patches"}, t[1:5]...), "-"), " "))
	var g, r int
	fmt.Sscanf(strings.TrimSuffix(t[5], "s"), "g%dr%d", &g, &r)
	if g < 1 {
		g = 1
	}
	return u, g, r, strings.HasSuffix(t[5], "s")
}

func freeToken(g, r int, stateful bool) string {
	if stateful {
		return fmt.Sprintf("g%dr%ds", g, r)
	}
	return fmt.Sprintf("g%dr%d", g, r)
}

// freeStream runs sequentially (the perturbation hook is global and a race report must be attributable to one case):
// "@case <line>" goes to stderr before each run, stdout is flushed after each.
func freeStream(us []*universe, reps int, out *hx.Out) {
	for _, u := range us {
		head := "pfree" + strings.TrimPrefix(u.head(), "patches")
		for _, g := range []int{1, 16} {
			for r := 0; r < reps; r++ {
				// odd repetitions: the attempts answer through the shared stateful client
				c := head + " " + freeToken(g, r, r%2 == 1)
				fmt.Fprintln(os.Stderr, "@case "+c)
				out.Emit(c, runFree(u, g, r, r%2 == 1))
				out.Flush()
			}
		}
	}
}

// ------------------------------------------------------------------ (b) cache

type cact struct {
	kind byte // L P S G
	t    int
	val  int // P: >= 0 ok(val), -1 err
	m    map[int]int
}

func (a cact) String() string {
	switch a.kind {
	case 'L':
		return "L" + strconv.Itoa(a.t)
	case 'P':
		if a.val < 0 {
			return fmt.Sprintf("P%d:err", a.t)
		}
		return fmt.Sprintf("P%d:%d", a.t, a.val)
	case 'S':
		return "S" + mapStr(a.m)
	}
	return "G"
}

func mapStr(m map[int]int) string {
	var ks []int
	for k := range m {
		ks = append(ks, k)
	}
	sort.Ints(ks)
	var out []string
	for _, k := range ks {
		out = append(out, fmt.Sprintf("%d=%d", k, m[k]))
	}
	return hx.Join(out, ";")
}

func parseCacheCase(l string) ([]int, []cact) {
	t := strings.Split(l, " ")
	var keys []int
	for _, k := range strings.Split(t[1], ",") {
		n, _ := strconv.Atoi(k)
		keys = append(keys, n)
	}
	var acts []cact
	for _, a := range strings.Split(t[2], ",") {
		switch a[0] {
		case 'L':
			n, _ := strconv.Atoi(a[1:])
			acts = append(acts, cact{kind: 'L', t: n})
		case 'P':
			tv := strings.Split(a[1:], ":")
			n, _ := strconv.Atoi(tv[0])
			v := -1
			if tv[1] != "err" {
				v, _ = strconv.Atoi(tv[1])
			}
			acts = append(acts, cact{kind: 'P', t: n, val: v})
		case 'S':
			m := map[int]int{}
			if a[1:] != "-" {
				for _, kv := range strings.Split(a[1:], ";") {
					p := strings.Split(kv, "=")
					k, _ := strconv.Atoi(p[0])
					v, _ := strconv.Atoi(p[1])
					m[k] = v
				}
			}
			acts = append(acts, cact{kind: 'S', m: m})
		case 'G':
			acts = append(acts, cact{kind: 'G'})
		}
	}
	return keys, acts
}

type cacheRun struct {
	started  int
	fetching []int // callers inside their fetch function
	reply    string
	desync   string
}

var errFetch = fmt.Errorf("fetch-err")

// runCache drives the real RequestCache through acts and reports what every step did.
func runCache(keys []int, acts []cact) cacheRun {
	rc := datasource.NewRequestCache[int, int]()
	n := len(keys)
	entered := make([]chan struct{}, n)
	release := make([]chan int, n)
	done := make([]chan struct{}, n)
	results := make([]string, n)
	for i := range results {
		results[i] = "stuck"
	}
	var mu sync.Mutex
	fetches := map[int]int{}
	waitersOn := map[int][]int{} // key -> callers observed waiting on the pending call of key
	var cls []string
	var maps []string
	var hist []string // the observed history: i<t> Get invoked, r<t>:<res> returned, fs<t>/fe<t>:<res> fetch function entered/left, S<map>, G<map>
	dev := false
	var cr cacheRun
	waitDone := func(t int) bool {
		select {
		case <-done[t]:
			return true
		case <-time.After(stepTimeout):
			return false
		}
	}
	for _, a := range acts {
		switch a.kind {
		case 'L':
			t := a.t
			if t != cr.started || t >= n {
				cr.desync = "bad-caller-order"
				break
			}
			cr.started++
			entered[t], release[t], done[t] = make(chan struct{}), make(chan int), make(chan struct{})
			k := keys[t]
			hist = append(hist, fmt.Sprintf("i%d", t))
			go func() {
				v, err := rc.Get(k, func() (int, error) {
					mu.Lock()
					fetches[k]++
					mu.Unlock()
					close(entered[t])
					r := <-release[t]
					if r < 0 {
						return 0, errFetch
					}
					return r, nil
				})
				if err != nil {
					if err == errFetch {
						results[t] = "err"
					} else {
						results[t] = "othererr"
					}
				} else {
					results[t] = "ok" + strconv.Itoa(v)
				}
				close(done[t])
			}()
			// observe what the caller did
			deadline := time.Now().Add(stepTimeout)
			c := ""
			for spins := 0; c == ""; spins++ {
				select {
				case <-done[t]:
					c = "r"
					hist = append(hist, fmt.Sprintf("r%d:%s", t, results[t]))
				case <-entered[t]:
					c = "f"
					cr.fetching = append(cr.fetching, t)
					hist = append(hist, fmt.Sprintf("fs%d", t))
				default:
					if ok, w := rc.VerifWaiters(k); ok && w == len(waitersOn[k])+1 {
						c = "w"
						waitersOn[k] = append(waitersOn[k], t)
					} else if time.Now().After(deadline) {
						c = "?"
						cr.desync = "caller-state-unobservable"
					} else if spins < 50 {
						runtime.Gosched()
					} else {
						time.Sleep(20 * time.Microsecond)
					}
				}
			}
			cls = append(cls, c)
		case 'P':
			idx := -1
			for i, f := range cr.fetching {
				if f == a.t {
					idx = i
				}
			}
			if idx < 0 {
				cr.desync = "publish-of-non-fetching-caller"
				break
			}
			cr.fetching = append(cr.fetching[:idx], cr.fetching[idx+1:]...)
			if a.val < 0 {
				hist = append(hist, fmt.Sprintf("fe%d:err", a.t))
			} else {
				hist = append(hist, fmt.Sprintf("fe%d:ok%d", a.t, a.val))
			}
			release[a.t] <- a.val
			if !waitDone(a.t) {
				cr.desync = "fetcher-did-not-return"
				break
			}
			hist = append(hist, fmt.Sprintf("r%d:%s", a.t, results[a.t]))
			k := keys[a.t]
			// were the callers parked on this key's pending call released by this return? (observed, not assumed: the
			// pending call is gone or its waiter count changed). A released waiter normally returns; an implementation
			// that lets it do something else — e.g. run its own fetch — is followed, not aborted (dev=1).
			if exists, nw := rc.VerifWaiters(k); !(exists && nw == len(waitersOn[k]) && nw > 0) {
				for _, w := range waitersOn[k] {
					select {
					case <-done[w]:
						hist = append(hist, fmt.Sprintf("r%d:%s", w, results[w]))
					case <-entered[w]:
						dev = true
						cr.fetching = append(cr.fetching, w)
						hist = append(hist, fmt.Sprintf("fs%d", w))
					case <-time.After(stepTimeout):
						cr.desync = "waiter-neither-returned-nor-fetched"
					}
				}
				waitersOn[k] = nil
			}
		case 'S':
			rc.SetMap(a.m)
			hist = append(hist, "S"+mapStr(a.m))
		case 'G':
			g := mapStr(rc.GetMap())
			maps = append(maps, g)
			hist = append(hist, "G"+g)
		}
		if cr.desync != "" {
			break
		}
	}
	if cr.desync != "" {
		// unblock whatever is still fetching so goroutines do not leak
		for _, t := range cr.fetching {
			select {
			case release[t] <- -1:
			default:
			}
		}
		cr.reply = "ret=desync:" + cr.desync
		if cr.desync == "publish-of-non-fetching-caller" {
			cr.reply = "ret=bad-schedule" // same verdict as the model: this action sequence does not exist for this implementation
		}
		return cr
	}
	if cr.started == n && len(cr.fetching) == 0 {
		for t := 0; t < n; t++ {
			if !waitDone(t) {
				results[t] = "stuck"
			}
		}
		mu.Lock()
		f0, f1 := fetches[0], fetches[1]
		mu.Unlock()
		cr.reply = fmt.Sprintf("ret=%s f=%d,%d cls=%s maps=%s hist=%s", hx.Join(results, ","), f0, f1, hx.Join(cls, ""), hx.Join(maps, "/"), hx.Join(hist, ","))
		if dev {
			cr.reply += " dev=1"
		}
	}
	return cr
}

func actsStr(as []cact) string {
	s := make([]string, len(as))
	for i, a := range as {
		s[i] = a.String()
	}
	return strings.Join(s, ",")
}

var setMaps = []map[int]int{{}, {0: 7}, {0: 7, 1: 8}}

// enumCache: all interleavings for the given caller keys; withSet allows one SetMap (followed by GetMap) anywhere.
func enumCache(keys []int, withSet bool, limit int, rng *rand.Rand, emit func(c, r string)) int {
	count := 0
	ks := make([]string, len(keys))
	for i, k := range keys {
		ks[i] = strconv.Itoa(k)
	}
	head := "cache " + strings.Join(ks, ",") + " "
	var dfs func(prefix []cact, setUsed bool)
	dfs = func(prefix []cact, setUsed bool) {
		if count >= limit || desyncsC.Load() >= desyncBudget {
			return
		}
		cr := runCache(keys, prefix)
		if cr.desync != "" {
			desyncsC.Add(1)
			count++
			emit(head+actsStr(prefix), cr.reply)
			return
		}
		if cr.started == len(keys) && len(cr.fetching) == 0 {
			// leaf: everything returned; finish with a GetMap
			if !withSet || setUsed { // the SetMap-free schedules are emitted by the plain enumeration
				full := append(append([]cact(nil), prefix...), cact{kind: 'G'})
				r := runCache(keys, full)
				count++
				emit(head+actsStr(full), r.reply)
			} else {
				for _, m := range setMaps { // SetMap after everything has returned
					full := append(append([]cact(nil), prefix...), cact{kind: 'S', m: m}, cact{kind: 'G'})
					r := runCache(keys, full)
					count++
					emit(head+actsStr(full), r.reply)
				}
			}
			return
		}
		var next []cact
		if cr.started < len(keys) {
			next = append(next, cact{kind: 'L', t: cr.started})
		}
		for _, t := range cr.fetching {
			next = append(next, cact{kind: 'P', t: t, val: 100 + t}, cact{kind: 'P', t: t, val: -1})
		}
		if rng != nil {
			rng.Shuffle(len(next), func(i, j int) { next[i], next[j] = next[j], next[i] })
		}
		for _, a := range next {
			dfs(append(append([]cact(nil), prefix...), a), setUsed)
		}
		// one SetMap (+ GetMap) per schedule. At every QUIESCENT point (no fetch in flight: start, between calls, end) always — that is how the
		// clients use it (loading a saved cache) and the hypothesis of C16_cache_linearizable_partial; while a fetch is in flight (outside that
		// hypothesis: only provenance / single flight / counts are judged) for every point of the small configurations and one map otherwise.
		if withSet && !setUsed {
			quiescent := len(cr.fetching) == 0
			for i, m := range setMaps {
				if !quiescent && len(keys) > 2 && i != 1 {
					continue
				}
				dfs(append(append([]cact(nil), prefix...), cact{kind: 'S', m: m}, cact{kind: 'G'}), true)
			}
		}
	}
	dfs(nil, false)
	return count
}

func keyVectors(n int) [][]int {
	// up to renaming of the two keys: the first caller uses key 0
	var out [][]int
	for mask := 0; mask < 1<<(n-1); mask++ {
		ks := []int{0}
		for i := 0; i < n-1; i++ {
			ks = append(ks, (mask>>i)&1)
		}
		out = append(out, ks)
	}
	return out
}

// ------------------------------------------------------------------ (c) scan

func scanOnce(seed int64) {
	rng := rand.New(rand.NewSource(seed))
	ndirs := 2 + rng.Intn(3)
	nfiles := 30 + rng.Intn(8)
	slow := time.Duration(85+rng.Intn(20)) * time.Millisecond
	root := &walkcase.Node{Path: ".", Kind: 'd'}
	var dirs []*walkcase.Node
	for d := 0; d < ndirs; d++ {
		n := &walkcase.Node{Path: fmt.Sprintf("d%d", d), Kind: 'd'}
		root.Kids = append(root.Kids, n)
		dirs = append(dirs, n)
	}
	c := &walkcase.Case{NExt: 1, Ext: map[walkcase.EP]walkcase.Out{}}
	for f := 0; f < nfiles; f++ {
		d := dirs[rng.Intn(len(dirs))]
		p := fmt.Sprintf("%s/f%d", d.Path, f)
		d.Kids = append(d.Kids, &walkcase.Node{Path: p, Kind: 'r', Size: 1 + rng.Intn(50)})
		c.Req = append(c.Req, walkcase.EP{E: 0, P: p})
		if rng.Intn(3) == 0 {
			c.Ext[walkcase.EP{E: 0, P: p}] = walkcase.Out{Pkgs: []int{rng.Intn(9)}}
		}
	}
	c.Roots = []walkcase.Root{{Tree: root}}
	start := time.Now()
	reply := walkcase.Run(c, func(*scalibr.ScanConfig) {}, slow)
	el := time.Since(start)
	ok := strings.HasPrefix(reply, "err=none") && strings.Contains(reply, fmt.Sprintf("vis=%d", 1+ndirs+nfiles))
	fmt.Printf("scan seed=%d dirs=%d files=%d slow_ms=%d elapsed_ms=%d ticker_fired=%s complete=%s\n", seed, ndirs, nfiles, slow.Milliseconds(), el.Milliseconds(),
		hx.B(el > 2100*time.Millisecond), hx.B(ok))
}

// cacheStress: Get / GetMap / SetMap of ONE real RequestCache from several goroutines with no gates at all — nothing is
// compared except provenance of the returned values; the point is the race detector (and Go's own "concurrent map
// writes" check) seeing unsynchronised access to the cache's maps. Prints "cstress <seed>\t<summary>".
func cacheStress(seed int64) string {
	rng := rand.New(rand.NewSource(seed))
	bad := atomic.Int64{}
	for it := 0; it < 150; it++ {
		rc := datasource.NewRequestCache[int, int]()
		var wg sync.WaitGroup
		nk := 1 + rng.Intn(2)
		for g := 0; g < 4; g++ {
			k, fail, v := rng.Intn(nk), rng.Intn(4) == 0, 100+g
			wg.Add(1)
			go func() {
				defer wg.Done()
				got, err := rc.Get(k, func() (int, error) {
					runtime.Gosched()
					if fail {
						return 0, errFetch
					}
					return v, nil
				})
				if err == nil && (got < 100 || got > 103) && got != 7 && got != 8 {
					bad.Add(1)
				}
			}()
		}
		wg.Add(2)
		m := setMaps[rng.Intn(len(setMaps))]
		go func() { defer wg.Done(); runtime.Gosched(); rc.SetMap(m) }()
		go func() { defer wg.Done(); _ = rc.GetMap() }()
		wg.Wait()
	}
	return fmt.Sprintf("iterations=150 foreign_values=%d", bad.Load())
}

// ------------------------------------------------------------------ main

func main() {
	mode := flag.String("mode", "corr", "corr|free|strat|cnc|scan|cstress")
	site := flag.String("site", "legacy", "scan: dopen|readdir|gitignore|stat|fopen|extract, multiroot (several roots, slow logger), or legacy (walkcase.MemFS, every Open slow)")
	smode := flag.String("scanmode", "tree", "scan: tree|paths")
	o := hx.Parse()
	if *mode == "scan" {
		if *site == "legacy" {
			scanOnce(o.Seed)
		} else if *site == "multiroot" {
			scanMultiRoot(o.Seed)
		} else if strings.HasPrefix(*site, "opt-") {
			scanOptions(o.Seed, strings.TrimPrefix(*site, "opt-"))
		} else {
			scanSite(o.Seed, *site, *smode)
		}
		return
	}
	if *mode == "cstress" {
		fmt.Fprintf(os.Stderr, "@case cstress %d\n", o.Seed)
		fmt.Printf("cstress %d\t%s\n", o.Seed, cacheStress(o.Seed))
		return
	}
	checkPools()
	checkEcos()
	if !datasource.VerifWaitersSupported() {
		fmt.Fprintln(os.Stderr, "c16gen: sync.WaitGroup layout unknown; cannot observe waiters")
		os.Exit(4)
	}
	out := hx.NewOut()
	defer out.Flush()
	var omu sync.Mutex
	emit := func(c, r string) {
		omu.Lock()
		out.Emit(c, r)
		omu.Unlock()
	}
	if o.Replay != "" {
		for _, l := range hx.ReplayLines(o.Replay) {
			switch {
			case strings.HasPrefix(l, "patches "):
				u, sched := parsePatchesCase(l)
				pending, reply := runPatches(u, sched)
				for guard := 0; reply == "" && len(pending) > 0 && guard < 64; guard++ {
					// the recorded order ends while this implementation still has attempts pending (it launched calls the recording
					// implementation did not): deliver them in arrival order; the model answers bad-schedule/done=0 and the specification judges the result
					sched = append(sched, strings.Split(pending[0], "\x00"))
					pending, reply = runPatches(u, sched)
				}
				if reply == "" {
					reply = "res=incomplete"
				}
				// the case line carries the delivery order that was actually executed (the recorded one plus what had to be delivered after it)
				emit(l[:strings.LastIndex(l, " ")]+" "+schedStr(sched), reply)
			case strings.HasPrefix(l, "cnc "):
				replayCNC(l, out)
			case strings.HasPrefix(l, "dsc "):
				replayDSC(l, out)
			case strings.HasPrefix(l, "pstrat "):
				replayStrat(l, out)
			case strings.HasPrefix(l, "pfree "):
				// a free run is not deterministic (that is its point): the case as given, then 7 more runs alternating
				// GOMAXPROCS 1/16 with other perturbation patterns, each reported under its own g/r token
				u, g, r, sf := parseFreeCase(l)
				head := l[:strings.LastIndex(l, " ")]
				for k := 0; k < 8; k++ {
					gk, rk, sk := g, r, sf
					if k > 0 {
						gk, rk, sk = []int{16, 1}[k%2], r+k, (r+k)%2 == 1
					}
					c := head + " " + freeToken(gk, rk, sk)
					fmt.Fprintln(os.Stderr, "@case "+c)
					emit(c, runFree(u, gk, rk, sk))
					out.Flush()
				}
			case strings.HasPrefix(l, "cache "):
				keys, acts := parseCacheCase(l)
				cr := runCache(keys, acts)
				if cr.reply == "" {
					cr.reply = "ret=incomplete"
				}
				emit(l, cr.reply)
			}
		}
		return
	}
	thorough := o.Tier == "thorough"
	rng := hx.Rng(o)
	perDepth := 3
	if thorough {
		perDepth = 9
	}
	chains := chainUniverses(rand.New(rand.NewSource(o.Seed*7919+1)), perDepth)
	if *mode == "cnc" {
		reps := 1
		if thorough {
			reps = 3
		}
		cncStream(reps, out)
		dscStream(reps, out)
		return
	}
	if *mode == "strat" {
		reps := 2
		if thorough {
			reps = 5
		}
		stratStream(stratUniverses(thorough), reps, 60, out)
		return
	}
	if *mode == "free" {
		reps := 2
		if thorough {
			reps = 5
		}
		freeStream(append(append(append(chains, twinUniverses()...), aliasUniverses()...), fixedUniverses()...), reps, out)
		return
	}
	// (a) fixed universes: all delivery orders; random universes: all orders up to a cap
	capU := 800
	if thorough {
		capU = 6000
	}
	var wg sync.WaitGroup
	sem := make(chan struct{}, runtime.NumCPU())
	spawn := func(f func()) {
		wg.Add(1)
		sem <- struct{}{}
		go func() { defer wg.Done(); defer func() { <-sem }(); f() }()
	}
	for _, u := range append(append(fixedUniverses(), twinUniverses()...), aliasUniverses()...) {
		u := u
		spawn(func() { enumPatches(u, capU, emit, nil) })
	}
	for _, u := range chains {
		u := u
		r2 := rand.New(rand.NewSource(rng.Int63()))
		spawn(func() { enumPatches(u, capU/16, emit, r2) })
	}
	for i := 0; i < o.N; i++ {
		u := randomUniverse(rng)
		r2 := rand.New(rand.NewSource(rng.Int63()))
		spawn(func() { enumPatches(u, capU/4, emit, r2) })
	}
	// (b) cache: 2..4 callers over 1..2 keys, all interleavings; SetMap variants for up to 3 callers (thorough: 4 with a cap)
	maxPlain, maxSet := 4, 2
	capC := 20000
	if thorough {
		maxPlain, maxSet = 4, 4
		capC = 400000
	}
	for n := 2; n <= 4; n++ {
		for _, ks := range keyVectors(n) {
			ks := ks
			lim := capC
			var r2 *rand.Rand
			if n > maxPlain {
				lim = 150
				r2 = rand.New(rand.NewSource(rng.Int63()))
			}
			spawn(func() { enumCache(ks, false, lim, r2, emit) })
			if n <= maxSet+1 {
				lim2 := capC
				var r3 *rand.Rand
				if n > maxSet {
					lim2 = 300
					r3 = rand.New(rand.NewSource(rng.Int63()))
				}
				spawn(func() { enumCache(ks, true, lim2, r3, emit) })
			}
		}
	}
	wg.Wait()
}
