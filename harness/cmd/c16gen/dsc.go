// C16 (b''): the datasource registry clients themselves (PyPI / npm / Maven) shared by several goroutines WHILE their request caches are
// saved (GobEncode → RequestCache.GetMap → gobMarshal) and loaded (GobDecode → gobUnmarshal → RequestCache.SetMap) — what the
// persistent cache of guided remediation does around a run.
//
//	dsc <eco p|n|m> <start s|t> <ops per goroutine: op,op;op,…>
//	  op   I<pkg>        PyPI GetIndex / npm Versions / Maven GetVersions
//	       J<pkg>:<ver>  PyPI GetVersionJSON / npm Dependencies / Maven GetProject
//	       E             phase 1: GobEncode of the shared client (a snapshot taken while the others fetch)
//	                     phase 2: GobDecode of the final encoding into the shared client (a reload while the others look up)
//	phase 0  the specification: the lookups, one goroutine, a fresh client                                     → seq
//	phase 1  a fresh client A shared by the goroutines                                                         → conc, hits (max per URL)
//	         every snapshot taken by an E is loaded into a fresh client and all lookups are run on it          → snaps (each must equal want)
//	phase 2  A's final encoding loaded into a fresh client B, shared by the goroutines (E = load it again)     → dec, hitsB (requests made)
//	reply: conc= seq= dec= snaps= want= hits= hitsB=
//
// Judged (checks/c16.py): conc = seq, dec = seq, every snapshot answers like seq, no URL fetched twice by A, B makes NO request (every
// answer comes out of the loaded cache: a reload with the same content must not drop an entry a concurrent lookup needs).
package main

import (
	"context"
	"fmt"
	"os"
	"sort"
	"strings"
	"sync"
	"time"

	"github.com/google/osv-scalibr/clients/datasource"

	"verif/harness/hx"
)

type dsClient interface {
	GobEncode() ([]byte, error)
	GobDecode(b []byte) error
}

func (r *registry) dsClient(eco string) dsClient {
	switch eco {
	case "p":
		return datasource.NewPyPIRegistryAPIClient(r.srv.URL + "/pypi")
	case "n":
		c, err := datasource.NewNPMRegistryAPIClient(r.dir)
		if err != nil {
			panic(err)
		}
		return c
	}
	c, err := datasource.NewMavenRegistryAPIClient(datasource.MavenRegistry{URL: r.srv.URL + "/maven", ReleasesEnabled: true})
	if err != nil {
		panic(err)
	}
	return c
}

func (r *registry) totalHits() int {
	r.mu.Lock()
	defer r.mu.Unlock()
	n := 0
	for _, k := range r.hits {
		n += k
	}
	return n
}

func sortedMap(m map[string]string) string {
	var out []string
	for k, v := range m {
		out = append(out, k+"="+v)
	}
	sort.Strings(out)
	return strings.Join(out, "+")
}

// dsLookup runs one lookup (I / J) and renders the answer canonically.
func dsLookup(cl dsClient, op string) string {
	ctx := context.Background()
	pkg, ver, _ := strings.Cut(op[1:], ":")
	switch c := cl.(type) {
	case *datasource.PyPIRegistryAPIClient:
		if op[0] == 'I' {
			r, err := c.GetIndex(ctx, pkg)
			if err != nil {
				return "err"
			}
			return r.Name + "/" + strings.Join(r.Versions, "+")
		}
		r, err := c.GetVersionJSON(ctx, pkg, ver)
		if err != nil {
			return "err"
		}
		return strings.Join(r.Info.RequiresDist, "+")
	case *datasource.NPMRegistryAPIClient:
		if op[0] == 'I' {
			r, err := c.Versions(ctx, pkg)
			if err != nil {
				return "err"
			}
			vs := append([]string(nil), r.Versions...)
			sort.Strings(vs)
			return strings.Join(vs, "+") + "/" + sortedMap(r.Tags)
		}
		r, err := c.Dependencies(ctx, pkg, ver)
		if err != nil {
			return "err"
		}
		return sortedMap(r.Dependencies)
	case *datasource.MavenRegistryAPIClient:
		if op[0] == 'I' {
			vs, err := c.GetVersions(ctx, "g", pkg)
			if err != nil {
				return "err"
			}
			var out []string
			for _, v := range vs {
				out = append(out, string(v))
			}
			return strings.Join(out, "+")
		}
		p, err := c.GetProject(ctx, "g", pkg, ver)
		if err != nil {
			return "err"
		}
		var out []string
		for _, d := range p.Dependencies {
			out = append(out, string(d.GroupID)+":"+string(d.ArtifactID)+"@"+string(d.Version))
		}
		return strings.Join(out, "+")
	}
	return "bad-client"
}

func runDSC(r *registry, eco string, staggered bool, ops [][]string) string {
	return hx.Guard(func() string {
		// phase 0: the specification
		r.reset()
		seqCl := r.dsClient(eco)
		var lookups []string
		seq := make([]string, len(ops))
		for i, g := range ops {
			var rs []string
			for _, op := range g {
				if op == "E" {
					rs = append(rs, "E")
					continue
				}
				lookups = append(lookups, op)
				rs = append(rs, dsLookup(seqCl, op))
			}
			seq[i] = strings.Join(rs, ",")
		}
		all := func(cl dsClient) string {
			var rs []string
			for _, op := range lookups {
				rs = append(rs, dsLookup(cl, op))
			}
			return strings.Join(rs, ",")
		}
		want := all(seqCl)
		shared := func(cl dsClient, onE func() string) []string {
			res := make([]string, len(ops))
			start := make(chan struct{})
			var wg sync.WaitGroup
			for i := range ops {
				wg.Add(1)
				go func() {
					defer wg.Done()
					<-start
					if staggered {
						time.Sleep(time.Duration(i) * 300 * time.Microsecond)
					}
					var rs []string
					for _, op := range ops[i] {
						if op == "E" {
							rs = append(rs, onE())
						} else {
							rs = append(rs, dsLookup(cl, op))
						}
					}
					res[i] = strings.Join(rs, ",")
				}()
			}
			close(start)
			wg.Wait()
			return res
		}
		// phase 1: shared client, snapshots taken while the others fetch
		r.reset()
		a := r.dsClient(eco)
		var smu sync.Mutex
		var encs [][]byte
		conc := shared(a, func() string {
			b, err := a.GobEncode()
			if err != nil {
				return "encode-err"
			}
			smu.Lock()
			encs = append(encs, b)
			smu.Unlock()
			return "E"
		})
		hits := r.maxHits()
		var snaps []string
		for _, b := range encs {
			c := r.dsClient(eco)
			if err := c.GobDecode(b); err != nil {
				snaps = append(snaps, "decode-err")
				continue
			}
			snaps = append(snaps, all(c))
		}
		// phase 2: the final encoding loaded into a fresh shared client; E = load it again while the others look up
		final, err := a.GobEncode()
		if err != nil {
			return "final=encode-err"
		}
		b := r.dsClient(eco)
		if err := b.GobDecode(final); err != nil {
			return "final=decode-err"
		}
		r.reset()
		r.first.Store(true) // no held request in this phase: there must be no request at all
		dec := shared(b, func() string {
			if err := b.GobDecode(final); err != nil {
				return "decode-err"
			}
			return "E"
		})
		hitsB := r.totalHits()
		return fmt.Sprintf("conc=%s seq=%s dec=%s snaps=%s want=%s hits=%d hitsB=%d", hx.Hex(strings.Join(conc, ";")), hx.Hex(strings.Join(seq, ";")),
			hx.Hex(strings.Join(dec, ";")), hx.Hex(strings.Join(snaps, "|")), hx.Hex(want), hits, hitsB)
	})
}

// dscStream: per ecosystem, 2..4 goroutines, with and without snapshots/reloads in flight.
func dscStream(reps int, out *hx.Out) {
	r := newRegistry()
	defer r.close()
	for _, eco := range []string{"p", "n", "m"} {
		for _, gs := range []string{
			"Ia,Ja:1.0.0;Ia,E,Jb:2.0.0",
			"Ia,E,Ib;E,Ja:1.0.0,Ia;Jb:1.1.0,Ja:1.0.0",
			"Ia,Ja:1.0.0,Jb:2.0.0;E,E;Ib,Ja:1.0.0,E;Ja:2.0.0,Ia",
			"E;Ia;Ia",
		} {
			for _, st := range []string{"s", "t"} {
				for k := 0; k < reps; k++ {
					c := fmt.Sprintf("dsc %s %s %s", eco, st, gs)
					fmt.Fprintln(os.Stderr, "@case "+c)
					_, stag, ops := parseCNC(c)
					out.Emit(c, runDSC(r, eco, stag, ops))
					out.Flush()
				}
			}
		}
	}
}

func replayDSC(l string, out *hx.Out) {
	r := newRegistry()
	defer r.close()
	eco, stag, ops := parseCNC(l)
	for k := 0; k < 4; k++ {
		fmt.Fprintln(os.Stderr, "@case "+l)
		out.Emit(l, runDSC(r, eco, stag, ops))
		out.Flush()
	}
}
