// The REAL remediation strategies end to end (C16f): relax (npm) and override (Maven) on deps.dev schema universes with
// several advisories per graph node and diamond parent paths, so that the state the strategies themselves share between
// patch attempts (the resolved graph, the *DependencySubgraph of a node, the manifest) is exercised — not just
// common.ComputePatches with a table-driven patch function.
//
//	pstrat <grouped 0|1> <vulns> <ranks> <table> <universe> <tag>
//	  grouped   0 = relax (per-vuln follow-ups), 1 = override (grouped follow-ups)
//	  vulns     hex,…   the vulnerabilities of the resolved manifest (initial attempts)
//	  ranks     hexver:rank,…  dense ranks of the target versions that parse, under the ecosystem's own Compare
//	  table     task=E | task=<patch>  the SPECIFICATION input: every attempt of the closure run ONE AT A TIME, IN ISOLATION, on a
//	            freshly read and freshly resolved manifest (real patchVulns + real ConstructPatches)
//	  universe  hex JSON (packages, root requirements, advisories): what a replay needs
//	  tag       free-g<N>r<M>  the real ComputePatches of the strategy, ungated, GOMAXPROCS N, repetition M
//	            gated:<task/task/…>  the real patchVulns inside common.ComputePatches, every attempt held at its start and released —
//	            one at a time, the next after the previous has returned — in this order
//	reply: out=<patches>      (driver: spec=<sortCompact of the closure over the table> order=<0|1>)
package main

import (
	"context"
	"encoding/hex"
	"encoding/json"
	"fmt"
	"os"
	"path/filepath"
	"runtime"
	"sort"
	"strings"
	"time"

	"deps.dev/util/resolve"
	"deps.dev/util/resolve/dep"
	scalibrfs "github.com/google/osv-scalibr/fs"
	"github.com/google/osv-scalibr/guidedremediation"
	"github.com/google/osv-scalibr/guidedremediation/options"
	"github.com/google/osv-scalibr/guidedremediation/result"
	"github.com/google/osv-scalibr/guidedremediation/upgrade"
	"github.com/google/osv-scalibr/extractor"
	"github.com/ossf/osv-schema/bindings/go/osvschema"

	"verif/harness/hx"
	"verif/harness/remx"
)

type stratDep struct {
	Name, Req  string
	Dev        bool   `json:",omitempty"` // npm: devDependencies (the same package may be listed in both sections)
	Classifier string `json:",omitempty"` // Maven
}
type stratAdv struct {
	ID, Pkg, Introduced, Fixed string // Introduced "" = "0", Fixed "" = never
}
type stratCase struct {
	Eco  string // "n" npm / relax, "m" Maven / override
	Root []stratDep
	Pkgs []remx.Pkg
	Advs []stratAdv
	// options of the run (the same for the isolated attempts that make up the specification)
	Levels          map[string]int `json:",omitempty"` // upgrade.Config: package -> upgrade.Level (None, Patch, Minor, Major)
	MaxDepth        int            `json:",omitempty"`
	Explicit        []string       `json:",omitempty"` // RemediationOptions.ExplicitVulns: only these ids are to be fixed (seed C16n: the re-resolution must not write to the options all attempts share)
	FailVersions    []string       `json:",omitempty"` // resolve client: Versions(pkg) fails for these packages (a registry error)
	ReverseVersions bool           `json:",omitempty"` // resolve client: Versions returns the list in descending order
	FailReqOn       string         `json:",omitempty"` // resolve client: Requirements("pkg@version") fails: re-resolving a manifest that reaches it fails
	FailMatchOn     string         `json:",omitempty"` // vulnerability matcher: fails when asked about "pkg@version" (never part of the initial graph)
}

func (c stratCase) hexJSON() string {
	b, _ := json.Marshal(c)
	return hex.EncodeToString(b)
}

func parseStratCase(h string) stratCase {
	b, err := hex.DecodeString(h)
	if err != nil {
		panic(err)
	}
	var c stratCase
	if err := json.Unmarshal(b, &c); err != nil {
		panic(err)
	}
	return c
}

// optClient injects what a real registry can do to the strategies: fail for a package, return versions in another order.
// It is stateless, i.e. a function of its arguments.
type optClient struct {
	resolve.Client
	fail    map[string]bool
	reverse bool
	failReq string
}

func (c optClient) Requirements(ctx context.Context, vk resolve.VersionKey) ([]resolve.RequirementVersion, error) {
	if c.failReq != "" && vk.Name+"@"+vk.Version == c.failReq {
		return nil, fmt.Errorf("registry error for %s", c.failReq)
	}
	return c.Client.Requirements(ctx, vk)
}

// failMatcher: the vulnerability matcher fails (a stateless function of its arguments) when one of the packages is `on`.
type failMatcher struct {
	remx.Matcher
	on string
}

func (m failMatcher) MatchVulnerabilities(ctx context.Context, pkgs []*extractor.Package) ([][]*osvschema.Vulnerability, error) {
	for _, p := range pkgs {
		if p.Name+"@"+p.Version == m.on {
			return nil, fmt.Errorf("vulnerability database error for %s", m.on)
		}
	}
	return m.Matcher.MatchVulnerabilities(ctx, pkgs)
}

type vulnMatcher interface {
	MatchVulnerabilities(ctx context.Context, pkgs []*extractor.Package) ([][]*osvschema.Vulnerability, error)
}

func (c optClient) Versions(ctx context.Context, pk resolve.PackageKey) ([]resolve.Version, error) {
	if c.fail[pk.Name] {
		return nil, fmt.Errorf("registry error for %s", pk.Name)
	}
	vs, err := c.Client.Versions(ctx, pk)
	if err == nil && c.reverse {
		out := make([]resolve.Version, len(vs))
		for i, v := range vs {
			out[len(vs)-1-i] = v
		}
		return out, nil
	}
	return vs, err
}

type stratEnv struct {
	c        stratCase
	override bool
	sys      resolve.System
	cl       resolve.Client
	vm       vulnMatcher
	dir      string
	path     string
	table    map[string]string // task key -> "E" | canonical patch
	order    []string
	vulns    []string
}

var stratScratch = func() string {
	d := os.Getenv("C16_SCRATCH")
	if d == "" {
		d = os.TempDir()
	}
	return d
}()

func newStratEnv(c stratCase) *stratEnv {
	e := &stratEnv{c: c, override: c.Eco == "m", sys: resolve.NPM, table: map[string]string{}}
	eco := "npm"
	if e.override {
		e.sys, eco = resolve.Maven, "Maven"
	}
	cl, err := remx.Client(c.Pkgs, e.sys)
	if err != nil {
		panic(err)
	}
	e.cl = cl
	if len(c.FailVersions) > 0 || c.ReverseVersions || c.FailReqOn != "" {
		oc := optClient{Client: cl, fail: map[string]bool{}, reverse: c.ReverseVersions, failReq: c.FailReqOn}
		for _, p := range c.FailVersions {
			oc.fail[p] = true
		}
		e.cl = oc
	}
	var base remx.Matcher
	for _, a := range c.Advs {
		intro := a.Introduced
		if intro == "" {
			intro = "0"
		}
		ev := []osvschema.Event{{Introduced: intro}}
		if a.Fixed != "" {
			ev = append(ev, osvschema.Event{Fixed: a.Fixed})
		}
		rt := osvschema.RangeEcosystem
		if eco == "npm" {
			rt = osvschema.RangeSemVer
		}
		base = append(base, &osvschema.Vulnerability{ID: a.ID, Affected: []osvschema.Affected{{Package: osvschema.Package{Ecosystem: eco, Name: a.Pkg},
			Ranges: []osvschema.Range{{Type: rt, Events: ev}}}}})
	}
	e.vm = base
	if c.FailMatchOn != "" {
		e.vm = failMatcher{Matcher: base, on: c.FailMatchOn}
	}
	dir, err := os.MkdirTemp(stratScratch, "c16strat")
	if err != nil {
		panic(err)
	}
	e.dir = dir
	if !e.override {
		var deps, dev []string
		for _, d := range c.Root {
			if d.Dev {
				dev = append(dev, fmt.Sprintf("    %q: %q", d.Name, d.Req))
			} else {
				deps = append(deps, fmt.Sprintf("    %q: %q", d.Name, d.Req))
			}
		}
		e.path = filepath.Join(dir, "package.json")
		os.WriteFile(e.path, []byte("{\n  \"name\": \"root\",\n  \"version\": \"1.0.0\",\n  \"dependencies\": {\n"+strings.Join(deps, ",\n")+"\n  },\n  \"devDependencies\": {\n"+strings.Join(dev, ",\n")+"\n  }\n}\n"), 0o644)
	} else {
		var sb strings.Builder
		sb.WriteString("<project>\n  <modelVersion>4.0.0</modelVersion>\n  <groupId>root.g</groupId>\n  <artifactId>root-a</artifactId>\n  <version>1.0</version>\n  <dependencies>\n")
		for _, d := range c.Root {
			g, a, _ := strings.Cut(d.Name, ":")
			sb.WriteString("    <dependency>\n      <groupId>" + g + "</groupId>\n      <artifactId>" + a + "</artifactId>\n      <version>" + d.Req + "</version>\n")
			if d.Classifier != "" {
				sb.WriteString("      <classifier>" + d.Classifier + "</classifier>\n")
			}
			sb.WriteString("    </dependency>\n")
		}
		sb.WriteString("  </dependencies>\n</project>\n")
		e.path = filepath.Join(dir, "pom.xml")
		os.WriteFile(e.path, []byte(sb.String()), 0o644)
	}
	return e
}

func (e *stratEnv) close() { os.RemoveAll(e.dir) }

// fresh reads the manifest file and resolves it: new manifest object, new graph, new subgraphs.
func (e *stratEnv) fresh() (*guidedremediation.VerifResolvedManifest, options.RemediationOptions) {
	var rw guidedremediation.VerifReadWriter
	var err error
	if e.override {
		rw, err = guidedremediation.VerifMavenReadWriter("http://127.0.0.1:1/")
	} else {
		rw, err = guidedremediation.VerifNpmReadWriter()
	}
	if err != nil {
		panic(err)
	}
	m, err := rw.Read(filepath.Base(e.path), scalibrfs.DirFS(e.dir))
	if err != nil {
		panic("strat: reading the manifest: " + err.Error())
	}
	opts := options.DefaultRemediationOptions()
	for k, v := range e.c.Levels {
		opts.UpgradeConfig.Set(k, upgrade.Level(v))
	}
	if e.c.MaxDepth != 0 {
		opts.MaxDepth = e.c.MaxDepth
	}
	if len(e.c.Explicit) > 0 {
		opts.ExplicitVulns = append([]string(nil), e.c.Explicit...)
	}
	res, err := guidedremediation.VerifResolveManifest(context.Background(), e.cl, e.vm, m, &opts)
	if err != nil {
		panic("strat: resolving: " + err.Error())
	}
	return res, opts
}

func canonPatch(p result.Patch) string { return showPatches([]result.Patch{p}) }

// isolated runs ONE attempt on fresh inputs.
func (e *stratEnv) isolated(ids []string) (string, []string) {
	res, opts := e.fresh()
	var patched *guidedremediation.VerifResolvedManifest
	var err error
	if e.override {
		patched, err = guidedremediation.VerifOverridePatchVulns(context.Background(), e.cl, e.vm, res, append([]string(nil), ids...), &opts)
	} else {
		patched, err = guidedremediation.VerifRelaxPatchVulns(context.Background(), e.cl, e.vm, res, append([]string(nil), ids...), &opts)
	}
	if err != nil {
		return "E", nil
	}
	p := guidedremediation.VerifConstructPatches(res, patched)
	var follow []string
	if len(p.PackageUpdates) > 0 {
		for _, v := range p.Introduced {
			dup := false
			for _, x := range ids {
				if x == v.ID {
					dup = true
				}
			}
			if !dup {
				follow = append(follow, v.ID)
			}
		}
	}
	return canonPatch(p), follow
}

// closure fills the table: the specification input (and what the gated controller expects to be launched).
func (e *stratEnv) closure() {
	res, _ := e.fresh()
	for _, v := range res.Vulns {
		e.vulns = append(e.vulns, v.OSV.ID)
	}
	var queue [][]string
	for _, v := range e.vulns {
		queue = append(queue, []string{v})
	}
	for n := 0; len(queue) > 0 && n < 40; n++ {
		t := queue[0]
		queue = queue[1:]
		k := key(t)
		if _, ok := e.table[k]; ok {
			continue
		}
		p, follow := e.isolated(t)
		e.table[k] = p
		e.order = append(e.order, k)
		queue = append(queue, e.spawnOf(t, follow)...)
	}
}

func (e *stratEnv) spawnOf(t []string, follow []string) [][]string {
	if len(follow) == 0 {
		return nil
	}
	if e.override {
		return [][]string{append(append([]string(nil), t...), follow...)}
	}
	var out [][]string
	for _, v := range follow {
		out = append(out, append(append([]string(nil), t...), v))
	}
	return out
}

func (e *stratEnv) predicted(t []string) [][]string {
	p, ok := e.table[key(t)]
	if !ok || p == "E" {
		return nil
	}
	parts := strings.Split(p, "~")
	if len(parts) != 3 || parts[0] == "-" || parts[2] == "-" {
		return nil
	}
	var follow []string
	for _, h := range strings.Split(parts[2], ",") {
		id := hx.UnHex(h)
		dup := false
		for _, x := range t {
			if x == id {
				dup = true
			}
		}
		if !dup {
			follow = append(follow, id)
		}
	}
	return e.spawnOf(t, follow)
}

func (e *stratEnv) head() string {
	var es []string
	vers := map[string]bool{}
	for _, k := range e.order {
		p := e.table[k]
		es = append(es, hexList(strings.Split(k, "\x00"), ".")+"="+p)
		if p != "E" {
			for _, u := range strings.Split(strings.Split(p, "~")[0], ",") {
				if f := strings.Split(u, ":"); len(f) >= 3 {
					vers[hx.UnHex(f[2])] = true
				}
			}
		}
	}
	// dense ranks of the target versions that parse, under the ecosystem's own order
	sv := e.sys.Semver()
	var parsed []string
	for v := range vers {
		if _, err := sv.Parse(v); err == nil {
			parsed = append(parsed, v)
		}
	}
	sort.Slice(parsed, func(i, j int) bool {
		if c := sv.Compare(parsed[i], parsed[j]); c != 0 {
			return c < 0
		}
		return parsed[i] < parsed[j]
	})
	var ranks []string
	r := 0
	for i, v := range parsed {
		if i > 0 && sv.Compare(parsed[i-1], v) != 0 {
			r++
		}
		ranks = append(ranks, fmt.Sprintf("%s:%d", hx.Hex(v), r))
	}
	g := "0"
	if e.override {
		g = "1"
	}
	return fmt.Sprintf("pstrat %s %s %s %s %s", g, hexList(e.vulns, ","), hx.Join(ranks, ","), hx.Join(es, "|"), e.c.hexJSON())
}

// free: the strategy's own ComputePatches, unmodified, under the Go scheduler.
func (e *stratEnv) free(gmp int) string {
	old := runtime.GOMAXPROCS(gmp)
	defer runtime.GOMAXPROCS(old)
	return hx.Guard(func() string {
		res, opts := e.fresh()
		var ps []result.Patch
		var err error
		if e.override {
			ps, err = guidedremediation.VerifOverrideComputePatches(context.Background(), e.cl, e.vm, res, &opts)
		} else {
			ps, err = guidedremediation.VerifRelaxComputePatches(context.Background(), e.cl, e.vm, res, &opts)
		}
		if err != nil {
			return "out=error"
		}
		return "out=" + showPatches(ps)
	})
}

// gated: attempts are held at their start and run one at a time in the scheduled order. Returns the keys still parked when the
// schedule is exhausted, or the reply when ComputePatches has returned.
func (e *stratEnv) gated(sched [][]string) (pending []string, reply string) {
	type arrival struct {
		ids  []string
		gate chan struct{}
	}
	announce := make(chan *arrival, 64)
	left := make(chan string, 64)
	type res struct {
		ps  []result.Patch
		err error
		pan bool
	}
	done := make(chan res, 1)
	abort := make(chan struct{})
	resolved, opts := e.fresh()
	go func() {
		defer func() {
			if r := recover(); r != nil {
				done <- res{pan: true}
			}
		}()
		ps, err := guidedremediation.VerifC16StrategyComputePatches(context.Background(), e.override, e.cl, e.vm, resolved, &opts,
			func(ids []string) {
				a := &arrival{ids: ids, gate: make(chan struct{})}
				announce <- a
				select {
				case <-a.gate:
				case <-abort:
				}
			},
			func(ids []string, err error) { left <- key(ids) })
		done <- res{ps: ps, err: err}
	}()
	var pend []*arrival
	finish := func() {
		close(abort)
		go func() {
			for {
				select {
				case <-announce:
				case <-left:
				case <-done:
					return
				case <-time.After(stepTimeout):
					return
				}
			}
		}()
	}
	collect := func(n int, grace time.Duration) {
		for ; n > 0; n-- {
			select {
			case a := <-announce:
				pend = append(pend, a)
			case r := <-done:
				done <- r
				return
			case <-time.After(grace):
				return
			}
		}
		for {
			select {
			case a := <-announce:
				pend = append(pend, a)
				continue
			default:
			}
			return
		}
	}
	collect(len(e.vulns), stepTimeout)
	for _, ids := range sched {
		k := key(ids)
		idx := -1
		for deadline := time.Now().Add(stepTimeout); ; {
			for i, a := range pend {
				if key(a.ids) == k {
					idx = i
				}
			}
			if idx >= 0 || time.Now().After(deadline) {
				break
			}
			select {
			case a := <-announce:
				pend = append(pend, a)
			case r := <-done:
				done <- r
				deadline = time.Now()
			case <-time.After(50 * time.Millisecond):
			}
		}
		if idx < 0 {
			finish()
			return nil, "out=bad-schedule"
		}
		a := pend[idx]
		pend = append(pend[:idx], pend[idx+1:]...)
		close(a.gate)
		select { // the attempt runs alone until it returns
		case <-left:
		case <-time.After(4 * stepTimeout):
			finish()
			return nil, "out=desync:attempt-did-not-return"
		}
		collect(len(e.predicted(ids)), 10*spawnGrace)
	}
	if len(pend) > 0 {
		for _, a := range pend {
			pending = append(pending, key(a.ids))
		}
		finish()
		return pending, ""
	}
	select {
	case r := <-done:
		if r.pan {
			return nil, "out=panic"
		}
		if r.err != nil {
			return nil, "out=error"
		}
		return nil, "out=" + showPatches(r.ps)
	case a := <-announce:
		pend = append(pend, a)
		for _, a := range pend {
			pending = append(pending, key(a.ids))
		}
		finish()
		return pending, ""
	case <-time.After(stepTimeout):
		finish()
		return nil, "out=desync:no-return"
	}
}

// enumGated: every order in which the attempts can be run one at a time.
func (e *stratEnv) enumGated(limit int, emit func(c, r string)) {
	n := 0
	head := e.head()
	var dfs func(prefix [][]string)
	dfs = func(prefix [][]string) {
		if n >= limit {
			return
		}
		pending, reply := e.gated(prefix)
		if reply != "" {
			n++
			fmt.Fprintln(os.Stderr, "@case "+head+" gated:"+schedStr(prefix))
			emit(head+" gated:"+schedStr(prefix), reply)
			return
		}
		seen := map[string]bool{}
		var choices []string
		for _, k := range pending {
			if !seen[k] {
				seen[k] = true
				choices = append(choices, k)
			}
		}
		sort.Strings(choices)
		for _, k := range choices {
			dfs(append(append([][]string(nil), prefix...), strings.Split(k, "\x00")))
		}
	}
	dfs(nil)
}

// ---- universes

// npmRelaxUniverse: package `bad` (versions 1..nv) is reached through the constraining direct dependency `dep` (dep@k needs bad@^k) and, with
// diamond, ALSO through the non-constraining path zeta -> zeta2 -> bad@* (both deduplicated to one node, so ConstrainingSubgraph prunes an edge
// of the root); `nadv` advisories sit on bad, advisory i fixed in version i+1, so the attempts need different relaxations; with `second` another
// vulnerable package is reached through its own dependency; with `intro` bad@2.x pulls in a package that has its own advisory (introduced vuln).
func npmRelaxUniverse(nadv int, diamond, second, intro bool) stratCase {
	c := stratCase{Eco: "n"}
	nv := nadv + 1
	depP := remx.Pkg{Name: "dep", Deps: map[string][]string{}}
	bad := remx.Pkg{Name: "bad", Deps: map[string][]string{}}
	for k := 1; k <= nv; k++ {
		v := fmt.Sprintf("%d.0.0", k)
		depP.Versions = append(depP.Versions, v)
		depP.Deps[v] = []string{fmt.Sprintf("bad@^%d.0.0", k)}
		bad.Versions = append(bad.Versions, v)
	}
	if intro {
		bad.Deps["2.0.0"] = []string{"worse@^1.0.0"}
		c.Pkgs = append(c.Pkgs, remx.Pkg{Name: "worse", Versions: []string{"1.0.0"}})
		c.Advs = append(c.Advs, stratAdv{ID: "ADV-W", Pkg: "worse"})
	}
	c.Pkgs = append(c.Pkgs, depP, bad)
	c.Root = append(c.Root, stratDep{Name: "dep", Req: "^1.0.0"})
	if diamond {
		c.Pkgs = append(c.Pkgs, remx.Pkg{Name: "zeta", Versions: []string{"1.0.0"}, Deps: map[string][]string{"1.0.0": {"zeta2@^1.0.0"}}},
			remx.Pkg{Name: "zeta2", Versions: []string{"1.0.0"}, Deps: map[string][]string{"1.0.0": {"bad@*"}}})
		c.Root = append(c.Root, stratDep{Name: "zeta", Req: "^1.0.0"})
	}
	for i := 1; i <= nadv; i++ {
		c.Advs = append(c.Advs, stratAdv{ID: fmt.Sprintf("ADV-%c", 'A'+i-1), Pkg: "bad", Fixed: fmt.Sprintf("%d.0.0", i+1)})
	}
	if second {
		c.Pkgs = append(c.Pkgs, remx.Pkg{Name: "dep2", Versions: []string{"1.0.0", "2.0.0"}, Deps: map[string][]string{"1.0.0": {"bad2@^1.0.0"}, "2.0.0": {"bad2@^2.0.0"}}},
			remx.Pkg{Name: "bad2", Versions: []string{"1.0.0", "2.0.0"}})
		c.Root = append(c.Root, stratDep{Name: "dep2", Req: "^1.0.0"})
		c.Advs = append(c.Advs, stratAdv{ID: "ADV-Z", Pkg: "bad2", Fixed: "2.0.0"})
	}
	return c
}

// mavenOverrideUniverse: g:bad is a transitive dependency (through g:dep, with diamond also through g:zeta); `nadv` advisories on it with
// different fix versions: the override strategy pins g:bad in dependencyManagement, attempt by attempt.
func mavenOverrideUniverse(nadv int, diamond, second bool) stratCase {
	c := stratCase{Eco: "m"}
	bad := remx.Pkg{Name: "g:bad"}
	for k := 1; k <= nadv+1; k++ {
		bad.Versions = append(bad.Versions, fmt.Sprintf("%d.0.0", k))
	}
	c.Pkgs = append(c.Pkgs, remx.Pkg{Name: "g:dep", Versions: []string{"1.0.0"}, Deps: map[string][]string{"1.0.0": {"g:bad@1.0.0"}}}, bad)
	c.Root = append(c.Root, stratDep{Name: "g:dep", Req: "1.0.0"})
	if diamond {
		c.Pkgs = append(c.Pkgs, remx.Pkg{Name: "g:zeta", Versions: []string{"1.0.0"}, Deps: map[string][]string{"1.0.0": {"g:bad@1.0.0"}}})
		c.Root = append(c.Root, stratDep{Name: "g:zeta", Req: "1.0.0"})
	}
	for i := 1; i <= nadv; i++ {
		c.Advs = append(c.Advs, stratAdv{ID: fmt.Sprintf("ADV-%c", 'A'+i-1), Pkg: "g:bad", Fixed: fmt.Sprintf("%d.0.0", i+1)})
	}
	if second {
		c.Pkgs = append(c.Pkgs, remx.Pkg{Name: "g:dep2", Versions: []string{"1.0.0"}, Deps: map[string][]string{"1.0.0": {"g:bad2@1.0.0"}}},
			remx.Pkg{Name: "g:bad2", Versions: []string{"1.0.0", "1.5.0"}})
		c.Root = append(c.Root, stratDep{Name: "g:dep2", Req: "1.0.0"})
		c.Advs = append(c.Advs, stratAdv{ID: "ADV-Z", Pkg: "g:bad2", Fixed: "1.5.0"})
	}
	return c
}

// optionUniverses: the branches of patchVulns / reqsToRelax / getVersionsGreater that options and registry behaviour select — an upgrade
// level that forbids the package (None) or the needed step (Minor), MaxDepth, a registry error for one package, versions listed in
// descending order, the same package in dependencies and devDependencies (two requirements with one VersionKey), a Maven dependency with
// a classifier. The attempts that hit them fail or do nothing; the others must be unaffected by WHEN those happen.
func optionUniverses() []stratCase {
	var cs []stratCase
	levels := map[string]int{"none": int(upgrade.None), "minor": int(upgrade.Minor)}
	// relax
	c := npmRelaxUniverse(2, true, true, false)
	c.Levels = map[string]int{"dep": levels["none"]} // relax.go: UpgradeConfig.Get(...) == None -> ErrPatchImpossible; dep2 still patched
	cs = append(cs, c)
	c = npmRelaxUniverse(2, true, true, false)
	c.Levels = map[string]int{"dep": levels["minor"]} // the relaxer refuses the major step
	cs = append(cs, c)
	c = npmRelaxUniverse(2, false, true, false)
	// bad is constrained at depth 2 through dep (kept) and at depth 3 through far -> mid: the edge root -> far is skipped in reqsToRelax
	c.Pkgs = append(c.Pkgs, remx.Pkg{Name: "far", Versions: []string{"1.0.0"}, Deps: map[string][]string{"1.0.0": {"mid@^1.0.0"}}},
		remx.Pkg{Name: "mid", Versions: []string{"1.0.0"}, Deps: map[string][]string{"1.0.0": {"bad@^1.0.0"}}})
	c.Root = append(c.Root, stratDep{Name: "far", Req: "^1.0.0"})
	c.MaxDepth = 2
	cs = append(cs, c)
	c = npmRelaxUniverse(2, false, true, false)
	c.FailVersions = []string{"dep"} // the relaxer cannot list dep's versions: attempts on bad fail, the one on bad2 does not
	cs = append(cs, c)
	c = npmRelaxUniverse(2, true, false, false)
	c.ReverseVersions = true
	cs = append(cs, c)
	c = npmRelaxUniverse(2, true, false, false)
	c.Root = append(c.Root, stratDep{Name: "dep-alias", Req: "npm:dep@^1.0.0"}) // one VersionKey (dep ^1.0.0), two requirement Types (plain, KnownAs)
	cs = append(cs, c)
	c = npmRelaxUniverse(2, false, true, false)
	c.FailMatchOn = "bad@3.0.0" // the attempts that reach bad@3.0.0 fail while looking for vulnerabilities in the relaxed graph
	cs = append(cs, c)
	c = npmRelaxUniverse(2, false, true, false)
	c.FailReqOn = "bad@3.0.0" // … fail while re-resolving
	cs = append(cs, c)
	c = npmRelaxUniverse(3, true, true, false)
	c.Explicit = []string{"ADV-A", "ADV-Z"} // two explicit vulnerabilities in different packages, the others are to be left alone: attempts run side by side
	cs = append(cs, c)
	// override
	m := mavenOverrideUniverse(3, true, true)
	m.Explicit = []string{"ADV-A", "ADV-Z"}
	cs = append(cs, m)
	m = mavenOverrideUniverse(2, true, true)
	m.Levels = map[string]int{"g:bad": levels["none"]}
	cs = append(cs, m)
	m = mavenOverrideUniverse(3, true, true)
	m.Levels = map[string]int{"g:bad": levels["minor"]} // every fix is a major step: Allows(diff) breaks the search
	cs = append(cs, m)
	m = mavenOverrideUniverse(2, false, true)
	m.FailVersions = []string{"g:bad"}
	cs = append(cs, m)
	m = mavenOverrideUniverse(3, true, false)
	m.ReverseVersions = true // getVersionsGreater has to sort
	cs = append(cs, m)
	m = mavenOverrideUniverse(2, false, true)
	m.Root = append(m.Root, stratDep{Name: "g:bad", Req: "1.0.0", Classifier: "tests"}) // cannot fix vulns in artifacts with classifier
	cs = append(cs, m)
	m = mavenOverrideUniverse(2, false, true)
	m.FailMatchOn = "g:bad@3.0.0"
	cs = append(cs, m)
	m = mavenOverrideUniverse(2, false, true)
	m.FailReqOn = "g:bad@3.0.0"
	cs = append(cs, m)
	return cs
}

func stratUniverses(thorough bool) []stratCase {
	var cs []stratCase
	for _, nadv := range []int{2, 3} {
		for _, diamond := range []bool{true, false} {
			cs = append(cs, npmRelaxUniverse(nadv, diamond, false, false), mavenOverrideUniverse(nadv, diamond, false))
		}
	}
	cs = append(cs, npmRelaxUniverse(2, true, true, false), npmRelaxUniverse(2, true, false, true), mavenOverrideUniverse(2, true, true))
	cs = append(cs, optionUniverses()...)
	if thorough {
		cs = append(cs, npmRelaxUniverse(3, true, true, true), npmRelaxUniverse(2, false, true, true), mavenOverrideUniverse(3, true, true))
	}
	return cs
}

// stratStream: per universe the table (isolated attempts), then all gated orders, then free runs. Sequential; "@case" on stderr.
func stratStream(cs []stratCase, reps, gatedLimit int, out *hx.Out) {
	for _, c := range cs {
		e := newStratEnv(c)
		e.closure()
		head := e.head()
		e.enumGated(gatedLimit, func(c, r string) { out.Emit(c, r); out.Flush() })
		for _, g := range []int{1, 16} {
			for r := 0; r < reps; r++ {
				cl := fmt.Sprintf("%s free-g%dr%d", head, g, r)
				fmt.Fprintln(os.Stderr, "@case "+cl)
				out.Emit(cl, e.free(g))
				out.Flush()
			}
		}
		e.close()
	}
}

// replayStrat re-runs one pstrat line: the table is recomputed from the universe it carries.
func replayStrat(l string, out *hx.Out) {
	t := strings.Split(l, " ")
	e := newStratEnv(parseStratCase(t[5]))
	defer e.close()
	e.closure()
	head := e.head()
	tag := t[6]
	if strings.HasPrefix(tag, "gated:") {
		var sched [][]string
		if s := strings.TrimPrefix(tag, "gated:"); s != "-" {
			for _, x := range strings.Split(s, "/") {
				sched = append(sched, unhexList(x, "."))
			}
		}
		pending, reply := e.gated(sched)
		for guard := 0; reply == "" && len(pending) > 0 && guard < 64; guard++ {
			sched = append(sched, strings.Split(pending[0], "\x00"))
			pending, reply = e.gated(sched)
		}
		if reply == "" {
			reply = "out=incomplete"
		}
		cl := head + " gated:" + schedStr(sched)
		fmt.Fprintln(os.Stderr, "@case "+cl)
		out.Emit(cl, reply)
		out.Flush()
		return
	}
	for k := 0; k < 8; k++ {
		g := []int{1, 16}[k%2]
		cl := fmt.Sprintf("%s free-g%dr%d", head, g, k)
		fmt.Fprintln(os.Stderr, "@case "+cl)
		out.Emit(cl, e.free(g))
		out.Flush()
	}
}

var _ = dep.KnownAs
