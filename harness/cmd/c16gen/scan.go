// (c) whole scans over a slow in-memory file system, meant to run under -race (one scan = one process = one case).
//
// The scan is slow at exactly ONE kind of site, so that the status ticker (2 s period) fires while the walker sits in a
// chosen window of handleFile / walkDirUnsorted / runExtractor:
//
//	dopen      fs.Open of a directory (readDir, right after handleFile returned for that directory)
//	readdir    every ReadDir(1) of an open directory (between two children)
//	gitignore  fs.Open of a .gitignore (inside handleFile for a directory, UseGitignore on)
//	stat       fs.Stat (root stat, requested-path stats, the lazy size stat behind MaxFileSize)
//	fopen      fs.Open of a regular file (runExtractor, before the extractCalls++ critical section)
//	extract    Extractor.Extract (after it)
//
// mode tree = whole-tree scan (RunFS starts the ticker goroutine); mode paths = PathsToExtract names the top-level
// directories (walkIndividualPaths; no ticker goroutine exists — control).
package main

import (
	"context"
	"fmt"
	"io"
	"io/fs"
	"math/rand"
	"path"
	"sort"
	"strings"
	"sync/atomic"
	"time"

	scalibr "github.com/google/osv-scalibr"
	"github.com/google/osv-scalibr/extractor"
	"github.com/google/osv-scalibr/extractor/filesystem"
	scalibrfs "github.com/google/osv-scalibr/fs"
	"github.com/google/osv-scalibr/inventory"
	"github.com/google/osv-scalibr/log"
	"github.com/google/osv-scalibr/plugin"
	"github.com/google/osv-scalibr/purl"

	"verif/harness/hx"
)

var scanSites = []string{"dopen", "readdir", "gitignore", "stat", "fopen", "extract"}

type sNode struct {
	name string // base name
	dir  bool
	kids []*sNode
	data []byte
	// scanopt.go: non-regular files and failing operations (zero values: a plain file / directory on which everything works)
	mode     fs.FileMode // type bits (fs.ModeSymlink, fs.ModeDevice) or permission bits of a regular file
	openErr  error       // FS.Open fails
	fstatErr error       // File.Stat of the opened file fails
	statErr  error       // FS.Stat fails
}

type slowFS struct {
	byPath map[string]*sNode
	site   string
	d      time.Duration
	hits   atomic.Int64
}

func (f *slowFS) pause(site string) {
	if f.site == site {
		f.hits.Add(1)
		time.Sleep(f.d)
	}
}

type sInfo struct{ n *sNode }

func (i sInfo) Name() string { return i.n.name }
func (i sInfo) Size() int64  { return int64(len(i.n.data)) }
func (i sInfo) Mode() fs.FileMode {
	if i.n.dir {
		return fs.ModeDir | 0o755
	}
	if i.n.mode != 0 {
		return i.n.mode
	}
	return 0o644
}
func (i sInfo) ModTime() time.Time { return time.Time{} }
func (i sInfo) IsDir() bool        { return i.n.dir }
func (i sInfo) Sys() any           { return nil }

type sFile struct {
	fs  *slowFS
	n   *sNode
	off int
}

func (f *sFile) Stat() (fs.FileInfo, error) {
	if f.n.fstatErr != nil {
		return nil, f.n.fstatErr
	}
	return sInfo{f.n}, nil
}
func (f *sFile) Close() error               { return nil }
func (f *sFile) Read(p []byte) (int, error) {
	if f.n.dir {
		return 0, &fs.PathError{Op: "read", Path: f.n.name, Err: fs.ErrInvalid}
	}
	if f.off >= len(f.n.data) {
		return 0, io.EOF
	}
	k := copy(p, f.n.data[f.off:])
	f.off += k
	return k, nil
}
func (f *sFile) ReadDir(n int) ([]fs.DirEntry, error) {
	if !f.n.dir {
		return nil, &fs.PathError{Op: "readdir", Path: f.n.name, Err: fs.ErrInvalid}
	}
	f.fs.pause("readdir")
	rest := f.n.kids[f.off:]
	if n > 0 && len(rest) == 0 {
		return nil, io.EOF
	}
	if n > 0 && len(rest) > n {
		rest = rest[:n]
	}
	f.off += len(rest)
	out := make([]fs.DirEntry, len(rest))
	for i, k := range rest {
		out[i] = fs.FileInfoToDirEntry(sInfo{k})
	}
	return out, nil
}

func (f *slowFS) lookup(op, name string) (*sNode, error) {
	name = strings.TrimSuffix(name, "/")
	if name == "" {
		name = "."
	}
	n, ok := f.byPath[name]
	if !ok {
		return nil, &fs.PathError{Op: op, Path: name, Err: fs.ErrNotExist}
	}
	return n, nil
}

func (f *slowFS) Open(name string) (fs.File, error) {
	n, err := f.lookup("open", name)
	if err != nil {
		return nil, err
	}
	if n.openErr != nil {
		return nil, &fs.PathError{Op: "open", Path: name, Err: n.openErr}
	}
	switch {
	case n.dir:
		f.pause("dopen")
	case n.name == ".gitignore":
		f.pause("gitignore")
	default:
		f.pause("fopen")
	}
	return &sFile{fs: f, n: n}, nil
}

func (f *slowFS) Stat(name string) (fs.FileInfo, error) {
	n, err := f.lookup("stat", name)
	if err != nil {
		return nil, err
	}
	if n.statErr != nil {
		return nil, &fs.PathError{Op: "stat", Path: name, Err: n.statErr}
	}
	f.pause("stat")
	return sInfo{n}, nil
}

func (f *slowFS) ReadDir(name string) ([]fs.DirEntry, error) {
	n, err := f.lookup("readdir", name)
	if err != nil {
		return nil, err
	}
	var out []fs.DirEntry
	for _, k := range n.kids {
		out = append(out, fs.FileInfoToDirEntry(sInfo{k}))
	}
	sort.Slice(out, func(i, j int) bool { return out[i].Name() < out[j].Name() })
	return out, nil
}

var _ scalibrfs.FS = (*slowFS)(nil)

type slowEx struct {
	fs    *slowFS
	calls *atomic.Int64
}

func (e slowEx) Name() string                       { return "c16/slow" }
func (e slowEx) Version() int                       { return 0 }
func (e slowEx) Requirements() *plugin.Capabilities { return &plugin.Capabilities{} }
func (e slowEx) FileRequired(api filesystem.FileAPI) bool {
	return path.Base(api.Path()) != ".gitignore"
}
func (e slowEx) Extract(ctx context.Context, in *filesystem.ScanInput) (inventory.Inventory, error) {
	e.fs.pause("extract")
	e.calls.Add(1)
	return inventory.Inventory{}, nil
}
func (e slowEx) ToPURL(p *extractor.Package) *purl.PackageURL { return nil }
func (e slowEx) Ecosystem(p *extractor.Package) string        { return "" }

func scanSite(seed int64, site, mode string) {
	rng := rand.New(rand.NewSource(seed))
	ndirs := 3 + rng.Intn(3)
	nfiles := 20 + rng.Intn(8)
	f := &slowFS{byPath: map[string]*sNode{}, site: site}
	root := &sNode{name: ".", dir: true}
	f.byPath["."] = root
	add := func(parent *sNode, ppath string, n *sNode) string {
		parent.kids = append(parent.kids, n)
		p := n.name
		if ppath != "." {
			p = ppath + "/" + n.name
		}
		f.byPath[p] = n
		return p
	}
	add(root, ".", &sNode{name: ".gitignore", data: []byte("zzz-not-there\n")})
	type dref struct {
		n *sNode
		p string
	}
	var dirs []dref
	for d := 0; d < ndirs; d++ {
		n := &sNode{name: fmt.Sprintf("d%d", d), dir: true}
		// some directories nest below an earlier one
		par, pp := root, "."
		if d > 1 && rng.Intn(3) == 0 {
			par, pp = dirs[rng.Intn(len(dirs))].n, ""
			for _, x := range dirs {
				if x.n == par {
					pp = x.p
				}
			}
		}
		p := add(par, pp, n)
		dirs = append(dirs, dref{n, p})
		add(n, p, &sNode{name: ".gitignore", data: []byte("zzz-not-there\n")})
	}
	for i := 0; i < nfiles; i++ {
		d := dirs[rng.Intn(len(dirs))]
		add(d.n, d.p, &sNode{name: fmt.Sprintf("f%d.txt", i), data: make([]byte, 1+rng.Intn(60))})
	}
	// expected number of pauses in a whole-tree scan; the sleep is chosen so that the scan lasts ~3 s
	readdirs := 0
	for _, n := range f.byPath {
		if n.dir {
			readdirs += len(n.kids) + 1
		}
	}
	expect := map[string]int{"dopen": ndirs + 1, "readdir": readdirs, "gitignore": ndirs + 1, "stat": nfiles + 1, "fopen": nfiles, "extract": nfiles}[site]
	if expect == 0 {
		fmt.Printf("scan seed=%d site=%s mode=%s unknown-site\n", seed, site, mode)
		return
	}
	f.d = 3000 * time.Millisecond / time.Duration(expect)
	var calls atomic.Int64
	cfg := &scalibr.ScanConfig{FilesystemExtractors: []filesystem.Extractor{slowEx{fs: f, calls: &calls}}, UseGitignore: true, MaxFileSize: 1 << 20,
		ScanRoots: []*scalibrfs.ScanRoot{{FS: f}}, Capabilities: &plugin.Capabilities{}}
	if mode == "paths" {
		for _, d := range dirs {
			if !strings.Contains(d.p, "/") {
				cfg.PathsToExtract = append(cfg.PathsToExtract, d.p)
			}
		}
	}
	start := time.Now()
	status := hx.Guard(func() string {
		r := scalibr.New().Scan(context.Background(), cfg)
		if r.Status.Status != plugin.ScanStatusSucceeded {
			return "failed"
		}
		return "ok"
	})
	el := time.Since(start)
	ok := status == "ok" && int(calls.Load()) == nfiles
	fmt.Printf("scan seed=%d site=%s mode=%s dirs=%d files=%d pauses=%d pause_ms=%d elapsed_ms=%d ticker_expected=%s ticker_fired=%s complete=%s\n", seed, site, mode, ndirs, nfiles,
		f.hits.Load(), f.d.Milliseconds(), el.Milliseconds(), hx.B(mode == "tree"), hx.B(mode == "tree" && el > 2100*time.Millisecond), hx.B(ok))
}

// ---- multi-root scans: the ticker of the PREVIOUS root is signalled (close(quit)) but never joined

// slowLogger blocks for a while on every status line ("Status: …", the call printStatus makes while holding statusMu): a user-installed
// log.Logger that writes to something slow.
type slowLogger struct {
	d      time.Duration
	status atomic.Int64
}

func (l *slowLogger) Infof(format string, args ...any) {
	if strings.HasPrefix(format, "Status:") {
		l.status.Add(1)
		time.Sleep(l.d)
	}
}
func (l *slowLogger) Errorf(string, ...any) {}
func (l *slowLogger) Error(...any)          {}
func (l *slowLogger) Warnf(string, ...any)  {}
func (l *slowLogger) Warn(...any)           {}
func (l *slowLogger) Info(...any)           {}
func (l *slowLogger) Debugf(string, ...any) {}
func (l *slowLogger) Debug(...any)          {}

// sleepEx sleeps inside Extract on the files named slow*.txt: the walk of a root then ends (no further handleFile, no further statusMu
// acquisition by the walker) while a status line that started during that Extract is still being written.
type sleepEx struct {
	d     time.Duration
	calls *atomic.Int64
}

func (e sleepEx) Name() string                       { return "c16/sleep" }
func (e sleepEx) Version() int                       { return 0 }
func (e sleepEx) Requirements() *plugin.Capabilities { return &plugin.Capabilities{} }
func (e sleepEx) FileRequired(api filesystem.FileAPI) bool {
	return strings.HasSuffix(api.Path(), ".txt")
}
func (e sleepEx) Extract(ctx context.Context, in *filesystem.ScanInput) (inventory.Inventory, error) {
	e.calls.Add(1)
	if strings.HasPrefix(path.Base(in.Path), "slow") {
		time.Sleep(e.d)
	}
	return inventory.Inventory{}, nil
}
func (e sleepEx) ToPURL(p *extractor.Package) *purl.PackageURL { return nil }
func (e sleepEx) Ecosystem(p *extractor.Package) string        { return "" }

// scanMultiRoot: filesystem.Run over 2..3 scan roots. In every root but the last the LAST file visited is slow.txt, whose Extract outlasts
// the 2 s status interval, so that root's ticker fires during it and is still inside printStatus (slow logger) when the walk ends, RunFS
// returns and RunFS for the next root starts: whatever RunFS itself touches of the status fields meets the previous root's ticker.
func scanMultiRoot(seed int64) {
	rng := rand.New(rand.NewSource(seed))
	nroots := 2 + rng.Intn(2)
	ext := time.Duration(2150+rng.Intn(300)) * time.Millisecond
	lg := &slowLogger{d: time.Duration(700+rng.Intn(500)) * time.Millisecond}
	log.SetLogger(lg)
	var calls atomic.Int64
	var roots []*scalibrfs.ScanRoot
	want := 0
	for r := 0; r < nroots; r++ {
		f := &slowFS{byPath: map[string]*sNode{}, site: "none"}
		root := &sNode{name: ".", dir: true}
		f.byPath["."] = root
		d := &sNode{name: "d", dir: true}
		root.kids = append(root.kids, d)
		f.byPath["d"] = d
		for i := 0; i < 2+rng.Intn(4); i++ {
			n := &sNode{name: fmt.Sprintf("f%d.txt", i), data: []byte("x")}
			d.kids = append(d.kids, n)
			f.byPath["d/"+n.name] = n
			want++
		}
		if r < nroots-1 { // listed last: nothing is visited after it
			n := &sNode{name: "slow.txt", data: []byte("x")}
			d.kids = append(d.kids, n)
			f.byPath["d/slow.txt"] = n
			want++
		}
		roots = append(roots, &scalibrfs.ScanRoot{FS: f})
	}
	cfg := &scalibr.ScanConfig{FilesystemExtractors: []filesystem.Extractor{sleepEx{d: ext, calls: &calls}}, ScanRoots: roots, Capabilities: &plugin.Capabilities{}}
	start := time.Now()
	status := hx.Guard(func() string {
		r := scalibr.New().Scan(context.Background(), cfg)
		if r.Status.Status != plugin.ScanStatusSucceeded {
			return "failed"
		}
		return "ok"
	})
	el := time.Since(start)
	time.Sleep(lg.d + 200*time.Millisecond) // let the last status line finish: its ticker goroutine is not joined by the scan either
	ok := status == "ok" && int(calls.Load()) == want
	fmt.Printf("scan seed=%d site=multiroot mode=tree roots=%d slow_extract_ms=%d logger_ms=%d status_lines=%d elapsed_ms=%d ticker_expected=1 ticker_fired=%s complete=%s\n",
		seed, nroots, ext.Milliseconds(), lg.d.Milliseconds(), lg.status.Load(), el.Milliseconds(), hx.B(lg.status.Load() > 0), hx.B(ok))
}
