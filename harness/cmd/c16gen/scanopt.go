// (c') whole scans with the engine's options and error paths switched on, under -race, with the status ticker firing — and the outcome
// compared with the same scan run fast (the ticker never fires): what the walker does on these branches must not depend on whether the
// ticker goroutine ran.  One scan = one process = one case:  c16gen -mode scan -site opt-<variant>.
//
//	base         DirsToSkip, SkipDirRegex, SkipDirGlob, UseGitignore (a matching file and a matching directory, an unreadable .gitignore),
//	             MaxFileSize (an oversized file, a file whose size cannot be read), a symlink and a device node with ReadSymlinks off,
//	             a directory that cannot be opened (permission / other error), a file that cannot be opened, an opened file that cannot be
//	             stat'ed, an extractor that fails twice, IsInterestingExecutable in FileRequired
//	symlinks     the same with ReadSymlinks on
//	abs          the scan root has a path: StoreAbsolutePath, DirsToSkip given as absolute paths
//	maxinodes    MaxInodes smaller than the tree: the walk is aborted (after > 2 s of Extract calls in the slow run)
//	cancel       the context is cancelled during the (n-3)rd Extract
//	errfs-dir / errfs-gitignore / errfs-size   ErrorOnFSErrors with ONE failing site late in the walk: the walk is aborted with that error
//
// Every run ends the walk while the ticker goroutine exists; RunFS then signals it and reads the counters for the end-status line.
package main

import (
	"context"
	"errors"
	"fmt"
	"io/fs"
	"math/rand"
	"path"
	"regexp"
	"sort"
	"strings"
	"sync/atomic"
	"time"

	"github.com/gobwas/glob"
	scalibr "github.com/google/osv-scalibr"
	"github.com/google/osv-scalibr/extractor"
	"github.com/google/osv-scalibr/extractor/filesystem"
	scalibrfs "github.com/google/osv-scalibr/fs"
	"github.com/google/osv-scalibr/inventory"
	"github.com/google/osv-scalibr/plugin"
	"github.com/google/osv-scalibr/purl"

	"verif/harness/hx"
)

var scanOptVariants = []string{"base", "symlinks", "abs", "maxinodes", "cancel", "errfs-dir", "errfs-gitignore", "errfs-size"}

type optEx struct {
	fs       *slowFS
	calls    *atomic.Int64
	cancelAt int64
	cancel   func()
}

func (e optEx) Name() string                       { return "c16/opt" }
func (e optEx) Version() int                       { return 0 }
func (e optEx) Requirements() *plugin.Capabilities { return &plugin.Capabilities{} }
func (e optEx) FileRequired(api filesystem.FileAPI) bool {
	p := api.Path()
	if strings.HasSuffix(p, ".bin") || strings.HasSuffix(p, ".exe") || strings.HasSuffix(p, ".md") {
		return filesystem.IsInterestingExecutable(api)
	}
	return strings.HasSuffix(p, ".txt") || strings.HasPrefix(path.Base(p), "sym")
}
func (e optEx) Extract(ctx context.Context, in *filesystem.ScanInput) (inventory.Inventory, error) {
	n := e.calls.Add(1)
	e.fs.pause("extract")
	if e.cancelAt > 0 && n == e.cancelAt {
		e.cancel()
	}
	if strings.HasPrefix(path.Base(in.Path), "bad") {
		return inventory.Inventory{}, errors.New("cannot parse " + path.Base(in.Path))
	}
	return inventory.Inventory{Packages: []*extractor.Package{{Name: in.Path, Version: "1", Locations: []string{in.Path}}}}, nil
}
func (e optEx) ToPURL(p *extractor.Package) *purl.PackageURL { return nil }
func (e optEx) Ecosystem(p *extractor.Package) string        { return "" }

// optTree builds the tree of a variant: plain files first (so that the slow run has slept > 2 s before anything aborts the walk).
func optTree(rng *rand.Rand, variant string) (*slowFS, int) {
	f := &slowFS{byPath: map[string]*sNode{}, site: "extract"}
	root := &sNode{name: ".", dir: true}
	f.byPath["."] = root
	total := 1
	add := func(parent string, n *sNode) string {
		par := f.byPath[parent]
		par.kids = append(par.kids, n)
		p := n.name
		if parent != "." {
			p = parent + "/" + n.name
		}
		f.byPath[p] = n
		total++
		return p
	}
	file := func(parent, name string, size int) *sNode {
		n := &sNode{name: name, data: make([]byte, size)}
		add(parent, n)
		return n
	}
	dir := func(parent, name string) string { return add(parent, &sNode{name: name, dir: true}) }
	add(".", &sNode{name: ".gitignore", data: []byte("zzz-not-there\n")})
	plain := dir(".", "plain")
	for i := 0; i < 10+rng.Intn(6); i++ {
		file(plain, fmt.Sprintf("f%d.txt", i), 1+rng.Intn(60))
	}
	errfs := strings.HasPrefix(variant, "errfs-")
	if !errfs {
		for _, d := range []string{"d0", "d1", "d2x"} { // skipped by DirsToSkip / SkipDirRegex / SkipDirGlob
			file(dir(".", d), "f.txt", 10)
		}
		d3 := dir(".", "d3")
		add(d3, &sNode{name: ".gitignore", data: []byte("ignored.txt\nsub\n")})
		file(d3, "ignored.txt", 10)
		file(d3, "kept.txt", 10)
		file(dir(d3, "sub"), "f.txt", 10)
		file(d3, "big.txt", 5000)
		add(d3, &sNode{name: "sym1", data: []byte("x"), mode: fs.ModeSymlink | 0o777})
		add(d3, &sNode{name: "dev1.txt", mode: fs.ModeDevice | 0o644})
		add(d3, &sNode{name: "tool.bin", data: []byte("x"), mode: 0o755})
		add(d3, &sNode{name: "doc.bin", data: []byte("x"), mode: 0o644})
		add(d3, &sNode{name: "run.exe", data: []byte("x"), mode: 0o644})
		add(d3, &sNode{name: "readme.md", data: []byte("x"), mode: 0o755})
		d4 := dir(".", "d4")
		file(d4, "bad1.txt", 10)
		file(d4, "bad2.txt", 10)
		file(d4, "noopen.txt", 10).openErr = errors.New("input/output error")
		file(d4, "nofstat.txt", 10).fstatErr = errors.New("stale handle")
		file(d4, "nostat.txt", 10).statErr = errors.New("stale handle")
		f.byPath[dir(d4, "perm")].openErr = fs.ErrPermission
		f.byPath[dir(d4, "broken")].openErr = errors.New("input/output error")
		d5 := dir(".", "d5")
		add(d5, &sNode{name: ".gitignore", openErr: errors.New("input/output error")})
		file(d5, "f.txt", 10)
	} else {
		late := dir(".", "late")
		file(late, "before.txt", 10)
		switch variant {
		case "errfs-dir":
			f.byPath[dir(late, "broken")].openErr = errors.New("input/output error")
		case "errfs-gitignore":
			add(dir(late, "g"), &sNode{name: ".gitignore", openErr: errors.New("input/output error")})
		case "errfs-size":
			file(late, "nostat.txt", 10).statErr = errors.New("stale handle")
		}
		file(late, "after.txt", 10)
	}
	file(dir(".", "tail"), "f.txt", 10)
	return f, total
}

func renderScan(r *scalibr.ScanResult) string {
	var out []string
	out = append(out, fmt.Sprintf("status=%v/%s", r.Status.Status, r.Status.FailureReason))
	var ps []string
	for _, p := range r.PluginStatus {
		ps = append(ps, fmt.Sprintf("plugin %s=%v/%s", p.Name, p.Status.Status, p.Status.FailureReason))
	}
	sort.Strings(ps)
	out = append(out, ps...)
	var pk []string
	for _, p := range r.Inventory.Packages {
		pk = append(pk, "pkg "+p.Name+"@"+strings.Join(p.Locations, ","))
	}
	sort.Strings(pk)
	return strings.Join(append(out, pk...), "\n")
}

func scanOptions(seed int64, variant string) {
	expectIn := map[string][]string{
		"base":            {"pkg d3/kept.txt@d3/kept.txt", "cannot parse bad1.txt", "cannot parse bad2.txt", "Open(d4/noopen.txt)", "stat(d4/nofstat.txt)", "pkg d3/tool.bin@", "pkg d3/run.exe@", "pkg d5/f.txt@", "pkg tail/f.txt@"},
		"symlinks":        {"pkg d3/sym1@d3/sym1", "pkg tail/f.txt@"},
		"abs":             {"pkg d3/kept.txt@/vroot/d3/kept.txt", "pkg tail/f.txt@/vroot/tail/f.txt"},
		"maxinodes":       {"maxInodes"},
		"cancel":          {"context canceled"},
		"errfs-dir":       {"fserr: open late/broken"},
		"errfs-gitignore": {"late/g\") reading .gitignore"},
		"errfs-size":      {"failed to get file size for \"late/nostat.txt\""},
	}[variant]
	expectOut := map[string][]string{
		"base":            {"pkg d0/", "pkg d1/", "pkg d2x/", "ignored.txt@", "d3/sub/", "big.txt@", "sym1@", "dev1.txt@", "doc.bin@", "readme.md@", "nostat.txt@", "noopen.txt@", "nofstat.txt@", "bad1.txt@"},
		"symlinks":        {"dev1.txt@"},
		"abs":             {"pkg d0/"},
		"maxinodes":       {"pkg tail/"},
		"cancel":          {"pkg tail/"},
		"errfs-dir":       {"pkg late/after.txt", "pkg tail/"},
		"errfs-gitignore": {"pkg late/after.txt", "pkg tail/"},
		"errfs-size":      {"pkg late/after.txt", "pkg tail/"},
	}[variant]
	if expectIn == nil {
		fmt.Printf("scan seed=%d site=opt-%s mode=tree unknown-variant\n", seed, variant)
		return
	}
	run := func(perCall time.Duration, cancelAt int64) (string, int64, time.Duration) {
		f, total := optTree(rand.New(rand.NewSource(seed)), variant)
		f.d = perCall
		var calls atomic.Int64
		ctx, cancel := context.WithCancel(context.Background())
		defer cancel()
		cfg := &scalibr.ScanConfig{FilesystemExtractors: []filesystem.Extractor{optEx{fs: f, calls: &calls, cancelAt: cancelAt, cancel: cancel}},
			UseGitignore: true, MaxFileSize: 1000, ScanRoots: []*scalibrfs.ScanRoot{{FS: f}}, Capabilities: &plugin.Capabilities{},
			DirsToSkip: []string{"d0"}, SkipDirRegex: regexp.MustCompile(`^d1$`), SkipDirGlob: glob.MustCompile("d2*")}
		switch variant {
		case "symlinks":
			cfg.ReadSymlinks = true
		case "abs":
			cfg.ScanRoots = []*scalibrfs.ScanRoot{{FS: f, Path: "/vroot"}}
			cfg.StoreAbsolutePath = true
			cfg.DirsToSkip = []string{"/vroot/d0"}
		case "maxinodes":
			cfg.MaxInodes = total - 4
		case "errfs-dir", "errfs-gitignore", "errfs-size":
			cfg.ErrorOnFSErrors = true
		}
		start := time.Now()
		res := hx.Guard(func() string { return renderScan(scalibr.New().Scan(ctx, cfg)) })
		return res, calls.Load(), time.Since(start)
	}
	// fast: no pause at all; tells how many Extract calls the scan makes
	fast, nFast, _ := run(0, 0)
	cancelAt := int64(0)
	if variant == "cancel" {
		cancelAt = nFast - 3
		fast, nFast, _ = run(0, cancelAt)
	}
	if nFast == 0 {
		nFast = 1
	}
	slow, nSlow, el := run(2600*time.Millisecond/time.Duration(nFast), cancelAt)
	ok := fast == slow && nFast == nSlow
	for _, s := range expectIn {
		ok = ok && strings.Contains(slow, s)
	}
	for _, s := range expectOut {
		ok = ok && !strings.Contains(slow, s)
	}
	fmt.Printf("scan seed=%d site=opt-%s mode=tree extracts=%d/%d elapsed_ms=%d ticker_expected=1 ticker_fired=%s same=%s complete=%s outcome=%s\n", seed, variant, nFast, nSlow,
		el.Milliseconds(), hx.B(el > 2100*time.Millisecond), hx.B(fast == slow), hx.B(ok), hx.Hex(slow))
	if !ok && fast != slow {
		fmt.Printf("fast=%s\n", hx.Hex(fast))
	}
}
