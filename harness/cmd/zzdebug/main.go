package main

import (
	"fmt"
	"os"

	bolt "go.etcd.io/bbolt"
)

func dump(b *bolt.Bucket, ind string, depth int) {
	_ = b.ForEach(func(k, v []byte) error {
		if v == nil {
			fmt.Printf("%s[%s]\n", ind, k)
			if depth < 6 {
				dump(b.Bucket(k), ind+"  ", depth+1)
			}
		} else {
			s := string(v)
			if len(s) > 60 {
				s = s[:60]
			}
			fmt.Printf("%s%s = %q\n", ind, k, s)
		}
		return nil
	})
}

func main() {
	db, err := bolt.Open(os.Args[1], 0o444, &bolt.Options{ReadOnly: true})
	if err != nil {
		panic(err)
	}
	_ = db.View(func(tx *bolt.Tx) error {
		return tx.ForEach(func(name []byte, b *bolt.Bucket) error {
			fmt.Printf("[%s]\n", name)
			dump(b, "  ", 0)
			return nil
		})
	})
}
