//go:build !noshim

// The unit streams of c12gen: they call unexported functions of /repo through the overlay export shims
// (harness/overlay/guidedremediation/verif_export_c12.go and friends).  When a shim no longer compiles against /repo
// the check rebuilds c12gen with `-tags verif,noshim` (this file out, unit_noshim.go in) and still runs the end-to-end
// stream, which uses the public API only.
package main

import (
	"fmt"
	"os"
	"path/filepath"
	"slices"
	"sort"
	"strconv"
	"strings"

	"deps.dev/util/resolve/dep"
	scalibrfs "github.com/google/osv-scalibr/fs"
	"github.com/google/osv-scalibr/guidedremediation"
	"github.com/google/osv-scalibr/guidedremediation/result"

	"verif/harness/hx"
)

const haveShim = true

func runCP(k int, ni bool, vulns []int, ps []patch) string {
	return hx.Guard(func() string {
		var all []result.Patch
		for _, p := range ps {
			all = append(all, toResultPatch(p))
		}
		var ids []string
		for _, v := range vulns {
			ids = append(ids, vid(v))
		}
		chosen := guidedremediation.VerifChoosePatches(all, k, ni)
		var sel []string
		for _, c := range chosen {
			sel = append(sel, encPatch(fromResultPatch(c)))
		}
		var un []string
		for _, v := range guidedremediation.VerifComputeVulnsResult(ids, all) {
			un = append(un, fmt.Sprintf("%d:%s", vnum(v.ID), hx.B(v.Unactionable)))
		}
		return "sel=" + hx.Join(sel, ";") + " un=" + hx.Join(un, ",")
	})
}

func npmManifest(dir string, reqs []kv) guidedremediation.VerifManifest {
	var sb strings.Builder
	sb.WriteString("{\"name\": \"root\", \"version\": \"1.0.0\", \"dependencies\": {")
	for i, r := range reqs {
		if i > 0 {
			sb.WriteString(", ")
		}
		if r.a == 0 {
			fmt.Fprintf(&sb, "\"pkg%d\": \"1.0.%d\"", r.k, r.v)
		} else {
			fmt.Fprintf(&sb, "\"al%d\": \"npm:pkg%d@1.0.%d\"", r.a, r.k, r.v)
		}
	}
	sb.WriteString("}}\n")
	must(os.WriteFile(filepath.Join(dir, "package.json"), []byte(sb.String()), 0o644))
	rw, err := guidedremediation.VerifNpmReadWriter()
	must(err)
	m, err := rw.Read("package.json", scalibrfs.DirFS(dir))
	must(err)
	return m
}

func runCD(oldV, newV []int, oldR, newR []kv) string {
	return hx.Guard(func() string {
		d1, err := os.MkdirTemp(scratch, "a")
		must(err)
		defer os.RemoveAll(d1)
		d2, err := os.MkdirTemp(scratch, "b")
		must(err)
		defer os.RemoveAll(d2)
		ids := func(vs []int) []string {
			var out []string
			for _, v := range vs {
				out = append(out, vid(v))
			}
			return out
		}
		oldRes := guidedremediation.VerifMakeResolved(npmManifest(d1, oldR), ids(oldV))
		newRes := guidedremediation.VerifMakeResolved(npmManifest(d2, newR), ids(newV))
		p := guidedremediation.VerifConstructPatches(oldRes, newRes)
		q := fromResultPatch(p)
		var ups []string
		for _, u := range p.PackageUpdates {
			n, _ := strconv.Atoi(strings.TrimPrefix(u.Name, "pkg"))
			f := "-"
			if u.VersionFrom != "" {
				f = strings.TrimPrefix(u.VersionFrom, "1.0.")
			}
			a := 0
			if ka, ok := u.Type.GetAttr(dep.KnownAs); ok {
				a, _ = strconv.Atoi(strings.TrimPrefix(ka, "al"))
			}
			ups = append(ups, fmt.Sprintf("%d.%d:%s:%s", n, a, f, strings.TrimPrefix(u.VersionTo, "1.0.")))
		}
		sort.Strings(ups)
		slices.Sort(q.fixed)
		slices.Sort(q.intro)
		return "fixed=" + dots(q.fixed) + " intro=" + dots(q.intro) + " ups=" + hx.Join(ups, ",")
	})
}
