// c12gen: streams for C12 (a reported fix is a real fix).
//
//	cp <maxUpgrades> <noIntroduce> <vuln ids .> <patches ;>      patch = n.f.t+n.f.t/fixed ids ./introduced ids .
//	     → sel=<chosen patches, same encoding> un=<id:0|1 ,>          real choosePatches + computeVulnsResult
//	cd <old ids .> <new ids .> <old reqs k:v ,> <new reqs k:v ,>
//	     → fixed=<ids .> intro=<ids .> ups=<k:from:to ,>              real ConstructPatches on package.json manifests
//	e2e <n|m> <hex json of the universe, manifest, vulnerabilities, options>
//	     → r=ok orig= np= fixed= intro= after= unfix= reqsame= …      real FixVulns, re-read, second FixVulns
//
// ids, names and versions are small naturals on the cp / cd lines (V-007, pkg3, 1.0.<n>).
package main

import (
	"context"
	"encoding/hex"
	"encoding/json"
	"fmt"
	"math"
	"math/rand"
	"os"
	"path/filepath"
	"slices"
	"sort"
	"strconv"
	"strings"

	"deps.dev/util/resolve"
	"deps.dev/util/resolve/dep"
	scalibrfs "github.com/google/osv-scalibr/fs"
	"github.com/google/osv-scalibr/guidedremediation"
	"github.com/google/osv-scalibr/guidedremediation/options"
	"github.com/google/osv-scalibr/guidedremediation/result"
	"github.com/google/osv-scalibr/guidedremediation/upgrade"
	"github.com/ossf/osv-schema/bindings/go/osvschema"

	"verif/harness/hx"
	"verif/harness/remx"
)

var ctx = context.Background()
var scratch string

func must(err error) {
	if err != nil {
		panic(err)
	}
}

func ints(s string) []int {
	if s == "-" || s == "" {
		return nil
	}
	var out []int
	for _, x := range strings.Split(s, ".") {
		n, err := strconv.Atoi(x)
		must(err)
		out = append(out, n)
	}
	return out
}

func dots(xs []int) string {
	ys := make([]string, len(xs))
	for i, x := range xs {
		ys[i] = strconv.Itoa(x)
	}
	return hx.Join(ys, ".")
}

func vid(n int) string { return fmt.Sprintf("V-%03d", n) }
func vnum(id string) int {
	n, err := strconv.Atoi(strings.TrimPrefix(id, "V-"))
	must(err)
	return n
}

// ------------------------------------------------------------------------------------------------ cp

type upd struct{ n, f, t int }
type patch struct {
	ups          []upd
	fixed, intro []int
}

func encPatch(p patch) string {
	us := make([]string, len(p.ups))
	for i, u := range p.ups {
		us[i] = fmt.Sprintf("%d.%d.%d", u.n, u.f, u.t)
	}
	return hx.Join(us, "+") + "/" + dots(p.fixed) + "/" + dots(p.intro)
}

func decPatch(s string) patch {
	parts := strings.Split(s, "/")
	var p patch
	if parts[0] != "-" {
		for _, u := range strings.Split(parts[0], "+") {
			x := ints(u)
			p.ups = append(p.ups, upd{x[0], x[1], x[2]})
		}
	}
	p.fixed, p.intro = ints(parts[1]), ints(parts[2])
	return p
}

func toResultPatch(p patch) result.Patch {
	var r result.Patch
	for _, u := range p.ups {
		r.PackageUpdates = append(r.PackageUpdates, result.PackageUpdate{Name: fmt.Sprintf("pkg%d", u.n), VersionFrom: fmt.Sprintf("1.0.%d", u.f), VersionTo: fmt.Sprintf("1.0.%d", u.t), Type: dep.NewType()})
	}
	for _, v := range p.fixed {
		r.Fixed = append(r.Fixed, result.Vuln{ID: vid(v)})
	}
	for _, v := range p.intro {
		r.Introduced = append(r.Introduced, result.Vuln{ID: vid(v)})
	}
	return r
}

func fromResultPatch(r result.Patch) patch {
	var p patch
	for _, u := range r.PackageUpdates {
		n, _ := strconv.Atoi(strings.TrimPrefix(u.Name, "pkg"))
		f, _ := strconv.Atoi(strings.TrimPrefix(u.VersionFrom, "1.0."))
		t, _ := strconv.Atoi(strings.TrimPrefix(u.VersionTo, "1.0."))
		p.ups = append(p.ups, upd{n, f, t})
	}
	for _, v := range r.Fixed {
		p.fixed = append(p.fixed, vnum(v.ID))
	}
	for _, v := range r.Introduced {
		p.intro = append(p.intro, vnum(v.ID))
	}
	return p
}

func genCP(r *rand.Rand) (int, bool, []int, []patch) {
	n := r.Intn(7)
	var ps []patch
	for i := 0; i < n; i++ {
		var p patch
		for j := 1 + r.Intn(2); j > 0; j-- {
			p.ups = append(p.ups, upd{r.Intn(4), r.Intn(2), 5 + r.Intn(3)})
		}
		for j := 1 + r.Intn(2); j > 0; j-- {
			p.fixed = append(p.fixed, r.Intn(6))
		}
		if r.Intn(3) == 0 {
			p.intro = append(p.intro, 10+r.Intn(3))
		}
		ps = append(ps, p)
	}
	var vulns []int
	for v := 0; v < 8; v++ {
		if r.Intn(2) == 0 {
			vulns = append(vulns, v)
		}
	}
	r.Shuffle(len(vulns), func(i, j int) { vulns[i], vulns[j] = vulns[j], vulns[i] })
	return []int{-1, 0, 1, 1, 1, 2, 3}[r.Intn(7)], r.Intn(3) == 0, vulns, ps
}

// ------------------------------------------------------------------------------------------------ cd

// kv is one manifest entry: package k, alias a (0 = the package's own name, a > 0 = entry "al<a>": "npm:pkg<k>@…"), version v.
type kv struct{ k, a, v int }

func encReqs(rs []kv) string {
	xs := make([]string, len(rs))
	for i, r := range rs {
		xs[i] = fmt.Sprintf("%d.%d:%d", r.k, r.a, r.v)
	}
	return hx.Join(xs, ",")
}

func decReqs(s string) []kv {
	if s == "-" {
		return nil
	}
	var out []kv
	for _, e := range strings.Split(s, ",") {
		ka, b, _ := strings.Cut(e, ":")
		ks, as, _ := strings.Cut(ka, ".")
		k, _ := strconv.Atoi(ks)
		a, _ := strconv.Atoi(as)
		v, _ := strconv.Atoi(b)
		out = append(out, kv{k, a, v})
	}
	return out
}

func genCD(r *rand.Rand) ([]int, []int, []kv, []kv) {
	var oldV, newV []int
	for v := 0; v < 7; v++ {
		switch r.Intn(4) {
		case 0:
			oldV = append(oldV, v)
		case 1:
			newV = append(newV, v)
		case 2:
			oldV = append(oldV, v)
			newV = append(newV, v)
		}
	}
	r.Shuffle(len(oldV), func(i, j int) { oldV[i], oldV[j] = oldV[j], oldV[i] })
	r.Shuffle(len(newV), func(i, j int) { newV[i], newV[j] = newV[j], newV[i] })
	if len(newV) > 0 && r.Intn(20) == 0 { // an analysis that lists an id twice (never produced by FindVulnerabilities)
		newV = append(newV, newV[0])
	}
	var oldR, newR []kv
	for k := 0; k < 5; k++ {
		if r.Intn(3) == 0 {
			continue
		}
		v := r.Intn(3)
		oldR = append(oldR, kv{k, 0, v})
		nv := v
		if r.Intn(2) == 0 {
			nv = 3 + r.Intn(3)
		}
		newR = append(newR, kv{k, 0, nv})
		// the same package once or twice more through npm: aliases, at the identical or another range,
		// moved to the identical or another new range
		for a := 1; a <= 2 && r.Intn(3) == 0; a++ {
			av, anv := v, nv
			if r.Intn(3) == 0 {
				av = r.Intn(3)
			}
			if r.Intn(3) == 0 {
				anv = []int{av, 3 + r.Intn(3)}[r.Intn(2)]
			}
			oldR = append(oldR, kv{k, 10*k + a, av})
			newR = append(newR, kv{k, 10*k + a, anv})
		}
	}
	if r.Intn(6) == 0 { // a requirement only the new manifest has
		newR = append(newR, kv{9, 0, 1})
	}
	return oldV, newV, oldR, newR
}

// ------------------------------------------------------------------------------------------------ e2e

type rootDep struct {
	Name  string
	Req   string
	Dev   bool
	Alias string // npm only: the entry is "Alias": "npm:Name@Req"
	Opt   bool   `json:",omitempty"` // npm only: the entry sits in optionalDependencies
	Prop  string `json:",omitempty"` // Maven only: <version>${Prop}</version>, the pom defining <Prop>Req</Prop>
	Level int    `json:",omitempty"` // Maven only: the pom that declares the entry, 0 = the manifest itself, k = its k-th local parent
	Mgmt  bool   `json:",omitempty"` // Maven only: the entry sits in <dependencyManagement> (single-file manifests)
}
type workPkg struct {
	Name string
	Deps [][2]string
}
type e2eCase struct {
	Eco         string // "n" npm / relax, "m" Maven / override
	Root        []rootDep
	Pkgs        []remx.Pkg
	Vulns       []remx.VulnSpec
	Table       []string // version table the vulnerability ranks refer to
	MaxUpgrades int
	NoIntroduce bool
	Ignore      []string
	Explicit    []string
	DevDeps     bool
	MaxDepth    int
	Levels      map[string]int
	// Maven only: the manifest is the last module of a multi-module layout top/[mid/]app with Parents local parent poms (0 = single
	// file).  OmitIDs[k]: the k-th pom (0 = the manifest) leaves out <groupId>/<version> and inherits them from its own parent;
	// ExplicitRP[k]: it spells <relativePath>../pom.xml</relativePath> out instead of relying on the default.
	// npm only: workspace packages ws/<dir>/package.json of the root (which lists "workspaces": ["ws/*"]); each has requirements of
	// its own.  They are resolved as part of the root's graph (local manifests are made known to the resolver); the root file is the
	// only one the strategy may rewrite.
	Work        []workPkg `json:",omitempty"`
	MinSeverity float64 `json:",omitempty"`
	ProfileMgmt bool    `json:",omitempty"` // Maven, single file: an inactive profile with a <dependencyManagement> of its own
	MavenMgmt   bool    `json:",omitempty"` // ResolutionOptions.MavenManagement: dependencyManagement entries that nothing requires count as dependencies
	Parents    int    `json:",omitempty"`
	OmitIDs    []bool `json:",omitempty"`
	ExplicitRP []bool `json:",omitempty"`
}

func (c e2eCase) line() string {
	b, err := json.Marshal(c)
	must(err)
	return "e2e " + c.Eco + " " + hex.EncodeToString(b)
}

func parseE2E(t []string) e2eCase {
	b, err := hex.DecodeString(t[2])
	must(err)
	var c e2eCase
	must(json.Unmarshal(b, &c))
	return c
}

func writeRoot(c e2eCase, dir string) string {
	if c.Eco == "n" {
		var deps, dev, opt []string
		for _, d := range c.Root {
			e := fmt.Sprintf("    %q: %q", d.Name, d.Req)
			if d.Alias != "" {
				e = fmt.Sprintf("    %q: %q", d.Alias, "npm:"+d.Name+"@"+d.Req)
			}
			if d.Opt {
				opt = append(opt, e)
			} else if d.Dev {
				dev = append(dev, e)
			} else {
				deps = append(deps, e)
			}
		}
		ws := ""
		for i, w := range c.Work {
			ws = "  \"workspaces\": [\"ws/*\"],\n"
			var wd []string
			for _, e := range w.Deps {
				wd = append(wd, fmt.Sprintf("    %q: %q", e[0], e[1]))
			}
			wdir := filepath.Join(dir, "ws", fmt.Sprintf("w%d", i))
			must(os.MkdirAll(wdir, 0o755))
			must(os.WriteFile(filepath.Join(wdir, "package.json"), []byte(fmt.Sprintf("{\n  \"name\": %q,\n  \"version\": \"1.0.0\",\n  \"dependencies\": {\n%s\n  }\n}\n", w.Name, strings.Join(wd, ",\n"))), 0o644))
		}
		s := "{\n  \"name\": \"root\",\n  \"version\": \"1.0.0\",\n" + ws + "  \"dependencies\": {\n" + strings.Join(deps, ",\n") + "\n  },\n  \"optionalDependencies\": {\n" + strings.Join(opt, ",\n") +
			"\n  },\n  \"devDependencies\": {\n" + strings.Join(dev, ",\n") + "\n  }\n}\n"
		p := filepath.Join(dir, "package.json")
		must(os.WriteFile(p, []byte(s), 0o644))
		return p
	}
	if c.Parents > 0 {
		return writeChain(c, dir)
	}
	var sb strings.Builder
	sb.WriteString("<project>\n  <modelVersion>4.0.0</modelVersion>\n  <groupId>root.g</groupId>\n  <artifactId>root-a</artifactId>\n  <version>1.0</version>\n")
	var props []string
	for _, d := range c.Root {
		if d.Prop != "" {
			props = append(props, "    <"+d.Prop+">"+d.Req+"</"+d.Prop+">\n")
		}
	}
	if len(props) > 0 {
		sb.WriteString("  <properties>\n" + strings.Join(props, "") + "  </properties>\n")
	}
	anyMgmt := false
	for _, d := range c.Root {
		if d.Mgmt {
			if !anyMgmt {
				sb.WriteString("  <dependencyManagement>\n    <dependencies>\n")
				anyMgmt = true
			}
			g, a, _ := strings.Cut(d.Name, ":")
			sb.WriteString("      <dependency>\n        <groupId>" + g + "</groupId>\n        <artifactId>" + a + "</artifactId>\n        <version>" + d.Req + "</version>\n      </dependency>\n")
		}
	}
	if anyMgmt {
		sb.WriteString("    </dependencies>\n  </dependencyManagement>\n")
	}
	sb.WriteString("  <dependencies>\n")
	for _, d := range c.Root {
		if d.Mgmt {
			continue
		}
		g, a, _ := strings.Cut(d.Name, ":")
		ver := d.Req
		if d.Prop != "" {
			ver = "${" + d.Prop + "}"
		}
		sb.WriteString("    <dependency>\n      <groupId>" + g + "</groupId>\n      <artifactId>" + a + "</artifactId>\n      <version>" + ver + "</version>\n")
		if d.Dev {
			sb.WriteString("      <scope>test</scope>\n")
		}
		sb.WriteString("    </dependency>\n")
	}
	sb.WriteString("  </dependencies>\n")
	if c.ProfileMgmt {
		// an inactive profile with a dependencyManagement section of its own (the project may have none): an override of a transitive
		// dependency still has to be added at PROJECT level
		sb.WriteString("  <profiles>\n    <profile>\n      <id>extra</id>\n      <dependencyManagement>\n        <dependencies>\n          <dependency>\n            <groupId>unrelated.g</groupId>\n            <artifactId>unrelated</artifactId>\n            <version>1.0.0</version>\n          </dependency>\n        </dependencies>\n      </dependencyManagement>\n    </profile>\n  </profiles>\n")
	}
	sb.WriteString("</project>\n")
	p := filepath.Join(dir, "pom.xml")
	must(os.WriteFile(p, []byte(sb.String()), 0o644))
	return p
}

// writeChain lays out top/[mid/]app: level Parents is the top parent in dir itself, every level below in a sub-directory of the one
// above; the manifest is level 0.  Each pom declares the Root entries of its level in <dependencies> with explicit versions.
func writeChain(c e2eCase, dir string) string {
	at := func(level int) string {
		p := dir
		for l := c.Parents - 1; l >= level; l-- {
			p = filepath.Join(p, fmt.Sprintf("m%d", l))
		}
		return p
	}
	flag := func(bs []bool, i int) bool { return i < len(bs) && bs[i] }
	for level := c.Parents; level >= 0; level-- {
		var sb strings.Builder
		w := func(s string) { sb.WriteString(s + "\n") }
		w("<project>")
		w("  <modelVersion>4.0.0</modelVersion>")
		if level < c.Parents {
			w("  <parent>\n    <groupId>chain.g</groupId>")
			w(fmt.Sprintf("    <artifactId>level%d</artifactId>\n    <version>7.0</version>", level+1))
			if flag(c.ExplicitRP, level) {
				w("    <relativePath>../pom.xml</relativePath>")
			}
			w("  </parent>")
		}
		omit := level < c.Parents && flag(c.OmitIDs, level)
		if !omit {
			w("  <groupId>chain.g</groupId>")
		}
		w(fmt.Sprintf("  <artifactId>level%d</artifactId>", level))
		if !omit {
			w("  <version>7.0</version>")
		}
		if level > 0 {
			w("  <packaging>pom</packaging>")
		}
		var props []string
		for _, d := range c.Root {
			if d.Level == level && d.Prop != "" {
				props = append(props, "    <"+d.Prop+">"+d.Req+"</"+d.Prop+">")
			}
		}
		if len(props) > 0 {
			w("  <properties>\n" + strings.Join(props, "\n") + "\n  </properties>")
		}
		any := false
		for _, d := range c.Root {
			if d.Level != level {
				continue
			}
			if !any {
				w("  <dependencies>")
				any = true
			}
			g, a, _ := strings.Cut(d.Name, ":")
			ver := d.Req
			if d.Prop != "" {
				ver = "${" + d.Prop + "}"
			}
			w("    <dependency>\n      <groupId>" + g + "</groupId>\n      <artifactId>" + a + "</artifactId>\n      <version>" + ver + "</version>")
			if d.Dev {
				w("      <scope>test</scope>")
			}
			w("    </dependency>")
		}
		if any {
			w("  </dependencies>")
		}
		w("</project>")
		must(os.MkdirAll(at(level), 0o755))
		must(os.WriteFile(filepath.Join(at(level), "pom.xml"), []byte(sb.String()), 0o644))
	}
	return filepath.Join(at(0), "pom.xml")
}

// entry is one manifest entry as Read reports it: package name, what else identifies the entry (npm: the
// alias; Maven: origin|type|classifier), and the requirement.
type entry struct{ name, disc, ver string }

func typeDisc(c e2eCase, t dep.Type) string {
	if c.Eco == "n" {
		ka, _ := t.GetAttr(dep.KnownAs)
		return ka
	}
	o, _ := t.GetAttr(dep.MavenDependencyOrigin)
	ty, _ := t.GetAttr(dep.MavenArtifactType)
	cl, _ := t.GetAttr(dep.MavenClassifier)
	return o + "|" + ty + "|" + cl
}

func readReqs(c e2eCase, path string) ([]entry, error) {
	var rw guidedremediation.VerifReadWriter
	var err error
	if c.Eco == "n" {
		rw, err = guidedremediation.VerifNpmReadWriter()
	} else {
		rw, err = guidedremediation.VerifMavenReadWriter("http://127.0.0.1:1/")
	}
	must(err)
	// from the file system root, as FixVulns opens a manifest: a local parent lies outside the manifest's own directory
	abs, err := filepath.Abs(path)
	must(err)
	m, err := rw.Read(strings.TrimPrefix(filepath.ToSlash(abs), "/"), scalibrfs.DirFS("/"))
	if err != nil {
		return nil, err
	}
	var xs []entry
	for _, r := range m.Requirements() {
		xs = append(xs, entry{r.Name, typeDisc(c, r.Type), r.Version})
	}
	sort.Slice(xs, func(i, j int) bool {
		return xs[i].name+"\x00"+xs[i].disc+"\x00"+xs[i].ver < xs[j].name+"\x00"+xs[j].disc+"\x00"+xs[j].ver
	})
	return xs, nil
}

// numbering maps the strings of one case to small naturals for the driver (0 = "no alias").
type numbering struct {
	names, discs, vers map[string]int
}

func (n *numbering) id(m map[string]int, s string, zeroEmpty bool) int {
	if zeroEmpty && (s == "" || s == "||") {
		return 0
	}
	if v, ok := m[s]; ok {
		return v
	}
	m[s] = len(m) + 1
	return m[s]
}

func (n *numbering) entries(xs []entry) string {
	out := make([]string, len(xs))
	for i, e := range xs {
		out[i] = fmt.Sprintf("%d.%d:%d", n.id(n.names, e.name, false), n.id(n.discs, e.disc, true), n.id(n.vers, e.ver, false))
	}
	return hx.Join(out, ",")
}

func idNums(vs []result.Vuln) []int {
	var out []int
	for _, v := range vs {
		out = append(out, vnum(v.ID))
	}
	slices.Sort(out)
	return out
}

func runE2E(c e2eCase) string {
	return hx.Guard(func() string {
		sys := resolve.NPM
		eco := "npm"
		if c.Eco == "m" {
			sys, eco = resolve.Maven, "Maven"
		}
		cl, err := remx.Client(c.Pkgs, sys)
		must(err)
		var osvs []*osvschema.Vulnerability
		for _, v := range c.Vulns {
			o := v.OSV(eco, c.Table)
			o.Aliases = []string{"ALIAS-" + strings.TrimPrefix(v.ID, "V-")} // ignore lists may name a vulnerability by alias
			o.Aliases = append(o.Aliases, v.AliasOf...)
			osvs = append(osvs, o)
		}
		dir, err := os.MkdirTemp(scratch, "e")
		must(err)
		defer os.RemoveAll(dir)
		path := writeRoot(c, dir)
		before, err := readReqs(c, path)
		if err != nil {
			return "r=readerr"
		}
		want := e2eWant(c, path, cl, osvs)
		mkOpts := func() options.FixVulnsOptions {
			cfg := remx.ConfigFor(c.line(), c.Levels)
			return options.FixVulnsOptions{
				Manifest: path, MaxUpgrades: c.MaxUpgrades, NoIntroduce: c.NoIntroduce, MatcherClient: remx.Matcher(osvs), ResolveClient: cl,
				DefaultRepository: "http://127.0.0.1:1/",
				RemediationOptions: options.RemediationOptions{IgnoreVulns: slices.Clone(c.Ignore), ExplicitVulns: slices.Clone(c.Explicit), DevDeps: c.DevDeps,
					MaxDepth: c.MaxDepth, MinSeverity: c.MinSeverity, UpgradeConfig: cfg, ResolutionOptions: options.ResolutionOptions{MavenManagement: c.MavenMgmt}},
			}
		}
		// every run gets options built afresh from the case; after the first run the struct handed in is compared with a
		// pristine copy (FixVulns receives the struct by value, so only writes into the shared backing arrays can show)
		opts1 := mkOpts()
		res1, err := guidedremediation.FixVulns(opts1)
		mutated := !slices.Equal(opts1.IgnoreVulns, c.Ignore) || !slices.Equal(opts1.ExplicitVulns, c.Explicit)
		if err != nil {
			return "r=err1"
		}
		after1, err := readReqs(c, path)
		if err != nil {
			return "r=ok-rereaderr"
		}
		res2, err := guidedremediation.FixVulns(mkOpts())
		if err != nil {
			return "r=err2"
		}
		var fixed, intro, unfix []int
		nups := 0
		for i, p := range res1.Patches {
			if i == 0 {
				fixed, intro = idNums(p.Fixed), idNums(p.Introduced)
			}
			nups += len(p.PackageUpdates)
			for _, f := range p.Fixed {
				for _, v := range res1.Vulnerabilities {
					if v.ID == f.ID && v.Unactionable {
						unfix = append(unfix, vnum(f.ID))
					}
				}
			}
		}
		var expl []int
		for _, e := range c.Explicit {
			expl = append(expl, vnum(e))
		}
		nb := &numbering{map[string]int{}, map[string]int{}, map[string]int{}}
		rb, ra := nb.entries(before), nb.entries(after1)
		var ru []string
		for _, p := range res1.Patches {
			for _, u := range p.PackageUpdates {
				f := "-"
				if u.VersionFrom != "" {
					f = strconv.Itoa(nb.id(nb.vers, u.VersionFrom, false))
				}
				ru = append(ru, fmt.Sprintf("%d.%d:%s:%d", nb.id(nb.names, u.Name, false), nb.id(nb.discs, typeDisc(c, u.Type), true), f, nb.id(nb.vers, u.VersionTo, false)))
			}
		}
		return fmt.Sprintf("r=ok want=%s mut=%s k=%d explicit=%s orig=%s np=%d fixed=%s intro=%s after=%s unfix=%s reqsame=%s ups=%d rb=%s ra=%s ru=%s", want, hx.B(mutated), c.MaxUpgrades, dots(expl), dots(idNums(res1.Vulnerabilities)), len(res1.Patches),
			dots(fixed), dots(intro), dots(idNums(res2.Vulnerabilities)), dots(unfix), hx.B(slices.Equal(before, after1)), nups, rb, ra, hx.Join(ru, ","))
	})
}

// e2eWant recomputes, independently of remediation.MatchVuln / FindVulnerabilities' bookkeeping, which vulnerabilities the options of
// the case select in the ORIGINAL manifest.  Only the resolved graph (deps.dev resolver, neutral options) and the affected-version
// predicate are taken from elsewhere; presence, depth, dev-only and severity are worked out here from the graph and the case:
//   selected(v) = some node other than the root is affected by v
//               ∧ (no explicit list ∨ v's id is on it) ∧ neither v's id nor one of its aliases is on the ignore list
//               ∧ (DevDeps ∨ some affected node is reachable through a direct dependency that is not dev / test scoped)
//               ∧ (v has no CVSS severity that scores ∨ its highest score, to one decimal, ≥ MinSeverity to one decimal)
//               ∧ (MaxDepth ≤ 0 ∨ some affected node is within MaxDepth edges of the root)
func e2eWant(c e2eCase, path string, cl resolve.Client, osvs []*osvschema.Vulnerability) string {
	var rw guidedremediation.VerifReadWriter
	var err error
	sys := resolve.NPM
	if c.Eco == "n" {
		rw, err = guidedremediation.VerifNpmReadWriter()
	} else {
		sys = resolve.Maven
		rw, err = guidedremediation.VerifMavenReadWriter("http://127.0.0.1:1/")
	}
	must(err)
	abs, err := filepath.Abs(path)
	must(err)
	m, err := rw.Read(strings.TrimPrefix(filepath.ToSlash(abs), "/"), scalibrfs.DirFS("/"))
	if err != nil {
		return "?"
	}
	neutral := options.RemediationOptions{DevDeps: true, MaxDepth: -1, UpgradeConfig: upgrade.NewConfig()}
	resolved, err := guidedremediation.VerifResolveManifest(context.Background(), cl, remx.Matcher(nil), m, &neutral)
	if err != nil {
		return "?"
	}
	g := resolved.Graph
	// shortest distance from the root, and for every node the set of direct dependencies (edges out of the root) it is reachable through
	dist := map[resolve.NodeID]int{0: 0}
	queue := []resolve.NodeID{0}
	for len(queue) > 0 {
		n := queue[0]
		queue = queue[1:]
		for _, e := range g.Edges {
			if e.From == n {
				if _, ok := dist[e.To]; !ok {
					dist[e.To] = dist[n] + 1
					queue = append(queue, e.To)
				}
			}
		}
	}
	nonDevReach := map[resolve.NodeID]bool{} // reachable through a direct dependency that is not dev / test
	for _, e := range g.Edges {
		if e.From != 0 {
			continue
		}
		ka, _ := e.Type.GetAttr(dep.KnownAs)
		name := g.Nodes[e.To].Version.Name
		dev := false
		for _, rd := range c.Root {
			if rd.Name == name && rd.Alias == ka && rd.Dev {
				dev = true
			}
		}
		if dev {
			continue
		}
		seen := map[resolve.NodeID]bool{e.To: true}
		st := []resolve.NodeID{e.To}
		for len(st) > 0 {
			n := st[len(st)-1]
			st = st[:len(st)-1]
			nonDevReach[n] = true
			for _, e2 := range g.Edges {
				if e2.From == n && !seen[e2.To] {
					seen[e2.To] = true
					st = append(st, e2.To)
				}
			}
		}
	}
	// MavenManagement: a dependencyManagement entry of the manifest whose package nothing in the graph requires counts as a direct,
	// non-test dependency at its managed version (worked out here, the neutral resolution above runs without the option)
	managed := map[string]string{}
	if c.MavenMgmt {
		for _, rd := range c.Root {
			inGraph := false
			for id, n := range g.Nodes {
				inGraph = inGraph || (id != 0 && n.Version.Name == rd.Name)
			}
			if rd.Mgmt && !inGraph {
				for _, p := range c.Pkgs {
					if p.Name != rd.Name {
						continue
					}
					if slices.Contains(p.Versions, rd.Req) {
						managed[rd.Name] = rd.Req
					} else if lo, ok := strings.CutPrefix(rd.Req, "["); ok && strings.HasSuffix(lo, ",)") {
						// a range [lo,): the newest known version at or above lo, if there is one (otherwise a resolve error, no node)
						lo = strings.TrimSuffix(lo, ",)")
						if i := slices.Index(c.Table, lo); i >= 0 {
							for _, v := range c.Table[i:] {
								if slices.Contains(p.Versions, v) {
									managed[rd.Name] = v
								}
							}
						}
					}
				}
			}
		}
	}
	var out []int
	for i, v := range c.Vulns {
		o := osvs[i]
		present, nonDev, near := false, false, false
		for _, pk := range []string{v.Pkg, v.Also} {
			if ver, ok := managed[pk]; ok && pk != "" && remx.Affects(o, sys, pk, ver) {
				present, nonDev, near = true, true, 1 <= c.MaxDepth
			}
		}
		for id, n := range g.Nodes {
			if id == 0 || (n.Version.Name != v.Pkg && n.Version.Name != v.Also) || !remx.Affects(o, sys, n.Version.Name, n.Version.Version) {
				continue
			}
			present = true
			nonDev = nonDev || nonDevReach[resolve.NodeID(id)]
			if d, ok := dist[resolve.NodeID(id)]; ok && d <= c.MaxDepth {
				near = true
			}
		}
		if !present {
			continue
		}
		if len(c.Explicit) > 0 && !slices.Contains(c.Explicit, v.ID) {
			continue
		}
		if slices.Contains(c.Ignore, v.ID) || slices.ContainsFunc(o.Aliases, func(a string) bool { return slices.Contains(c.Ignore, a) }) {
			continue
		}
		if !c.DevDeps && !nonDev {
			continue
		}
		best := -1
		for _, si := range v.Sev {
			if t := remx.SevTenths[si]; t >= 0 && t > best {
				best = t
			}
		}
		if best >= 0 && best < int(math.Round(10*c.MinSeverity)) {
			continue
		}
		if c.MaxDepth > 0 && !near {
			continue
		}
		out = append(out, vnum(v.ID))
	}
	slices.Sort(out)
	return dots(out)
}

var e2eNpmVers = []string{"1.0.0", "1.0.1", "1.1.0", "2.0.0", "2.1.0", "3.0.0"}
var e2eMvnVers = []string{"1.0.0", "1.0.1", "1.1.0", "2.0.0", "2.1.0", "3.0.0"}

func subset(r *rand.Rand, pool []string, atLeast int) []string {
	var out []string
	for _, v := range pool {
		if r.Intn(3) != 0 {
			out = append(out, v)
		}
	}
	for len(out) < atLeast {
		out = []string{pool[0], pool[len(pool)-1]}
	}
	return out
}

// genE2ESideEffect: a package the configuration forbids to touch (level None) sits below a package that may be patched;
// the patch of the upper package brings a newer version of the pinned one and so fixes ITS vulnerability as a side effect.
// MaxUpgrades = 1.  (Maven/override: both vulnerabilities in one record or in two; npm/relax: the direct requirement is relaxed.)
func genE2ESideEffect(r *rand.Rand) e2eCase {
	c := e2eCase{Eco: "n", Table: e2eNpmVers, MaxUpgrades: 1, NoIntroduce: false, DevDeps: true, MaxDepth: -1, Levels: map[string]int{}}
	top, tee := "alpha", "tee"
	if r.Intn(2) == 0 {
		c.Eco, c.Table = "m", e2eMvnVers
		top, tee = "g:alpha", "g:tee"
	}
	req := func(v string) string {
		if c.Eco == "m" {
			return v
		}
		return []string{v, "^" + v, "~" + v}[r.Intn(3)]
	}
	n := len(c.Table)
	k := 1 + r.Intn(n-2) // first top version that brings the fixed tee
	j := 1 + r.Intn(n-1) // tee version brought from there on
	p := remx.Pkg{Name: top, Versions: c.Table, Deps: map[string][]string{}}
	for i, v := range c.Table {
		t := c.Table[0]
		if i >= k {
			t = c.Table[j]
		}
		if c.Eco == "m" {
			p.Deps[v] = []string{tee + "@" + t}
		} else {
			p.Deps[v] = []string{tee + "@" + []string{t, "~" + t}[r.Intn(2)]}
		}
	}
	c.Pkgs = []remx.Pkg{{Name: tee, Versions: c.Table}, p}
	c.Root = []rootDep{{Name: top, Req: req(c.Table[0])}}
	if c.Eco == "m" || r.Intn(2) == 0 {
		// one record over both packages (Maven override only touches packages that are vulnerable themselves)
		c.Vulns = []remx.VulnSpec{{ID: vid(1), Pkg: top, Introduced: -1, Fixed: k, Last: -1}, {ID: vid(2), Pkg: tee, Introduced: -1, Fixed: j, Last: -1}}
	} else {
		c.Vulns = []remx.VulnSpec{{ID: vid(2), Pkg: tee, Introduced: -1, Fixed: j, Last: -1}}
	}
	c.Levels[tee] = 3 // None: the transitive package must not be touched
	if r.Intn(3) == 0 {
		c.Levels[top] = r.Intn(2)
	}
	return c
}

// genE2EIgnoreIntroduced: fixing V-001 necessarily brings in V-002 (and sometimes V-003 on a package only the newer version
// pulls in); the ignore list names those later vulnerabilities — absent from the ORIGINAL graph — by id or by alias, alone or
// mixed with present ones, with and without NoIntroduce.
func genE2EIgnoreIntroduced(r *rand.Rand) e2eCase {
	c := e2eCase{Eco: "n", Table: e2eNpmVers, MaxUpgrades: []int{1, 1, 0}[r.Intn(3)], NoIntroduce: r.Intn(3) == 0, DevDeps: true, MaxDepth: -1, Levels: map[string]int{}}
	top, extra := "alpha", "tee"
	if r.Intn(2) == 0 {
		c.Eco, c.Table = "m", e2eMvnVers
		top, extra = "g:alpha", "g:tee"
	}
	n := len(c.Table)
	k := 1 + r.Intn(n-2)
	p := remx.Pkg{Name: top, Versions: c.Table, Deps: map[string][]string{}}
	for i, v := range c.Table {
		if i >= k && r.Intn(2) == 0 {
			p.Deps[v] = []string{extra + "@" + c.Table[0]}
		}
	}
	c.Pkgs = []remx.Pkg{{Name: extra, Versions: c.Table[:1]}, p}
	reqv := c.Table[0]
	if c.Eco == "n" {
		reqv = []string{reqv, "~" + reqv, "^" + reqv}[r.Intn(3)]
	}
	c.Root = []rootDep{{Name: top, Req: reqv}}
	c.Vulns = []remx.VulnSpec{
		{ID: vid(1), Pkg: top, Introduced: -1, Fixed: k, Last: -1},
		{ID: vid(2), Pkg: top, Introduced: k, Fixed: -1, Last: -1},
		{ID: vid(3), Pkg: extra, Introduced: -1, Fixed: -1, Last: -1},
	}
	name := func(i int) string {
		if r.Intn(2) == 0 {
			return fmt.Sprintf("ALIAS-%03d", i)
		}
		return vid(i)
	}
	switch r.Intn(4) {
	case 0:
		c.Ignore = []string{name(2)}
	case 1:
		c.Ignore = []string{name(3)}
	case 2:
		c.Ignore = []string{name(2), name(3)}
	default:
		c.Ignore = []string{name(3), "V-999", name(2)} // and one that matches nothing
	}
	return c
}

// genE2EVersionProperty: Maven/override on direct dependencies whose <version> is a property the pom itself defines
// (<alpha.version>1.0.0</alpha.version> … <version>${alpha.version}</version>), the usual way versions are managed.  The packages have
// no dependencies of their own, so every update of the case is a DIRECT one and — unless a literal entry is mixed in — the only thing
// the writer has to change in the file is the value of a property: the patch must still reach the file on disk (a fresh analysis of
// the written manifest finds the fixed vulnerabilities gone).
func genE2EVersionProperty(r *rand.Rand) e2eCase {
	c := e2eCase{Eco: "m", Table: e2eMvnVers, MaxUpgrades: []int{0, 1, 2}[r.Intn(3)], NoIntroduce: r.Intn(4) == 0, DevDeps: true, MaxDepth: -1, Levels: map[string]int{}}
	names := []string{"g:alpha", "org.x:dot.ted", "g:beta"}
	props := []string{"alpha.version", "dotted", "version.beta"}
	n := 1 + r.Intn(3)
	literal := -1
	if n > 1 && r.Intn(4) == 0 {
		literal = r.Intn(n) // one entry with a literal version next to the property ones
	}
	nv := 0
	for i := 0; i < n; i++ {
		c.Pkgs = append(c.Pkgs, remx.Pkg{Name: names[i], Versions: c.Table})
		at := r.Intn(3)
		d := rootDep{Name: names[i], Req: c.Table[at]}
		if i != literal {
			d.Prop = props[i]
		}
		c.Root = append(c.Root, d)
		if r.Intn(4) != 0 || (i == n-1 && nv == 0) {
			nv++
			fixed := at + 1 + r.Intn(len(c.Table)-at-1)
			c.Vulns = append(c.Vulns, remx.VulnSpec{ID: vid(nv), Pkg: names[i], Introduced: -1, Fixed: fixed, Last: -1})
			if r.Intn(3) == 0 && fixed+1 < len(c.Table) { // a second link: the first fix lands in another vulnerable range
				nv++
				c.Vulns = append(c.Vulns, remx.VulnSpec{ID: vid(nv), Pkg: names[i], Introduced: fixed, Fixed: fixed + 1, Last: -1})
			}
		}
	}
	if r.Intn(5) == 0 {
		c.Levels[names[r.Intn(n)]] = 1 + r.Intn(3)
	}
	return c
}

// genE2EParentChain: Maven/override on a multi-module layout: the manifest (app) has one or two local parent poms; dependency-free
// direct packages are declared, with explicit versions, at any level — a vulnerable one usually in a PARENT's <dependencies>.  A pom below
// the top may leave out its own <groupId>/<version> (inherited), <relativePath> may be left to its default.  The fix has to be written
// into the parent file: a fresh analysis of the written layout finds the fixed vulnerabilities gone.
func genE2EParentChain(r *rand.Rand) e2eCase {
	c := e2eCase{Eco: "m", Table: e2eMvnVers, MaxUpgrades: []int{1, 1, 0, 2}[r.Intn(4)], NoIntroduce: r.Intn(4) == 0, DevDeps: true, MaxDepth: -1, Levels: map[string]int{},
		Parents: 1 + r.Intn(2)}
	for l := 0; l <= c.Parents; l++ {
		c.OmitIDs = append(c.OmitIDs, r.Intn(2) == 0)
		c.ExplicitRP = append(c.ExplicitRP, r.Intn(2) == 0)
	}
	names := []string{"g:alpha", "org.x:dot.ted", "g:beta"}
	n := 1 + r.Intn(3)
	nv := 0
	for i := 0; i < n; i++ {
		c.Pkgs = append(c.Pkgs, remx.Pkg{Name: names[i], Versions: c.Table})
		at := r.Intn(3)
		d := rootDep{Name: names[i], Req: c.Table[at], Level: r.Intn(c.Parents + 1)}
		vulnerable := r.Intn(4) != 0 || (i == n-1 && nv == 0)
		if vulnerable && r.Intn(3) != 0 {
			d.Level = 1 + r.Intn(c.Parents) // in a parent
		}
		if r.Intn(6) == 0 {
			d.Prop = fmt.Sprintf("dep%d.version", i+1) // defined in the pom that declares the entry
		}
		c.Root = append(c.Root, d)
		if vulnerable {
			nv++
			c.Vulns = append(c.Vulns, remx.VulnSpec{ID: vid(nv), Pkg: names[i], Introduced: -1, Fixed: at + 1 + r.Intn(len(c.Table)-at-1), Last: -1})
		}
	}
	return c
}

// genE2EFilterExposed: a vulnerability the options HIDE in the original graph (dev-only with DevDeps off, or deeper than MaxDepth)
// that the patch of another package EXPOSES (the patched version reaches the vulnerable package through a production dependency,
// or one edge closer).  It is not among the reported vulnerabilities, so the patch must list it as introduced: a fresh analysis of
// the written manifest with the same options finds it.
func genE2EFilterExposed(r *rand.Rand) e2eCase {
	c := e2eCase{Eco: "n", Table: e2eNpmVers, MaxUpgrades: []int{1, 0}[r.Intn(2)], NoIntroduce: false, DevDeps: true, MaxDepth: -1, Levels: map[string]int{}}
	top, mid, deep, tool := "top", "mid", "deep", "devtool"
	if r.Intn(2) == 0 {
		c.Eco, c.Table = "m", e2eMvnVers
		top, mid, deep, tool = "g:top", "g:mid", "g:deep", "g:devtool"
	}
	req := func(v string) string {
		if c.Eco == "m" {
			return v
		}
		return "^" + v
	}
	v1, v2 := c.Table[0], c.Table[3] // 1.0.0 and 2.0.0
	c.Pkgs = []remx.Pkg{{Name: deep, Versions: []string{v1}}}
	c.Vulns = []remx.VulnSpec{
		{ID: vid(1), Pkg: top, Introduced: -1, Fixed: 3, Last: -1},  // top < 2.0.0: what the patch is for
		{ID: vid(2), Pkg: deep, Introduced: -1, Fixed: -1, Last: -1}, // deep: never fixed, hidden at first
	}
	if r.Intn(2) == 0 {
		// dev-only: deep comes through a dev dependency only, until top 2.0.0 requires it as well
		c.DevDeps = false
		c.Pkgs = append(c.Pkgs,
			remx.Pkg{Name: top, Versions: []string{v1, v2}, Deps: map[string][]string{v2: {deep + "@" + req(v1)}}},
			remx.Pkg{Name: tool, Versions: []string{v1}, Deps: map[string][]string{v1: {deep + "@" + req(v1)}}})
		c.Root = []rootDep{{Name: top, Req: req(v1)}, {Name: tool, Req: req(v1), Dev: true}}
	} else {
		// too deep: top 1.0.0 -> mid -> deep is three edges, top 2.0.0 -> deep two; MaxDepth 2
		c.MaxDepth = 2
		c.Pkgs = append(c.Pkgs,
			remx.Pkg{Name: mid, Versions: []string{v1}, Deps: map[string][]string{v1: {deep + "@" + req(v1)}}},
			remx.Pkg{Name: top, Versions: []string{v1, v2}, Deps: map[string][]string{v1: {mid + "@" + req(v1)}, v2: {deep + "@" + req(v1)}}})
		c.Root = []rootDep{{Name: top, Req: req(v1)}}
	}
	return c
}

// genE2EAliasLinked: records that name each other as aliases but affect DIFFERENT version ranges (the same flaw published under two
// ids with different ranges, or a regression filed as an alias of the old advisory): record A affects lib below some version, record
// B — aliases [A] — affects lib from there on.  The patch that fixes A brings in B: A is fixed, B is introduced; an alias is a name
// for the ignore list, not an identity between findings.  Variants: the alias on A instead of B, on both, a chain A <- B <- C,
// an alias nothing has, the library direct or one edge down, a third record that really stays.
func genE2EAliasLinked(r *rand.Rand) e2eCase {
	c := e2eCase{Eco: "n", Table: e2eNpmVers, MaxUpgrades: []int{1, 0, 2}[r.Intn(3)], NoIntroduce: false, DevDeps: true, MaxDepth: -1, Levels: map[string]int{}}
	lib, top := "lib", "top"
	if r.Intn(2) == 0 {
		c.Eco, c.Table = "m", e2eMvnVers
		lib, top = "g:lib", "g:top"
	}
	req := func(v string) string {
		if c.Eco == "m" {
			return v
		}
		return "^" + v
	}
	n := len(c.Table)
	cut := 2 + r.Intn(2) // A: lib below Table[cut]; B: from Table[cut] on
	c.Pkgs = []remx.Pkg{{Name: lib, Versions: c.Table}}
	if r.Intn(2) == 0 {
		c.Root = []rootDep{{Name: lib, Req: req(c.Table[0])}}
	} else { // one edge down: every top version requires lib at its own version
		p := remx.Pkg{Name: top, Versions: c.Table, Deps: map[string][]string{}}
		for _, v := range c.Table {
			p.Deps[v] = []string{lib + "@" + req(v)}
		}
		c.Pkgs = append(c.Pkgs, p)
		c.Root = []rootDep{{Name: top, Req: req(c.Table[0])}}
		if c.Eco == "m" && r.Intn(2) == 0 {
			c.Root = append(c.Root, rootDep{Name: lib, Req: c.Table[0]})
		}
	}
	a := remx.VulnSpec{ID: vid(1), Pkg: lib, Introduced: -1, Fixed: cut, Last: -1}
	b := remx.VulnSpec{ID: vid(2), Pkg: lib, Introduced: cut, Fixed: -1, Last: -1}
	if cut+1 < n && r.Intn(2) == 0 {
		b.Fixed = cut + 1 + r.Intn(n-cut-1)
	}
	switch r.Intn(4) {
	case 0:
		b.AliasOf = []string{a.ID}
	case 1:
		a.AliasOf = []string{b.ID}
	case 2:
		a.AliasOf, b.AliasOf = []string{b.ID}, []string{a.ID}
	default:
		b.AliasOf = []string{a.ID, "CVE-0000-0000"} // and one nothing has
	}
	c.Vulns = []remx.VulnSpec{a, b}
	if b.Fixed > 0 && b.Fixed < n && r.Intn(2) == 0 { // a chain: C (aliases [B]) from where B ends
		c.Vulns = append(c.Vulns, remx.VulnSpec{ID: vid(3), Pkg: lib, Introduced: b.Fixed, Fixed: -1, Last: -1, AliasOf: []string{b.ID}})
	} else if r.Intn(3) == 0 { // a record of its own that affects every version: stays
		c.Vulns = append(c.Vulns, remx.VulnSpec{ID: vid(3), Pkg: lib, Introduced: -1, Fixed: -1, Last: -1, AliasOf: []string{"GHSA-none"}})
	}
	if r.Intn(5) == 0 { // ignore lists name aliases too: ignoring A's id also ignores the records that call themselves A
		c.Ignore = []string{[]string{a.ID, b.ID}[r.Intn(2)]}
	}
	return c
}

func genE2E(r *rand.Rand) e2eCase {
	switch r.Intn(8) {
	case 0, 1:
		return genE2ESideEffect(r)
	case 2:
		return genE2EIgnoreIntroduced(r)
	case 3:
		return genE2EVersionProperty(r)
	case 4:
		return genE2EParentChain(r)
	case 5:
		switch r.Intn(3) {
		case 0:
			return genE2EFilterExposed(r)
		case 1:
			return genE2EAliasLinked(r)
		}
	}
	c := e2eCase{Eco: "n", Table: e2eNpmVers, MaxUpgrades: []int{1, 1, 1, 0, 2}[r.Intn(5)], NoIntroduce: r.Intn(4) == 0, DevDeps: r.Intn(4) != 0, MaxDepth: []int{-1, -1, 1, 2}[r.Intn(4)], Levels: map[string]int{}}
	names := []string{"alpha", "socket.io", "@scope/beta", "tee"}
	if r.Intn(2) == 0 {
		c.Eco, c.Table = "m", e2eMvnVers
		names = []string{"g:alpha", "org.x:dot.ted", "g:beta", "g:tee"}
	}
	tee := names[3]
	req := func(v string) string {
		if c.Eco == "m" {
			return v
		}
		return []string{v, "^" + v, "~" + v}[r.Intn(3)]
	}
	// the transitive package
	teeVers := subset(r, c.Table, 2)
	c.Pkgs = append(c.Pkgs, remx.Pkg{Name: tee, Versions: teeVers})
	for _, n := range names[:3] {
		if r.Intn(4) == 0 {
			continue
		}
		p := remx.Pkg{Name: n, Versions: subset(r, c.Table, 1), Deps: map[string][]string{}}
		for _, v := range p.Versions {
			if r.Intn(3) != 0 {
				p.Deps[v] = []string{tee + "@" + req(teeVers[r.Intn(1+len(teeVers)/2)])}
			}
		}
		c.Pkgs = append(c.Pkgs, p)
		if r.Intn(5) != 0 {
			c.Root = append(c.Root, rootDep{Name: n, Req: req(p.Versions[r.Intn(1+len(p.Versions)/3)]), Dev: r.Intn(5) == 0})
		}
	}
	if r.Intn(3) == 0 || len(c.Root) == 0 {
		c.Root = append(c.Root, rootDep{Name: tee, Req: req(teeVers[0])})
	}
	if c.Eco == "n" && r.Intn(3) == 0 {
		// the same package declared in a second section (devDependencies / optionalDependencies), with the identical or
		// another requirement string: the reader lets the later section win, the writer must update the effective entry
		base := c.Root[r.Intn(len(c.Root))]
		if !base.Dev && base.Alias == "" {
			d2 := rootDep{Name: base.Name, Req: base.Req}
			if r.Intn(2) == 0 {
				d2.Dev = true
			} else {
				d2.Opt = true
			}
			if r.Intn(3) == 0 {
				for _, p := range c.Pkgs {
					if p.Name == base.Name {
						d2.Req = req(p.Versions[r.Intn(1+len(p.Versions)/3)])
					}
				}
			}
			c.Root = append(c.Root, d2)
		}
	} else if c.Eco == "n" && r.Intn(2) == 0 {
		// the same registry package through one or two more entries (npm: aliases), at the identical range or another one
		base := c.Root[r.Intn(len(c.Root))]
		if !base.Dev {
			var vers []string
			for _, p := range c.Pkgs {
				if p.Name == base.Name {
					vers = p.Versions
				}
			}
			for i, n := 0, 1+r.Intn(2); i < n; i++ {
				a := rootDep{Name: base.Name, Req: base.Req, Alias: fmt.Sprintf("%s-legacy%d", strings.Trim(strings.ReplaceAll(base.Name, "/", "-"), "@"), i+1)}
				if r.Intn(3) == 0 && len(vers) > 0 {
					a.Req = req(vers[r.Intn(1+len(vers)/3)])
				}
				// the alias in another section than the plain entry: two requirements all the same (fix 8304c0d6; the reader's
				// section cascade matched on the package alone and the alias REPLACED the plain entry, group "dev" included)
				switch r.Intn(4) {
				case 0:
					a.Dev = true
				case 1:
					a.Opt = true
				}
				c.Root = append(c.Root, a)
			}
		}
	}
	if c.Eco == "m" {
		c.ProfileMgmt = r.Intn(3) == 0
	}
	if c.Eco == "m" && r.Intn(3) == 0 {
		// dependencyManagement entries: for a package nothing requires (it is part of the graph only with MavenManagement), for the
		// transitive package (pins its version), at a known version
		c.MavenMgmt = r.Intn(3) != 0
		for _, p := range c.Pkgs {
			inRoot := false // a key in <dependencies> AND dependencyManagement is C13/pom-origin-ignored: not generated here
			for _, rd := range c.Root {
				inRoot = inRoot || rd.Name == p.Name
			}
			if !inRoot && (p.Name != tee || r.Intn(3) == 0) && r.Intn(2) == 0 {
				rd := rootDep{Name: p.Name, Req: p.Versions[r.Intn(1+len(p.Versions)/2)], Mgmt: true}
				switch r.Intn(6) {
				case 0:
					rd.Req = "[" + rd.Req + ",)" // a range: the newest version it admits
				case 1:
					rd.Req = "[" + c.Table[len(c.Table)-1] + ",)" // may admit nothing the registry knows
				}
				c.Root = append(c.Root, rd)
			}
		}
	}
	if c.Eco == "n" && r.Intn(5) == 0 {
		// one or two workspace packages with requirements of their own on the universe's packages
		for i, n := 0, 1+r.Intn(2); i < n; i++ {
			w := workPkg{Name: []string{"ws-a", "@mono/ws.b"}[i]}
			for _, p := range c.Pkgs {
				if r.Intn(2) == 0 {
					w.Deps = append(w.Deps, [2]string{p.Name, req(p.Versions[r.Intn(1+len(p.Versions)/3)])})
				}
			}
			if len(w.Deps) == 0 {
				w.Deps = [][2]string{{tee, req(teeVers[0])}}
			}
			c.Work = append(c.Work, w)
		}
	}
	// vulnerabilities: mostly chains on one package (fixed at rank f, the next one introduced at f), so that fixing one
	// can introduce another; the base versions are low, so the first link usually affects what is resolved
	nv := 1 + r.Intn(3)
	chainPkg := tee
	if r.Intn(3) == 0 {
		chainPkg = c.Pkgs[r.Intn(len(c.Pkgs))].Name
	}
	prev := -1
	for i := 0; i < nv; i++ {
		v := remx.VulnSpec{ID: vid(i + 1), Pkg: chainPkg, Introduced: -1, Fixed: -1, Last: -1}
		switch x := r.Intn(8); {
		case x == 0: // an unrelated package, fixed somewhere
			v.Pkg = c.Pkgs[r.Intn(len(c.Pkgs))].Name
			v.Fixed = 1 + r.Intn(len(c.Table)-1)
		case x == 1: // never fixed
		default:
			lo := 0
			if prev >= 0 {
				lo = prev
				v.Introduced = prev
			}
			if lo+1 >= len(c.Table) {
				v.Introduced, lo = -1, 0
			}
			v.Fixed = lo + 1 + r.Intn(min(2, len(c.Table)-lo-1))
			prev = v.Fixed
		}
		if r.Intn(6) == 0 { // one record, two packages
			v.Also = c.Pkgs[r.Intn(len(c.Pkgs))].Name
			if v.Also == v.Pkg {
				v.Also = ""
			}
		}
		c.Vulns = append(c.Vulns, v)
	}
	if r.Intn(3) == 0 {
		// ignore lists, by id or by alias; preferably the LATER links of the chain: vulnerabilities that are absent from the
		// original graph and only enter it with what a patch brings in (and mixtures with ones that are present)
		for k := 1 + r.Intn(2); k > 0; k-- {
			i := 1 + r.Intn(nv)
			if nv >= 2 && r.Intn(3) != 0 {
				i = 2 + r.Intn(nv-1)
			}
			e := vid(i)
			if r.Intn(2) == 0 {
				e = "ALIAS-" + strings.TrimPrefix(e, "V-")
			}
			if !slices.Contains(c.Ignore, e) {
				c.Ignore = append(c.Ignore, e)
			}
		}
	}
	if r.Intn(8) == 0 {
		c.Explicit = []string{vid(1 + r.Intn(nv))}
	}
	// every third case: severities on the records (top level or on the affected[] entry; one or two vectors, some that do not
	// score) and a severity threshold — at, just below and just above the scores that occur
	if r.Intn(3) == 0 {
		for i := range c.Vulns {
			if r.Intn(4) == 0 {
				continue // no severity at all: always selected
			}
			for n := 1 + r.Intn(2); n > 0; n-- {
				c.Vulns[i].Sev = append(c.Vulns[i].Sev, r.Intn(len(remx.SevTable)))
			}
			c.Vulns[i].SevInAff = r.Intn(3) == 0
		}
		c.MinSeverity = []float64{0, 2.5, 4.2, 4.25, 6.1, 7.5, 7.55, 7.44, 9.8, 9.9, 10}[r.Intn(11)]
	}
	for _, n := range names {
		if r.Intn(5) == 0 {
			c.Levels[n] = r.Intn(4)
		}
	}
	if r.Intn(6) == 0 {
		c.Levels[""] = 1 + r.Intn(2)
	}
	return c
}

// ------------------------------------------------------------------------------------------------ main

func main() {
	o := hx.Parse()
	out := hx.NewOut()
	defer out.Flush()
	var err error
	scratch, err = os.MkdirTemp("", "c12gen")
	must(err)
	defer os.RemoveAll(scratch)

	emitCP := func(k int, ni bool, vulns []int, ps []patch) {
		es := make([]string, len(ps))
		for i, p := range ps {
			es[i] = encPatch(p)
		}
		out.Emit(fmt.Sprintf("cp %d %s %s %s", k, hx.B(ni), dots(vulns), hx.Join(es, ";")), runCP(k, ni, vulns, ps))
	}
	emitCD := func(oldV, newV []int, oldR, newR []kv) {
		out.Emit(fmt.Sprintf("cd %s %s %s %s", dots(oldV), dots(newV), encReqs(oldR), encReqs(newR)), runCD(oldV, newV, oldR, newR))
	}
	if o.Replay != "" {
		for _, l := range hx.ReplayLines(o.Replay) {
			t := strings.Split(l, " ")
			switch t[0] {
			case "ep":
				k, _ := strconv.Atoi(t[1])
				out.Emit(fmt.Sprintf("ep %d", k), hx.Guard(func() string { return remx.EntryPoint(k, scratch) }))
			case "cp":
				if !haveShim {
					continue
				}
				k, _ := strconv.Atoi(t[1])
				var ps []patch
				if t[4] != "-" {
					for _, e := range strings.Split(t[4], ";") {
						ps = append(ps, decPatch(e))
					}
				}
				emitCP(k, t[2] == "1", ints(t[3]), ps)
			case "cd":
				if !haveShim {
					continue
				}
				emitCD(ints(t[1]), ints(t[2]), decReqs(t[3]), decReqs(t[4]))
			case "e2e":
				c := parseE2E(t)
				out.Emit(c.line(), runE2E(c))
			default:
				out.Emit(l, "bad-case")
			}
		}
		return
	}
	r := hx.Rng(o)
	for i := 0; i < o.N; i++ {
		k, ni, vulns, ps := genCP(r) // drawn also without shim, so that the end-to-end cases are the same in both builds
		if haveShim {
			emitCP(k, ni, vulns, ps)
		}
	}
	for i := 0; i < o.N; i++ {
		a, b, c, d := genCD(r)
		if haveShim {
			emitCD(a, b, c, d)
		}
	}
	for i := 0; i < o.N/4; i++ {
		c := genE2E(r)
		out.Emit(c.line(), runE2E(c))
	}
	for k := 0; k < remx.EntryPointKinds; k++ {
		out.Emit(fmt.Sprintf("ep %d", k), hx.Guard(func() string { return remx.EntryPoint(k, scratch) }))
	}
}
