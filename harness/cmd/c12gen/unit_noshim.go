//go:build noshim

// Fallback when an export shim does not compile against /repo: the unit streams are left out.
package main

const haveShim = false

func runCP(k int, ni bool, vulns []int, ps []patch) string { return "skipped-no-shim" }
func runCD(oldV, newV []int, oldR, newR []kv) string       { return "skipped-no-shim" }
