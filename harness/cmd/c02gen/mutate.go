package main

// Seeded mutations and seed-independent "generic" documents for C02. Everything here is a pure
// function of (class, seed, original bytes, other fixtures) so that a `gen:` case descriptor
// regenerates exactly the same input on replay.

import (
	"bytes"
	"math/rand"
	"strings"
)

// mutClasses are applied round-robin to every fixture (class k%len for the k-th mutation).
var mutClasses = []string{
	"trunc", "bitflip1", "bitflipN", "byteset", "linedup", "linedel", "lineswap", "chunkdup", "chunkdel",
	"nul", "badutf8", "longline", "hugenum", "typeconf", "splice", "nestins", "kwline", "delimswap", "kwline", "numtweak", "trunc", "bitflipN", "typeconf",
}

// ("kwline" is a placeholder: makePlan replaces it by kwline:k<hex keyword> with a keyword of the extractor, see keywords.go;
// the quick tier runs the first 20 classes of this list per fixture)

// delimiter pairs for the "delimswap" class: closers before openers, unbalanced and nested groups
var delimPairs = [][2]byte{{'[', ']'}, {'(', ')'}, {'{', '}'}, {'<', '>'}, {'"', '"'}, {'\'', '\''}}

var interesting = []byte{0x00, 0xff, 0x7f, 0x80, '\n', '\r', '"', '\'', '{', '}', '[', ']', '<', '>', ':', ',', '=', '#', '\\', '/', '-', ' ', '\t', '0', '9', '&', '%', '@', '!', '~', '*', '|'}

var badUTF8 = [][]byte{{0xff}, {0xfe, 0xff}, {0xc0, 0x80}, {0xed, 0xa0, 0x80}, {0xf4, 0x90, 0x80, 0x80}, {0xe2, 0x82}, {0xc3}, {0xf8, 0x88, 0x80, 0x80, 0x80}, {0xef, 0xbf, 0xbe}, {0x80}}

var hugeNums = []string{"1e99999", "-1e99999", "1e-99999", strings.Repeat("9", 400), "-" + strings.Repeat("9", 400), "0." + strings.Repeat("1", 400), "18446744073709551616", "9223372036854775808", "-9223372036854775809", "4294967296", "-1", "0", "00", "0x7fffffffffffffff", "1e", "1.", ".", "NaN", "Infinity"}

var confusions = []string{"null", "[]", "{}", "\"\"", "0", "true", "-1", "[null]", "{\"a\":null}", "~", "[[]]", "1e99999", "\"\\u0000\"", "''", "[", "{", ""}

func splitLines(b []byte) [][]byte { return bytes.SplitAfter(b, []byte("\n")) }

func joinLines(ls [][]byte) []byte { return bytes.Join(ls, nil) }

func clone(b []byte) []byte { return append([]byte{}, b...) }

func insertAt(b []byte, at int, ins []byte) []byte {
	out := make([]byte, 0, len(b)+len(ins))
	out = append(out, b[:at]...)
	out = append(out, ins...)
	return append(out, b[at:]...)
}

// digitRuns returns [start,end) of maximal ASCII digit runs.
func digitRuns(b []byte) [][2]int {
	var rs [][2]int
	for i := 0; i < len(b); {
		if b[i] >= '0' && b[i] <= '9' {
			j := i
			for j < len(b) && b[j] >= '0' && b[j] <= '9' {
				j++
			}
			rs = append(rs, [2]int{i, j})
			i = j
		} else {
			i++
		}
	}
	return rs
}

// valueSpans finds "values" after a key separator (`:`, `=`) up to the end of line / `,`: the places
// where a decoder expects a particular type.
func valueSpans(b []byte) [][2]int {
	var rs [][2]int
	for i := 0; i < len(b) && len(rs) < 4096; i++ {
		if b[i] != ':' && b[i] != '=' {
			continue
		}
		j := i + 1
		for j < len(b) && (b[j] == ' ' || b[j] == '\t') {
			j++
		}
		k := j
		inStr := false
		for k < len(b) {
			c := b[k]
			if c == '"' && (k == 0 || b[k-1] != '\\') {
				inStr = !inStr
			}
			if !inStr && (c == '\n' || c == ',' || c == '}' || c == ']') {
				break
			}
			k++
		}
		if k > j {
			rs = append(rs, [2]int{j, k})
		}
	}
	return rs
}

// mutate applies one mutation of the given class. other() yields the bytes of another fixture of the
// same extractor (nil if none) for the crossover class.
func mutate(class string, seed int64, orig []byte, other func(r *rand.Rand) []byte) []byte {
	r := rand.New(rand.NewSource(seed))
	n := len(orig)
	switch class {
	case "orig":
		return orig
	case "trunc":
		if n == 0 {
			return orig
		}
		return clone(orig[:r.Intn(n)])
	case "vertail":
		// a NUL-delimited version string after the end of a binary: what go/binary's VersionFromContent option searches the whole content for
		vs := []string{"v1.2.3", "1.2.3-rc1+meta", "v0.0.0-20200101000000-abcdefabcdef", "v10.20.30-\xff", "\x00L9.8.7"}
		return append(append(clone(orig), 0), append([]byte(vs[r.Intn(len(vs))]), 0)...)
	case "bitflip1", "bitflipN":
		if n == 0 {
			return []byte{byte(r.Intn(256))}
		}
		out := clone(orig)
		k := 1
		if class == "bitflipN" {
			k = 2 + r.Intn(15)
		}
		for ; k > 0; k-- {
			out[r.Intn(n)] ^= 1 << uint(r.Intn(8))
		}
		return out
	case "byteset":
		if n == 0 {
			return []byte{interesting[r.Intn(len(interesting))]}
		}
		out := clone(orig)
		for k := 1 + r.Intn(4); k > 0; k-- {
			out[r.Intn(n)] = interesting[r.Intn(len(interesting))]
		}
		return out
	case "linedup", "linedel", "lineswap":
		ls := splitLines(orig)
		if len(ls) == 0 {
			return orig
		}
		i, j := r.Intn(len(ls)), r.Intn(len(ls))
		switch class {
		case "linedup":
			reps := 1
			if r.Intn(4) == 0 {
				reps = 1 + r.Intn(200)
			}
			var out [][]byte
			out = append(out, ls[:i+1]...)
			for ; reps > 0; reps-- {
				out = append(out, ls[i])
			}
			out = append(out, ls[i+1:]...)
			return joinLines(out)
		case "linedel":
			return joinLines(append(append([][]byte{}, ls[:i]...), ls[i+1:]...))
		default:
			out := append([][]byte{}, ls...)
			out[i], out[j] = out[j], out[i]
			return joinLines(out)
		}
	case "chunkdup", "chunkdel":
		if n < 2 {
			return orig
		}
		a := r.Intn(n)
		l := 1 + r.Intn(minInt(n-a, 4096))
		if class == "chunkdel" {
			return append(clone(orig[:a]), orig[a+l:]...)
		}
		return insertAt(orig, a, orig[a:a+l])
	case "nul":
		out := clone(orig)
		for k := 1 + r.Intn(4); k > 0; k-- {
			at := 0
			if len(out) > 0 {
				at = r.Intn(len(out) + 1)
			}
			out = insertAt(out, at, bytes.Repeat([]byte{0}, 1+r.Intn(8)))
		}
		return out
	case "badutf8":
		out := clone(orig)
		for k := 1 + r.Intn(3); k > 0; k-- {
			at := 0
			if len(out) > 0 {
				at = r.Intn(len(out) + 1)
			}
			out = insertAt(out, at, badUTF8[r.Intn(len(badUTF8))])
		}
		return out
	case "longline":
		// 70 000 bytes: beyond bufio.Scanner's 64 KiB token limit
		long := bytes.Repeat([]byte{"Aa0 -.\"x"[r.Intn(8)]}, 70000)
		ls := splitLines(orig)
		switch r.Intn(3) {
		case 0: // a new line
			i := 0
			if len(ls) > 0 {
				i = r.Intn(len(ls) + 1)
			}
			var out [][]byte
			out = append(out, ls[:i]...)
			out = append(out, append(long, '\n'))
			out = append(out, ls[i:]...)
			return joinLines(out)
		case 1: // stretch the inside of an existing line
			if n == 0 {
				return long
			}
			return insertAt(orig, r.Intn(n), long)
		default: // a long value
			vs := valueSpans(orig)
			if len(vs) == 0 {
				return append(clone(orig), long...)
			}
			v := vs[r.Intn(len(vs))]
			return append(append(clone(orig[:v[0]]), append(append([]byte{'"'}, long...), '"')...), orig[v[1]:]...)
		}
	case "hugenum", "numtweak":
		rs := digitRuns(orig)
		num := hugeNums[r.Intn(len(hugeNums))]
		if class == "hugenum" {
			num = hugeNums[r.Intn(6)]
		}
		if len(rs) == 0 {
			return append(clone(orig), []byte(num)...)
		}
		d := rs[r.Intn(len(rs))]
		return append(append(clone(orig[:d[0]]), []byte(num)...), orig[d[1]:]...)
	case "typeconf":
		vs := valueSpans(orig)
		c := confusions[r.Intn(len(confusions))]
		if len(vs) == 0 {
			return []byte(c)
		}
		out := clone(orig)
		// replace 1..3 values, from the back so that spans stay valid
		k := 1 + r.Intn(3)
		picked := map[int]bool{}
		for ; k > 0; k-- {
			picked[r.Intn(len(vs))] = true
		}
		for i := len(vs) - 1; i >= 0; i-- {
			if picked[i] && vs[i][1] <= len(out) {
				out = append(append(clone(out[:vs[i][0]]), []byte(c)...), out[vs[i][1]:]...)
			}
		}
		return out
	case "splice":
		o := other(r)
		if len(o) == 0 || n == 0 {
			return append(clone(orig), o...)
		}
		a := r.Intn(n)
		b := r.Intn(len(o))
		l := 1 + r.Intn(minInt(len(o)-b, 8192))
		if r.Intn(2) == 0 {
			return insertAt(orig, a, o[b:b+l])
		}
		e := minInt(n, a+l)
		return append(append(clone(orig[:a]), o[b:b+l]...), orig[e:]...)
	case "nestins":
		// a deeply nested value spliced INTO an otherwise valid document
		depth := []int{100, 1000, 10000}[r.Intn(3)]
		open := []string{"[", "{\"a\":", "<a>", "(", "{", "- ", "[[", "a."}[r.Intn(8)]
		ins := []byte(strings.Repeat(open, depth))
		vs := valueSpans(orig)
		if len(vs) == 0 || r.Intn(3) == 0 {
			at := 0
			if n > 0 {
				at = r.Intn(n + 1)
			}
			return insertAt(orig, at, ins)
		}
		v := vs[r.Intn(len(vs))]
		return append(append(clone(orig[:v[0]]), ins...), orig[v[1]:]...)
	case "delimswap":
		// a hand-written scanner that looks for "the first opener" and "the first closer" independently is the classic
		// way to loop forever or to slice backwards: put closers in front of openers, unbalance and nest groups
		out := clone(orig)
		p := delimPairs[r.Intn(len(delimPairs))]
		var opens, closes []int
		for i, c := range out {
			if c == p[0] {
				opens = append(opens, i)
			} else if c == p[1] {
				closes = append(closes, i)
			}
		}
		switch k := r.Intn(5); {
		case k == 0 && len(opens) > 0 && len(closes) > 0: // swap an opener with a later closer: "]…["
			i, j := opens[r.Intn(len(opens))], closes[r.Intn(len(closes))]
			out[i], out[j] = p[1], p[0]
			return out
		case k == 1 && len(opens) > 0: // a closer right in front of an opener: "]["
			return insertAt(out, opens[r.Intn(len(opens))], []byte{p[1]})
		case k == 2 && len(opens) > 0: // nested opener
			return insertAt(out, opens[r.Intn(len(opens))]+1, []byte{p[0]})
		case k == 3 && len(closes) > 0: // drop a closer
			j := closes[r.Intn(len(closes))]
			return append(out[:j:j], out[j+1:]...)
		}
		// no such delimiter in the fixture: splice a reversed group into a value or a line
		grp := []byte{p[1], p[0], 'x', p[1]}
		if vs := valueSpans(out); len(vs) > 0 {
			v := vs[r.Intn(len(vs))]
			return insertAt(out, v[0]+r.Intn(v[1]-v[0]+1), grp)
		}
		at := 0
		if n > 0 {
			at = r.Intn(n + 1)
		}
		return insertAt(out, at, grp)
	case "kwline":
		// bare form (member-level container mutations, container.go): the keyword is one of the metadata header names
		return kwMutate(r, headerPrefixes[r.Intn(len(headerPrefixes))], orig)
	case "zipwrap":
		return zipWrap(r, orig, other)
	case "zipmem":
		return zipMember(r, orig, other)
	case "rand":
		out := make([]byte, r.Intn(4097))
		r.Read(out)
		return out
	case "randascii":
		const alpha = "abcxyzABC0129 \n\n\t\"'{}[]<>:,=#-_./\\@!%&*()|;$^~`+?"
		out := make([]byte, r.Intn(2049))
		for i := range out {
			out[i] = alpha[r.Intn(len(alpha))]
		}
		return out
	}
	if g, ok := genericDocs[class]; ok {
		return g()
	}
	if kind, kw, ok := kwOfClass(class); ok {
		if kind == "kwdoc" {
			return kwDoc(r, kw)
		}
		return kwMutate(r, kw, orig)
	}
	panic("c02gen: unknown mutation class " + class)
}

func minInt(a, b int) int {
	if a < b {
		return a
	}
	return b
}

func rep(s string, n int) func() []byte { return func() []byte { return []byte(strings.Repeat(s, n)) } }
func lit(s string) func() []byte        { return func() []byte { return []byte(s) } }
func balanced(open, mid, clos string, n int) func() []byte {
	return func() []byte { return []byte(strings.Repeat(open, n) + mid + strings.Repeat(clos, n)) }
}

// yamlIndent: n levels of "a:\n" with growing indentation (quadratic size, so n is kept small).
func yamlIndent(n int) func() []byte {
	return func() []byte {
		var sb strings.Builder
		for i := 0; i < n; i++ {
			sb.WriteString(strings.Repeat(" ", i))
			sb.WriteString("a:\n")
		}
		sb.WriteString(strings.Repeat(" ", n) + "b\n")
		return []byte(sb.String())
	}
}

const deep = 10000

// (the TOML dotted-key documents use deep/2: BurntSushi/toml is super-linear in the key depth and 10 000
// levels take 5-11 s, i.e. a verdict that would depend on machine load)

// genericDocs: whole-document inputs that need no fixture. Run for EVERY extractor at every accepted
// canonical path name (JSON documents are also fed to TOML/XML/binary parsers on purpose).
var genericDocs = map[string]func() []byte{
	"doc:empty":        lit(""),
	"doc:null":         lit("null"),
	"doc:null-nl":      lit("null\n"),
	"doc:list":         lit("[]"),
	"doc:obj":          lit("{}"),
	"doc:str":          lit("\"\""),
	"doc:zero":         lit("0"),
	"doc:true":         lit("true"),
	"doc:yaml-null":    lit("~\n"),
	"doc:yaml-doc":     lit("---\n"),
	"doc:yaml-docnul":  lit("--- null\n...\n"),
	"doc:yaml-alias":   lit("a: &a [*a]\n"),
	"doc:yaml-bomb":    lit("a: &a [x,x,x,x,x,x,x,x,x]\nb: &b [*a,*a,*a,*a,*a,*a,*a,*a,*a]\nc: &c [*b,*b,*b,*b,*b,*b,*b,*b,*b]\nd: &d [*c,*c,*c,*c,*c,*c,*c,*c,*c]\ne: &e [*d,*d,*d,*d,*d,*d,*d,*d,*d]\nf: &f [*e,*e,*e,*e,*e,*e,*e,*e,*e]\ng: &g [*f,*f,*f,*f,*f,*f,*f,*f,*f]\nh: &h [*g,*g,*g,*g,*g,*g,*g,*g,*g]\ni: &i [*h,*h,*h,*h,*h,*h,*h,*h,*h]\n"),
	"doc:xml-empty":    lit("<?xml version=\"1.0\"?>\n"),
	"doc:xml-a":        lit("<a/>"),
	"doc:xml-entity":   lit("<?xml version=\"1.0\"?><!DOCTYPE a [<!ENTITY b \"bbbbbbbbbb\"><!ENTITY c \"&b;&b;&b;&b;&b;&b;&b;&b;&b;&b;\"><!ENTITY d \"&c;&c;&c;&c;&c;&c;&c;&c;&c;&c;\">]><a>&d;</a>"),
	"doc:toml-kv":      lit("a = 1\n"),
	"doc:toml-tbl":     lit("[[package]]\n"),
	"doc:toml-pkgnul":  lit("package = 1\n"),
	"doc:nl":           lit("\n"),
	"doc:space":        lit(" "),
	"doc:crlf":         lit("\r\n\r\n"),
	"doc:bom":          lit("\xef\xbb\xbf"),
	"doc:bom16":        lit("\xff\xfe{\x00}\x00"),
	"doc:nul1":         lit("\x00"),
	"doc:nul4k":        rep("\x00", 4096),
	"doc:ff4k":         rep("\xff", 4096),
	"doc:badutf8":      lit("\xff\xfe\xc0\x80\xed\xa0\x80"),
	"doc:badutf8-str":  lit("{\"name\":\"\xff\xfe\",\"version\":\"\xc0\x80\"}"),
	"doc:zip-magic":    lit("PK\x03\x04"),
	"doc:zip-eocd":     lit("PK\x05\x06" + strings.Repeat("\xff", 18)),
	"doc:elf-magic":    lit("\x7fELF\x02\x01\x01" + strings.Repeat("\x00", 9) + strings.Repeat("\xff", 48)),
	"doc:pe-magic":     lit("MZ" + strings.Repeat("\xff", 62)),
	"doc:macho-magic":  lit("\xcf\xfa\xed\xfe" + strings.Repeat("\xff", 60)),
	"doc:sqlite-magic": lit("SQLite format 3\x00" + strings.Repeat("\xff", 84)),
	"doc:bolt-magic":   lit(strings.Repeat("\x00", 16) + "\xed\xda\x0c\xed\x02\x00\x00\x00" + strings.Repeat("\xff", 4072)),
	"doc:gzip-magic":   lit("\x1f\x8b\x08" + strings.Repeat("\x00", 7)),
	"doc:bplist":       lit("bplist00" + strings.Repeat("\xff", 40)),

	// closers before openers (adjacent: a scanner that splices "between the first opener and the first closer" makes
	// no progress; with a gap it may grow its buffer without bound)
	"delim:brackets-rev":  lit("requests][security]==2.31.0\n"),
	"delim:brackets-gap":  lit("a]b[c]==1\n"),
	"delim:brackets-nest": lit("a[b[c]d]e==1\n[[x]]\n][\n"),
	"delim:parens-rev":    lit("name)(1.0)\n    name )( 1.0\n"),
	"delim:braces-rev":    lit("}{\"a\":1}\n"),
	"delim:angles-rev":    lit("><a></a>\n"),
	"delim:quotes-odd":    lit("\"a\"\"b\": \"c\n'x''y'\n"),

	"nest:json-arr":     rep("[", deep),
	"nest:json-obj":     rep("{\"a\":", deep),
	"nest:json-arr-bal": balanced("[", "", "]", deep),
	"nest:json-obj-bal": balanced("{\"a\":", "1", "}", deep),
	"nest:json-pkgs":    balanced("{\"dependencies\":{\"a\":", "{}", "}}", deep/2),
	"nest:xml":          rep("<a>", deep),
	"nest:xml-bal":      balanced("<a>", "x", "</a>", deep),
	"nest:xml-attr":     lit("<a " + strings.Repeat("b=\"1\" ", deep) + "/>"),
	"nest:yaml-flow":    rep("[", deep),
	"nest:yaml-flowmap": rep("{a: ", deep),
	"nest:yaml-seq":     rep("- ", deep),
	"nest:yaml-indent":  yamlIndent(1500),
	"nest:toml-dotted":  lit(strings.Repeat("a.", deep/2) + "a = 1\n"),
	"nest:toml-inline":  balanced("a = {", "b = 1", "}", deep),
	"nest:toml-tables":  lit("[[" + strings.Repeat("a.", deep/2) + "a]]\n"),
	"nest:toml-arr":     lit("a = " + strings.Repeat("[", deep)),
	"nest:paren":        rep("(", deep),
	"nest:ruby-block":   rep("Gem::Specification.new do |s|\n", 2000),
	"nest:elixir":       rep("%{\"a\": {:hex, ", 5000),

	"num:1e99999":      lit("1e99999"),
	"num:400digits":    rep("9", 400),
	"num:json-1e99999": lit("{\"lockfileVersion\":1e99999,\"version\":1e99999,\"a\":-1e99999}"),
	"num:json-400":     lit("{\"lockfileVersion\":" + strings.Repeat("9", 400) + ",\"version\":" + strings.Repeat("9", 400) + "}"),
	"num:toml-1e99999": lit("version = 1e99999\na = " + strings.Repeat("9", 400) + "\n"),
	"num:yaml-1e99999": lit("lockfileVersion: 1e99999\nversion: " + strings.Repeat("9", 400) + "\n"),
	"num:xml-400":      lit("<a version=\"" + strings.Repeat("9", 400) + "\">1e99999</a>"),

	"long:line":     rep("A", 70000),
	"long:line-nl":  lit(strings.Repeat("A", 70000) + "\n"),
	"long:json-str": lit("{\"name\":\"" + strings.Repeat("A", 70000) + "\"}"),
	"long:kv":       lit("Package: " + strings.Repeat("A", 70000) + "\nVersion: 1\n\n"),
	"long:P":        lit("P:" + strings.Repeat("A", 70000) + "\nV:1\n\n"),
	"long:1MiB":     rep("A", 1<<20),
	"long:lines":    rep("a\n", 200000),
}
