package main

// The engine's consumption path. The walk-engine theorems of C02 (C02_panic_only_from_extractor,
// C02_confined) model an Extract result as a list of package ids; that the REAL result is well formed for
// the engine — no nil element in Packages, nothing else runExtractor / Inventory.Append dereferences is
// missing — is an interface assumption of those theorems. It is checked here on EVERY case whose Extract
// returned normally: the very (inventory, error) pair Extract returned is handed to the real
// filesystem.Run (one scan root = the case's temp root, PathsToExtract = the file, the one extractor)
// through a wrapper whose Extract replays that pair, so the real walk, FileRequired, runExtractor
// (`r.Extractor = ex`, location expansion, Inventory.Append) and the status computation consume it.
// A scan that panics (the engine has no recover) or does not come back is the C02 violation "failure not
// confined to the plugin's status": st=engine-panic / st=engine-hang. A nil element that happens not to
// crash the scan is st=nilpkg.

import (
	"context"
	"fmt"
	"path/filepath"
	"runtime/debug"
	"sync/atomic"
	"time"

	"github.com/google/osv-scalibr/extractor/filesystem"
	scalibrfs "github.com/google/osv-scalibr/fs"
	"github.com/google/osv-scalibr/inventory"
	"github.com/google/osv-scalibr/stats"
)

// replayExtractor is the real extractor (Name, Requirements, FileRequired, ToPURL, …) with Extract
// replaced by "return what the real Extract returned for this file".
type replayExtractor struct {
	filesystem.Extractor
	inv   inventory.Inventory
	err   error
	calls *int32
}

func (r replayExtractor) Extract(_ context.Context, _ *filesystem.ScanInput) (inventory.Inventory, error) {
	atomic.AddInt32(r.calls, 1)
	return r.inv, r.err
}

type engineResult struct {
	st    string // ok | panic | hang | err
	msg   string
	stack []byte
	calls int32
	nst   int // number of plugin statuses returned
}

func nilPackages(inv inventory.Inventory) int {
	n := 0
	for _, p := range inv.Packages {
		if p == nil {
			n++
		}
	}
	return n
}

// runEngine feeds (inv, err) through the real filesystem.Run.
func runEngine(e filesystem.Extractor, fsys scalibrfs.FS, root, rel string, inv inventory.Inventory, xerr error) engineResult {
	var calls int32
	done := make(chan engineResult, 1)
	go func() {
		defer func() {
			if r := recover(); r != nil {
				done <- engineResult{st: "panic", msg: fmt.Sprint(r), stack: debug.Stack(), calls: atomic.LoadInt32(&calls)}
			}
		}()
		cfg := &filesystem.Config{
			Extractors:     []filesystem.Extractor{replayExtractor{Extractor: e, inv: inv, err: xerr, calls: &calls}},
			ScanRoots:      []*scalibrfs.ScanRoot{{FS: fsys, Path: root}},
			PathsToExtract: []string{filepath.Join(root, filepath.FromSlash(rel))},
			Stats:          stats.NoopCollector{},
		}
		_, sts, err := filesystem.Run(context.Background(), cfg)
		r := engineResult{st: "ok", calls: atomic.LoadInt32(&calls), nst: len(sts)}
		if err != nil {
			r.st, r.msg = "err", err.Error()
		}
		done <- r
	}()
	select {
	case r := <-done:
		return r
	case <-time.After(caseTimeout):
		return engineResult{st: "hang", msg: "filesystem.Run had not returned after 10s", calls: atomic.LoadInt32(&calls)}
	}
}
