package main

// Harness-made seed fixtures. /repo's testdata of os/kernel/vmlinuz holds an EMPTY `valid` file and a 5-byte `invalid` one: no mutation of them ever
// passes the "Linux kernel" magic test, so everything behind it (parseVmlinuzMetadata: architecture, format, version, root / swap device, video
// mode) was never executed. A fixture name starting with "@syn/" is produced here instead of being read from /repo; it goes through the same
// presentation names, mutation classes, sweeps and run modes as a testdata file.

import (
	"context"
	"encoding/binary"
	"os"
	"path/filepath"
	"strings"
	"sync"

	"github.com/containerd/containerd/metadata"
	"github.com/containerd/containerd/namespaces"
	bolt "go.etcd.io/bbolt"
)

// containerdState: the containerd extractor reports a container only when its init pid can be read from the state files NEXT to the meta.db
// (var/lib/containerd/io.containerd.grpc.v1.cri/containers/<id>/status for runc, ProgramData/containerd/state/io.containerd.runtime.v2.task/<ns>/<id>/shim.pid
// for runhcs). The ids are inside the database, so no fixed sibling rule can place them: the harness reads the ORIGINAL fixture with the same library
// and puts testdata/status resp. testdata/shim.pid where the containers of that database are looked up. Without this no case ever got past
// `containerInitPid == -1` (0 of 377 cases with packages).
var (
	ctrdMu    sync.Mutex
	ctrdCache = map[string][]auxFile{}
)

func containerdState(h *harvestT, fix string) []auxFile {
	ctrdMu.Lock()
	defer ctrdMu.Unlock()
	if a, ok := ctrdCache[fix]; ok {
		return a
	}
	var aux []auxFile
	defer func() { ctrdCache[fix] = aux }()
	b, err := readFixture(h, fix)
	if err != nil || len(b) > 4<<20 {
		return nil
	}
	tmp, err := os.CreateTemp("", "c02ctrd-*.db")
	if err != nil {
		return nil
	}
	defer os.Remove(tmp.Name())
	_, _ = tmp.Write(b)
	tmp.Close()
	db, err := bolt.Open(tmp.Name(), 0o444, &bolt.Options{ReadOnly: true})
	if err != nil {
		return nil
	}
	defer db.Close()
	defer func() { _ = recover() }() // a damaged fixture: no state files
	status, _ := readFixture(h, "status")
	shim, _ := readFixture(h, "shim.pid")
	var nss []string
	_ = db.View(func(tx *bolt.Tx) error {
		nss, _ = metadata.NewNamespaceStore(tx).List(context.Background())
		return nil
	})
	mdb := metadata.NewDB(db, nil, nil)
	for _, ns := range nss {
		cs, err := metadata.NewContainerStore(mdb).List(namespaces.WithNamespace(context.Background(), ns))
		if err != nil {
			continue
		}
		for _, c := range cs {
			switch c.Runtime.Name {
			case "io.containerd.runc.v2":
				aux = append(aux, auxFile{"var/lib/containerd/io.containerd.grpc.v1.cri/containers/" + c.ID + "/status", status})
			case "io.containerd.runhcs.v1":
				aux = append(aux, auxFile{"ProgramData/containerd/state/io.containerd.runtime.v2.task/" + ns + "/" + c.ID + "/shim.pid", shim})
			}
		}
	}
	if len(aux) >= 2 {
		aux = aux[:len(aux)-1] // one container of several is not running: no state file for it
	}
	return aux
}

func readFixture(h *harvestT, rel string) ([]byte, error) {
	if strings.HasPrefix(rel, "@syn/") {
		for _, m := range synthetic {
			if mk, ok := m[rel]; ok {
				return mk(), nil
			}
		}
		return nil, os.ErrNotExist
	}
	return os.ReadFile(filepath.Join(h.dir, filepath.FromSlash(rel)))
}

// bzImage builds the 1 KiB real-mode header of an x86 Linux kernel as file(1) / github.com/deitch/magic read it: 0xAA55 at 510, "HdrS" at 514,
// protocol version at 518, load flags at 529, the offset of the version string (minus 0x200) at 526, root flags 498, swap_dev 502, ram size 504,
// video mode 506, root_dev 508.
func bzImage(format byte, version string, roFlag, swapDev, vid, rootDev uint16) func() []byte {
	return func() []byte {
		b := make([]byte, 0x400)
		le := binary.LittleEndian
		le.PutUint16(b[498:], roFlag)
		le.PutUint16(b[502:], swapDev)
		le.PutUint16(b[504:], 0)
		le.PutUint16(b[506:], vid)
		le.PutUint16(b[508:], rootDev)
		le.PutUint16(b[510:], 0xAA55)
		copy(b[514:], "HdrS")
		le.PutUint16(b[518:], 0x020f)
		le.PutUint16(b[526:], 0x0100) // version string at 0x200 + 0x100
		b[529] = format
		copy(b[0x300:], version+"\x00")
		return b
	}
}

var synthetic = map[string]map[string]func() []byte{
	"os/kernel/vmlinuz": {
		"@syn/vmlinuz-bzimage":   bzImage(1, "6.1.0-13-amd64 (debian-kernel@lists.debian.org) #1 SMP PREEMPT_DYNAMIC Debian 6.1.55-1 (2023-09-29)", 1, 0, 0xffff, 0),
		"@syn/vmlinuz-zimage":    bzImage(0, "2.6.32-5-686 (Debian 2.6.32-48squeeze4) (dannf@debian.org) #1 SMP", 0, 0x0803, 0xfffd, 0x0801),
		"@syn/vmlinuz-noversion": bzImage(1, "", 1, 0xffff, 0x0317, 0xffff),
	},
}
