package main

// Run modes: `run:<mode>:<class>` presents the bytes of <class> to Extract in another legitimate way (entry shapes the default case never uses):
//
//	ctx     the scan context is already cancelled (extractors that poll it must stop with an error; nobody may crash or hang)
//	rd      ScanInput.Reader is only an io.Reader (no ReaderAt, no Seeker): the copy-to-memory fallbacks
//	rderr   … and it fails with an I/O error after half of the file (rderr0: at once): every read-error return
//	vfs     a virtual file system (fstest.MapFS) and ScanInput.Root == "": the GetRealPath copy-out paths (rpm, dotnet/pe) and every FS lookup
//	cfg     the extractor's OTHER configuration (altConfig): dpkg IncludeNotInstalled, rpm without timeout, go/binary VersionFromContent,
//	        java/archive without file-name fallback / hashing, cargo-auditable with build dependencies
//	norel   no os-release file at all      usrlib  only usr/lib/os-release      osc  os-release with comments, blanks, odd lines
//	osrh osrk osalp osub osb osv osid osnone   other distributions / missing ID, VERSION_ID, BUILD_ID (osVariants)
//
// The verdict is C02's own: Extract returns (inventory and / or error), no panic, no hang, bounded memory.

import (
	"io"
	"io/fs"
	"os"
	"path/filepath"
	"strings"
	"testing/fstest"
	"time"

	"github.com/google/osv-scalibr/extractor/filesystem"
	"github.com/google/osv-scalibr/extractor/filesystem/language/dotnet/depsjson"
	"github.com/google/osv-scalibr/extractor/filesystem/language/dotnet/dotnetpe"
	"github.com/google/osv-scalibr/extractor/filesystem/language/dotnet/packagesconfig"
	"github.com/google/osv-scalibr/extractor/filesystem/language/dotnet/packageslockjson"
	"github.com/google/osv-scalibr/extractor/filesystem/language/elixir/mixlock"
	"github.com/google/osv-scalibr/extractor/filesystem/language/golang/gobinary"
	"github.com/google/osv-scalibr/extractor/filesystem/language/haskell/cabal"
	"github.com/google/osv-scalibr/extractor/filesystem/language/haskell/stacklock"
	"github.com/google/osv-scalibr/extractor/filesystem/language/java/archive"
	"github.com/google/osv-scalibr/extractor/filesystem/language/javascript/packagejson"
	"github.com/google/osv-scalibr/extractor/filesystem/language/javascript/packagelockjson"
	"github.com/google/osv-scalibr/extractor/filesystem/language/python/condameta"
	"github.com/google/osv-scalibr/extractor/filesystem/language/python/requirements"
	"github.com/google/osv-scalibr/extractor/filesystem/language/python/setup"
	"github.com/google/osv-scalibr/extractor/filesystem/language/python/wheelegg"
	"github.com/google/osv-scalibr/extractor/filesystem/language/ruby/gemspec"
	"github.com/google/osv-scalibr/extractor/filesystem/language/rust/cargoauditable"
	"github.com/google/osv-scalibr/extractor/filesystem/language/swift/packageresolved"
	"github.com/google/osv-scalibr/extractor/filesystem/language/swift/podfilelock"
	wpplugins "github.com/google/osv-scalibr/extractor/filesystem/misc/wordpress/plugins"
	"github.com/google/osv-scalibr/extractor/filesystem/os/apk"
	"github.com/google/osv-scalibr/extractor/filesystem/os/cos"
	"github.com/google/osv-scalibr/extractor/filesystem/os/dpkg"
	"github.com/google/osv-scalibr/extractor/filesystem/os/flatpak"
	"github.com/google/osv-scalibr/extractor/filesystem/os/kernel/module"
	"github.com/google/osv-scalibr/extractor/filesystem/os/kernel/vmlinuz"
	"github.com/google/osv-scalibr/extractor/filesystem/os/macapps"
	"github.com/google/osv-scalibr/extractor/filesystem/os/pacman"
	"github.com/google/osv-scalibr/extractor/filesystem/os/portage"
	"github.com/google/osv-scalibr/extractor/filesystem/os/rpm"
	"github.com/google/osv-scalibr/extractor/filesystem/os/snap"
	"github.com/google/osv-scalibr/stats"
)

// osVariants: run modes that only replace the content of etc/os-release (the fields the os/* extractors copy into their metadata and later turn
// into the purl's distro / namespace and the OSV ecosystem: every fallback of toDistro / toNamespace / Ecosystem is one of these shapes).
var osVariants = map[string]string{
	"osc":    "# os-release\n\nNAME='Debian GNU/Linux'\nnot an assignment\nID=debian \n#ID=other\nVERSION_ID=\"12\"\nVERSION_CODENAME=bookworm\nEMPTY=\n=novalue\n",
	"osrh":   "NAME=\"Red Hat Enterprise Linux\"\nID=\"rhel\"\nVERSION_ID=\"9.3\"\n",
	"osrk":   "NAME=\"Rocky Linux\"\nID=\"rocky\"\nVERSION_ID=\"9.3\"\n",
	"osalp":  "NAME=\"Alpine Linux\"\nID=alpine\nVERSION_ID=3.18.4\n",
	"osub":   "NAME=\"Ubuntu\"\nID=ubuntu\nVERSION_ID=\"22.04\"\nVERSION_CODENAME=jammy\n",
	"osb":    "NAME=Arch\nID=arch\nBUILD_ID=rolling\n",
	"osv":    "NAME=x\nVERSION_ID=1\n",
	"osid":   "ID=gentoo\nVERSION=\"2.15 stable\"\n",
	"osnone": "NAME=x\n",
}

var osVariantNames = []string{"osc", "osrh", "osrk", "osalp", "osub", "osb", "osv", "osid", "osnone"}

type onlyReader struct{ r io.Reader }

// errReader yields the first n bytes and then an I/O error (a medium that fails in the middle of a file); it is only an io.Reader.
type errReader struct {
	r io.Reader
	n int64
}

func (e *errReader) Read(p []byte) (int, error) {
	if e.n <= 0 {
		return 0, errIO
	}
	if int64(len(p)) > e.n {
		p = p[:e.n]
	}
	k, err := e.r.Read(p)
	e.n -= int64(k)
	if err == io.EOF {
		err = errIO
	}
	return k, err
}

var errIO = &fs.PathError{Op: "read", Path: "input", Err: fs.ErrInvalid}

func (o onlyReader) Read(p []byte) (int, error) { return o.r.Read(p) }

func runMode(class string) (mode, inner string) {
	if !strings.HasPrefix(class, "run:") {
		return "", class
	}
	f := strings.SplitN(class, ":", 3)
	if len(f) != 3 {
		return "", class
	}
	return f[1], f[2]
}

// mapFSOf loads the case root into an in-memory FS.
func mapFSOf(root string) (fstest.MapFS, error) {
	m := fstest.MapFS{}
	err := filepath.WalkDir(root, func(p string, d fs.DirEntry, err error) error {
		if err != nil || d.IsDir() {
			return err
		}
		b, err := os.ReadFile(p)
		if err != nil {
			return err
		}
		rel, _ := filepath.Rel(root, p)
		m[filepath.ToSlash(rel)] = &fstest.MapFile{Data: b, Mode: 0o644, ModTime: time.Unix(0, 0)}
		return nil
	})
	return m, err
}

// withStats: the same 31 extractors as limits.go's sizeLimited, constructed with a stats.Collector (the metrics callbacks around FileRequired and
// Extract: `if e.stats != nil { … input.Info.Size() … }`). Run modes `stat` (collector, Info set) and `statnil` (collector, ScanInput.Info == nil:
// a caller that does not stat — several extractors guard `input.Info != nil` explicitly, wheelegg returns ErrSizeNotSet for it).
type recCollector struct {
	stats.NoopCollector
	extracted, required int
}

func (c *recCollector) AfterFileRequired(string, *stats.FileRequiredStats)   { c.required++ }
func (c *recCollector) AfterFileExtracted(string, *stats.FileExtractedStats) { c.extracted++ }

var withStats = map[string]func(col stats.Collector) filesystem.Extractor{
	"dotnet/depsjson": func(col stats.Collector) filesystem.Extractor {
		c := depsjson.DefaultConfig()
		c.Stats = col
		return depsjson.New(c)
	},
	"dotnet/pe": func(col stats.Collector) filesystem.Extractor {
		c := dotnetpe.DefaultConfig()
		c.Stats = col
		return dotnetpe.New(c)
	},
	"dotnet/packagesconfig": func(col stats.Collector) filesystem.Extractor {
		c := packagesconfig.DefaultConfig()
		c.Stats = col
		return packagesconfig.New(c)
	},
	"dotnet/packageslockjson": func(col stats.Collector) filesystem.Extractor {
		c := packageslockjson.DefaultConfig()
		c.Stats = col
		return packageslockjson.New(c)
	},
	"elixir/mixlock": func(col stats.Collector) filesystem.Extractor {
		c := mixlock.DefaultConfig()
		c.Stats = col
		return mixlock.New(c)
	},
	"go/binary": func(col stats.Collector) filesystem.Extractor {
		c := gobinary.DefaultConfig()
		c.Stats = col
		return gobinary.New(c)
	},
	"haskell/cabal": func(col stats.Collector) filesystem.Extractor {
		c := cabal.DefaultConfig()
		c.Stats = col
		return cabal.New(c)
	},
	"haskell/stacklock": func(col stats.Collector) filesystem.Extractor {
		c := stacklock.DefaultConfig()
		c.Stats = col
		return stacklock.New(c)
	},
	"java/archive": func(col stats.Collector) filesystem.Extractor {
		c := archive.DefaultConfig()
		c.Stats = col
		return archive.New(c)
	},
	"javascript/packagejson": func(col stats.Collector) filesystem.Extractor {
		c := packagejson.DefaultConfig()
		c.Stats = col
		return packagejson.New(c)
	},
	"javascript/packagelockjson": func(col stats.Collector) filesystem.Extractor {
		c := packagelockjson.DefaultConfig()
		c.Stats = col
		return packagelockjson.New(c)
	},
	"python/condameta": func(col stats.Collector) filesystem.Extractor {
		c := condameta.DefaultConfig()
		c.Stats = col
		return condameta.New(c)
	},
	"python/requirements": func(col stats.Collector) filesystem.Extractor {
		c := requirements.DefaultConfig()
		c.Stats = col
		return requirements.New(c)
	},
	"python/setup": func(col stats.Collector) filesystem.Extractor {
		c := setup.DefaultConfig()
		c.Stats = col
		return setup.New(c)
	},
	"python/wheelegg": func(col stats.Collector) filesystem.Extractor {
		c := wheelegg.DefaultConfig()
		c.Stats = col
		return wheelegg.New(c)
	},
	"ruby/gemspec": func(col stats.Collector) filesystem.Extractor {
		c := gemspec.DefaultConfig()
		c.Stats = col
		return gemspec.New(c)
	},
	"rust/cargoauditable": func(col stats.Collector) filesystem.Extractor {
		c := cargoauditable.DefaultConfig()
		c.Stats = col
		return cargoauditable.New(c)
	},
	"swift/packageresolved": func(col stats.Collector) filesystem.Extractor {
		c := packageresolved.DefaultConfig()
		c.Stats = col
		return packageresolved.New(c)
	},
	"swift/podfilelock": func(col stats.Collector) filesystem.Extractor {
		c := podfilelock.DefaultConfig()
		c.Stats = col
		return podfilelock.New(c)
	},
	"wordpress/plugins": func(col stats.Collector) filesystem.Extractor {
		c := wpplugins.DefaultConfig()
		c.Stats = col
		return wpplugins.New(c)
	},
	"os/apk": func(col stats.Collector) filesystem.Extractor {
		c := apk.DefaultConfig()
		c.Stats = col
		return apk.New(c)
	},
	"os/cos": func(col stats.Collector) filesystem.Extractor {
		c := cos.DefaultConfig()
		c.Stats = col
		return cos.New(c)
	},
	"os/dpkg": func(col stats.Collector) filesystem.Extractor {
		c := dpkg.DefaultConfig()
		c.Stats = col
		return dpkg.New(c)
	},
	"os/flatpak": func(col stats.Collector) filesystem.Extractor {
		c := flatpak.DefaultConfig()
		c.Stats = col
		return flatpak.New(c)
	},
	"os/kernel/module": func(col stats.Collector) filesystem.Extractor {
		c := module.DefaultConfig()
		c.Stats = col
		return module.New(c)
	},
	"os/kernel/vmlinuz": func(col stats.Collector) filesystem.Extractor {
		c := vmlinuz.DefaultConfig()
		c.Stats = col
		return vmlinuz.New(c)
	},
	"os/macapps": func(col stats.Collector) filesystem.Extractor {
		c := macapps.DefaultConfig()
		c.Stats = col
		return macapps.New(c)
	},
	"os/pacman": func(col stats.Collector) filesystem.Extractor {
		c := pacman.DefaultConfig()
		c.Stats = col
		return pacman.New(c)
	},
	"os/portage": func(col stats.Collector) filesystem.Extractor {
		c := portage.DefaultConfig()
		c.Stats = col
		return portage.New(c)
	},
	"os/rpm": func(col stats.Collector) filesystem.Extractor {
		c := rpm.DefaultConfig()
		c.Stats = col
		return rpm.New(c)
	},
	"os/snap": func(col stats.Collector) filesystem.Extractor {
		c := snap.DefaultConfig()
		c.Stats = col
		return snap.New(c)
	},
}

var altConfig = map[string]func() filesystem.Extractor{
	"os/dpkg": func() filesystem.Extractor {
		c := dpkg.DefaultConfig()
		c.IncludeNotInstalled = true
		return dpkg.New(c)
	},
	"os/rpm": func() filesystem.Extractor { c := rpm.DefaultConfig(); c.Timeout = 0; return rpm.New(c) },
	"go/binary": func() filesystem.Extractor {
		c := gobinary.DefaultConfig()
		c.VersionFromContent = !c.VersionFromContent
		return gobinary.New(c)
	},
	"java/archive": func() filesystem.Extractor {
		c := archive.DefaultConfig()
		c.ExtractFromFilename, c.HashJars, c.MinZipBytes = false, false, 0
		return archive.New(c)
	},
	"rust/cargoauditable": func() filesystem.Extractor {
		c := cargoauditable.DefaultConfig()
		c.ExtractBuildDependencies = !c.ExtractBuildDependencies
		return cargoauditable.New(c)
	},
}
