package main

// Run modes: `run:<mode>:<class>` presents the bytes of <class> to Extract in another legitimate way (entry shapes the default case never uses):
//
//	ctx     the scan context is already cancelled (extractors that poll it must stop with an error; nobody may crash or hang)
//	rd      ScanInput.Reader is only an io.Reader (no ReaderAt, no Seeker): the copy-to-memory fallbacks
//	vfs     a virtual file system (fstest.MapFS) and ScanInput.Root == "": the GetRealPath copy-out paths (rpm, dotnet/pe) and every FS lookup
//	cfg     the extractor's OTHER configuration (altConfig): dpkg IncludeNotInstalled, rpm without timeout, go/binary VersionFromContent,
//	        java/archive without file-name fallback / hashing, cargo-auditable with build dependencies
//	norel   no os-release file at all      usrlib  only usr/lib/os-release      osc  os-release with comments, blanks, odd lines
//
// The verdict is C02's own: Extract returns (inventory and / or error), no panic, no hang, bounded memory.

import (
	"io"
	"io/fs"
	"os"
	"path/filepath"
	"strings"
	"testing/fstest"
	"time"

	"github.com/google/osv-scalibr/extractor/filesystem"
	"github.com/google/osv-scalibr/extractor/filesystem/language/golang/gobinary"
	"github.com/google/osv-scalibr/extractor/filesystem/language/java/archive"
	"github.com/google/osv-scalibr/extractor/filesystem/language/rust/cargoauditable"
	"github.com/google/osv-scalibr/extractor/filesystem/os/dpkg"
	"github.com/google/osv-scalibr/extractor/filesystem/os/rpm"
)

type onlyReader struct{ r io.Reader }

func (o onlyReader) Read(p []byte) (int, error) { return o.r.Read(p) }

func runMode(class string) (mode, inner string) {
	if !strings.HasPrefix(class, "run:") {
		return "", class
	}
	f := strings.SplitN(class, ":", 3)
	if len(f) != 3 {
		return "", class
	}
	return f[1], f[2]
}

// mapFSOf loads the case root into an in-memory FS.
func mapFSOf(root string) (fstest.MapFS, error) {
	m := fstest.MapFS{}
	err := filepath.WalkDir(root, func(p string, d fs.DirEntry, err error) error {
		if err != nil || d.IsDir() {
			return err
		}
		b, err := os.ReadFile(p)
		if err != nil {
			return err
		}
		rel, _ := filepath.Rel(root, p)
		m[filepath.ToSlash(rel)] = &fstest.MapFile{Data: b, Mode: 0o644, ModTime: time.Unix(0, 0)}
		return nil
	})
	return m, err
}

var altConfig = map[string]func() filesystem.Extractor{
	"os/dpkg": func() filesystem.Extractor {
		c := dpkg.DefaultConfig()
		c.IncludeNotInstalled = true
		return dpkg.New(c)
	},
	"os/rpm": func() filesystem.Extractor { c := rpm.DefaultConfig(); c.Timeout = 0; return rpm.New(c) },
	"go/binary": func() filesystem.Extractor {
		c := gobinary.DefaultConfig()
		c.VersionFromContent = !c.VersionFromContent
		return gobinary.New(c)
	},
	"java/archive": func() filesystem.Extractor {
		c := archive.DefaultConfig()
		c.ExtractFromFilename, c.HashJars, c.MinZipBytes = false, false, 0
		return archive.New(c)
	},
	"rust/cargoauditable": func() filesystem.Extractor {
		c := cargoauditable.DefaultConfig()
		c.ExtractBuildDependencies = !c.ExtractBuildDependencies
		return cargoauditable.New(c)
	},
}
