package main

// Token-aware byte-class injection for C02.
//
// A hand-written parser that looks for a keyword ("Version:", "Plugin Name:", "==", …) and then indexes or slices the
// line around it is exactly where an offset computed on one string and applied to another goes wrong (strings.ToLower /
// ToUpper / ToValidUTF8 / Trim are not length-preserving on non-ASCII or invalid bytes). Blind byte mutations almost never
// produce "<odd bytes><keyword><short tail>" on one line, so the keywords are taken from the SOURCE of every extractor:
//
//	keywordsOf(name): a go/ast pass over the non-test files of the extractor's package (and, one level deep, over the
//	packages it imports from extractor/filesystem/**) collecting
//	  p0  string literals passed to strings.* / bytes.* calls, and the literal runs of regexp.MustCompile / Compile patterns
//	  p1  every other string literal of the package itself (constants, tables, case labels) except import paths / struct tags
//	  p2  p0/p1 literals of the imported helper packages
//
// and two mutation classes are built on them (both pure functions of (class, seed, fixture bytes)):
//
//	kwdoc:k<hex keyword>   a document made of one line per (keyword case variant x placement BEFORE / INSIDE / AFTER x byte class)
//	kwline:k<hex keyword>  a fixture in which an occurrence of the keyword (any case) gets the bytes injected next to / into it and
//	                       its line tail cut short; if the fixture does not contain the keyword, 1–3 generated lines are inserted
//
// byte classes: Latin-1 high bytes, lone UTF-8 continuation bytes, truncated multi-byte sequences, U+023A / U+023E (grow
// under ToLower), U+0130 and the Kelvin sign U+212A (shrink), combining marks, NUL, very long runs.
// Tails are short ("", "1", " 1.0") so that a shifted offset runs past the end of the line.

import (
	"bytes"
	"encoding/hex"
	"go/ast"
	"go/parser"
	"go/token"
	"math/rand"
	"os"
	"path/filepath"
	"reflect"
	"regexp/syntax"
	"sort"
	"strconv"
	"strings"
	"sync"
)

// srcRoot is the tree whose SOURCE is read for keywords: the tree under test.
func srcRoot() string {
	if v := os.Getenv("VERIF_REPO"); v != "" {
		if st, err := os.Stat(filepath.Join(v, "extractor", "filesystem")); err == nil && st.IsDir() {
			return v
		}
	}
	return repoRoot
}

type kwT struct {
	text string
	prio int
	ord  int
}

var (
	kwMu    sync.Mutex
	kwCache = map[string][]string{}
)

const extPkgPrefix = modPrefix + "extractor/filesystem/"

func keepKeyword(s string) bool {
	if len(s) < 2 || len(s) > 32 {
		return false
	}
	if strings.ContainsAny(s, "%\n\r") {
		return false // format strings, multi-line templates
	}
	graphic := false
	for _, c := range []byte(s) {
		if c > ' ' && c < 0x7f {
			graphic = true
		}
	}
	return graphic
}

// regexFragments returns the literal runs (>= 2 bytes) of a regular expression.
func regexFragments(pat string) []string {
	re, err := syntax.Parse(pat, syntax.Perl)
	if err != nil {
		return nil
	}
	var out []string
	var walk func(r *syntax.Regexp)
	walk = func(r *syntax.Regexp) {
		if r.Op == syntax.OpLiteral && len(r.Rune) >= 2 {
			out = append(out, string(r.Rune))
		}
		for _, s := range r.Sub {
			walk(s)
		}
	}
	walk(re)
	return out
}

// scanPackage collects the literals of the non-test Go files of dir; imports (of this module's extractor tree) are returned too.
func scanPackage(dir string, prioShift int, ord *int, seen map[string]bool, out *[]kwT) (imports []string) {
	ents, err := os.ReadDir(dir)
	if err != nil {
		return nil
	}
	var files []string
	for _, e := range ents {
		n := e.Name()
		if e.IsDir() || !strings.HasSuffix(n, ".go") || strings.HasSuffix(n, "_test.go") {
			continue
		}
		files = append(files, n)
	}
	sort.Strings(files)
	add := func(s string, prio int) {
		if !keepKeyword(s) || seen[s] {
			return
		}
		seen[s] = true
		*out = append(*out, kwT{s, prio + prioShift, *ord})
		*ord++
	}
	fset := token.NewFileSet()
	for _, fn := range files {
		f, err := parser.ParseFile(fset, filepath.Join(dir, fn), nil, parser.SkipObjectResolution)
		if err != nil {
			continue
		}
		skip := map[*ast.BasicLit]bool{}
		for _, im := range f.Imports {
			skip[im.Path] = true
			if p, err := strconv.Unquote(im.Path.Value); err == nil && strings.HasPrefix(p, extPkgPrefix) {
				imports = append(imports, p)
			}
		}
		// pass 1: call arguments of strings / bytes / regexp
		ast.Inspect(f, func(n ast.Node) bool {
			switch x := n.(type) {
			case *ast.Field:
				if x.Tag != nil {
					skip[x.Tag] = true
				}
			case *ast.CallExpr:
				sel, ok := x.Fun.(*ast.SelectorExpr)
				if !ok {
					return true
				}
				pk, ok := sel.X.(*ast.Ident)
				if !ok || (pk.Name != "strings" && pk.Name != "bytes" && pk.Name != "regexp") {
					return true
				}
				for _, a := range x.Args {
					ast.Inspect(a, func(m ast.Node) bool {
						if bl, ok := m.(*ast.BasicLit); ok && bl.Kind == token.STRING {
							if s, err := strconv.Unquote(bl.Value); err == nil {
								skip[bl] = true
								if pk.Name == "regexp" {
									for _, fr := range regexFragments(s) {
										add(fr, 0)
									}
								} else {
									add(s, 0)
								}
							}
						}
						return true
					})
				}
			}
			return true
		})
		// pass 2: every other string literal (constants, tables, case labels)
		ast.Inspect(f, func(n ast.Node) bool {
			if bl, ok := n.(*ast.BasicLit); ok && bl.Kind == token.STRING && !skip[bl] {
				if s, err := strconv.Unquote(bl.Value); err == nil {
					add(s, 1)
				}
			}
			return true
		})
	}
	return imports
}

// keywordsOf returns the keyword list of an extractor, most specific first (deterministic for a given source tree).
func keywordsOf(name string) []string {
	kwMu.Lock()
	defer kwMu.Unlock()
	if k, ok := kwCache[name]; ok {
		return k
	}
	tp := reflect.TypeOf(extInit[name]())
	for tp.Kind() == reflect.Ptr {
		tp = tp.Elem()
	}
	root := srcRoot()
	own := tp.PkgPath()
	var all []kwT
	ord := 0
	seen := map[string]bool{}
	imps := scanPackage(filepath.Join(root, strings.TrimPrefix(own, modPrefix)), 0, &ord, seen, &all)
	sort.Strings(imps)
	done := map[string]bool{own: true, strings.TrimSuffix(extPkgPrefix, "/"): true}
	for _, p := range imps {
		if done[p] || strings.HasSuffix(p, "/list") {
			continue
		}
		done[p] = true
		scanPackage(filepath.Join(root, strings.TrimPrefix(p, modPrefix)), 2, &ord, seen, &all)
	}
	sort.SliceStable(all, func(i, j int) bool {
		if all[i].prio != all[j].prio {
			return all[i].prio < all[j].prio
		}
		return all[i].ord < all[j].ord
	})
	ks := make([]string, len(all))
	for i, k := range all {
		ks[i] = k.text
	}
	kwCache[name] = ks
	return ks
}

func kwClass(kind, kw string) string { return kind + ":k" + hex.EncodeToString([]byte(kw)) }

func kwOfClass(class string) (kind, kw string, ok bool) {
	kind, h, found := strings.Cut(class, ":k")
	if !found || (kind != "kwdoc" && kind != "kwline") {
		return "", "", false
	}
	b, err := hex.DecodeString(h)
	if err != nil {
		return "", "", false
	}
	return kind, string(b), true
}

// ---------------------------------------------------------------------------------- byte classes

type byteClass struct {
	name string
	gen  func(r *rand.Rand) []byte
}

func repN(s string, lo, hi int) func(r *rand.Rand) []byte {
	return func(r *rand.Rand) []byte { return bytes.Repeat([]byte(s), lo+r.Intn(hi-lo+1)) }
}

var byteClasses = []byteClass{
	{"latin1", func(r *rand.Rand) []byte {
		return bytes.Repeat([]byte{[]byte{0xe9, 0xfc, 0xe4, 0xa0, 0xff, 0xc9}[r.Intn(6)]}, 1+r.Intn(4))
	}},
	{"cont", func(r *rand.Rand) []byte {
		return bytes.Repeat([]byte{[]byte{0x80, 0xbf, 0x9f}[r.Intn(3)]}, 1+r.Intn(4))
	}},
	{"truncseq", func(r *rand.Rand) []byte {
		return [][]byte{{0xc3}, {0xe2, 0x82}, {0xf0, 0x9f, 0x98}, {0xc8}}[r.Intn(4)]
	}},
	{"grow", func(r *rand.Rand) []byte {
		return bytes.Repeat([]byte([]string{"\u023a", "\u023e"}[r.Intn(2)]), 1+r.Intn(6))
	}}, // 2 -> 3 bytes under ToLower
	{"doti", repN("\u0130", 1, 4)},   // shrinks under ToLower
	{"kelvin", repN("\u212a", 1, 4)}, // Kelvin sign: 3 bytes -> 'k'
	{"combining", func(r *rand.Rand) []byte {
		return []byte([]string{"e\u0301", "\u0301\u0301", "a\u0300\u0316", "\u200d"}[r.Intn(4)])
	}},
	{"nul", repN("\x00", 1, 3)},
	{"upper", func(r *rand.Rand) []byte { return []byte([]string{"\u1e9e", "\u00df", "\ufb01", "\u0149"}[r.Intn(4)]) }}, // change length under ToUpper / special casing
	{"longrun", func(r *rand.Rand) []byte {
		return bytes.Repeat([]byte{[]byte{'A', 0xe9, ' ', 0x80}[r.Intn(4)]}, []int{300, 5000, 70000}[r.Intn(3)])
	}},
}

var (
	kwPrefixes = []string{"", "", " * ", "# ", "// ", "  ", "\t", "- ", "<!-- "}
	kwTails    = []string{"", "", "1", " 1.0", "x", ": y", " "}
)

func caseVariants(kw string) []string {
	vs := []string{kw}
	for _, v := range []string{strings.ToLower(kw), strings.ToUpper(kw)} {
		dup := false
		for _, w := range vs {
			dup = dup || w == v
		}
		if !dup {
			vs = append(vs, v)
		}
	}
	return vs
}

// kwLine builds `<prefix><bytes><keyword><short tail>` with the bytes before (0) / inside (1) / after (2) the keyword.
func kwLine(r *rand.Rand, kw string, place int, bc byteClass) []byte {
	b := bc.gen(r)
	var l []byte
	l = append(l, kwPrefixes[r.Intn(len(kwPrefixes))]...)
	switch place {
	case 0:
		l = append(l, b...)
		if r.Intn(3) == 0 {
			l = append(l, ' ')
		}
		l = append(l, kw...)
	case 1:
		at := 0
		if len(kw) > 1 {
			at = 1 + r.Intn(len(kw)-1)
		}
		l = append(l, kw[:at]...)
		l = append(l, b...)
		l = append(l, kw[at:]...)
	default:
		l = append(l, kw...)
		l = append(l, b...)
	}
	return append(l, kwTails[r.Intn(len(kwTails))]...)
}

// kwDoc: one line per (case variant, placement, byte class); the long runs come last so that the short lines are read first.
func kwDoc(r *rand.Rand, kw string) []byte {
	var short, long [][]byte
	for _, v := range caseVariants(kw) {
		for place := 0; place < 3; place++ {
			for _, bc := range byteClasses {
				if bc.name == "longrun" {
					// two long lines per document, 300 or 5000 bytes (one in four documents: 70 000, past bufio.Scanner's limit)
					if len(long) < 2 {
						n := []int{300, 5000}[r.Intn(2)]
						if len(long) == 1 && r.Intn(4) == 0 {
							n = 70000
						}
						run := byteClass{"longrun", func(r *rand.Rand) []byte { return bytes.Repeat([]byte{[]byte{'A', 0xe9, ' ', 0x80}[r.Intn(4)]}, n) }}
						long = append(long, kwLine(r, v, place, run))
					}
					continue
				}
				short = append(short, kwLine(r, v, place, bc))
			}
		}
	}
	r.Shuffle(len(short), func(i, j int) { short[i], short[j] = short[j], short[i] })
	eol := []string{"\n", "\n", "\r\n"}[r.Intn(3)]
	var out []byte
	for _, l := range append(short, long...) {
		out = append(out, l...)
		out = append(out, eol...)
	}
	if r.Intn(4) == 0 && len(out) >= len(eol) {
		out = out[:len(out)-len(eol)] // no final newline: the last line ends with the file
	}
	return out
}

// indexFold finds the occurrences of kw in b ignoring ASCII case.
func indexFold(b []byte, kw string) []int {
	lb, lk := bytes.ToLower(b), strings.ToLower(kw)
	if len(lb) != len(b) { // bytes.ToLower is not length-preserving on odd input: fall back to the exact spelling
		lb, lk = b, kw
	}
	var at []int
	for i := 0; i+len(lk) <= len(lb) && len(at) < 256; {
		j := bytes.Index(lb[i:], []byte(lk))
		if j < 0 {
			break
		}
		at = append(at, i+j)
		i += j + 1
	}
	return at
}

// kwMutate injects a byte class next to / into an occurrence of the keyword in the fixture and (usually) cuts the rest of
// that line short; without an occurrence, generated lines are inserted at line boundaries.
func kwMutate(r *rand.Rand, kw string, orig []byte) []byte {
	bc := byteClasses[r.Intn(len(byteClasses))]
	place := r.Intn(3)
	occ := indexFold(orig, kw)
	if len(occ) > 0 && r.Intn(4) != 0 {
		at := occ[r.Intn(len(occ))]
		end := at + len(kw)
		eol := end
		for eol < len(orig) && orig[eol] != '\n' && orig[eol] != '\r' {
			eol++
		}
		b := bc.gen(r)
		var out []byte
		switch place {
		case 0:
			// somewhere between the start of the line and the keyword
			sol := at
			for sol > 0 && orig[sol-1] != '\n' {
				sol--
			}
			p := at
			if r.Intn(2) == 0 && at > sol {
				p = sol + r.Intn(at-sol+1)
			}
			out = append(append(append(out, orig[:p]...), b...), orig[p:end]...)
		case 1:
			p := at
			if len(kw) > 1 {
				p = at + 1 + r.Intn(len(kw)-1)
			}
			out = append(append(append(out, orig[:p]...), b...), orig[p:end]...)
		default:
			out = append(append(out, orig[:end]...), b...)
		}
		if r.Intn(3) != 0 { // short tail
			out = append(out, kwTails[r.Intn(len(kwTails))]...)
		} else {
			out = append(out, orig[end:eol]...)
		}
		return append(out, orig[eol:]...)
	}
	ls := splitLines(orig)
	vs := caseVariants(kw)
	for k := 1 + r.Intn(3); k > 0; k-- {
		l := append(kwLine(r, vs[r.Intn(len(vs))], r.Intn(3), byteClasses[r.Intn(len(byteClasses))]), '\n')
		i := 0
		if len(ls) > 0 {
			i = r.Intn(len(ls) + 1)
		}
		ls = append(ls[:i:i], append([][]byte{l}, ls[i:]...)...)
	}
	return joinLines(ls)
}
