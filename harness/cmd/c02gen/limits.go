package main

// `c02gen -limits`: the extractors' OWN budget options, run with SMALL configured values.
//
// The fuzz stream runs every extractor with its default configuration, where java/archive's MaxOpenedBytes is 4 GiB and
// MaxFileSizeBytes is "no limit": a budget that is not enforced is invisible there (everything stays far below the 512 MiB
// sampler bound). This stream builds inputs shaped to each code path of the budget and asserts, per case,
//
//	(a) the DOCUMENTED reaction: java/archive returns an error that Is filesystem.ErrExtractorMemoryLimitExceeded exactly when
//	    the bytes it has to read from inner archives exceed MaxOpenedBytes ("the maximum number of bytes recursively read
//	    from an archive file; if this limit is reached, extraction is halted"), resp. an error naming the max zip depth when
//	    the nesting exceeds MaxZipDepth; FileRequired refuses a file larger than MaxFileSizeBytes and accepts one at the limit;
//	(b) the work stays within a small multiple of the configured limit: cumulative allocation of the Extract call
//	    (runtime.MemStats.TotalAlloc delta, deterministic) <= allocFactor x MaxOpenedBytes + allocSlack. (The live heap of
//	    a bomb that is inflated sibling after sibling stays small — each buffer is garbage at once — so the 512 MiB sampler
//	    of the fuzz stream cannot see an unenforced budget; the cumulative figure can.)
//
// `want` comes from a reference accounting of the documented budget over the ABSTRACT archive tree the case was built from
// (refWalk below), not from the extractor. Shapes: one big inner archive; many medium siblings that parse; many siblings that
// FAIL after being read (zeros named x<i>.jar); a nested chain (budget and depth); inner archives whose header declares a
// forged uncompressed size (too small / absurdly large); a huge pom.properties / MANIFEST.MF member (streamed, outside the budget:
// only "returns, no crash" is asserted).
//
// Case line:  lim <extractor> <kind> <key=value …>          reply: st=<ok|viol|panic|hang> … (see runLimCase)

import (
	"archive/zip"
	"bytes"
	"context"
	"errors"
	"fmt"
	"hash/crc32"
	"os"
	"path/filepath"
	"runtime"
	"sort"
	"strconv"
	"strings"
	"time"

	"compress/flate"

	"github.com/google/osv-scalibr/extractor/filesystem"
	"github.com/google/osv-scalibr/extractor/filesystem/language/dotnet/depsjson"
	"github.com/google/osv-scalibr/extractor/filesystem/language/dotnet/dotnetpe"
	"github.com/google/osv-scalibr/extractor/filesystem/language/dotnet/packagesconfig"
	"github.com/google/osv-scalibr/extractor/filesystem/language/dotnet/packageslockjson"
	"github.com/google/osv-scalibr/extractor/filesystem/language/elixir/mixlock"
	"github.com/google/osv-scalibr/extractor/filesystem/language/golang/gobinary"
	"github.com/google/osv-scalibr/extractor/filesystem/language/haskell/cabal"
	"github.com/google/osv-scalibr/extractor/filesystem/language/haskell/stacklock"
	"github.com/google/osv-scalibr/extractor/filesystem/language/java/archive"
	"github.com/google/osv-scalibr/extractor/filesystem/language/javascript/packagejson"
	"github.com/google/osv-scalibr/extractor/filesystem/language/javascript/packagelockjson"
	"github.com/google/osv-scalibr/extractor/filesystem/language/python/condameta"
	"github.com/google/osv-scalibr/extractor/filesystem/language/python/requirements"
	"github.com/google/osv-scalibr/extractor/filesystem/language/python/setup"
	"github.com/google/osv-scalibr/extractor/filesystem/language/python/wheelegg"
	"github.com/google/osv-scalibr/extractor/filesystem/language/ruby/gemspec"
	"github.com/google/osv-scalibr/extractor/filesystem/language/rust/cargoauditable"
	"github.com/google/osv-scalibr/extractor/filesystem/language/swift/packageresolved"
	"github.com/google/osv-scalibr/extractor/filesystem/language/swift/podfilelock"
	wpplugins "github.com/google/osv-scalibr/extractor/filesystem/misc/wordpress/plugins"
	"github.com/google/osv-scalibr/extractor/filesystem/os/apk"
	"github.com/google/osv-scalibr/extractor/filesystem/os/cos"
	"github.com/google/osv-scalibr/extractor/filesystem/os/dpkg"
	"github.com/google/osv-scalibr/extractor/filesystem/os/flatpak"
	"github.com/google/osv-scalibr/extractor/filesystem/os/kernel/module"
	"github.com/google/osv-scalibr/extractor/filesystem/os/kernel/vmlinuz"
	"github.com/google/osv-scalibr/extractor/filesystem/os/macapps"
	"github.com/google/osv-scalibr/extractor/filesystem/os/pacman"
	"github.com/google/osv-scalibr/extractor/filesystem/os/portage"
	"github.com/google/osv-scalibr/extractor/filesystem/os/rpm"
	"github.com/google/osv-scalibr/extractor/filesystem/os/snap"
	"github.com/google/osv-scalibr/extractor/filesystem/simplefileapi"
	scalibrfs "github.com/google/osv-scalibr/fs"

	"verif/harness/hx"
)

const (
	allocFactor = 16      // cumulative allocation allowed per byte of MaxOpenedBytes (io.ReadAll's growth alone costs ~5x what it reads)
	allocSlack  = 8 << 20 // zip directory, hashing, package records
)

// ---------------------------------------------------------------------------------- MaxFileSizeBytes table

// sizeLimited: every built-in extractor whose Config has MaxFileSizeBytes (grep in extractor/filesystem; the count is compared with
// the source by limitsDrift), constructed with that limit and otherwise default settings.
var sizeLimited = map[string]func(n int64) filesystem.Extractor{
	"dotnet/depsjson": func(n int64) filesystem.Extractor {
		c := depsjson.DefaultConfig()
		c.MaxFileSizeBytes = n
		return depsjson.New(c)
	},
	"dotnet/pe": func(n int64) filesystem.Extractor {
		c := dotnetpe.DefaultConfig()
		c.MaxFileSizeBytes = n
		return dotnetpe.New(c)
	},
	"dotnet/packagesconfig": func(n int64) filesystem.Extractor {
		c := packagesconfig.DefaultConfig()
		c.MaxFileSizeBytes = n
		return packagesconfig.New(c)
	},
	"dotnet/packageslockjson": func(n int64) filesystem.Extractor {
		c := packageslockjson.DefaultConfig()
		c.MaxFileSizeBytes = n
		return packageslockjson.New(c)
	},
	"elixir/mixlock": func(n int64) filesystem.Extractor {
		c := mixlock.DefaultConfig()
		c.MaxFileSizeBytes = n
		return mixlock.New(c)
	},
	"go/binary": func(n int64) filesystem.Extractor {
		c := gobinary.DefaultConfig()
		c.MaxFileSizeBytes = n
		return gobinary.New(c)
	},
	"haskell/cabal": func(n int64) filesystem.Extractor {
		c := cabal.DefaultConfig()
		c.MaxFileSizeBytes = n
		return cabal.New(c)
	},
	"haskell/stacklock": func(n int64) filesystem.Extractor {
		c := stacklock.DefaultConfig()
		c.MaxFileSizeBytes = n
		return stacklock.New(c)
	},
	"java/archive": func(n int64) filesystem.Extractor {
		c := archive.DefaultConfig()
		c.MaxFileSizeBytes = n
		return archive.New(c)
	},
	"javascript/packagejson": func(n int64) filesystem.Extractor {
		c := packagejson.DefaultConfig()
		c.MaxFileSizeBytes = n
		return packagejson.New(c)
	},
	"javascript/packagelockjson": func(n int64) filesystem.Extractor {
		c := packagelockjson.DefaultConfig()
		c.MaxFileSizeBytes = n
		return packagelockjson.New(c)
	},
	"python/condameta": func(n int64) filesystem.Extractor {
		c := condameta.DefaultConfig()
		c.MaxFileSizeBytes = n
		return condameta.New(c)
	},
	"python/requirements": func(n int64) filesystem.Extractor {
		c := requirements.DefaultConfig()
		c.MaxFileSizeBytes = n
		return requirements.New(c)
	},
	"python/setup": func(n int64) filesystem.Extractor {
		c := setup.DefaultConfig()
		c.MaxFileSizeBytes = n
		return setup.New(c)
	},
	"python/wheelegg": func(n int64) filesystem.Extractor {
		c := wheelegg.DefaultConfig()
		c.MaxFileSizeBytes = n
		return wheelegg.New(c)
	},
	"ruby/gemspec": func(n int64) filesystem.Extractor {
		c := gemspec.DefaultConfig()
		c.MaxFileSizeBytes = n
		return gemspec.New(c)
	},
	"rust/cargoauditable": func(n int64) filesystem.Extractor {
		c := cargoauditable.DefaultConfig()
		c.MaxFileSizeBytes = n
		return cargoauditable.New(c)
	},
	"swift/packageresolved": func(n int64) filesystem.Extractor {
		c := packageresolved.DefaultConfig()
		c.MaxFileSizeBytes = n
		return packageresolved.New(c)
	},
	"swift/podfilelock": func(n int64) filesystem.Extractor {
		c := podfilelock.DefaultConfig()
		c.MaxFileSizeBytes = n
		return podfilelock.New(c)
	},
	"wordpress/plugins": func(n int64) filesystem.Extractor {
		c := wpplugins.DefaultConfig()
		c.MaxFileSizeBytes = n
		return wpplugins.New(c)
	},
	"os/apk": func(n int64) filesystem.Extractor {
		c := apk.DefaultConfig()
		c.MaxFileSizeBytes = n
		return apk.New(c)
	},
	"os/cos": func(n int64) filesystem.Extractor {
		c := cos.DefaultConfig()
		c.MaxFileSizeBytes = n
		return cos.New(c)
	},
	"os/dpkg": func(n int64) filesystem.Extractor {
		c := dpkg.DefaultConfig()
		c.MaxFileSizeBytes = n
		return dpkg.New(c)
	},
	"os/flatpak": func(n int64) filesystem.Extractor {
		c := flatpak.DefaultConfig()
		c.MaxFileSizeBytes = n
		return flatpak.New(c)
	},
	"os/kernel/module": func(n int64) filesystem.Extractor {
		c := module.DefaultConfig()
		c.MaxFileSizeBytes = n
		return module.New(c)
	},
	"os/kernel/vmlinuz": func(n int64) filesystem.Extractor {
		c := vmlinuz.DefaultConfig()
		c.MaxFileSizeBytes = n
		return vmlinuz.New(c)
	},
	"os/macapps": func(n int64) filesystem.Extractor {
		c := macapps.DefaultConfig()
		c.MaxFileSizeBytes = n
		return macapps.New(c)
	},
	"os/pacman": func(n int64) filesystem.Extractor {
		c := pacman.DefaultConfig()
		c.MaxFileSizeBytes = n
		return pacman.New(c)
	},
	"os/portage": func(n int64) filesystem.Extractor {
		c := portage.DefaultConfig()
		c.MaxFileSizeBytes = n
		return portage.New(c)
	},
	"os/rpm": func(n int64) filesystem.Extractor {
		c := rpm.DefaultConfig()
		c.MaxFileSizeBytes = n
		return rpm.New(c)
	},
	"os/snap": func(n int64) filesystem.Extractor {
		c := snap.DefaultConfig()
		c.MaxFileSizeBytes = n
		return snap.New(c)
	},
}

// limitsDrift: packages under extractor/filesystem whose non-test source mentions MaxFileSizeBytes vs the table above.
func limitsDrift() (inSource int) {
	root := filepath.Join(srcRoot(), "extractor", "filesystem")
	dirs := map[string]bool{}
	_ = filepath.WalkDir(root, func(p string, d os.DirEntry, err error) error {
		if err != nil || d.IsDir() || !strings.HasSuffix(p, ".go") || strings.HasSuffix(p, "_test.go") {
			return nil
		}
		if b, err := os.ReadFile(p); err == nil && bytes.Contains(b, []byte("MaxFileSizeBytes int64")) {
			dirs[filepath.Dir(p)] = true
		}
		return nil
	})
	return len(dirs)
}

// ---------------------------------------------------------------------------------- abstract archive trees

type anode struct {
	name     string
	garbage  bool     // content = zeros, not a zip (fails "invalid archive" after being read)
	pad      int64    // bytes of a stored filler member (valid jars) / length of the zeros (garbage)
	kids     []*anode // inner archives (valid jars only)
	declared int64    // forged uncompressed size written into the PARENT's headers (0 = the true size)
	extra    []zmember
	built    []byte
}

func (a *anode) build() []byte {
	if a.built != nil {
		return a.built
	}
	if a.garbage {
		a.built = make([]byte, a.pad)
		return a.built
	}
	var buf bytes.Buffer
	w := zip.NewWriter(&buf)
	if a.pad > 0 {
		fw, _ := w.CreateHeader(&zip.FileHeader{Name: "pad.bin", Method: zip.Store})
		_, _ = fw.Write(make([]byte, a.pad))
	}
	for _, m := range a.extra {
		fw, _ := w.CreateHeader(&zip.FileHeader{Name: m.name, Method: zip.Deflate})
		_, _ = fw.Write(m.data)
	}
	for _, k := range a.kids {
		kb := k.build()
		if k.declared != 0 {
			// forged header: the raw deflate stream of the real bytes, with another uncompressed size (and the matching CRC of the real bytes)
			var cb bytes.Buffer
			fl, _ := flate.NewWriter(&cb, flate.BestSpeed)
			_, _ = fl.Write(kb)
			_ = fl.Close()
			h := &zip.FileHeader{Name: k.name, Method: zip.Deflate, CRC32: crc32.ChecksumIEEE(kb),
				CompressedSize64: uint64(cb.Len()), UncompressedSize64: uint64(k.declared)}
			fw, _ := w.CreateRaw(h)
			_, _ = fw.Write(cb.Bytes())
			continue
		}
		fw, _ := w.CreateHeader(&zip.FileHeader{Name: k.name, Method: zip.Deflate})
		_, _ = fw.Write(kb)
	}
	_ = w.Close()
	a.built = buf.Bytes()
	return a.built
}

// refWalk: the documented budget over the abstract tree. opened: bytes charged so far; returns whether the limit / the depth bound must be reported.
type refState struct {
	opened       int64
	L            int64
	D            int
	limit, depth bool
	forged       bool
}

func (s *refState) visitKids(a *anode, depth int) {
	for _, k := range a.kids {
		d := depth + 1
		if d > s.D {
			s.depth = true
			continue
		}
		size := int64(len(k.build()))
		decl := size
		if k.declared != 0 {
			decl = k.declared
			s.forged = true
		}
		if s.opened+decl > s.L {
			s.opened += decl
			s.limit = true
			continue
		}
		if decl < 30 {
			continue
		}
		s.opened += size
		if s.opened > s.L {
			s.limit = true
			continue
		}
		if !k.garbage {
			s.visitKids(k, d)
		}
	}
}

// ---------------------------------------------------------------------------------- cases

type limCase struct {
	ext, kind string
	kv        map[string]string
}

func (c limCase) line() string {
	ks := make([]string, 0, len(c.kv))
	for k := range c.kv {
		ks = append(ks, k)
	}
	sort.Strings(ks)
	var sb strings.Builder
	fmt.Fprintf(&sb, "lim %s %s", c.ext, c.kind)
	for _, k := range ks {
		fmt.Fprintf(&sb, " %s=%s", k, c.kv[k])
	}
	return sb.String()
}

func parseLimCase(l string) (limCase, error) {
	t := strings.Split(strings.TrimSpace(l), " ")
	if len(t) < 3 || t[0] != "lim" {
		return limCase{}, errors.New("bad lim case line")
	}
	c := limCase{ext: t[1], kind: t[2], kv: map[string]string{}}
	for _, x := range t[3:] {
		k, v, ok := strings.Cut(x, "=")
		if !ok {
			return c, errors.New("bad lim case field " + x)
		}
		c.kv[k] = v
	}
	return c, nil
}

func (c limCase) i64(k string) int64 {
	v, _ := strconv.ParseInt(c.kv[k], 10, 64)
	return v
}

func jarName(i int) string {
	return "lib/x" + strconv.Itoa(i) + []string{".jar", ".war", ".JAR", ".ear"}[i%4]
}

// buildShape returns the outer archive for a java/archive case.
func buildShape(c limCase) *anode {
	n, size := int(c.i64("n")), c.i64("size")
	top := &anode{name: "app.jar", extra: []zmember{{name: "META-INF/maven/g/a/pom.properties", data: []byte("groupId=g\nartifactId=a\nversion=1.0\n")}}}
	switch c.kv["shape"] {
	case "bigmember": // one inner archive of `size` bytes that parses
		top.kids = []*anode{{name: "lib/big.jar", pad: size}}
	case "bigmember-fail":
		top.kids = []*anode{{name: "lib/big.jar", garbage: true, pad: size}}
	case "siblings": // n inner archives of `size` bytes that parse
		for i := 0; i < n; i++ {
			top.kids = append(top.kids, &anode{name: jarName(i), pad: size})
		}
	case "siblings-fail": // n inner "archives" of `size` zeros: read completely, then "invalid archive"
		for i := 0; i < n; i++ {
			top.kids = append(top.kids, &anode{name: jarName(i), garbage: true, pad: size})
		}
	case "siblings-mixed":
		for i := 0; i < n; i++ {
			top.kids = append(top.kids, &anode{name: jarName(i), garbage: i%2 == 1, pad: size})
		}
	case "chain": // n levels, each `size` bytes bigger than the one inside
		cur := &anode{name: "lib/inner0.jar", pad: size}
		for i := 1; i < n; i++ {
			cur = &anode{name: "lib/inner" + strconv.Itoa(i) + ".jar", pad: size, kids: []*anode{cur}}
		}
		top.kids = []*anode{cur}
	case "chain-fail-leaves": // a chain whose every level also carries failing siblings
		cur := &anode{name: "lib/inner0.jar", pad: size}
		for i := 1; i < n; i++ {
			cur = &anode{name: "lib/inner" + strconv.Itoa(i) + ".jar", kids: []*anode{{name: "lib/bad.jar", garbage: true, pad: size}, cur, {name: "lib/bad2.war", garbage: true, pad: size}}}
		}
		top.kids = []*anode{cur}
	case "forged-small": // headers declare 64 bytes, the stream inflates to `size`
		for i := 0; i < n; i++ {
			top.kids = append(top.kids, &anode{name: jarName(i), garbage: i%2 == 0, pad: size, declared: 64})
		}
	case "forged-huge": // headers declare 1 TiB, the stream is `size` bytes
		for i := 0; i < n; i++ {
			top.kids = append(top.kids, &anode{name: jarName(i), pad: size, declared: 1 << 40})
		}
	case "bigpom": // a huge pom.properties and MANIFEST.MF: streamed members outside the budget
		line := []byte("key=value-value-value-value-value-value\n")
		top.extra = append(top.extra, zmember{name: "META-INF/maven/x/y/pom.properties", data: bytes.Repeat(line, int(size)/len(line))},
			zmember{name: "META-INF/MANIFEST.MF", data: bytes.Repeat([]byte("Implementation-Title: x\n"), int(size)/24)})
	default:
		return nil
	}
	return top
}

func limPlan(tier string) []limCase {
	var cs []limCase
	add := func(ext, kind string, kv map[string]string) { cs = append(cs, limCase{ext, kind, kv}) }
	s := func(v int64) string { return strconv.FormatInt(v, 10) }
	Ls := []int64{256 << 10, 1 << 20}
	if tier == "thorough" {
		Ls = append(Ls, 4<<20)
	}
	for _, L := range Ls {
		for _, D := range []int{2, 16} {
			base := func(shape string, n int, size int64) map[string]string {
				return map[string]string{"L": s(L), "D": strconv.Itoa(D), "shape": shape, "n": strconv.Itoa(n), "size": s(size)}
			}
			// below the budget: the limit must NOT be reported
			add("java/archive", "opened", base("bigmember", 1, L/4))
			add("java/archive", "opened", base("siblings", 3, L/8))
			add("java/archive", "opened", base("siblings-fail", 3, L/8))
			add("java/archive", "opened", base("chain", 2, L/8))
			// above: the limit MUST be reported and the work stays bounded
			add("java/archive", "opened", base("bigmember", 1, 4*L))
			add("java/archive", "opened", base("bigmember-fail", 1, 4*L))
			for _, n := range []int{8, 64} {
				add("java/archive", "opened", base("siblings", n, L/2))
				add("java/archive", "opened", base("siblings-fail", n, L/2))
				add("java/archive", "opened", base("siblings-mixed", n, L/2))
				add("java/archive", "opened", base("siblings-fail", n, L/4+1))
			}
			add("java/archive", "opened", base("chain", 6, L/2))
			add("java/archive", "opened", base("chain-fail-leaves", 5, L/2))
			add("java/archive", "opened", base("forged-small", 16, L))
			add("java/archive", "opened", base("forged-huge", 4, 4096))
			add("java/archive", "opened", base("bigpom", 1, 8*L))
		}
		// nesting deeper than MaxZipDepth with plenty of budget
		add("java/archive", "depth", map[string]string{"L": s(64 << 20), "D": "3", "shape": "chain", "n": "6", "size": "4096"})
		add("java/archive", "depth", map[string]string{"L": s(64 << 20), "D": "8", "shape": "chain", "n": "6", "size": "4096"})
	}
	names := make([]string, 0, len(sizeLimited))
	for n := range sizeLimited {
		names = append(names, n)
	}
	sort.Strings(names)
	for _, n := range names {
		for _, lim := range []int64{100, 4096} {
			add(n, "filesize", map[string]string{"max": s(lim)})
		}
	}
	return cs
}

// ---------------------------------------------------------------------------------- running

func runLimCase(c limCase) string {
	done := make(chan string, 1)
	go func() {
		defer func() {
			if r := recover(); r != nil {
				done <- "st=panic msg=" + hx.Hex(fmt.Sprint(r))
			}
		}()
		done <- execLimCase(c)
	}()
	select {
	case r := <-done:
		return r
	case <-time.After(60 * time.Second):
		return "st=hang"
	}
}

func execLimCase(c limCase) string {
	switch c.kind {
	case "filesize":
		mk, ok := sizeLimited[c.ext]
		if !ok {
			return "st=badcase"
		}
		max := c.i64("max")
		e := mk(max)
		var paths []string
		for _, p := range canonical[c.ext] {
			if extInit[c.ext]().FileRequired(simplefileapi.New(p, fakeInfo{name: filepath.Base(p), size: 1, mode: 0o644})) {
				paths = append(paths, p)
			}
		}
		if len(paths) == 0 {
			return "st=skip why=no-accepted-name"
		}
		for _, p := range paths {
			at := e.FileRequired(simplefileapi.New(p, fakeInfo{name: filepath.Base(p), size: max, mode: 0o644}))
			over := e.FileRequired(simplefileapi.New(p, fakeInfo{name: filepath.Base(p), size: max + 1, mode: 0o644}))
			if !at || over {
				return fmt.Sprintf("st=viol what=%s at=%v over=%v path=%s", hx.Hex("FileRequired with MaxFileSizeBytes="+strconv.FormatInt(max, 10)+": a file of exactly the limit must be accepted, one byte more refused"), at, over, hx.Hex(p))
			}
		}
		return fmt.Sprintf("st=ok paths=%d", len(paths))
	case "opened", "depth":
		top := buildShape(c)
		if top == nil {
			return "st=badcase"
		}
		L, D := c.i64("L"), int(c.i64("D"))
		data := top.build()
		ref := &refState{L: L, D: D}
		if int64(len(data)) > L {
			ref.limit = true
		} else {
			ref.visitKids(top, 1)
		}
		dir, err := os.MkdirTemp("", "c02lim-")
		if err != nil {
			return "st=badcase"
		}
		defer os.RemoveAll(dir)
		rel := "opt/app/app.jar"
		if err := writeFile(dir, rel, data, 0o644); err != nil {
			return "st=badcase"
		}
		cfg := archive.DefaultConfig()
		cfg.MaxOpenedBytes, cfg.MaxZipDepth = L, D
		e := archive.New(cfg)
		fsys := scalibrfs.DirFS(dir)
		fh, err := fsys.Open(rel)
		if err != nil {
			return "st=badcase"
		}
		defer fh.Close()
		info, _ := fh.Stat()
		ctx, cancel := context.WithTimeout(context.Background(), caseTimeout)
		defer cancel()
		var m0, m1 runtime.MemStats
		runtime.GC()
		runtime.ReadMemStats(&m0)
		inv, xerr := e.Extract(ctx, &filesystem.ScanInput{FS: fsys, Path: rel, Root: dir, Info: info, Reader: fh})
		runtime.ReadMemStats(&m1)
		alloc := int64(m1.TotalAlloc - m0.TotalAlloc)
		bound := allocFactor*L + allocSlack
		gotLim := xerr != nil && errors.Is(xerr, filesystem.ErrExtractorMemoryLimitExceeded)
		gotDepth := xerr != nil && strings.Contains(xerr.Error(), "max zip depth")
		st, what := "ok", ""
		wantLim := "-"
		if !ref.forged && c.kv["shape"] != "bigpom" {
			wantLim = hx.B(ref.limit)
			if gotLim != ref.limit {
				st = "viol"
				if ref.limit {
					what = fmt.Sprintf("inner archives of %d bytes have to be read with MaxOpenedBytes=%d, but the returned error is not ErrExtractorMemoryLimitExceeded (err: %v)", ref.opened, L, trunc(xerr))
				} else {
					what = fmt.Sprintf("ErrExtractorMemoryLimitExceeded although only %d bytes of inner archives are read with MaxOpenedBytes=%d", ref.opened, L)
				}
			}
		}
		if st == "ok" && ref.depth != gotDepth && !ref.limit && !ref.forged {
			st, what = "viol", fmt.Sprintf("nesting beyond MaxZipDepth=%d: depth error expected=%v, returned error: %v", D, ref.depth, trunc(xerr))
		}
		if st == "ok" && c.kv["shape"] != "bigpom" && alloc > bound {
			st, what = "viol", fmt.Sprintf("Extract allocated %d bytes in total with MaxOpenedBytes=%d (allowed %d x limit + %d MiB): the budget does not bound the work", alloc, L, allocFactor, allocSlack>>20)
		}
		r := fmt.Sprintf("st=%s lim=%s want=%s depth=%s alloc=%d bound=%d charged=%d bytes=%d n=%d", st, hx.B(gotLim), wantLim, hx.B(gotDepth), alloc, bound, ref.opened, len(data), len(inv.Packages))
		if what != "" {
			r += " what=" + hx.Hex(what)
		}
		return r
	}
	return "st=badcase"
}

func trunc(err error) string {
	if err == nil {
		return "<nil>"
	}
	s := err.Error()
	if len(s) > 300 {
		s = s[:300] + "…"
	}
	return s
}

func limitsMain(tier, replayFile string) {
	var cases []limCase
	if replayFile != "" {
		for _, l := range hx.ReplayLines(replayFile) {
			if !strings.HasPrefix(l, "lim ") {
				continue
			}
			c, err := parseLimCase(l)
			if err != nil {
				die("%v", err)
			}
			cases = append(cases, c)
		}
	} else {
		cases = limPlan(tier)
	}
	for _, c := range cases {
		fmt.Printf("%s\t%s\n", c.line(), runLimCase(c))
	}
	if replayFile == "" {
		fmt.Printf("#limits\t{\"size_limited_in_table\":%d,\"packages_with_MaxFileSizeBytes_in_source\":%d}\n", len(sizeLimited), limitsDrift())
	}
}
