package main

import (
	"path"
	"strings"
)

// canonical: extractor name -> production path names its FileRequired is expected to accept. A fixture
// is first offered at its own testdata-relative path; only if FileRequired rejects that is it placed at
// these names (every one of them is probed with the real FileRequired; a name that is rejected is
// reported, an extractor without ANY accepted name is reported and counted, never skipped silently).
var canonical = map[string][]string{
	"chrome/extensions": {
		"home/user/.config/google-chrome/Default/Extensions/aapbdbdomjkkjkaonfhkkikfgjllcleb/2.0.16_0/manifest.json",
		"home/user/.config/chromium/Default/Extensions/ghbmnnjooekpmoecnnnilnnbdlolhkhi/1.89.1/manifest.json",
	},
	"containers/containerd":              {"var/lib/containerd/io.containerd.metadata.v1.bolt/meta.db"},
	"cpp/conanlock":                      {"conan.lock"},
	"dart/pubspec":                       {"pubspec.lock"},
	"dotnet/depsjson":                    {"app.deps.json"},
	"dotnet/packagesconfig":              {"packages.config"},
	"dotnet/packageslockjson":            {"packages.lock.json"},
	"dotnet/pe":                          {"app/HelloWorldApp.dll", "app/HelloWorldApp.exe", "usr/bin/app"},
	"elixir/mixlock":                     {"mix.lock"},
	"erlang/mixlock":                     {"mix.lock"},
	"go/binary":                          {"usr/bin/app", "app.exe"},
	"go/gomod":                           {"go.mod"},
	"haskell/cabal":                      {"cabal.project.freeze"},
	"haskell/stacklock":                  {"stack.yaml.lock"},
	// the file name is an input of java/archive (ParseFilename: name-version, name_version, name.version, build-and-digit versions, nothing before the dash)
	"java/archive": {"app/lib.jar", "app/app.war", "app/foo_1.2.jar", "app/foo.bar.1.2.3.jar", "app/foo-1.0-b12.jar", "app/-1.0.jar", "app/guava-31.1-jre.jar", "app/noversion.ear", "app/foo-build7.jar", "app/foo-rc1.jar"},
	"java/gradlelockfile":                {"gradle.lockfile", "buildscript-gradle.lockfile"},
	"java/gradleverificationmetadataxml": {"gradle/verification-metadata.xml"},
	"java/pomxml":                        {"pom.xml"},
	"java/pomxmlnet":                     {"pom.xml"},
	"javascript/bunlock":                 {"bun.lock"},
	"javascript/packagejson":             {"package.json", "node_modules/acorn/package.json"},
	"javascript/packagelockjson":         {"package-lock.json"},
	"javascript/pnpmlock":                {"pnpm-lock.yaml"},
	"javascript/yarnlock":                {"yarn.lock"},
	"os/apk":                             {"lib/apk/db/installed"},
	"os/cos":                             {"etc/cos-package-info.json"},
	"os/dpkg":                            {"var/lib/dpkg/status", "usr/lib/opkg/status", "var/lib/dpkg/status.d/foo"},
	"os/flatpak":                         {"var/lib/flatpak/app/org.example.App/current/active/export/share/metainfo/org.example.App.metainfo.xml"},
	"os/homebrew":                        {"usr/local/Cellar/rclone/1.67.0/INSTALL_RECEIPT.json", "usr/local/Caskroom/testapp/1.1.1/testapp.wrapper.sh", "usr/local/Caskroom/android-platform-tools/35.0.2/platform-tools/source.properties"},
	"os/kernel/module":                   {"lib/modules/6.1.0/kernel/drivers/net/dummy.ko"},
	"os/kernel/vmlinuz":                  {"boot/vmlinuz", "boot/vmlinuz-6.1.0-13-amd64"},
	"os/macapps":                         {"Applications/Example.app/Contents/Info.plist"},
	// the store path is the input of os/nix (hash-name-version; a path without a name or a version is skipped with a warning)
	"os/nix": {"nix/store/1ddf3x30m0z6kknmrmapsc7liz8npi1w-perl-5.38.2/bin/ptar", "nix/store/xakcaxsqdzjszym0vji471h0cln5mvsd-unstable-2024-01-01/bin/x",
		"nix/store/1ddf3x30m0z6kknmrmapsc7liz8npi1w-onlyname/bin/x", "nix/store/-/bin/x", "nix/store/nohyphen/bin/x", "nix/store/1ddf3x30m0z6kknmrmapsc7liz8npi1w--1.0/bin/x"},
	"os/pacman":                          {"var/lib/pacman/local/zlib-1.3.1-2/desc"},
	"os/portage":                         {"var/db/pkg/app-misc/hello-1.0/PF"},
	"os/rpm":                             {"var/lib/rpm/Packages", "usr/lib/sysimage/rpm/rpmdb.sqlite", "usr/share/rpm/Packages.db"},
	"os/snap":                            {"snap/core/1234/meta/snap.yaml"},
	"php/composerlock":                   {"composer.lock"},
	"python/condameta":                   {"opt/conda/envs/e/conda-meta/pkg-1.0-0.json"},
	"python/pdmlock":                     {"pdm.lock"},
	"python/pipfilelock":                 {"Pipfile.lock"},
	"python/poetrylock":                  {"poetry.lock"},
	"python/requirements":                {"requirements.txt", "app/requirements-dev.txt"},
	"python/setup":                       {"setup.py"},
	"python/uvlock":                      {"uv.lock"},
	"python/wheelegg": {
		"usr/lib/python3/site-packages/pkg-1.0.dist-info/METADATA",
		"usr/lib/python3/site-packages/pkg-1.0.egg-info/PKG-INFO",
		"usr/lib/python3/site-packages/pkg-1.0.egg-info",
		"usr/lib/python3/site-packages/EGG-INFO/PKG-INFO",
		"usr/lib/python3/site-packages/pkg-1.0-py3.10.egg",
	},
	"r/renvlock":            {"renv.lock"},
	"ruby/gemfilelock":      {"Gemfile.lock"},
	"ruby/gemspec":          {"usr/lib/ruby/gems/3.0.0/specifications/rss-0.2.9.gemspec"},
	"rust/cargoauditable":   {"usr/bin/app", "app.exe"},
	"rust/cargolock":        {"Cargo.lock"},
	"rust/cargotoml":        {"Cargo.toml"},
	"sbom/cdx":              {"bom.json", "bom.xml", "sbom.cdx.json", "sbom.cdx.xml"},
	"sbom/spdx":             {"sbom.spdx.json", "sbom.spdx", "sbom.spdx.yml", "sbom.spdx.rdf", "sbom.spdx.rdf.xml"},
	"swift/packageresolved": {"Package.resolved"},
	"swift/podfilelock":     {"Podfile.lock"},
	"vscode/extensions":     {"home/user/.vscode/extensions/extensions.json"},
	"wordpress/plugins":     {"var/www/html/wp-content/plugins/hello/hello.php"},
}

// osRelease is written to etc/os-release of every case root (a constant of the harness, not part of the
// fuzzed input): the OS extractors read it through input.FS exactly as they do on a real host.
const osRelease = "NAME=\"Debian GNU/Linux\"\nID=debian\nVERSION_ID=\"12\"\nVERSION_CODENAME=bookworm\nBUILD_ID=rolling\n"

// siblingRule: which OTHER files of the fixture's testdata directory are placed next to the file under
// test (extractors that consult input.FS / input.Root beyond the reader). fix and sib are
// testdata-relative; at is the path the fixture is presented at; result "" = not placed.
var siblingRule = map[string]func(fix, sib, at string) string{
	// _locales/<locale>/messages.json next to manifest.json
	"chrome/extensions": func(fix, sib, at string) string {
		d := path.Dir(fix)
		if d == "." || !strings.HasPrefix(sib, d+"/") {
			return ""
		}
		return path.Join(path.Dir(at), strings.TrimPrefix(sib, d+"/"))
	},
	// x.mod reads x.sum; go.mod reads go.sum
	"go/gomod": func(fix, sib, at string) string {
		if strings.HasSuffix(fix, ".mod") && sib == strings.TrimSuffix(fix, ".mod")+".sum" {
			return strings.TrimSuffix(at, ".mod") + ".sum"
		}
		return ""
	},
	// -r other-requirements.txt
	"python/requirements": func(fix, sib, at string) string {
		if path.Dir(fix) != path.Dir(sib) {
			return ""
		}
		return path.Join(path.Dir(at), path.Base(sib))
	},
	// <relativePath>./parent/pom.xml</relativePath>
	"java/pomxml": func(fix, sib, at string) string {
		d := path.Dir(fix)
		if d != "." && !strings.HasPrefix(sib, d+"/") {
			return ""
		}
		if d != "." {
			sib = strings.TrimPrefix(sib, d+"/")
		}
		return path.Join(path.Dir(at), sib)
	},
	// the overlayfs snapshotter database that Extract opens beside meta.db
	"containers/containerd": func(fix, sib, at string) string {
		if sib == "metadata_linux_test.db" {
			return "var/lib/containerd/io.containerd.snapshotter.v1.overlayfs/metadata.db"
		}
		return ""
	},
}
